#!/bin/bash
# regress_seeds.sh <id> [<id> ...] : re-run every adopted seeded change of the given properties against the CURRENT checks
# (each on a private header copy, evidence restored afterwards); one line per seed in /tmp/seedreg/summary.txt
mkdir -p /tmp/seedreg
for id in "$@"; do
  for sd in /verif/seeded/$id-*; do
    [ -f "$sd/patch.diff" ] || continue
    out=$(bash /verif/tools/run_seed.sh "$sd" $id 2>&1 | head -3 | tr '\n' ' ')
    echo "$(basename $sd): $out" >> /tmp/seedreg/summary.txt
  done
done
