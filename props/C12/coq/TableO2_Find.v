(* C12, model growth round: HashSet::pvFind over the GENERATED BucketOpen2N2::Find really returns every stored element
   (so "Found" is not only a description of what the search examines: the modelled search itself succeeds). *)
From Coq Require Import ZArith Bool List Lia.
From MomoCommon Require Import GenPrelude.
From C12 Require Import Bits Known Gen_Base Gen_O2 Gen_O2MP MP_Open2N2 O2_Slot Chain TableO2 TableO2_Proofs.
Import ListNotations.
Local Open Scope Z_scope.

(* BucketOpen2N2::Find scans slots 0,1,2 in this order and returns the first slot whose short hash equals the short hash of
   the code AND whose key satisfies the predicate; the null iterator otherwise *)
Lemma bucket_find_spec b key h :
  exists r, bucket_find b key h = Ok r /\
    ((r = 0 /\ forall i, 0 <= i < 3 -> ~ (bsh b i = Gen_O2.pvCalcShortHash h /\ bky b i = key)) \/
     (1 <= r <= 3 /\ bsh b (r - 1) = Gen_O2.pvCalcShortHash h /\ bky b (r - 1) = key)).
Proof.
  unfold bucket_find, Gen_O2.Find. cbv zeta.
  replace Gen_O2.fuel_of_Find with (S (S (S (S (Z.to_nat 66))))) by reflexivity.
  set (sv := Gen_O2.pvCalcShortHash h).
  rewrite Gen_O2.Find_loop0_eq. unfold Gen_O2.maxCount. change (0 <? 3) with true. cbv iota.
  destruct (Z.eqb_spec (bsh b 0) sv) as [E0|E0]; [destruct (Z.eqb_spec (bky b 0) key) as [K0|K0]|]; cbn [andb].
  { exists 1. split; [reflexivity|]. right. split; [lia|]. split; assumption. }
  all: change (wrapU 64 (0 + 1)) with 1; rewrite Gen_O2.Find_loop0_eq; change (1 <? 3) with true; cbv iota;
    (destruct (Z.eqb_spec (bsh b 1) sv) as [E1|E1]; [destruct (Z.eqb_spec (bky b 1) key) as [K1|K1]|]; cbn [andb]);
    try (exists 2; split; [reflexivity|]; right; split; [lia|]; split; assumption).
  all: change (wrapU 64 (1 + 1)) with 2; rewrite Gen_O2.Find_loop0_eq; change (2 <? 3) with true; cbv iota;
    (destruct (Z.eqb_spec (bsh b 2) sv) as [E2|E2]; [destruct (Z.eqb_spec (bky b 2) key) as [K2|K2]|]; cbn [andb]);
    try (exists 3; split; [reflexivity|]; right; split; [lia|]; split; assumption).
  all: change (wrapU 64 (2 + 1)) with 3; rewrite Gen_O2.Find_loop0_eq; change (3 <? 3) with false; cbv iota;
    exists 0; (split; [reflexivity|]); left; (split; [reflexivity|]);
    intros i Hi [Hs Hk]; assert (i = 0 \/ i = 1 \/ i = 2) as [->|[->| ->]] by lia; congruence.
Qed.

Section FindO2.
Variable hash : Z -> Z.
Hypothesis hash_range : forall k, 0 <= hash k < 2 ^ 64.

Definition hit (L : Z) (t : table) (key : Z) (r : option (Z * Z)) : Prop :=
  exists b s, r = Some (b, s) /\ 0 <= s <= 2 /\ bky (t b) s = key /\ bsh (t b) s = Gen_O2.pvCalcShortHash (hash key).

Lemma find_loop_hit L t key p s maxProbe : 0 <= L <= 63 -> 0 <= p < 2 ^ L -> p <= maxProbe -> 0 <= s <= 2 ->
  bsh (t (pidx L (home hash L key) p)) s = Gen_O2.pvCalcShortHash (hash key) -> bky (t (pidx L (home hash L key) p)) s = key ->
  forall fuel q, 1 <= q <= p -> (Z.to_nat (p - q) < fuel)%nat ->
  exists r, find_loop fuel t (2 ^ L) (pidx L (home hash L key) (q - 1)) q maxProbe key (hash key) = Ok r /\ hit L t key r.
Proof.
  intros HL Hp Hmax Hs Hsh Hky. assert (2 ^ L <= 2 ^ 63) by (apply pow2_le_mono; lia).
  induction fuel as [|f IH]; intros q Hq Hf; [lia|].
  cbn [find_loop]. change (Gen_O2.WasFull _ _ _) with true. cbn [andb].
  destruct (Z.leb_spec q maxProbe); [|lia].
  assert (En : Gen_O2.GetNextBucketIndex (pidx L (home hash L key) (q - 1)) (2 ^ L) q = pidx L (home hash L key) q).
  { pose proof (next_pidx L (home hash L key) (q - 1) HL ltac:(lia) ltac:(lia)) as X. replace (q - 1 + 1) with q in X by lia. exact X. }
  rewrite En.
  destruct (bucket_find_spec (t (pidx L (home hash L key) q)) key (hash key)) as (r & Hr & Hcase). rewrite Hr.
  destruct Hcase as [(-> & Hno)|(Hr13 & Hrs & Hrk)].
  - rewrite Z.eqb_refl. destruct (Z.eq_dec q p) as [->|Hne]; [exfalso; apply (Hno s); [lia|split; assumption]|].
    rewrite (wrapU_small 64 (q + 1)) by (change (2 ^ 64) with (2 * 2 ^ 63); lia).
    specialize (IH (q + 1) ltac:(lia) ltac:(lia)). replace (q + 1 - 1) with q in IH by lia. exact IH.
  - destruct (Z.eqb_spec r 0); [lia|]. eexists. split; [reflexivity|].
    exists (pidx L (home hash L key) q), (r - 1). split; [reflexivity|]. split; [lia|]. split; assumption.
Qed.

(* pvFind returns every stored element: for every key present in a table satisfying the invariant the modelled HashSet::Find
   (start bucket, then the probes 1..GetMaxProbe(start bucket) while WasFull) stops at a slot holding that key *)
Theorem find_present L t key : 0 <= L <= 63 -> Tinv hash L t -> Present L t key ->
  exists r, find t L key (hash key) = Ok r /\ hit L t key r.
Proof.
  intros HL [Hwf Hel] (b & slot & Hb & Ho & Hk). destruct (Hel b slot Hb Ho) as (p & Hp & Hbp & Hbd & Hs & _).
  rewrite Hk in *. pose proof (bwf_cnt _ (Hwf b)) as [Hc _]. unfold occ in Ho.
  assert (Hpos : 0 < 2 ^ L) by (apply pow2_pos; lia). assert (Hle : 2 ^ L <= 2 ^ 63) by (apply pow2_le_mono; lia).
  unfold find. rewrite shl1_pow2 by lia. rewrite (wrapU_small 64 (2 ^ L)) by (change (2 ^ 64) with (2 * 2 ^ 63); lia).
  fold (home hash L key). pose proof (home_range hash L key HL) as Hhome. set (start := home hash L key) in *.
  destruct (bucket_find_spec (t start) key (hash key)) as (r & Hr & Hcase). rewrite Hr.
  destruct Hcase as [(-> & Hno)|(Hr13 & Hrs & Hrk)].
  - rewrite Z.eqb_refl.
    destruct (Z.eq_dec p 0) as [->|Hp0].
    { exfalso. rewrite pidx_0 in Hbp by lia. subst b. apply (Hno slot); [lia|split; assumption]. }
    assert (Hs' : bsh (t (pidx L start p)) slot = Gen_O2.pvCalcShortHash (hash key)) by (rewrite <- Hbp; exact Hs).
    assert (Hk' : bky (t (pidx L start p)) slot = key) by (rewrite <- Hbp; exact Hk).
    pose proof (find_loop_hit L t key p slot (Gen_O2MP.GetMaxProbe (bst (t start))) HL Hp Hbd ltac:(lia) Hs' Hk'
                (S (Z.to_nat (Gen_O2MP.GetMaxProbe (bst (t start))))) 1 ltac:(lia) ltac:(unfold Gen_O2MP.GetMaxProbe; unfold decode in Hbd; lia)) as X.
    change (1 - 1) with 0 in X. fold start in X. rewrite pidx_0 in X by lia. exact X.
  - destruct (Z.eqb_spec r 0); [lia|]. eexists. split; [reflexivity|].
    exists start, (r - 1). split; [reflexivity|]. split; [lia|]. split; assumption.
Qed.

(* element_found_after_growth, as a statement about the modelled Find itself *)
Theorem migrate_find L newL told : 0 <= L -> L < newL <= 63 -> Tinv hash L told ->
  match migrate hash told L newL with
  | Ok (_, tnew) => forall k, Present L told k -> exists r, find tnew newL k (hash k) = Ok r /\ hit newL tnew k r
  | Exn => True
  | _ => False
  end.
Proof.
  intros HL HnL Hold. unfold migrate. assert (Hpos : 0 < 2 ^ L) by (apply pow2_pos; lia).
  pose proof (migrate_from_spec hash hash_range L newL HL HnL (Z.to_nat (2 ^ L)) told empty_table 0 ltac:(lia) ltac:(lia) Hold
              (empty_inv hash newL) ltac:(intros; lia)) as Hm.
  destruct (migrate_from hash (Z.to_nat (2 ^ L)) told empty_table L newL 0) as [[told' tnew']| | |]; try exact Hm.
  destruct Hm as ((Ho & Hn & Hp & _) & Hz). intros k Hk. apply find_present; [lia|exact Hn|].
  destruct (Hp k Hk) as [(b & s & Hb & Hocc & _)|G]; [exfalso|exact G].
  unfold occ in Hocc. rewrite Hz in Hocc by lia. lia.
Qed.
End FindO2.

(* ---- FRAME conditions for every BucketOpen2N2 operation that writes the bytes the invariants depend on
   (mState = count bits + max-probe encoding; shortHashes; hashProbes), each about the GENERATED function ---- *)
Lemma cntZ st sh hp : 0 <= st 1 -> Gen_O2.pvGetCount st sh hp = st 1 mod 4.
Proof. intros. unfold Gen_O2.pvGetCount. apply land3. assumption. Qed.

(* AddCrt: search bound and its encoding untouched, count + 1, only slot 2 - count of the two byte arrays written *)
Theorem o2_addcrt_frame st sh hp x L probe it : enc_inv st -> 0 <= L <= 63 -> 0 <= probe < 2 ^ 64 ->
  Gen_O2.pvGetCount st sh hp < 3 ->
  exists st' sh' hp', Gen_O2.AddCrt st sh hp x L probe it = Ok (tt, st', sh', hp') /\
    enc_inv st' /\ decode st' = decode st /\ st' 0 = st 0 /\
    Gen_O2.pvGetCount st' sh' hp' = Gen_O2.pvGetCount st sh hp + 1 /\
    (forall i, i <> 2 - Gen_O2.pvGetCount st sh hp -> sh' i = sh i /\ hp' i = hp i).
Proof.
  intros Henc HL Hp Hc. pose proof Henc as (_ & H1 & _). rewrite o2_addcrt_eq by assumption. cbv zeta.
  destruct (Z.ltb_spec (Gen_O2.pvGetCount st sh hp) 3); [|lia].
  rewrite cntZ in * by lia.
  assert (0 <= st 1 mod 4) by (apply Z.mod_pos_bound; lia).
  rewrite (wrapU_small 64 (2 - st 1 mod 4)) by (change (2 ^ 64) with 18446744073709551616; lia).
  destruct (st_inc st Henc ltac:(lia)) as (He' & Hd' & Hc' & H0').
  do 3 eexists. split; [reflexivity|]. split; [exact He'|]. split; [exact Hd'|]. split; [exact H0'|]. split.
  - destruct He' as (_ & ? & _). rewrite cntZ by lia. exact Hc'.
  - intros i Hi. rewrite !upd_other by lia. split; reflexivity.
Qed.

(* Remove: search bound untouched, count - 1, only slots idx and 3 - count written *)
Theorem o2_remove_frame st sh hp idx : enc_inv st -> 3 - Gen_O2.pvGetCount st sh hp <= idx <= 2 ->
  exists st' sh' hp', Gen_O2.Remove st sh hp idx = Ok (tt, st', sh', hp') /\
    enc_inv st' /\ decode st' = decode st /\ st' 0 = st 0 /\
    Gen_O2.pvGetCount st' sh' hp' = Gen_O2.pvGetCount st sh hp - 1 /\
    (forall i, i <> idx -> i <> 3 - Gen_O2.pvGetCount st sh hp -> sh' i = sh i /\ hp' i = hp i).
Proof.
  intros Henc Hidx. pose proof Henc as (_ & H1 & _).
  assert (Hm : 0 <= st 1 mod 4 < 4) by (apply Z.mod_pos_bound; lia).
  rewrite o2_remove_eq by (rewrite cntZ by lia; lia). cbv zeta. rewrite cntZ in * by lia.
  destruct (Z.geb_spec idx (3 - st 1 mod 4)); [|lia].
  destruct (st_dec st Henc ltac:(lia)) as (He' & Hd' & Hc' & H0').
  do 3 eexists. split; [reflexivity|]. split; [exact He'|]. split; [exact Hd'|]. split; [exact H0'|]. split.
  - destruct He' as (_ & ? & _). rewrite cntZ by lia. exact Hc'.
  - intros i Hi Hj. rewrite !upd_other by lia. split; reflexivity.
Qed.

(* UpdateMaxProbe: count bits untouched, bound only grows and covers the probe (shortHashes / hashProbes are not even
   parameters of the generated function) *)
Theorem o2_updatemaxprobe_frame st sh hp probe : enc_inv st -> 0 <= probe <= 2 ^ 63 ->
  exists st', Gen_O2MP.UpdateMaxProbe st probe = Ok (tt, st') /\ enc_inv st' /\ probe <= decode st' /\ decode st <= decode st' /\
    Gen_O2.pvGetCount st' sh hp = Gen_O2.pvGetCount st sh hp.
Proof. intros Henc Hp. destruct (update_spec st probe Henc Hp) as (st' & H1 & H2 & H3 & H4 & H5). exists st'. split; [exact H1|]. split; [exact H2|]. split; [exact H3|]. split; [exact H4|]. exact H5. Qed.

(* Clear / the constructor (pvSetEmpty): count 0, bound 0, every short hash = the empty marker; hashProbes are left alone *)
Theorem o2_clear_frame st sh hp :
  let '(st', sh') := Gen_O2.Clear st sh hp in
  enc_inv st' /\ decode st' = 0 /\ Gen_O2.pvGetCount st' sh' hp = 0 /\ (forall i, 0 <= i < 3 -> sh' i = 128) /\
  Gen_O2.IsFull st' sh' hp = false.
Proof.
  unfold Gen_O2.Clear, Gen_O2.pvSetEmpty. cbv zeta. split; [unfold enc_inv; rewrite upd_other, !upd_same by lia; cbn; lia|].
  split; [reflexivity|]. split; [reflexivity|]. split; [|reflexivity].
  intros i Hi. unfold Gen_O2.maxCount. destruct (Z.leb_spec 0 i), (Z.ltb_spec i 3); try lia. reflexivity.
Qed.
