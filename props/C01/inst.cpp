// instantiation TU for cxx2coq (C01): the integer leaves of the hash-table policy
#define MOMO_INCLUDE_OLD_HASH_BUCKETS
#include "momo/HashSet.h"
#include "momo/details/HashBucketOpen2N2.h"
#include "momo/details/HashBucketOpenN1.h"
#include "momo/details/HashBucketOpen8.h"
#include "momo/details/HashBucketLimP1.h"
#include "momo/details/HashBucketLim4.h"
#include "momo/details/HashBucketUnlimP.h"
#include "momo/details/HashBucketLimP.h"
namespace momo { namespace internal {
template class BucketOpen2N2<HashSetItemTraits<uint64_t, MemManagerDefault>, 3, true>;
template class BucketOpen2N2<HashSetItemTraits<uint64_t, MemManagerDefault>, 3, false>;
template class BucketOpenN1<HashSetItemTraits<uint64_t, MemManagerDefault>, 3, true>;
template class BucketOpen8<HashSetItemTraits<uint64_t, MemManagerDefault>>;
template class BucketLimP4<HashSetBucketItemTraits<HashSetItemTraits<uint64_t, MemManagerDefault>>, 4, MemPoolParams<>, true>;
template class BucketLimP1<HashSetBucketItemTraits<HashSetItemTraits<uint64_t, MemManagerDefault>>, 4, MemPoolParams<>>;
template class BucketLim4<HashSetBucketItemTraits<HashSetItemTraits<uint64_t, MemManagerDefault>>, 2, 32>;
template class BucketUnlimP<HashSetBucketItemTraits<HashSetItemTraits<uint64_t, MemManagerDefault>>, 7, MemPoolParams<>, ArraySettings<>>;
template class BucketLimP<HashSetBucketItemTraits<HashSetItemTraits<uint64_t, MemManagerDefault>>, 8, MemPoolParams<>, true>;
}}
