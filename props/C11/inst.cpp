// instantiation TU for cxx2coq (C11): the leaf arithmetic of the growth decision and of the probe sequence
#include "momo/HashSet.h"
#include "momo/details/HashBucketOpen2N2.h"
#include "momo/details/HashBucketOpen8.h"
#include "momo/details/HashBucketLimP4.h"
namespace momo { namespace internal {
template class BucketOpen2N2<HashSetBucketItemTraits<HashSetItemTraits<uint64_t, MemManagerDefault>>, 3, false>;
template class BucketOpen8<HashSetBucketItemTraits<HashSetItemTraits<uint64_t, MemManagerDefault>>>;
template class HashSetBuckets<BucketOpen2N2<HashSetBucketItemTraits<HashSetItemTraits<uint64_t, MemManagerDefault>>, 3, false>>;
}
template class HashBucketOpen2N2<1>; template class HashBucketOpen2N2<2>; template class HashBucketOpen2N2<3>;
}
