(* Extraction of the hand-written executable model (micro-correspondence). ExtrOcamlBasic only. *)
From Coq Require Import List Arith Extraction ExtrOcamlBasic.
From C04 Require Effects ObjMgr.
Separate Extraction
  Effects.mkS Effects.mkH Effects.hp Effects.mem Effects.alive Effects.bsize Effects.trace Effects.sched
  ObjMgr.relocate_exec ObjMgr.relocate_create ObjMgr.relocate_range ObjMgr.copy_exec ObjMgr.move_exec
  ObjMgr.creator_copy ObjMgr.creator_move
  BinNums.positive BinNums.Z BinNums.N.
