(* COPIED from props/C12/coq (only change: the library name); C11 uses these LimP4 bucket facts for GenFullP4.v *)
(* C12: the metadata effect of BucketLimP4::AddCrt (HashBucketLimP4.h:308-356, pvAdd0/pvAdd at 472-496), composed from
   the GENERATED pvGetCount / pvSetHashProbe / pvCalcShortHash.  In every branch of AddCrt the code does, in this order:
   pvSetHashProbe(count, hashCode, logBucketCount, probe);  ...itemCreator / relocation...;  mShortHashes[count] = pvCalcShortHash(hashCode)
   (count = 0 when the bucket has no memory).  This composition is run against the real AddCrt (real pool memory) in the
   correspondence stage (`p4seq` cases). *)
From Coq Require Import ZArith Bool List.
From MomoCommon Require Import GenPrelude.
From C11 Require Import Gen_P4.
Local Open Scope Z_scope.

Definition p4_add (H : Z) (s : Z -> Z) (x L probe : Z) : outcome (Z -> Z) :=
  let c := Gen_P4.pvGetCount s in
  if c <? Gen_P4.maxCount then
    let s := Gen_P4.pvSetHashProbe H s c x L probe in
    Ok (upd s c (Gen_P4.pvCalcShortHash x))
  else Stuck.
