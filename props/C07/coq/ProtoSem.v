(* C07 / meaning of the generated statement trees (Gen_Protocol.v) of DataIndexes::AddRaw / RemoveRaw / UpdateRaw(old,new) /
   UpdateRaw(raw, offset, item, assigner): an interpreter that executes the dumped loops, conditions and calls, in the dumped
   order, on the hand model's per-hash operations (u_add, m_add, u_prepare_remove, ...), with the failure schedule of
   IndexModel.v (the fallible steps are the Add calls and the item assigner).  ProtoProofs.v proves that running the GENERATED
   trees is the hand model's add_raw / remove_raw / update_raw / update_col, so every theorem about those (atomicity,
   consistency, reachability, refusal agreement) is a theorem about the call sequence that is in DataIndexes.h today.
   An unknown statement shape makes the interpreter answer CBad, which the equality proofs exclude. *)
From Coq Require Import String List ZArith Bool Arith PeanoNat.
From C07 Require Import TableSpec MultiHash IndexModel ProtoSyntax.
Import ListNotations.
Local Open Scope string_scope.

Inductive ival := IRaw (z : Z) | IMixed (raw : Z) (c : nat) (v : Z) | IOff (c : nat).
Definition ienv := string -> option ival.
Definition upd (env : ienv) (x : string) (v : ival) : ienv := fun y => if String.eqb x y then Some v else env y.
Definition empty_env : ienv := fun _ => None.

Inductive ctl := CGo | CCont | CRefuse (r : Z) | CThrow | CBad.

(* conditions over row pointers: ==, != on locals / parameters, && *)
Fixpoint cond (env : ienv) (e : pexpr) : option bool :=
  match e with
  | EBin op a b =>
      if op =? "&&" then
        match cond env a, cond env b with Some x, Some y => Some (x && y) | _, _ => None end
      else
        match a, b with
        | EVar x, EVar y =>
            match env x, env y with
            | Some (IRaw p), Some (IRaw q) =>
                if op =? "!=" then Some (negb (Z.eqb p q)) else if op =? "==" then Some (Z.eqb p q) else None
            | _, _ => None
            end
        | _, _ => None
        end
  | _ => None
  end.

Section Sem.
Variables (fixu fixm : bool) (ord : nat -> nat) (R : list Z -> list Z -> bool) (ct : Z -> row).

(* uniqueHash.<method>(args), every member function but Add *)
Definition u_call (env : ienv) (u : uhash) (m : string) (args : list pexpr) : option uhash :=
  match args with
  | [] => if m =? "RejectAdd" then Some (u_reject_add u)
          else if m =? "RejectRemove" then Some (u_reject_remove u)
          else if m =? "AcceptAdd" then Some (u_accept_add u)
          else if m =? "AcceptRemove" then Some (u_accept_remove u)
          else None
  | [EVar a] =>
      match env a with
      | Some (IRaw r) => if m =? "RejectAdd" then Some (u_reject_add_raw u r)
                         else if m =? "AcceptAdd" then Some (u_accept_add_raw u r)
                         else if m =? "PrepareRemove" then Some (u_prepare_remove fixu R ct u r)
                         else None
      | _ => None
      end
  | _ => None
  end.

(* uniqueHash.Add(raw) / Add(newRaw, oldRaw) / Add(hashMixedKey) *)
Definition u_addcall (env : ienv) (u : uhash) (args : list pexpr) (t : nat) : option (uhash * Z) :=
  match args with
  | [EVar a] =>
      match env a with
      | Some (IRaw r) => Some (u_add ord R ct u r None t)
      | Some (IMixed r c v) => Some (u_add_mixed ord R ct u r c v t)
      | _ => None
      end
  | [EVar a; EVar b] =>
      match env a, env b with
      | Some (IRaw r), Some (IRaw o) => Some (u_add ord R ct u r (Some o) t)
      | _, _ => None
      end
  | _ => None
  end.

Definition m_call (env : ienv) (m : mhash) (meth : string) (args : list pexpr) : option mhash :=
  match args with
  | [] => if meth =? "RejectAdd" then Some (m_reject_add m)
          else if meth =? "RejectRemove" then Some (m_reject_remove m)
          else if meth =? "AcceptAdd" then Some (m_accept_add m)
          else None
  | [EVar a] =>
      match env a with
      | Some (IRaw r) => if meth =? "AcceptRemove" then Some (m_accept_remove m r)
                         else if meth =? "PrepareRemove" then Some (m_prepare_remove fixm R ct m r)
                         else None
      | _ => None
      end
  | _ => None
  end.

Definition m_addcall (env : ienv) (m : mhash) (args : list pexpr) (t : nat) : option mhash :=
  match args with
  | [EVar a] =>
      match env a with
      | Some (IRaw r) => Some (m_add ord R ct m r t)
      | Some (IMixed r c v) => Some (m_add_mixed ord R ct m r c v t)
      | _ => None
      end
  | _ => None
  end.

Definition ret_raw (env : ienv) (e : pexpr) : option Z :=
  match e with
  | ECtor _ (EVar x :: _) => match env x with Some (IRaw r) => Some r | _ => None end
  | _ => None
  end.

(* the body of `for (UniqueHash& hv : mUniqueHashes)` on one hash; t = the hash-set position a new entry gets,
   step = number of fallible steps so far (the step whose number is fl throws) *)
Fixpoint u_body (hv : string) (fl : option nat) (b : list pstmt) (env : ienv) (u : uhash) (t step : nat) {struct b}
  : uhash * ctl * nat :=
  match b with
  | [] => (u, CGo, step)
  | s :: b' =>
      match s with
      | SIf c th el =>
          match c, th, el with
          | EUn op (ECall ENone f [EVar h; EVar o]), [SContinue], [] =>        (* if (!pvContainsOffset(hash, offset)) continue; *)
              if (op =? "!") && (f =? "pvContainsOffset") && (h =? hv) then
                match env o with
                | Some (IOff col) => if negb (has_col (ucols u) col) then (u, CCont, step) else u_body hv fl b' env u t step
                | _ => (u, CBad, step)
                end
              else (u, CBad, step)
          | _, [SExpr (ECall (EVar rj) call []); SReturn ret], [] =>           (* if (c) { rejector(); return { resRaw, index }; } *)
              if (rj =? "rejector") && (call =? "()") then
                match cond env c, ret_raw env ret with
                | Some true, Some r => (u, CRefuse r, step)
                | Some false, Some _ => u_body hv fl b' env u t step
                | _, _ => (u, CBad, step)
                end
              else (u, CBad, step)
          | _, [SExpr (ECall (EVar h) m args)], [] =>                          (* if (c) hash.m(args); *)
              if h =? hv then
                match cond env c with
                | Some true => match u_call env u m args with Some u' => u_body hv fl b' env u' t step | None => (u, CBad, step) end
                | Some false => u_body hv fl b' env u t step
                | None => (u, CBad, step)
                end
              else (u, CBad, step)
          | _, _, _ => (u, CBad, step)
          end
      | SDecl x (ECall (EVar h) m args) =>                                     (* Raw* x = hash.Add(..): the fallible step *)
          if (h =? hv) && (m =? "Add") then
            if hits fl step then (u, CThrow, S step)
            else match u_addcall env u args t with
                 | Some (u', r) => u_body hv fl b' (upd env x (IRaw r)) u' t (S step)
                 | None => (u, CBad, step)
                 end
          else (u, CBad, step)
      | SExpr (ECall (EVar h) m args) =>
          if h =? hv then
            match u_call env u m args with Some u' => u_body hv fl b' env u' t step | None => (u, CBad, step) end
          else (u, CBad, step)
      | _ => (u, CBad, step)
      end
  end.

Fixpoint m_body (hv : string) (fl : option nat) (b : list pstmt) (env : ienv) (m : mhash) (t step : nat) {struct b}
  : mhash * ctl * nat :=
  match b with
  | [] => (m, CGo, step)
  | s :: b' =>
      match s with
      | SIf (EUn op (ECall ENone f [EVar h; EVar o])) [SContinue] [] =>
          if (op =? "!") && (f =? "pvContainsOffset") && (h =? hv) then
            match env o with
            | Some (IOff col) => if negb (has_col (mcols m) col) then (m, CCont, step) else m_body hv fl b' env m t step
            | _ => (m, CBad, step)
            end
          else (m, CBad, step)
      | SExpr (ECall (EVar h) meth args) =>
          if h =? hv then
            if meth =? "Add" then
              if hits fl step then (m, CThrow, S step)
              else match m_addcall env m args t with Some m' => m_body hv fl b' env m' t (S step) | None => (m, CBad, step) end
            else match m_call env m meth args with Some m' => m_body hv fl b' env m' t step | None => (m, CBad, step) end
          else (m, CBad, step)
      | _ => (m, CBad, step)
      end
  end.

(* the range-for loops of the try block: stop at the first refusal / exception *)
Fixpoint gu_phase (body : uhash -> nat -> nat -> uhash * ctl * nat) (hs : list uhash) (j step tag : nat)
  : list uhash * option outcome * nat :=
  match hs with
  | [] => ([], None, step)
  | u :: hs' =>
      let '(u', c, step') := body u (tag + j) step in
      match c with
      | CGo | CCont => let '(hs2, v, s2) := gu_phase body hs' (S j) step' tag in (u' :: hs2, v, s2)
      | CRefuse r => (u' :: hs', Some (Refused r j), step')
      | CThrow | CBad => (u' :: hs', Some Thrown, step')
      end
  end.
Fixpoint gm_phase (body : mhash -> nat -> nat -> mhash * ctl * nat) (ms : list mhash) (j step tag : nat)
  : list mhash * option outcome * nat :=
  match ms with
  | [] => ([], None, step)
  | m :: ms' =>
      let '(m', c, step') := body m (tag + j) step in
      match c with
      | CGo | CCont => let '(ms2, v, s2) := gm_phase body ms' (S j) step' tag in (m' :: ms2, v, s2)
      | CRefuse _ | CThrow | CBad => (m' :: ms', Some Thrown, step')
      end
  end.

(* the shape shared by AddRaw and the two UpdateRaw: rejector lambda, try { for unique; for multi; [assigner] }
   catch (...) { rejector(); throw; }, accept loops, return *)
Record proto := mkP { p_uv : string; p_mv : string; p_rejU : list pstmt; p_rejM : list pstmt; p_tryU : list pstmt;
                      p_tryM : list pstmt; p_accU : list pstmt; p_accM : list pstmt; p_assign : bool }.

Definition is_assigner_call (s : pstmt) : bool :=
  match s with
  | SExpr (ECall (ECall ENone fw [EVar f]) call [EVar _; EVar _]) => (fw =? "forward") && (f =? "itemAssigner") && (call =? "()")
  | _ => false
  end.

Definition parse_std (p : list pstmt) : option proto :=
  match p with
  | [SLambda rj [SFor uv1 (EVar cu1) ru; SFor mv1 (EVar cm1) rm];
     STry (SFor uv2 (EVar cu2) tu :: SFor mv2 (EVar cm2) tm :: tail) [SExpr (ECall (EVar rj2) call []); SThrow];
     SFor uv3 (EVar cu3) au; SFor mv3 (EVar cm3) am; SReturn _] =>
      let asg := match tail with [] => Some false | [s] => if is_assigner_call s then Some true else None | _ => None end in
      match asg with
      | Some a =>
          if (rj =? "rejector") && (rj2 =? "rejector") && (call =? "()") &&
             (cu1 =? "mUniqueHashes") && (cu2 =? "mUniqueHashes") && (cu3 =? "mUniqueHashes") &&
             (cm1 =? "mMultiHashes") && (cm2 =? "mMultiHashes") && (cm3 =? "mMultiHashes") &&
             (uv1 =? uv2) && (uv1 =? uv3) && (mv1 =? mv2) && (mv1 =? mv3)
          then Some (mkP uv1 mv1 ru rm tu tm au am a) else None
      | None => None
      end
  | _ => None
  end.

Definition simple_u (hv : string) (b : list pstmt) (env : ienv) (u : uhash) : uhash := fst (fst (u_body hv None b env u 0 0)).
Definition simple_m (hv : string) (b : list pstmt) (env : ienv) (m : mhash) : mhash := fst (fst (m_body hv None b env m 0 0)).

(* second component: was the item assigner run to completion (the row content changed) *)
Definition run_std (p : proto) (env : ienv) (fl : option nat) (s : istate) : istate * outcome * bool :=
  let rej us ms := (map (simple_u (p_uv p) (p_rejU p) env) us, map (simple_m (p_mv p) (p_rejM p) env) ms) in
  let '(us1, v1, st1) := gu_phase (u_body (p_uv p) fl (p_tryU p) env) (uhs s) 0 0 (ntag s) in
  match v1 with
  | Some o => let '(us2, ms2) := rej us1 (mhs s) in (finish s us2 ms2 o, false)
  | None =>
      let '(ms1, v2, st2) := gm_phase (m_body (p_mv p) fl (p_tryM p) env) (mhs s) 0 st1 (ntag s + length (uhs s)) in
      match v2 with
      | Some o => let '(us2, ms2) := rej us1 ms1 in (finish s us2 ms2 o, false)
      | None =>
          if p_assign p && hits fl st2 then let '(us2, ms2) := rej us1 ms1 in (finish s us2 ms2 Thrown, false)
          else (finish s (map (simple_u (p_uv p) (p_accU p) env) us1) (map (simple_m (p_mv p) (p_accM p) env) ms1) Accepted, p_assign p)
      end
  end.

Definition run_tree (p : list pstmt) (env : ienv) (fl : option nat) (s : istate) : option (istate * outcome * bool) :=
  match parse_std p with Some pr => Some (run_std pr env fl s) | None => None end.

(* UpdateRaw(raw, offset, item, assigner): if (IsEqual(item, raw[offset])) { assigner(raw, offset); return; } rejector;
   HashMixedKey hashMixedKey{ raw, offset, &item }; then the standard shape *)
Definition run_col_tree (p : list pstmt) (raw : Z) (c : nat) (v : Z) (fl : option nat) (s : istate)
  : option (istate * outcome * bool) :=
  match p with
  | SIf (ECall ENone ise [EVar it; ECall ENone gbo [EVar r1; EVar o1]]) [s1; SReturn _] [] ::
    lam :: SDecl hk (ECtor _ [EVar r2; EVar o2; ECall ENone ao [EVar it2]]) :: rest =>
      if (ise =? "IsEqual") && (gbo =? "GetByOffset") && (it =? "item") && (it2 =? "item") && (ao =? "addressof") &&
         (r1 =? "raw") && (r2 =? "raw") && (o1 =? "offset") && (o2 =? "offset") && (hk =? "hashMixedKey") && is_assigner_call s1
      then
        if Z.eqb v (getc (ct raw) c) then Some (s, Accepted, true)
        else run_tree (lam :: rest) (upd (upd (upd empty_env "raw" (IRaw raw)) "offset" (IOff c)) "hashMixedKey" (IMixed raw c v)) fl s
      else None
  | _ => None
  end.

(* RemoveRaw: try { for unique: PrepareRemove; for multi: PrepareRemove } catch (...) { for: RejectRemove; for: RejectRemove;
   throw; } for: AcceptRemove; for: AcceptRemove.  The prepare phase only performs lookups (no fallible step); as in
   IndexModel.remove_raw a failure schedule other than None stands for "some lookup throws" and runs the handler. *)
Definition run_remove_tree (p : list pstmt) (env : ienv) (fl : option nat) (s : istate) : option (istate * outcome) :=
  match p with
  | [STry [SFor uv1 (EVar cu1) tu; SFor mv1 (EVar cm1) tm] [SFor uv2 (EVar cu2) ru; SFor mv2 (EVar cm2) rm; SThrow];
     SFor uv3 (EVar cu3) au; SFor mv3 (EVar cm3) am] =>
      if (cu1 =? "mUniqueHashes") && (cu2 =? "mUniqueHashes") && (cu3 =? "mUniqueHashes") &&
         (cm1 =? "mMultiHashes") && (cm2 =? "mMultiHashes") && (cm3 =? "mMultiHashes") &&
         (uv1 =? uv2) && (uv1 =? uv3) && (mv1 =? mv2) && (mv1 =? mv3)
      then
        match fl with
        | Some _ => Some (finish s (map (simple_u uv1 ru env) (uhs s)) (map (simple_m mv1 rm env) (mhs s)) Thrown)
        | None =>
            let us1 := map (simple_u uv1 tu env) (uhs s) in
            let ms1 := map (simple_m mv1 tm env) (mhs s) in
            Some (finish s (map (simple_u uv1 au env) us1) (map (simple_m mv1 am env) ms1) Accepted)
        end
      else None
  | _ => None
  end.
End Sem.
