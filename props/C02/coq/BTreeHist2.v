(* C02 -- all finite histories over Insert / hinted Add / Remove(iterator) / Remove(key) / Extract+Insert
   (= Remove then Insert) / Clear: the container is WF, sorted and equals the list-level reference *)
From Coq Require Import List ZArith Arith Lia Bool Sorted.
From C02 Require Import BTreeModel BTreeParams BTreeBase BTreeSearch BTreeIter BTreeAdd BTreeTop BTreeHist BTreeRemoveTop BTreeRangeTop.
Import ListNotations.
Local Open Scope Z_scope.

Lemma skipn_S_1 {A} h : forall l : list A, skipn (S h) l = skipn 1 (skipn h l).
Proof.
  induction h; intros l; [reflexivity|]. destruct l as [|a l]; [reflexivity|].
  change (skipn (S (S h)) (a :: l)) with (skipn (S h) l). change (skipn (S h) (a :: l)) with (skipn h l). apply IHh.
Qed.

Section Hist2.
Variables (maxCap stepRaw blockCount : nat) (linear multi : bool).
Hypothesis Hmc : (1 <= maxCap <= 255)%nat.

Notation twf := (twf maxCap).
Notation sorted := (sorted multi).
Notation insert := (insert maxCap stepRaw blockCount linear multi).
Notation add := (add maxCap stepRaw blockCount).
Notation lower_bound := (lower_bound linear).

Definition R (a b : Z) : Prop := if multi then a <= b else a < b.
Definition ord (a b : Z) : bool := if multi then negb (b <? a) else (a <? b).

Lemma ord_R a b : ord a b = true <-> R a b.
Proof. unfold ord, R. destruct multi; [rewrite negb_true_iff, Z.ltb_ge | rewrite Z.ltb_lt]; tauto. Qed.
Lemma R_trans a b c : R a b -> R b c -> R a c.
Proof. unfold R. destruct multi; lia. Qed.
Lemma sorted_R l : sorted l <-> StronglySorted R l.
Proof. unfold BTreeHist.sorted, R. destruct multi; tauto. Qed.

(* ---------- list-level facts ---------- *)
Definition hint_ok (l : list Z) (h : nat) (k : Z) : bool :=
  (h <=? length l)%nat && (match h with O => true | S h' => ord (nth h' l 0) k end) &&
  (if (h =? length l)%nat then true else ord k (nth h l 0)).

Lemma ss_firstn l n : StronglySorted R l -> StronglySorted R (firstn n l).
Proof. intros S. rewrite <- (firstn_skipn n l) in S. apply ss_app_inv in S. tauto. Qed.
Lemma ss_skipn l n : StronglySorted R l -> StronglySorted R (skipn n l).
Proof. intros S. rewrite <- (firstn_skipn n l) in S. apply ss_app_inv in S. tauto. Qed.

Lemma before_last_R l h : StronglySorted R l -> (h < length l)%nat -> Forall (fun x => R x (nth h l 0)) (firstn h l).
Proof.
  intros S H. pose proof (ss_firstn l (Datatypes.S h) S) as S'. rewrite firstn_S_nth in S' by exact H.
  apply ss_app_inv in S'. destruct S' as (_ & _ & F). eapply Forall_impl; [|exact F].
  intros x Hx. inversion Hx; subst. assumption.
Qed.

Lemma after_head_R l h : StronglySorted R l -> (h < length l)%nat ->
  skipn h l = nth h l 0 :: skipn (Datatypes.S h) l /\ Forall (R (nth h l 0)) (skipn (Datatypes.S h) l).
Proof.
  intros S H. destruct (nth_error_ex l h H) as [x Ex]. rewrite (nth_error_nth' _ _ _ 0 Ex).
  pose proof (skipn_head l h x Ex) as E. split; auto.
  pose proof (ss_skipn l h S) as S'. rewrite E in S'. inversion S'; subst. assumption.
Qed.

Lemma hint_sorted l h k : sorted l -> hint_ok l h k = true -> sorted (insert_at h k l).
Proof.
  rewrite !sorted_R. intros S H. unfold hint_ok in H. apply andb_true_iff in H. destruct H as [H H3].
  apply andb_true_iff in H. destruct H as [H1 H2]. apply Nat.leb_le in H1.
  unfold insert_at.
  assert (A : Forall (fun x => R x k) (firstn h l)).
  { destruct h as [|h']; [constructor|]. apply ord_R in H2.
    rewrite firstn_S_nth by lia. apply Forall_app. split; [|constructor; auto].
    eapply Forall_impl; [|apply (before_last_R l h' S); lia]. intros x Hx. cbv beta in Hx. exact (R_trans _ _ _ Hx H2). }
  assert (B : Forall (R k) (skipn h l)).
  { destruct (h =? length l)%nat eqn:E.
    - apply Nat.eqb_eq in E. rewrite E, skipn_all. constructor.
    - apply Nat.eqb_neq in E. apply ord_R in H3. destruct (after_head_R l h S ltac:(lia)) as [E1 F1].
      rewrite E1. constructor; auto. eapply Forall_impl; [|exact F1]. intros x Hx. exact (R_trans _ _ _ H3 Hx). }
  apply ss_app; [apply ss_firstn; auto | constructor; [apply ss_skipn; auto | exact B] |].
  rewrite Forall_forall in *. intros x Hx. constructor; [apply A; auto|].
  apply Forall_forall. intros y Hy. eapply R_trans; [apply A; eauto | apply B; auto].
Qed.

Lemma remove_sorted l h : sorted l -> sorted (remove_at h l).
Proof.
  rewrite !sorted_R. intros S. unfold remove_at.
  pose proof S as S0. rewrite <- (firstn_skipn h l) in S0. apply ss_app_inv in S0. destruct S0 as (Sa & Sb & F).
  assert (E : skipn (Datatypes.S h) l = skipn 1 (skipn h l)).
  { apply skipn_S_1. }
  apply ss_app; auto.
  - rewrite E. apply ss_skipn. exact Sb.
  - eapply Forall_impl; [|exact F]. intros x Hx. rewrite E. apply Forall_skipn. exact Hx.
Qed.

Definition reset_ok (l : list Z) (h : nat) (k : Z) : bool :=
  (h <? length l)%nat && (match h with O => true | S h' => ord (nth h' l 0) k end) &&
  (if (S h =? length l)%nat then true else ord k (nth (S h) l 0)).

Lemma reset_sorted l h k : sorted l -> reset_ok l h k = true -> sorted (replace_at h k l).
Proof.
  rewrite !sorted_R. intros S H. unfold reset_ok in H. apply andb_true_iff in H. destruct H as [H H3].
  apply andb_true_iff in H. destruct H as [H1 H2]. apply Nat.ltb_lt in H1.
  unfold replace_at.
  assert (A : Forall (fun x => R x k) (firstn h l)).
  { destruct h as [|h']; [constructor|]. apply ord_R in H2.
    rewrite firstn_S_nth by lia. apply Forall_app. split; [|constructor; auto].
    eapply Forall_impl; [|apply (before_last_R l h' S); lia]. intros x Hx. cbv beta in Hx. exact (R_trans _ _ _ Hx H2). }
  assert (B : Forall (R k) (skipn (Datatypes.S h) l)).
  { destruct (Datatypes.S h =? length l)%nat eqn:E.
    - apply Nat.eqb_eq in E. rewrite E, skipn_all. constructor.
    - apply Nat.eqb_neq in E. apply ord_R in H3. destruct (after_head_R l (Datatypes.S h) S ltac:(lia)) as [E1 F1].
      rewrite E1. constructor; auto. eapply Forall_impl; [|exact F1]. intros x Hx. exact (R_trans _ _ _ H3 Hx). }
  apply ss_app; [apply ss_firstn; auto | constructor; [apply ss_skipn; auto | exact B] |].
  rewrite Forall_forall in *. intros x Hx. constructor; [apply A; auto|].
  apply Forall_forall. intros y Hy. eapply R_trans; [apply A; eauto | apply B; auto].
Qed.

(* ---------- Remove(key) (unique keys: the lower bound, if equivalent) ---------- *)
Lemma remove_key_spec t k :
  twf t -> sorted (contents t) ->
  let t' := fst (remove_key linear t k) in
  twf t' /\ contents t' = (if contains linear t k then remove_at (lb_index (contents t) k) (contents t) else contents t) /\
  snd (remove_key linear t k) = (if contains linear t k then 1 else 0)%nat.
Proof.
  intros W S. unfold remove_key, BTreeModel.contains.
  destruct (lower_bound_spec maxCap linear multi Hmc t k W S) as [N I].
  pose proof (is_greater_spec maxCap Hmc t _ k W N) as G.
  destruct (is_greater t (lower_bound t k) k) eqn:Eg; cbn [negb fst snd]; [auto|].
  assert (Hi : titem t (lower_bound t k)).
  { destruct N as [_ [Hi|Hi]]; auto. exfalso. rewrite Hi in G. rewrite (index_end maxCap) in G by exact W.
    replace (nth_error (contents t) (length (contents t))) with (@None Z) in G by (symmetry; apply nth_error_None; lia).
    rewrite Hi in Eg. congruence. }
  pose proof (remove_refines maxCap Hmc t _ W (proj1 N) Hi) as Rm.
  destruct (remove t (lower_bound t k)) as [t' it']. destruct Rm as (W' & C' & _). cbn [fst]. rewrite C', I. auto.
Qed.

Lemma range_sorted l h1 h2 : (h1 <= h2)%nat -> sorted l -> sorted (firstn h1 l ++ skipn h2 l).
Proof.
  rewrite !sorted_R. intros H S.
  pose proof S as S0. rewrite <- (firstn_skipn h1 l) in S0. apply ss_app_inv in S0. destruct S0 as (Sa & Sb & F).
  assert (E : skipn h2 l = skipn (h2 - h1) (skipn h1 l)).
  { clear - H. revert l h2 H. induction h1; intros l h2 H; [rewrite Nat.sub_0_r; reflexivity|].
    destruct h2; [lia|]. destruct l; [rewrite !skipn_nil; reflexivity|]. cbn [skipn Nat.sub]. apply IHh1. lia. }
  apply ss_app; auto.
  - rewrite E. apply ss_skipn. exact Sb.
  - eapply Forall_impl; [|exact F]. intros x Hx. rewrite E. apply Forall_skipn. exact Hx.
Qed.

(* ---------- histories ---------- *)
Inductive op := OInsert (k : Z) | OAdd (h : nat) (k : Z) | ORemove (h : nat) | ORemoveKey (k : Z)
  | OResetKey (h : nat) (k : Z) | OClear | ORemoveRange (h1 h2 : nat).

Definition step (t : tree) (o : op) : tree :=
  match o with
  | OInsert k => fst (fst (insert t k))
  | OAdd h k => if hint_ok (contents t) h k then fst (add t (nth_iter t h) k) else fst (fst (insert t k))
  | ORemove h => if (h <? length (contents t))%nat then fst (remove t (nth_iter t h)) else t
  | ORemoveKey k => fst (remove_key linear t k)
  | OResetKey h k => if reset_ok (contents t) h k then reset_key t (nth_iter t h) k else t
  | OClear => clear t
  | ORemoveRange h1 h2 => if (h1 <=? h2)%nat && (h2 <=? length (contents t))%nat then fst (remove_range t h1 h2) else t
  end.

Definition spec_step (l : list Z) (o : op) : list Z :=
  match o with
  | OInsert k => fst (fst (spec_insert multi l k))
  | OAdd h k => if hint_ok l h k then insert_at h k l else fst (fst (spec_insert multi l k))
  | ORemove h => if (h <? length l)%nat then remove_at h l else l
  | ORemoveKey k => if existsb (Z.eqb k) l then remove_at (lb_index l k) l else l
  | OResetKey h k => if reset_ok l h k then replace_at h k l else l
  | OClear => []
  | ORemoveRange h1 h2 => if (h1 <=? h2)%nat && (h2 <=? length l)%nat then firstn h1 l ++ skipn h2 l else l
  end.

Lemma existsb_In l k : existsb (Z.eqb k) l = true <-> In k l.
Proof.
  rewrite existsb_exists. split.
  - intros (x & Hx & E). apply Z.eqb_eq in E. subst. exact Hx.
  - intros H. exists k. split; auto. apply Z.eqb_refl.
Qed.

Lemma step_refines t o :
  twf t -> sorted (contents t) ->
  twf (step t o) /\ sorted (contents (step t o)) /\ contents (step t o) = spec_step (contents t) o /\
  cnt (step t o) = length (contents (step t o)).
Proof.
  intros W S.
  assert (G : forall t', twf t' -> sorted (contents t') -> forall l, contents t' = l ->
     twf t' /\ sorted (contents t') /\ contents t' = l /\ cnt t' = length (contents t')).
  { intros t' W' S' l E. repeat split; auto. apply (count_is_length maxCap Hmc). exact W'. }
  assert (Ins : forall k, twf (fst (fst (insert t k))) /\ sorted (contents (fst (fst (insert t k)))) /\
                 contents (fst (fst (insert t k))) = fst (fst (spec_insert multi (contents t) k))).
  { intros k. pose proof (insert_refines maxCap stepRaw blockCount linear multi Hmc t k W S) as Rf.
    pose proof (spec_insert_sorted multi (contents t) k S) as S'.
    destruct (insert t k) as [[t' pos] ins]. destruct Rf as (W' & E & _). cbn [fst].
    assert (Ec : contents t' = fst (fst (spec_insert multi (contents t) k))) by (rewrite <- E; reflexivity).
    rewrite Ec. auto. }
  destruct o as [k|h k|h|k|h k| |h1 h2]; cbn [step spec_step].
  - destruct (Ins k) as (A & B & C). apply G; auto.
  - destruct (hint_ok (contents t) h k) eqn:Eh.
    + assert (Hh : (h <= length (contents t))%nat).
      { unfold hint_ok in Eh. apply andb_true_iff in Eh. destruct Eh as [Eh _]. apply andb_true_iff in Eh. destruct Eh as [Eh _].
        apply Nat.leb_le in Eh. exact Eh. }
      destruct (nth_iter_spec maxCap Hmc t W h Hh) as [N I].
      pose proof (add_spec maxCap stepRaw blockCount Hmc t (nth_iter t h) k W (proj1 N)) as A.
      destruct (add t (nth_iter t h) k) as [t' pos]. destruct A as (W' & C' & _). cbn [fst].
      rewrite I in C'. assert (Ec : contents t' = insert_at h k (contents t)) by exact C'.
      apply G; auto. rewrite Ec. apply hint_sorted; auto.
    + destruct (Ins k) as (A & B & C). apply G; auto.
  - destruct (h <? length (contents t))%nat eqn:Eh; [|apply G; auto].
    apply Nat.ltb_lt in Eh. destruct (nth_iter_spec maxCap Hmc t W h ltac:(lia)) as [N I].
    assert (Hi : titem t (nth_iter t h)).
    { destruct N as [_ [Hi|Hi]]; auto. rewrite Hi, (index_end maxCap) in I by exact W. lia. }
    pose proof (remove_refines maxCap Hmc t _ W (proj1 N) Hi) as Rm.
    destruct (remove t (nth_iter t h)) as [t' it']. destruct Rm as (W' & C' & _). cbn [fst]. rewrite I in C'.
    apply G; auto. rewrite C'. apply remove_sorted; auto.
  - destruct (remove_key_spec t k W S) as (W' & C' & _).
    assert (Eb : contains linear t k = existsb (Z.eqb k) (contents t)).
    { pose proof (contains_spec maxCap linear multi Hmc t k W S) as Cs. pose proof (existsb_In (contents t) k) as Ex.
      destruct (contains linear t k); destruct (existsb (Z.eqb k) (contents t)); auto; [symmetry; apply Ex | apply Cs]; tauto. }
    rewrite <- Eb. apply G; auto.
    + rewrite C'. destruct (contains linear t k); auto. apply remove_sorted; auto.
  - destruct (reset_ok (contents t) h k) eqn:Eh; [|apply G; auto].
    assert (Hh : (h < length (contents t))%nat).
    { unfold reset_ok in Eh. apply andb_true_iff in Eh. destruct Eh as [Eh _]. apply andb_true_iff in Eh. destruct Eh as [Eh _].
      apply Nat.ltb_lt in Eh. exact Eh. }
    destruct (nth_iter_spec maxCap Hmc t W h ltac:(lia)) as [N I].
    assert (Hi : titem t (nth_iter t h)).
    { destruct N as [_ [Hi|Hi]]; auto. rewrite Hi, (index_end maxCap) in I by exact W. lia. }
    destruct (reset_key_spec maxCap Hmc t _ k W (proj1 N) Hi) as [W' C']. rewrite I in C'.
    apply G; auto. rewrite C'. apply reset_sorted; auto.
  - apply G; auto.
    + unfold clear, empty_tree, BTreeTop.twf. simpl. reflexivity.
    + unfold clear, empty_tree, contents, BTreeHist.sorted. simpl. destruct multi; constructor.
  - destruct ((h1 <=? h2)%nat && (h2 <=? length (contents t))%nat) eqn:Eh; [|apply G; auto].
    apply andb_true_iff in Eh. destruct Eh as [E1 E2]. apply Nat.leb_le in E1, E2.
    pose proof (remove_range_refines maxCap Hmc t h1 h2 W E1 E2) as Rr.
    destruct (remove_range t h1 h2) as [t' it']. destruct Rr as (W' & C' & _). cbn [fst].
    apply G; auto. rewrite C'. apply range_sorted; auto.
Qed.

Theorem history_refines ops :
  let t := fold_left step ops empty_tree in
  twf t /\ sorted (contents t) /\ contents t = fold_left spec_step ops [] /\ cnt t = length (contents t).
Proof.
  assert (G : forall ops t l, twf t -> sorted (contents t) -> contents t = l -> cnt t = length (contents t) ->
    twf (fold_left step ops t) /\ sorted (contents (fold_left step ops t)) /\
    contents (fold_left step ops t) = fold_left spec_step ops l /\
    cnt (fold_left step ops t) = length (contents (fold_left step ops t))).
  { induction ops0 as [|o ops0 IH]; intros t l W S E C; simpl; [subst; auto|].
    destruct (step_refines t o W S) as (W' & S' & E' & C'). apply IH; auto. rewrite E', E. reflexivity. }
  apply G; auto.
  - unfold BTreeTop.twf, empty_tree. simpl. reflexivity.
  - unfold BTreeHist.sorted, contents, empty_tree. simpl. destruct multi; constructor.
Qed.

(* ---------- Remove(predicate): the begin-to-end loop of Remove(iter) / ++ ---------- *)
Lemma skipn_remove_at {A} i (l : list A) : (i <= length l)%nat -> skipn i (remove_at i l) = skipn (Datatypes.S i) l.
Proof.
  intros H. unfold remove_at. rewrite skipn_app, firstn_length_le by lia.
  rewrite Nat.sub_diag, skipn_all2 by (rewrite firstn_length; lia). reflexivity.
Qed.
Lemma firstn_remove_at' {A} i (l : list A) : (i <= length l)%nat -> firstn i (remove_at i l) = firstn i l.
Proof.
  intros H. unfold remove_at. rewrite firstn_app, firstn_length_le by lia.
  rewrite Nat.sub_diag. simpl. rewrite app_nil_r, firstn_firstn, Nat.min_id. reflexivity.
Qed.

Lemma remove_if_loop_spec P : forall fuel t it,
  twf t -> norm t it -> (length (contents t) - iter_index t it < fuel)%nat ->
  twf (remove_if_loop fuel P t it) /\
  contents (remove_if_loop fuel P t it) =
    firstn (iter_index t it) (contents t) ++ filter (fun x => negb (P x)) (skipn (iter_index t it) (contents t)).
Proof.
  induction fuel; intros t it W N H; [lia|]. cbn [remove_if_loop].
  destruct (iter_eqb it (end_iter t)) eqn:E.
  - apply (is_end_iff maxCap Hmc t it W N) in E. rewrite E, skipn_all, firstn_all. simpl. rewrite app_nil_r. auto.
  - assert (Hi : titem t it).
    { destruct N as [_ [Hi|Hi]]; auto. subst it. assert (iter_eqb (end_iter t) (end_iter t) = true) by (apply iter_eqb_eq; reflexivity). congruence. }
    destruct (item_index maxCap Hmc t it W (proj1 N) Hi) as (Hlt & Ed & _).
    rewrite Ed. destruct (nth_error (contents t) (iter_index t it)) as [x|] eqn:Ex; [|apply nth_error_None in Ex; lia].
    rewrite (skipn_head _ _ _ Ex). cbn [filter].
    destruct (P x) eqn:Px; cbn [negb].
    + pose proof (remove_refines maxCap Hmc t it W (proj1 N) Hi) as Rm.
      destruct (remove t it) as [t' it']. destruct Rm as (W' & C' & N' & I').
      assert (Hl : length (contents t') = (length (contents t) - 1)%nat).
      { rewrite C'. unfold remove_at. rewrite app_length, firstn_length_le, skipn_length by lia. lia. }
      destruct (IHfuel t' it' W' N' ltac:(lia)) as [W2 C2]. split; auto.
      rewrite C2, I', C'. rewrite firstn_remove_at', skipn_remove_at by lia. reflexivity.
    + destruct (next_spec maxCap Hmc t it W (proj1 N) Hi) as [Nn In].
      destruct (IHfuel t (next t it) W Nn ltac:(lia)) as [W2 C2]. split; auto.
      rewrite C2, In. rewrite firstn_S_nth by lia. rewrite (nth_error_nth' _ _ _ 0 Ex), <- app_assoc. reflexivity.
Qed.

Theorem remove_if_spec P t :
  twf t -> twf (remove_if P t) /\ contents (remove_if P t) = filter (fun x => negb (P x)) (contents t).
Proof.
  intros W. unfold remove_if. destruct (begin_spec maxCap Hmc t W) as [N I].
  destruct (remove_if_loop_spec P (Datatypes.S (length (contents t))) t (begin_iter t) W N ltac:(lia)) as [W' C'].
  split; auto. rewrite C', I. reflexivity.
Qed.

(* ---------- GetKeyCount ---------- *)
Lemma count_from_spec k t : twf t -> forall fuel it,
  norm t it -> (length (contents t) - iter_index t it < fuel)%nat ->
  count_from fuel t it k = first_true (fun x => k <? x) (skipn (iter_index t it) (contents t)).
Proof.
  intros W. induction fuel; intros it N H; [lia|]. cbn [count_from].
  rewrite (is_greater_spec maxCap Hmc t it k W N).
  destruct (nth_error (contents t) (iter_index t it)) as [x|] eqn:Ex.
  - rewrite (skipn_head _ _ _ Ex). cbn [first_true]. destruct (k <? x); auto.
    assert (Hi : titem t it).
    { destruct N as [_ [Hi|Hi]]; auto. rewrite Hi, (index_end maxCap) in Ex by exact W.
      assert (nth_error (contents t) (length (contents t)) = None) by (apply nth_error_None; lia). congruence. }
    destruct (next_spec maxCap Hmc t it W (proj1 N) Hi) as [Nn In].
    apply nth_error_lt in Ex. rewrite IHfuel by (auto; lia). rewrite In. reflexivity.
  - apply nth_error_None in Ex. rewrite skipn_all2 by lia. reflexivity.
Qed.

Lemma ft_skipn P l i : (i <= first_true P l)%nat -> first_true P (skipn i l) = (first_true P l - i)%nat.
Proof.
  revert i; induction l as [|x l IH]; intros i H; [rewrite skipn_nil; simpl in *; lia|].
  destruct i; [simpl; lia|]. cbn [first_true skipn] in *. destruct (P x); [lia|]. rewrite IH by lia. lia.
Qed.

Lemma ft_le_impl P Q l : (forall x, P x = true -> Q x = true) -> (first_true Q l <= first_true P l)%nat.
Proof.
  intros HPQ. induction l as [|x l IH]; simpl; [lia|].
  destruct (P x) eqn:Px; [rewrite (HPQ x Px); lia|]. destruct (Q x); lia.
Qed.

(* GetKeyCount(key) = upper bound index - lower bound index (multi keys); 1/0 by ContainsKey (unique keys) *)
Theorem key_count_spec t k :
  twf t -> sorted (contents t) ->
  key_count linear multi t k =
    if multi then (ub_index (contents t) k - lb_index (contents t) k)%nat
    else if contains linear t k then 1%nat else 0%nat.
Proof.
  intros W S. unfold key_count. destruct multi eqn:Em; [|reflexivity].
  assert (S' : BTreeHist.sorted true (contents t)) by exact S.
  destruct (lower_bound_spec maxCap linear true Hmc t k W S') as [N I].
  rewrite (count_from_spec k t W) by (auto; lia). rewrite I.
  apply ft_skipn. apply ft_le_impl. intros x Hx. apply Z.ltb_lt in Hx. apply negb_true_iff, Z.ltb_ge. lia.
Qed.

(* ---------- copy constructor: pvCopy re-creates every node in pre-order ---------- *)
Notation copy_node := (copy_node maxCap stepRaw blockCount).

Lemma copy_node_spec d : forall n ic,
  shape maxCap d n -> shape maxCap d (fst (copy_node ic n)) /\ flatten (fst (copy_node ic n)) = flatten n.
Proof.
  induction d as [|d IH]; intros [cap ks cs] ic Sh.
  - destruct Sh as (H1 & H2 & H3). cbn [n_children] in H3. subst cs. cbn [BTreeModel.copy_node fst].
    destruct (leaf_cap_bounds maxCap stepRaw blockCount ic (length ks) ltac:(lia) ltac:(lia) ltac:(unfold n_count in *; cbn [n_items n_cap] in *; lia)) as [A B].
    split; [|reflexivity]. cbn [BTreeBase.shape]. unfold n_count. cbn [n_items n_cap n_children]. auto.
  - destruct Sh as (H1 & H2 & L & F & Cpx). cbn [n_children n_items n_cap] in *. unfold n_count in *. cbn [n_items] in *.
    destruct cs as [|c0 cs0]; [simpl in L; lia|]. set (cs := c0 :: cs0) in *.
    assert (G : forall l acc i, Forall (shape maxCap d) l ->
      exists l' i', fold_left (fun acc ch => let '(l0, i0) := acc in let '(ch', i1) := copy_node i0 ch in (l0 ++ [ch'], i1)) l (acc, i) = (acc ++ l', i') /\
        length l' = length l /\ Forall (shape maxCap d) l' /\ map flatten l' = map flatten l).
    { induction l as [|ch l IHl]; intros acc i Fl; cbn [fold_left].
      - exists [], i. rewrite app_nil_r. repeat split; auto.
      - inversion Fl; subst. destruct (IH ch i H3) as [Sc Fc]. destruct (copy_node i ch) as [ch' i1] eqn:Ec. cbn [fst] in *.
        destruct (IHl (acc ++ [ch']) i1 H4) as (l' & i' & E & Ll & Fl' & Ml). exists (ch' :: l'), i'.
        rewrite E, <- app_assoc. cbn [app length map]. repeat split; auto. rewrite Fc, Ml. reflexivity. }
    destruct (G cs [] (Datatypes.S ic) F) as (l' & i' & E & Ll & Fl' & Ml).
    change (BTreeModel.copy_node maxCap stepRaw blockCount ic (Node cap ks cs)) with
      (let '(cs', ic') := fold_left (fun acc ch => let '(l0, i0) := acc in let '(ch', i1) := copy_node i0 ch in (l0 ++ [ch'], i1)) cs ([], Datatypes.S ic) in
       (Node maxCap ks cs', ic')).
    rewrite E. cbn [app fst]. split.
    + cbn [BTreeBase.shape]. unfold n_count. cbn [n_items n_cap n_children]. rewrite Ll. repeat split; auto; lia.
    + cbn [flatten]. rewrite Ml. reflexivity.
Qed.

Theorem copy_tree_spec t :
  twf t -> twf (copy_tree maxCap stepRaw blockCount t) /\ contents (copy_tree maxCap stepRaw blockCount t) = contents t.
Proof.
  unfold BTreeTop.twf, copy_tree, contents. intros W. destruct (cnt t =? 0)%nat eqn:E0.
  - apply Nat.eqb_eq in E0. cbn [empty_tree root cnt]. split; [reflexivity|].
    destruct (root t) as [r|]; [|reflexivity]. destruct W as [_ C]. rewrite E0 in C. destruct (flatten r); [reflexivity | discriminate].
  - destruct (root t) as [r|]; [|cbn [empty_tree root cnt]; auto].
    destruct W as [Sh C]. destruct (copy_node_spec _ r 0%nat Sh) as [S' F']. cbn [root cnt].
    rewrite (shape_height maxCap _ _ S'), F'. auto.
Qed.

(* ---------- pvMergeTo (the generic path): repeated Extract from the source + Insert at the upper bound ---------- *)
Fixpoint spec_merge (sl dl : list Z) : list Z * list Z :=      (* (what stays in the source, the destination) *)
  match sl with
  | [] => ([], dl)
  | k :: sl' =>
      let '(dl', _, ins) := spec_insert multi dl k in
      let '(rest, dl'') := spec_merge sl' dl' in
      (if ins then rest else k :: rest, dl'')
  end.

Lemma spec_insert_noins l k dl' ix : spec_insert multi l k = (dl', ix, false) -> dl' = l.
Proof. unfold spec_insert. destruct (multi || negb (has_eq l k)); intros E; inversion E; reflexivity. Qed.

Lemma merge_generic_spec : forall fuel src dst it,
  twf src -> twf dst -> sorted (contents dst) -> norm src it ->
  (length (contents src) - iter_index src it < fuel)%nat ->
  let res := BTreeModel.merge_generic maxCap stepRaw blockCount linear multi fuel src dst it in
  let sp := spec_merge (skipn (iter_index src it) (contents src)) (contents dst) in
  twf (fst res) /\ twf (snd res) /\ sorted (contents (snd res)) /\
  contents (fst res) = firstn (iter_index src it) (contents src) ++ fst sp /\
  contents (snd res) = snd sp.
Proof.
  induction fuel; intros src dst it Ws Wd Sd N H; [lia|]. cbn [BTreeModel.merge_generic].
  destruct (iter_eqb it (end_iter src)) eqn:E.
  - apply (is_end_iff maxCap Hmc src it Ws N) in E. cbv zeta. rewrite E, skipn_all, firstn_all. cbn [spec_merge fst snd].
    rewrite app_nil_r. auto.
  - assert (Hi : titem src it).
    { destruct N as [_ [Hi|Hi]]; auto. subst it. assert (iter_eqb (end_iter src) (end_iter src) = true) by (apply iter_eqb_eq; reflexivity). congruence. }
    destruct (item_index maxCap Hmc src it Ws (proj1 N) Hi) as (Hlt & Ed & _).
    rewrite Ed. destruct (nth_error (contents src) (iter_index src it)) as [k|] eqn:Ex; [|apply nth_error_None in Ex; lia].
    cbv zeta. rewrite (skipn_head _ _ _ Ex). cbn [spec_merge].
    pose proof (insert_refines maxCap stepRaw blockCount linear multi Hmc dst k Wd Sd) as Rf.
    pose proof (spec_insert_sorted multi (contents dst) k Sd) as Ss.
    destruct (insert dst k) as [[dst' pos] ins]. destruct Rf as (Wd' & Ei & _).
    destruct (spec_insert multi (contents dst) k) as [[dl' ix] ins'] eqn:Esi. inversion Ei; subst dl' ix ins'. cbn [fst] in Ss.
    destruct ins.
    + pose proof (remove_refines maxCap Hmc src it Ws (proj1 N) Hi) as Rm.
      destruct (remove src it) as [src' it']. destruct Rm as (Ws' & Cs' & N' & I').
      assert (Hl : length (contents src') = (length (contents src) - 1)%nat).
      { rewrite Cs'. unfold remove_at. rewrite app_length, firstn_length_le, skipn_length by lia. lia. }
      destruct (IHfuel src' dst' it' Ws' Wd' Ss N' ltac:(lia)) as (A & B & C & D & F). cbv zeta in *.
      rewrite I', Cs' in D, F. rewrite firstn_remove_at' in D by lia. rewrite skipn_remove_at in D, F by lia.
      destruct (spec_merge (skipn (Datatypes.S (iter_index src it)) (contents src)) (contents dst')) as [rest dl2]. cbn [fst snd] in *. auto.
    + pose proof (spec_insert_noins _ _ _ _ Esi) as Edl.
      destruct (next_spec maxCap Hmc src it Ws (proj1 N) Hi) as [Nn In].
      destruct (IHfuel src dst (next src it) Ws Wd Sd Nn ltac:(lia)) as (A & B & C & D & F). cbv zeta in *.
      rewrite In in D, F. rewrite Edl.
      destruct (spec_merge (skipn (Datatypes.S (iter_index src it)) (contents src)) (contents dst)) as [rest dl2]. cbn [fst snd] in *.
      split; [exact A|]. split; [exact B|]. split; [exact C|]. split; [|exact F].
      rewrite D. rewrite firstn_S_nth by lia. rewrite (nth_error_nth' _ _ _ 0 Ex), <- app_assoc. reflexivity.
Qed.

(* MergeTo through the generic path: the destination receives every source item it can take, each at ITS upper bound
   (so destination items stay before equivalent source items); the source keeps exactly the refused duplicates *)
Theorem merge_generic_refines src dst :
  twf src -> twf dst -> sorted (contents dst) ->
  let res := BTreeModel.merge_generic maxCap stepRaw blockCount linear multi (Datatypes.S (length (contents src))) src dst (begin_iter src) in
  twf (fst res) /\ twf (snd res) /\ sorted (contents (snd res)) /\
  (contents (fst res), contents (snd res)) = spec_merge (contents src) (contents dst).
Proof.
  intros Ws Wd Sd. destruct (begin_spec maxCap Hmc src Ws) as [N I].
  destruct (merge_generic_spec (Datatypes.S (length (contents src))) src dst (begin_iter src) Ws Wd Sd N ltac:(lia)) as (A & B & C & D & F).
  cbv zeta in *. rewrite I in D, F. cbn [firstn skipn app] in D, F. repeat split; auto. rewrite D, F.
  destruct (spec_merge (contents src) (contents dst)); reflexivity.
Qed.

(* ---------- Remove(key) for multi keys: the whole equal range through Remove(iter, iter2) ---------- *)
Theorem remove_key_multi_spec t k :
  twf t -> sorted (contents t) ->
  let res := remove_key_multi linear t k in
  twf (fst res) /\
  contents (fst res) = (if contains linear t k
                        then firstn (lb_index (contents t) k) (contents t) ++ skipn (ub_index (contents t) k) (contents t)
                        else contents t) /\
  snd res = (if contains linear t k then ub_index (contents t) k - lb_index (contents t) k else 0)%nat.
Proof.
  intros W S. unfold remove_key_multi, BTreeModel.contains.
  destruct (lower_bound_spec maxCap linear multi Hmc t k W S) as [N I].
  destruct (is_greater t (lower_bound t k) k) eqn:Eg; cbn [negb fst snd]; [auto|].
  rewrite (count_from_spec k t W) by (auto; lia). rewrite I.
  assert (Hle : (lb_index (contents t) k <= ub_index (contents t) k)%nat).
  { apply ft_le_impl. intros x Hx. apply Z.ltb_lt in Hx. apply negb_true_iff, Z.ltb_ge. lia. }
  rewrite (ft_skipn (fun x => k <? x) (contents t) (lb_index (contents t) k) Hle).
  replace (lb_index (contents t) k + (first_true (fun x => (k <? x)%Z) (contents t) - lb_index (contents t) k))%nat
    with (ub_index (contents t) k) by (unfold ub_index in *; lia).
  pose proof (remove_range_refines maxCap Hmc t _ _ W Hle (ub_index_le (contents t) k)) as Rr.
  destruct (remove_range t (lb_index (contents t) k) (ub_index (contents t) k)) as [t' it']. destruct Rr as (W' & C' & _).
  cbn [fst]. auto.
Qed.

End Hist2.
