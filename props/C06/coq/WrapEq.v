(* C06 - unordered_multimap operator== (unordered_multimap.h:624-645) over the nested HashMultiMap state:
   a list of keys (each stored once, NoDup) with their value arrays, where a key may have NO values
   (HashMultiMap keeps the key when its last value is removed by Remove(iter)/erase_if). *)
From Coq Require Import List ZArith Bool Lia Arith Permutation.
From C06 Require Import Spec SpecProofs.
Import ListNotations.

Definition mmstate := list (Z * list Z).
Definition kv_pairs (kv : Z * list Z) : list elem := map (fun v => (fst kv, v)) (snd kv).
Definition mm_pairs (s : mmstate) : list elem := flat_map kv_pairs s.
Definition mm_count (s : mmstate) : nat := fold_right (fun kv a => length (snd kv) + a) 0 s.   (* GetCount() *)
Definition mm_keycount (s : mmstate) : nat := length s.                                      (* GetKeyCount() *)
Fixpoint mm_findkey (k : Z) (s : mmstate) : option (list Z) :=
  match s with [] => None | kv :: t => if (fst kv =? k)%Z then Some (snd kv) else mm_findkey k t end.

(* the loop body of operator== for one key reference of the left operand *)
Definition mm_eq_key (r : mmstate) (kv : Z * list Z) : bool :=
  if length (snd kv) =? 0 then true                                   (* if (ref.GetCount() == 0) continue; *)
  else match mm_findkey (fst kv) r with
       | None => false                                                (* if (!rightKeyIter) return false; *)
       | Some ws => (length (snd kv) =? length ws)                    (* counts differ: return false *)
                    && perm_eqb (kv_pairs kv) (kv_pairs (fst kv, ws)) (* std::is_permutation *)
       end.
Definition mm_eq (l r : mmstate) : bool :=
  if negb (mm_count l =? mm_count r) then false else forallb (mm_eq_key r) l.
(* shape before commit 7146119: key counts compared first *)
Definition mm_eq_prefix (l r : mmstate) : bool :=
  if negb (mm_keycount l =? mm_keycount r) then false else mm_eq l r.

(* ---------------- proofs ---------------- *)
Definition elem_dec : forall a b : elem, {a = b} + {a <> b}.
Proof. decide equality; apply Z.eq_dec. Defined.
Arguments elem_dec : simpl never.
Notation cnt := (count_occ elem_dec).

Lemma mm_count_len s : mm_count s = length (mm_pairs s).
Proof. induction s as [|kv t IH]; simpl; auto. rewrite app_length, IH. unfold kv_pairs. rewrite map_length. reflexivity. Qed.

Lemma cnt_kv_other k vs k' v : k <> k' -> cnt (kv_pairs (k, vs)) (k', v) = 0.
Proof.
  intros Hk. unfold kv_pairs; simpl. induction vs as [|w t IH]; simpl; auto.
  destruct (elem_dec (k, w) (k', v)); auto. congruence.
Qed.
Lemma cnt_notin s k v : ~ In k (map fst s) -> cnt (mm_pairs s) (k, v) = 0.
Proof.
  induction s as [|[k0 vs] t IH]; simpl; intros H; auto.
  rewrite count_occ_app, IH by tauto. rewrite cnt_kv_other; auto.
Qed.
Lemma findkey_none s k : mm_findkey k s = None -> ~ In k (map fst s).
Proof.
  induction s as [|[k0 vs] t IH]; simpl; auto. destruct (Z.eqb_spec k0 k); try discriminate.
  intros H [E|I]; [congruence|]. apply IH; auto.
Qed.
Lemma findkey_some s k vs : NoDup (map fst s) -> mm_findkey k s = Some vs ->
  forall v, cnt (mm_pairs s) (k, v) = cnt (kv_pairs (k, vs)) (k, v).
Proof.
  induction s as [|[k0 ws] t IH]; simpl; intros ND H v; try discriminate.
  inversion ND; subst. rewrite count_occ_app. destruct (Z.eqb_spec k0 k).
  - inversion H; subst. rewrite cnt_notin; auto.
  - rewrite cnt_kv_other by auto. simpl. apply IH; auto.
Qed.
Lemma findkey_in s k vs : mm_findkey k s = Some vs -> In (k, vs) s.
Proof.
  induction s as [|[k0 ws] t IH]; simpl; try discriminate. destruct (Z.eqb_spec k0 k); intros H.
  - inversion H; subst; auto.
  - right; auto.
Qed.
Lemma in_findkey s k vs : NoDup (map fst s) -> In (k, vs) s -> mm_findkey k s = Some vs.
Proof.
  induction s as [|[k0 ws] t IH]; simpl; intros ND H; [tauto|]. inversion ND as [|? ? Hn Hd]; subst.
  destruct H as [E|I].
  - inversion E; subst. rewrite Z.eqb_refl; auto.
  - destruct (Z.eqb_spec k0 k); auto. subst. exfalso. apply Hn. apply (in_map fst) in I; auto.
Qed.

Lemma incl_count_perm (l r : list elem) :
  (forall x, cnt l x <= cnt r x) -> length l = length r -> Permutation l r.
Proof.
  revert r; induction l as [|a t IH]; intros r Hc Hl.
  - destruct r; simpl in *; auto; discriminate.
  - assert (Ia : In a r).
    { apply (count_occ_In elem_dec). specialize (Hc a). simpl in Hc. destruct (elem_dec a a); try congruence. lia. }
    destruct (in_split _ _ Ia) as [r1 [r2 E]]. subst r.
    apply Permutation_cons_app. apply IH.
    + intros x. specialize (Hc x). simpl in Hc. rewrite count_occ_app in *. simpl in Hc.
      destruct (elem_dec a x); lia.
    + rewrite app_length in *. simpl in *. lia.
Qed.

Theorem mm_eq_iff_pairs_permutation l r : NoDup (map fst l) -> NoDup (map fst r) ->
  (mm_eq l r = true <-> Permutation (mm_pairs l) (mm_pairs r)).
Proof.
  intros NDl NDr. unfold mm_eq. rewrite !mm_count_len. split.
  - destruct (Nat.eqb_spec (length (mm_pairs l)) (length (mm_pairs r))); simpl; try discriminate.
    intros HF. rewrite forallb_forall in HF. apply incl_count_perm; auto.
    intros [k v]. destruct (mm_findkey k l) as [vs|] eqn:Fl.
    + specialize (HF (k, vs) (findkey_in _ _ _ Fl)). unfold mm_eq_key in HF. simpl in HF.
      rewrite (findkey_some l k vs NDl Fl).
      destruct (Nat.eqb_spec (length vs) 0).
      * destruct vs; simpl in *; try lia.
      * destruct (mm_findkey k r) as [ws|] eqn:Fr; try discriminate.
        apply andb_true_iff in HF. destruct HF as [_ HP]. apply eq_iff_permutation in HP.
        rewrite (findkey_some r k ws NDr Fr).
        rewrite (Permutation_count_occ elem_dec) in HP. rewrite HP; auto.
    + rewrite cnt_notin; [lia|]. apply findkey_none; auto.
  - intros HP. rewrite (Permutation_length HP), Nat.eqb_refl. simpl.
    apply forallb_forall. intros [k vs] Ikv. unfold mm_eq_key. simpl.
    destruct (Nat.eqb_spec (length vs) 0); auto.
    pose proof (in_findkey l k vs NDl Ikv) as Fl.
    rewrite (Permutation_count_occ elem_dec) in HP.
    destruct vs as [|v0 vt]; [simpl in *; lia|].
    destruct (mm_findkey k r) as [ws|] eqn:Fr.
    + assert (PP : Permutation (kv_pairs (k, v0 :: vt)) (kv_pairs (k, ws))).
      { apply (Permutation_count_occ elem_dec). intros [k' v]. destruct (Z.eq_dec k k').
        - subst k'. rewrite <- (findkey_some l k _ NDl Fl), <- (findkey_some r k _ NDr Fr). apply HP.
        - rewrite !cnt_kv_other; auto. }
      apply andb_true_iff. split.
      * apply Nat.eqb_eq. apply Permutation_length in PP. unfold kv_pairs in PP. rewrite !map_length in PP. auto.
      * apply eq_iff_permutation; auto.
    + exfalso. specialize (HP (k, v0)). rewrite (findkey_some l k _ NDl Fl) in HP.
      rewrite (cnt_notin r) in HP by (apply findkey_none; auto).
      unfold kv_pairs in HP; simpl in HP. destruct (elem_dec (k, v0) (k, v0)); try congruence; lia.
Qed.

(* the pre-fix shape is wrong: a value-less key made equal multimaps compare unequal *)
Theorem mm_eq_prefix_refuted : exists l r, NoDup (map fst l) /\ NoDup (map fst r) /\
  Permutation (mm_pairs l) (mm_pairs r) /\ mm_eq_prefix l r = false.
Proof.
  exists [(1%Z, []); (2%Z, [5%Z])], [(2%Z, [5%Z])].
  split; [|split; [|split]].
  - simpl. constructor; [simpl; intros [H|H]; [discriminate|tauto]|]. constructor; [simpl; tauto|constructor].
  - simpl. constructor; [simpl; tauto|constructor].
  - simpl. apply Permutation_refl.
  - vm_compute. reflexivity.
Qed.
Example mm_eq_nonvacuous :
  mm_eq [(1%Z, []); (2%Z, [5%Z; 6%Z]); (3%Z, [7%Z])] [(3%Z, [7%Z]); (4%Z, []); (2%Z, [6%Z; 5%Z])] = true /\
  mm_eq [(2%Z, [5%Z; 6%Z])] [(2%Z, [5%Z; 5%Z])] = false.
Proof. vm_compute. auto. Qed.

(* ---- the nested HashMultiMap operations the wrapper forwards to (executable; tied by correspondence) ---- *)
Fixpoint mm_insert (k v : Z) (s : mmstate) : mmstate :=
  match s with
  | [] => [(k, [v])]
  | kv :: t => if (fst kv =? k)%Z then (k, snd kv ++ [v]) :: t else kv :: mm_insert k v t
  end.
Definition mm_erase_key (k : Z) (s : mmstate) : mmstate := filter (fun kv => negb (fst kv =? k)%Z) s.   (* RemoveKey *)
(* erase_if with a predicate on the key: Remove(iter) on every matching pair KEEPS the then value-less key *)
Definition mm_erase_if (p : Z -> bool) (s : mmstate) : mmstate := map (fun kv => if p (fst kv) then (fst kv, []) else kv) s.
Fixpoint zremove1 (v : Z) (l : list Z) : list Z :=
  match l with [] => [] | w :: t => if (w =? v)%Z then t else w :: zremove1 v t end.
(* unordered_multimap::erase(iterator): GetCount() == 1 -> RemoveKey, else Remove(iter) *)
Definition mm_erase_pair (k v : Z) (s : mmstate) : mmstate :=
  flat_map (fun kv => if (fst kv =? k)%Z
                      then (if existsb (Z.eqb v) (snd kv)
                            then (if length (snd kv) =? 1 then [] else [(k, zremove1 v (snd kv))])
                            else [kv])
                      else [kv]) s.

Lemma mm_insert_pairs k v s : Permutation (mm_pairs (mm_insert k v s)) ((k, v) :: mm_pairs s).
Proof.
  induction s as [|[k0 vs] t IH]; simpl; auto.
  destruct (Z.eqb_spec k0 k).
  - subst. simpl. unfold kv_pairs at 1. simpl. rewrite map_app. simpl.
    rewrite <- app_assoc. simpl. apply Permutation_sym. apply Permutation_middle.
  - simpl. eapply perm_trans; [apply Permutation_app_head, IH|]. apply Permutation_sym, Permutation_middle.
Qed.
Lemma mm_insert_keys_nodup k v s : NoDup (map fst s) -> NoDup (map fst (mm_insert k v s)).
Proof.
  induction s as [|[k0 vs] t IH]; simpl; intros ND.
  - constructor; auto.
  - inversion ND as [|? ? Hn Hd]; subst. destruct (Z.eqb_spec k0 k); simpl.
    + subst. constructor; auto.
    + constructor; auto. intros I. apply Hn. clear - I n.
      induction t as [|[k1 ws] u IHu]; simpl in *; [destruct I; [congruence|tauto]|].
      destruct (Z.eqb_spec k1 k); simpl in *; [subst; destruct I; auto|destruct I; auto].
Qed.
Lemma mm_erase_if_pairs p s : mm_pairs (mm_erase_if p s) = filter (fun e => negb (p (fst e))) (mm_pairs s).
Proof.
  induction s as [|[k0 vs] t IH]; simpl; auto. rewrite filter_app, IH. f_equal.
  destruct (p k0) eqn:E; unfold kv_pairs; simpl.
  - induction vs; simpl; auto. rewrite E. simpl. auto.
  - induction vs; simpl; auto. rewrite E. simpl. f_equal; auto.
Qed.
Lemma mm_erase_if_keys p s : map fst (mm_erase_if p s) = map fst s.
Proof. induction s as [|[k0 vs] t IH]; simpl; auto. rewrite IH. destruct (p k0); reflexivity. Qed.

(* erase(iterator) on the nested state removes exactly that pair *)
Lemma zremove1_perm v l : In v l -> Permutation l (v :: zremove1 v l).
Proof.
  induction l as [|w t IH]; simpl; intros H; [tauto|]. destruct (Z.eqb_spec w v); [subst; auto|].
  destruct H as [E|I]; [congruence|]. eapply perm_trans; [apply perm_skip, IH; auto|apply perm_swap].
Qed.
Lemma erase_pair_other k v s : ~ In k (map fst s) ->
  flat_map (fun kv => if (fst kv =? k)%Z then (if existsb (Z.eqb v) (snd kv) then (if length (snd kv) =? 1 then [] else [(k, zremove1 v (snd kv))]) else [kv]) else [kv]) s = s.
Proof.
  induction s as [|[k0 vs] t IH]; simpl; intros H; auto. destruct (Z.eqb_spec k0 k); [exfalso; auto|]. simpl. f_equal. apply IH. tauto.
Qed.
Lemma mm_erase_pair_pairs k v s : NoDup (map fst s) -> In (k, v) (mm_pairs s) ->
  Permutation (mm_pairs s) ((k, v) :: mm_pairs (mm_erase_pair k v s)).
Proof.
  unfold mm_erase_pair. induction s as [|[k0 vs] t IH]; simpl; intros ND I; [tauto|]. inversion ND as [|? ? Hn Hd]; subst.
  destruct (Z.eqb_spec k0 k) as [E|E].
  - subst k0. rewrite (erase_pair_other k v t Hn).
    assert (Iv : In v vs).
    { apply in_app_or in I. destruct I as [I|I].
      - unfold kv_pairs in I; simpl in I. apply in_map_iff in I. destruct I as [w [Ew Iw]]. inversion Ew; subst; auto.
      - exfalso. pose proof (cnt_notin t k v Hn) as C. apply (count_occ_not_In elem_dec) in C. auto. }
    assert (Ex : existsb (Z.eqb v) vs = true) by (apply existsb_exists; exists v; split; auto; apply Z.eqb_refl).
    rewrite Ex. destruct (Nat.eqb_spec (length vs) 1) as [L1|L1].
    + destruct vs as [|w [|w2 vt]]; simpl in L1; try discriminate. destruct Iv as [->|[]]. simpl. reflexivity.
    + change (mm_pairs ([(k, zremove1 v vs)] ++ t)) with (kv_pairs (k, zremove1 v vs) ++ mm_pairs t).
      unfold kv_pairs; simpl fst; simpl snd.
      change ((k, v) :: map (fun v0 => (k, v0)) (zremove1 v vs) ++ mm_pairs t) with (map (fun v0 => (k, v0)) (v :: zremove1 v vs) ++ mm_pairs t).
      apply Permutation_app_tail. apply Permutation_map. apply zremove1_perm; auto.
  - match goal with |- Permutation _ (_ :: mm_pairs ([(k0, vs)] ++ ?F)) => change (mm_pairs ([(k0, vs)] ++ F)) with (kv_pairs (k0, vs) ++ mm_pairs F) end.
    assert (It : In (k, v) (mm_pairs t)).
    { apply in_app_or in I. destruct I as [I|I]; auto. unfold kv_pairs in I; simpl in I. apply in_map_iff in I. destruct I as [w [Ew _]]. inversion Ew; congruence. }
    eapply perm_trans; [apply Permutation_app_head, (IH Hd It)|]. apply Permutation_sym, Permutation_middle.
Qed.
