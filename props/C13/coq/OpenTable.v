(* C13, table level: an open-addressing table (as HashSet::pvAddNogrow / pvFind drive it) whose per-home-bucket
   search bound is ANY encoder satisfying the contract proved for Open2N2 / OpenN1 / Open8, and whose probe
   sequence is ANY step function satisfying the contract proved for GetNextBucketIndex.
   Consequences: a present key is always found; insertion reports "full" only when no bucket has room. *)
From Coq Require Import ZArith Bool List Lia.
From C13 Require Import ProbeSeq.
Import ListNotations.
Local Open Scope Z_scope.

Section Table.
Variable n : Z.
Hypothesis Hn : 0 <= n <= 63.
Variable next : Z -> Z -> Z -> Z.
Hypothesis next_spec : forall i p, 0 <= i < 2 ^ n -> 0 <= p < 2 ^ n -> next i (2 ^ n) p = (i + p) mod 2 ^ n.
Variable cap : nat.                       (* bucket capacity (maxCount) *)
Variable h : Z -> Z.                      (* home bucket of a key: ARBITRARY hash function *)
Hypothesis h_range : forall k, 0 <= h k < 2 ^ n.

(* the bound encoder *)
Variable B : Type.
Variable goodB : B -> Prop.
Variable decodeB : B -> Z.                (* GetMaxProbe *)
Variable updB : B -> Z -> B.              (* UpdateMaxProbe *)
Hypothesis upd_good : forall b p, goodB b -> 0 <= p < 2 ^ n -> goodB (updB b p).
Hypothesis upd_covers : forall b p, goodB b -> 0 <= p < 2 ^ n -> p <= decodeB (updB b p).
Hypothesis upd_keeps : forall b p q, goodB b -> 0 <= p < 2 ^ n -> q < 2 ^ n -> q <= decodeB b -> q <= decodeB (updB b p).

Record table := { bk : Z -> list Z; bd : Z -> B }.

Definition pidx (start : Z) (p : nat) : Z := probe_index next n start p.
Definition N : nat := Z.to_nat (2 ^ n).

(* pvAddNogrow: probe 0,1,2,... while the bucket is full; give up ("Hash table is full") at probe = bucketCount *)
Fixpoint first_free (s : table) (start : Z) (p : nat) (fuel : nat) : option nat :=
  match fuel with
  | O => None
  | S f => if Nat.ltb (length (bk s (pidx start p))) cap then Some p else first_free s start (S p) f
  end.

Definition add (s : table) (k : Z) : option table :=
  match first_free s (h k) 0 N with
  | None => None
  | Some p =>
      let b := pidx (h k) p in
      Some {| bk := fun i => if Z.eqb i b then k :: bk s i else bk s i;
              bd := fun i => if Z.eqb i (h k) then updB (bd s i) (Z.of_nat p) else bd s i |}
  end.

(* pvFind: home bucket, then probes 1..GetMaxProbe(home) *)
Definition mem (k : Z) (l : list Z) : bool := existsb (Z.eqb k) l.
Definition find (s : table) (k : Z) : bool :=
  existsb (fun p => mem k (bk s (pidx (h k) p))) (seq 0 (S (Z.to_nat (decodeB (bd s (h k)))))).

(* Remove: the key leaves its bucket (swap-with-last inside the bucket); bounds are never lowered *)
Definition remove (s : table) (b : Z) (k : Z) : table :=
  {| bk := fun i => if Z.eqb i b then filter (fun x => negb (Z.eqb x k)) (bk s i) else bk s i; bd := bd s |}.

Definition Inv (s : table) : Prop :=
  (forall i, goodB (bd s i)) /\
  (forall b k, In k (bk s b) ->
     exists p : nat, Z.of_nat p < 2 ^ n /\ pidx (h k) p = b /\ Z.of_nat p <= decodeB (bd s (h k))).

Lemma mem_In k l : mem k l = true <-> In k l.
Proof.
  unfold mem. rewrite existsb_exists. split.
  - intros (x & Hx & He). apply Z.eqb_eq in He. subst. exact Hx.
  - intros H. exists k. split; [exact H|apply Z.eqb_refl].
Qed.

Lemma first_free_spec s start : forall fuel p q, first_free s start p fuel = Some q ->
  (p <= q < p + fuel)%nat /\ (length (bk s (pidx start q)) < cap)%nat.
Proof.
  induction fuel as [|f IH]; intros p q H; cbn [first_free] in H; [discriminate|].
  destruct (Nat.ltb_spec (length (bk s (pidx start p))) cap) as [Hlt|Hge].
  - inversion H; subst. split; [lia|exact Hlt].
  - apply IH in H. destruct H as [H1 H2]. split; [lia|exact H2].
Qed.

Lemma first_free_none s start : forall fuel p, first_free s start p fuel = None ->
  forall q, (p <= q < p + fuel)%nat -> (cap <= length (bk s (pidx start q)))%nat.
Proof.
  induction fuel as [|f IH]; intros p H q Hq; [lia|]. cbn [first_free] in H.
  destruct (Nat.ltb_spec (length (bk s (pidx start p))) cap) as [Hlt|Hge]; [discriminate|].
  destruct (Nat.eq_dec q p) as [->|Hne]; [exact Hge|]. apply (IH (S p) H). lia.
Qed.

Lemma N_val : Z.of_nat N = 2 ^ n.
Proof. unfold N. pose proof (pow_n_pos n Hn). lia. Qed.

(* a present key is always found *)
Theorem find_present s b k : Inv s -> In k (bk s b) -> find s k = true.
Proof.
  intros [Hg Hi] Hin. destruct (Hi b k Hin) as (p & Hp & Hb & Hc).
  unfold find. apply existsb_exists. exists p. split.
  - apply in_seq. lia.
  - rewrite Hb. apply mem_In. exact Hin.
Qed.

(* find never reports a key that is in no bucket *)
Theorem find_sound s k : find s k = true -> exists b, In k (bk s b).
Proof.
  unfold find. intros H. apply existsb_exists in H. destruct H as (p & _ & Hm).
  apply mem_In in Hm. eexists; exact Hm.
Qed.

(* insertion keeps the invariant *)
Theorem add_inv s k s' : Inv s -> add s k = Some s' -> Inv s'.
Proof.
  intros [Hg Hi] Hadd. unfold add in Hadd.
  destruct (first_free s (h k) 0 N) as [p|] eqn:Hf; [|discriminate]. inversion Hadd; subst s'; clear Hadd.
  apply first_free_spec in Hf. destruct Hf as [Hpr _].
  assert (HpN : 0 <= Z.of_nat p < 2 ^ n) by (rewrite <- N_val; lia).
  split.
  - intros i. cbn. destruct (Z.eqb_spec i (h k)); [subst; apply upd_good; [apply Hg|exact HpN]|apply Hg].
  - intros b k' Hin. cbn in Hin. cbn [bd].
    destruct (Z.eqb_spec b (pidx (h k) p)) as [Hb|Hb].
    + destruct Hin as [<-|Hin].
      * exists p. split; [lia|]. split; [symmetry; exact Hb|]. rewrite Z.eqb_refl. apply upd_covers; [apply Hg|exact HpN].
      * destruct (Hi b k' Hin) as (q & Hq & Hqb & Hqc). exists q. split; [exact Hq|]. split; [exact Hqb|].
        destruct (Z.eqb_spec (h k') (h k)) as [He|He]; [|exact Hqc].
        rewrite He in *. apply upd_keeps; [apply Hg|exact HpN|exact Hq|exact Hqc].
    + destruct (Hi b k' Hin) as (q & Hq & Hqb & Hqc). exists q. split; [exact Hq|]. split; [exact Hqb|].
      destruct (Z.eqb_spec (h k') (h k)) as [He|He]; [|exact Hqc].
      rewrite He in *. apply upd_keeps; [apply Hg|exact HpN|exact Hq|exact Hqc].
Qed.

(* the added key is found afterwards, and it went into a bucket that had room *)
Theorem add_then_find s k s' : Inv s -> add s k = Some s' -> find s' k = true.
Proof.
  intros HI Hadd. pose proof (add_inv s k s' HI Hadd) as HI'.
  unfold add in Hadd. destruct (first_free s (h k) 0 N) as [p|] eqn:Hf; [|discriminate].
  inversion Hadd; subst s'. apply (find_present _ (pidx (h k) p) k HI'). cbn. rewrite Z.eqb_refl. left. reflexivity.
Qed.

(* insertion fails only when NO bucket of the table has room *)
Theorem add_fails_only_if_all_full s k : add s k = None ->
  forall b, 0 <= b < 2 ^ n -> (cap <= length (bk s b))%nat.
Proof.
  intros Hadd b Hb. unfold add in Hadd.
  destruct (first_free s (h k) 0 N) as [p|] eqn:Hf; [discriminate|].
  destruct (probe_seq_covers next n Hn next_spec (h k) b (h_range k) Hb) as (p & Hp & Hpb).
  rewrite <- Hpb. apply (first_free_none s (h k) N 0 Hf). rewrite <- N_val in Hp. lia.
Qed.

Theorem remove_inv s b k : Inv s -> Inv (remove s b k).
Proof.
  intros [Hg Hi]. split; [exact Hg|]. intros b' k' Hin. cbn in Hin. cbn [bd remove].
  destruct (Z.eqb_spec b' b); [apply filter_In in Hin; destruct Hin as [Hin _]|]; apply (Hi b' k' Hin).
Qed.

(* every reachable table (any sequence of successful insertions and removals from the empty table) *)
Inductive op := OAdd (k : Z) | ORemove (b k : Z).
Definition step (s : table) (o : op) : table :=
  match o with
  | OAdd k => match add s k with Some s' => s' | None => s end   (* "full" exception: state unchanged *)
  | ORemove b k => remove s b k
  end.

Theorem reachable_inv s ops : Inv s -> Inv (fold_left step ops s).
Proof.
  revert s. induction ops as [|o ops IH]; intros s HI; [exact HI|]. cbn [fold_left]. apply IH.
  destruct o as [k|b k]; cbn [step].
  - destruct (add s k) as [s'|] eqn:Ha; [exact (add_inv s k s' HI Ha)|exact HI].
  - apply remove_inv; exact HI.
Qed.

Theorem present_key_found_all_histories b0 ops b k :
  goodB b0 ->
  let s := fold_left step ops {| bk := fun _ => []; bd := fun _ => b0 |} in
  In k (bk s b) -> find s k = true.
Proof.
  intros Hg s Hin. apply (find_present s b k); [|exact Hin].
  apply reachable_inv. split; [intros i; exact Hg|]. intros b' k' [].
Qed.
End Table.
