// instantiation TU for the stdish decision rules (C14): one wrapper of every kind with a stateful allocator
#include <memory>
#include "momo/stdish/unordered_map.h"
#include "momo/stdish/unordered_set.h"
#include "momo/stdish/unordered_multimap.h"
#include "momo/stdish/map.h"
#include "momo/stdish/set.h"
#include "momo/stdish/vector.h"
template<typename T> struct C14A
{
	typedef T value_type; int id;
	explicit C14A(int i = 0) noexcept : id(i) {}
	template<typename U> C14A(const C14A<U>& a) noexcept : id(a.id) {}
	T* allocate(size_t n) { return static_cast<T*>(::operator new(n * sizeof(T))); }
	void deallocate(T* p, size_t) noexcept { ::operator delete(p); }
	friend bool operator==(const C14A& a, const C14A& b) noexcept { return a.id == b.id; }
	friend bool operator!=(const C14A& a, const C14A& b) noexcept { return a.id != b.id; }
};
typedef momo::stdish::unordered_map<int, int, std::hash<int>, std::equal_to<int>, C14A<std::pair<const int, int>>> C14UM;
typedef momo::stdish::unordered_set<int, std::hash<int>, std::equal_to<int>, C14A<int>> C14US;
typedef momo::stdish::unordered_multimap<int, int, std::hash<int>, std::equal_to<int>, C14A<std::pair<const int, int>>> C14UMM;
typedef momo::stdish::map<int, int, std::less<int>, C14A<std::pair<const int, int>>> C14M;
typedef momo::stdish::set<int, std::less<int>, C14A<int>> C14S;
typedef momo::stdish::vector<int, C14A<int>> C14V;
template<typename W> void c14_use(W& a, W& b) { a = b; a = std::move(b); a.swap(b); W c(std::move(a), a.get_allocator()); }
void c14_all(C14UM& a, C14US& b, C14UMM& c, C14M& d, C14S& e, C14V& f) { c14_use(a, a); c14_use(b, b); c14_use(c, c); c14_use(d, d); c14_use(e, e); c14_use(f, f); }
