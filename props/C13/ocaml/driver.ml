(* C13 model driver: one case per line, one result line per case.
   o2 s0 s1 p1 p2 ...      Open2N2: run UpdateMaxProbe for each p; print final s0 s1 bound count
   n1 M x L p1 p2 ...      OpenN1<maxCount=M>: mData[M]=x; print final byte, GetMaxProbe(L)
   nx kind i bc p          GetNextBucketIndex (kind o2|o8)
*)
open Zutil
open GenPrelude
let arr2 a b = fun i -> if int_of_z i = 0 then a else if int_of_z i = 1 then b else z_of_int 0
let () = iter_lines (fun line ->
  match words line with
  | "o2" :: s0 :: s1 :: ps ->
    let st = ref (arr2 (z_of_string s0) (z_of_string s1)) in
    let bad = ref "" in
    List.iter (fun p -> match Gen_Open2N2.coq_UpdateMaxProbe !st (z_of_string p) with
      | Ok (_, s') -> st := s'
      | Stuck -> bad := "Stuck" | Fuel -> bad := "Fuel" | Exn -> bad := "Exn") ps;
    if !bad <> "" then print_endline !bad else
    Printf.printf "%s %s %s %s\n" (string_of_z (!st (z_of_int 0))) (string_of_z (!st (z_of_int 1)))
      (string_of_z (Gen_Open2N2.pvGetMaxProbe !st)) (string_of_z (Gen_Open2N2.pvGetCount !st))
  | "n1" :: m :: x :: l :: ps ->
    let mc = z_of_string m in
    let st = ref (fun i -> if int_of_z i = int_of_z mc then z_of_string x else z_of_int 248) in
    let bad = ref "" in
    List.iter (fun p -> match Gen_OpenN1.coq_UpdateMaxProbe mc !st (z_of_string p) with
      | Ok (_, s') -> st := s'
      | Stuck -> bad := "Stuck" | Fuel -> bad := "Fuel" | Exn -> bad := "Exn") ps;
    if !bad <> "" then print_endline !bad else
    Printf.printf "%s %s\n" (string_of_z (!st mc)) (string_of_z (Gen_OpenN1.coq_GetMaxProbe mc !st (z_of_string l)))
  | ["nx"; kind; i; bc; p] ->
    let f = if kind = "o2" then Gen_Open2N2.coq_GetNextBucketIndex else Gen_Open8.coq_GetNextBucketIndex in
    print_endline (string_of_z (f (z_of_string i) (z_of_string bc) (z_of_string p)))
  | _ -> print_endline "?")
