(* C13 model driver: one case per line, one result line per case.
   o2 s0 s1 p1 p2 ...      Open2N2: run UpdateMaxProbe for each p; print final s0 s1 bound count
   n1 M x L p1 p2 ...      OpenN1<maxCount=M>: mData[M]=x; print final byte, GetMaxProbe(L)
   nx kind i bc p          GetNextBucketIndex (kind o2|o8)
*)
open Zutil
open GenPrelude
let arr2 a b = fun i -> if int_of_z i = 0 then a else if int_of_z i = 1 then b else z_of_int 0
let () = iter_lines (fun line ->
  match words line with
  | "o2" :: s0 :: s1 :: ps ->
    let st = ref (arr2 (z_of_string s0) (z_of_string s1)) in
    let bad = ref "" in
    Stdlib.List.iter (fun p -> match Gen_Open2N2.coq_UpdateMaxProbe !st (z_of_string p) with
      | Ok (_, s') -> st := s'
      | Stuck -> bad := "Stuck" | Fuel -> bad := "Fuel" | Exn -> bad := "Exn") ps;
    if !bad <> "" then print_endline !bad else
    Printf.printf "%s %s %s %s\n" (string_of_z (!st (z_of_int 0))) (string_of_z (!st (z_of_int 1)))
      (string_of_z (Gen_Open2N2.pvGetMaxProbe !st)) (string_of_z (Gen_Open2N2.pvGetCount !st))
  | "n1" :: m :: x :: l :: ps ->
    let mc = z_of_string m in
    let st = ref (fun i -> if int_of_z i = int_of_z mc then z_of_string x else z_of_int 248) in
    let bad = ref "" in
    Stdlib.List.iter (fun p -> match Gen_OpenN1.coq_UpdateMaxProbe mc !st (z_of_string p) with
      | Ok (_, s') -> st := s'
      | Stuck -> bad := "Stuck" | Fuel -> bad := "Fuel" | Exn -> bad := "Exn") ps;
    if !bad <> "" then print_endline !bad else
    Printf.printf "%s %s\n" (string_of_z (!st mc)) (string_of_z (Gen_OpenN1.coq_GetMaxProbe mc !st (z_of_string l)))
  | ["nx"; kind; i; bc; p] ->
    let f = if kind = "o2" then Gen_Open2N2.coq_GetNextBucketIndex else Gen_Open8.coq_GetNextBucketIndex in
    print_endline (string_of_z (f (z_of_string i) (z_of_string bc) (z_of_string p)))
  | "tblm" :: kind :: n :: cap :: khs ->
    (* table-level model: insert the keys (key:hash) in order into an empty 2^n-bucket table; dump buckets + bounds + finds *)
    let nz = z_of_string n and ni = int_of_string n in
    let bc = z_of_zarith (Z.shift_left Z.one ni) in
    let pairs = Stdlib.List.map (fun kh -> match String.split_on_char ':' kh with [k; h] -> (z_of_string k, z_of_string h) | _ -> failwith "kh") khs in
    let h k = let rec go = function [] -> z_of_int 0 | (k', hc) :: r -> if string_of_z k' = string_of_z k then Gen_BucketBase.coq_GetStartBucketIndex hc bc else go r in go pairs in
    let capn = nat_of_int (int_of_string cap) in
    let empty = { OpenTable.bk = (fun _ -> []); OpenTable.bd = (fun _ -> (fun _ -> z_of_int 0)) } in
    let mc = z_of_int 7 in
    let (next, upd, dec) =
      if kind = "o2" || kind = "o2f" then (Gen_Open2N2.coq_GetNextBucketIndex, OpenInstances.upd2, Gen_Open2N2.pvGetMaxProbe)
      else (Gen_Open8.coq_GetNextBucketIndex, OpenInstances.updN mc, (fun st -> Gen_OpenN1.coq_GetMaxProbe mc st nz)) in
    let full = ref false in
    let st = Stdlib.List.fold_left (fun s (k, _) -> match OpenTable.add nz next capn h upd s k with Some s' -> s' | None -> full := true; s) empty pairs in
    let buf = Buffer.create 256 in
    for i = 0 to (1 lsl ni) - 1 do
      let items = Stdlib.List.sort compare (Stdlib.List.map (fun z -> Z.to_string (zarith_of_z z)) (OpenTable.bk st (z_of_int i))) in
      if items <> [] || string_of_z (dec (OpenTable.bd st (z_of_int i))) <> "0" then
        Buffer.add_string buf (Printf.sprintf "%d:[%s]:%s;" i (Stdlib.String.concat "," (Stdlib.List.sort (fun a b -> compare (Z.of_string a) (Z.of_string b)) items)) (string_of_z (dec (OpenTable.bd st (z_of_int i)))))
    done;
    let allfound = Stdlib.List.for_all (fun (k, _) -> OpenTable.find nz next h dec st k) pairs in
    Printf.printf "%s found=%b full=%b\n" (Buffer.contents buf) allfound !full
  | _ -> print_endline "?")
