(* C02 -- pvRemoveInternal (both branches), pvMakeIterator(move = true), positions built from two paths *)
From Coq Require Import List ZArith Arith Lia Bool.
From C02 Require Import BTreeModel BTreeBase BTreeSearch BTreeIter BTreeAdd BTreeRemove BTreeCtx.
Import ListNotations.

Definition dropl (n : node) : node :=
  Node (n_cap n) (removelast (n_items n)) (if is_leaf n then [] else removelast (n_children n)).

Lemma last_nth_error {A} (l : list A) d x : nth_error l (length l - 1) = Some x -> last l d = x.
Proof.
  induction l as [|a l IH]; intros H; [discriminate|].
  destruct l as [|b l]; [simpl in *; congruence|].
  change (last (a :: b :: l) d) with (last (b :: l) d). apply IH.
  replace (length (a :: b :: l) - 1) with (S (length (b :: l) - 1)) in H by (simpl; lia). exact H.
Qed.

Lemma removelast_length {A} (l : list A) : length (removelast l) = length l - 1.
Proof. rewrite removelast_firstn_len, firstn_length. lia. Qed.

Lemma Forall_removelast {A} (P : A -> Prop) l : Forall P l -> Forall P (removelast l).
Proof. intros F. rewrite removelast_firstn_len. apply Forall_firstn. exact F. Qed.


Lemma firstn_replace_at {A} j (x : A) l : j < length l -> firstn j (replace_at j x l) = firstn j l.
Proof.
  intros H. unfold replace_at. rewrite firstn_app, firstn_length_le by lia.
  rewrite Nat.sub_diag. simpl. rewrite app_nil_r, firstn_firstn, Nat.min_id. reflexivity.
Qed.
Lemma skipn_replace_at {A} j (x : A) l : j < length l -> skipn j (replace_at j x l) = x :: skipn (S j) l.
Proof.
  intros H. unfold replace_at. rewrite skipn_app, firstn_length_le by lia.
  rewrite Nat.sub_diag, skipn_all2 by (rewrite firstn_length; lia). reflexivity.
Qed.
Lemma skipn_S_replace_at {A} j (x : A) l : j < length l -> skipn (S j) (replace_at j x l) = skipn (S j) l.
Proof.
  intros H. unfold replace_at. rewrite skipn_app, firstn_length_le by lia.
  rewrite skipn_all2 by (rewrite firstn_length; lia). replace (S j - j) with 1 by lia. reflexivity.
Qed.
Lemma nth_error_replace_other {A} j a (x : A) l : a <> j -> j < length l -> nth_error (replace_at j x l) a = nth_error l a.
Proof.
  intros Ha H. unfold replace_at. destruct (lt_dec a j).
  - rewrite nth_error_app1 by (rewrite firstn_length; lia). apply nth_error_firstn'. lia.
  - rewrite nth_error_app2 by (rewrite firstn_length; lia). rewrite firstn_length_le by lia.
    destruct (a - j) as [|m] eqn:E; [lia|]. cbn [nth_error]. rewrite nth_error_skipn'. f_equal. lia.
Qed.
Lemma nth_error_remove_at {A} j (l : list A) : j <= length l -> nth_error (remove_at j l) j = nth_error l (S j).
Proof.
  intros H. unfold remove_at. rewrite nth_error_app2 by (rewrite firstn_length; lia).
  rewrite firstn_length_le by lia. rewrite Nat.sub_diag, nth_error_skipn'. f_equal. lia.
Qed.

Section Rem2.
Variable maxCap : nat.
Hypothesis Hpos : 0 < maxCap.
Notation shape := (shape maxCap).

(* ---------- the rightmost spine: the last item of a subtree ---------- *)
Lemma last_nonempty_spec d : forall n,
  shape d n ->
  match last_nonempty d n with
  | None => flatten n = []
  | Some q => exists cn, node_at q n = Some cn /\ 0 < n_count cn /\
                shape d (update_at q dropl n) /\
                flatten n = flatten (update_at q dropl n) ++ [last (n_items cn) 0%Z]
  end.
Proof.
  induction d as [|d IH]; intros n Sh.
  - pose proof (shape_0_leaf _ _ Sh) as Lf. pose proof Sh as (H1 & H2 & H3). cbn [last_nonempty].
    rewrite (flatten_leaf _ Lf). destruct (n_count n =? 0) eqn:E0.
    + apply Nat.eqb_eq in E0. unfold n_count in E0. destruct (n_items n); simpl in *; [reflexivity | lia].
    + apply Nat.eqb_neq in E0. exists n. cbn [node_at update_at]. unfold dropl. rewrite Lf.
      split; [reflexivity|]. split; [lia|]. split.
      * cbn [BTreeBase.shape]. unfold n_count in *. cbn [n_items n_cap n_children]. rewrite removelast_length. repeat split; auto; lia.
      * cbn [flatten map interleave]. apply app_removelast_last. unfold n_count in E0. destruct (n_items n); simpl in *; [lia | discriminate].
  - pose proof Sh as (H1 & H2 & L & F & Cpx).
    destruct (shape_child_ex _ _ _ (n_count n) Sh (le_n _)) as (ch & E & Sch).
    cbn [last_nonempty]. rewrite E. specialize (IH ch Sch).
    assert (Fl : flatten n = pre n (n_count n) ++ flatten ch).
    { rewrite (flatten_split n _ ch L E), post_end by lia. rewrite app_nil_r. reflexivity. }
    destruct (last_nonempty d ch) as [q|].
    + destruct IH as (cn & En & Hc & S' & F'). exists cn. cbn [node_at update_at]. rewrite E.
      split; [exact En|]. split; [exact Hc|].
      destruct (replace_child_gen maxCap Hpos d n _ ch _ Sh E S') as (S2 & E2 & P2 & Q2 & _ & _).
      split; [exact S2|]. pose proof S2 as (_ & _ & L2 & _).
      rewrite (flatten_split _ _ _ L2 E2), P2, Q2, post_end by lia. rewrite Fl, F', app_nil_r, <- app_assoc. reflexivity.
    + destruct (n_count n =? 0) eqn:E0.
      * apply Nat.eqb_eq in E0. rewrite Fl, IH, E0, app_nil_r. reflexivity.
      * apply Nat.eqb_neq in E0. exists n. cbn [node_at update_at]. unfold dropl. rewrite (shape_S_internal _ _ _ Sh).
        split; [reflexivity|]. split; [lia|].
        assert (Hk : n_items n <> []) by (unfold n_count in E0; destruct (n_items n); simpl in *; [lia | discriminate]).
        assert (Hcs : n_children n <> []) by (destruct (n_children n); simpl in *; [lia | discriminate]).
        pose proof (app_removelast_last 0%Z Hk) as Eks. pose proof (app_removelast_last n Hcs) as Ecs.
        assert (El : last (n_children n) n = ch).
        { apply last_nth_error. rewrite L. replace (S (n_count n) - 1) with (n_count n) by lia. exact E. }
        rewrite El in Ecs. split.
        -- cbn [BTreeBase.shape]. unfold n_count in *. cbn [n_items n_cap n_children]. rewrite !removelast_length.
           split; [lia|]. split; [lia|]. split; [lia|]. split; [apply Forall_removelast; exact F | exact Cpx].
        -- cbn [flatten]. rewrite flatten_unfold. rewrite Ecs at 1. rewrite Eks at 1.
           rewrite map_app. cbn [map]. rewrite interleave_app2 by (rewrite map_length, !removelast_length; unfold n_count in *; lia).
           cbn [interleave]. rewrite IH. reflexivity.
Qed.

(* ---------- leftmost leaf ---------- *)
Lemma leftmost_spec d : forall n,
  shape d n -> valid d (leftmost d n) n 0 /\ length (leftmost d n) = d /\ before (leftmost d n) n 0 = [].
Proof.
  induction d as [|d IH]; intros n Sh.
  - cbn [leftmost valid before length]. rewrite (shape_0_leaf _ _ Sh). repeat split; auto. lia.
  - destruct (shape_child_ex _ _ _ 0 Sh (Nat.le_0_l _)) as (ch & E & Sch).
    assert (Eu : leftmost (S d) n = 0 :: leftmost d ch).
    { cbn [leftmost]. destruct (n_children n); simpl in E; [discriminate|]. inversion E; reflexivity. }
    rewrite Eu. destruct (IH ch Sch) as (V & Ln & B).
    cbn [valid before length]. rewrite E, B. repeat split; auto.
Qed.

(* ---------- positions through a path prefix ---------- *)
Lemma pos_app p : forall d n nd q j,
  valid d p n 0 -> node_at p n = Some nd -> valid (d - length p) q nd j ->
  valid d (p ++ q) n j /\ before (p ++ q) n j = ctxb p n ++ before q nd j.
Proof.
  induction p as [|c p IH]; intros d n nd q j V E Vq.
  - simpl in *. inversion E; subst. rewrite Nat.sub_0_r in Vq. auto.
  - destruct (valid_cons _ _ _ _ _ V) as (d' & ch & -> & Ec & V'). cbn [node_at] in E. rewrite Ec in E. simpl in Vq.
    destruct (IH d' ch nd q j V' E Vq) as [A B].
    cbn [app valid before ctxb]. rewrite Ec, B, <- app_assoc. auto.
Qed.

Lemma has_item_node_at p : forall n nd j, node_at p n = Some nd -> j < n_count nd -> has_item p n j.
Proof.
  induction p as [|c p IH]; intros n nd j E H; simpl in *.
  - inversion E; subst; auto.
  - destruct (nth_error (n_children n) c); [eauto | discriminate].
Qed.

(* ---------- pvMove: the position after the subtree at p ---------- *)
Lemma climb_spec p : forall d n nd,
  shape d n -> valid d p n 0 -> node_at p n = Some nd ->
  match climb p n with
  | Some (q, i) => valid d q n i /\ has_item q n i /\ before q n i = ctxb p n ++ flatten nd
  | None => ctxb p n ++ flatten nd = flatten n
  end.
Proof.
  induction p as [|c p IH]; intros d n nd Sh V E.
  - simpl in *. inversion E; subst. reflexivity.
  - destruct (valid_cons _ _ _ _ _ V) as (d' & ch & -> & Ec & V'). cbn [node_at climb ctxb] in *. rewrite Ec in *.
    pose proof Sh as (_ & _ & L & _). pose proof (shape_child _ _ _ _ _ Sh Ec) as Sch.
    specialize (IH d' ch nd Sch V' E).
    destruct (climb p ch) as [[q i]|].
    + destruct IH as (Vq & Hq & Bq). cbn [lift orelse valid has_item before]. rewrite Ec, Bq, <- app_assoc. auto.
    + cbn [lift orelse]. unfold here. destruct (c <? n_count n) eqn:E1.
      * apply Nat.ltb_lt in E1. cbn [valid has_item before]. rewrite (shape_S_internal _ _ _ Sh).
        rewrite (nth_flat n c ch Ec), <- IH, <- app_assoc. repeat split; auto. lia.
      * apply Nat.ltb_ge in E1. rewrite (flatten_split n c ch L Ec), post_end by lia.
        rewrite <- IH, app_nil_r, <- app_assoc. reflexivity.
Qed.

(* pvMakeIterator(leaf, index, move = true) *)
Lemma move_if_spec d r sp j0 :
  shape d r -> valid d sp r j0 -> length sp = d ->
  let it := move_if r (sp, j0) in
  valid d (fst it) r (snd it) /\ (has_item (fst it) r (snd it) \/ it = end_of r) /\
  before (fst it) r (snd it) = before sp r j0.
Proof.
  intros Sh V Ls. destruct (node_at_valid maxCap Hpos sp d r j0 Sh V) as (lf & En & Slf & Hj & _).
  rewrite Ls, Nat.sub_diag in Slf. pose proof (shape_0_leaf _ _ Slf) as Lf.
  assert (V0 : valid d sp r 0).
  { clear - V. revert d r V. induction sp as [|c sp IH]; intros d r V; [simpl; lia|].
    destruct (valid_cons _ _ _ _ _ V) as (d' & ch & -> & Ec & V'). cbn [valid]. rewrite Ec. auto. }
  destruct (ctx_pos sp d r j0 lf V En) as [Bp _]. cbn [before] in Bp. rewrite Lf in Bp.
  unfold move_if. cbn [fst snd]. rewrite En. destruct (j0 =? n_count lf) eqn:Ej.
  - apply Nat.eqb_eq in Ej. pose proof (climb_spec sp d r lf Sh V0 En) as C.
    assert (Efl : before sp r j0 = ctxb sp r ++ flatten lf).
    { rewrite Bp, Ej, (flatten_leaf _ Lf). unfold n_count. rewrite firstn_all. reflexivity. }
    destruct (climb sp r) as [[q i]|].
    + destruct C as (Vq & Hq & Bq). cbn [fst snd]. rewrite Bq, Efl. auto.
    + cbn [fst snd end_of]. split; [cbn [valid]; lia|]. split; [right; reflexivity|].
      rewrite (before_end maxCap d r Sh), Efl, C. reflexivity.
  - apply Nat.eqb_neq in Ej. cbn [fst snd]. split; [exact V|]. split; [|reflexivity].
    left. eapply has_item_node_at; eauto. lia.
Qed.

(* ---------- the edit pvRemoveInternal makes inside the node that holds the removed separator ---------- *)
Lemma remove_node_none d nd j :
  shape (S d) nd -> j < n_count nd ->
  let nd' := Node (n_cap nd) (remove_at j (n_items nd)) (remove_at j (n_children nd)) in
  shape (S d) nd' /\ flatten nd' = pre nd j ++ tl (post nd j) /\
  nth_error (n_children nd') j = nth_error (n_children nd) (S j) /\ pre nd' j = pre nd j.
Proof.
  intros Sh Hj nd'. pose proof Sh as (H1 & H2 & L & F & Cpx).
  destruct (nth_error_ex (n_items nd) j Hj) as [k Ek].
  assert (Lk : length (firstn j (n_items nd)) = j) by (apply firstn_length_le; unfold n_count in Hj; lia).
  assert (Lc : length (firstn j (n_children nd)) = j) by (apply firstn_length_le; unfold n_count in *; lia).
  split; [|split; [|split]].
  - unfold nd'. cbn [BTreeBase.shape]. unfold n_count in *. cbn [n_items n_cap n_children]. unfold remove_at.
    rewrite !app_length, Lk, Lc, !skipn_length. split; [lia|]. split; [lia|]. split; [lia|]. split; [|exact Cpx].
    apply Forall_app. split; [apply Forall_firstn | apply Forall_skipn]; exact F.
  - unfold nd'. rewrite flatten_unfold. cbn [n_children n_items]. unfold remove_at.
    rewrite map_app. rewrite interleave_app by (rewrite map_length, Lc, Lk; reflexivity).
    unfold pre, post. rewrite (skipn_head' _ _ _ Ek). cbn [tailpart tl]. rewrite firstn_map', skipn_map'. reflexivity.
  - unfold nd'. cbn [n_children]. apply nth_error_remove_at. unfold n_count in *. lia.
  - unfold nd'. rewrite pre_Node. unfold pre, remove_at.
    rewrite map_app, !firstn_app, map_length, Lc, Lk, Nat.sub_diag. cbn [firstn]. rewrite !app_nil_r.
    rewrite <- firstn_map', !firstn_firstn, !Nat.min_id. reflexivity.
Qed.

Lemma remove_node_some d nd j lch lch' x :
  shape (S d) nd -> j < n_count nd -> nth_error (n_children nd) j = Some lch -> shape d lch' ->
  let nd2 := Node (n_cap nd) (replace_at j x (n_items nd)) (replace_at j lch' (n_children nd)) in
  shape (S d) nd2 /\ flatten nd2 = pre nd j ++ flatten lch' ++ x :: tl (post nd j) /\
  nth_error (n_children nd2) (S j) = nth_error (n_children nd) (S j) /\
  pre nd2 (S j) = pre nd j ++ flatten lch' ++ [x].
Proof.
  intros Sh Hj E Sl nd2. pose proof Sh as (H1 & H2 & L & F & Cpx).
  assert (Hjc : j < length (n_children nd)) by (unfold n_count in *; lia).
  assert (Hjk : j < length (n_items nd)) by exact Hj.
  destruct (nth_error_ex (n_items nd) j Hj) as [k Ek].
  assert (S2 : shape (S d) nd2).
  { unfold nd2. cbn [BTreeBase.shape]. unfold n_count in *. cbn [n_items n_cap n_children].
    rewrite !replace_at_length by lia. split; [lia|]. split; [lia|]. split; [lia|]. split; [apply Forall_replace_at; auto | exact Cpx]. }
  assert (E2 : nth_error (n_children nd2) j = Some lch') by (apply replace_at_nth_error; exact Hjc).
  assert (P2 : pre nd2 j = pre nd j).
  { unfold nd2. rewrite pre_Node. unfold pre. rewrite firstn_map', !firstn_replace_at, <- firstn_map' by lia. reflexivity. }
  assert (Q2 : post nd2 j = x :: tl (post nd j)).
  { unfold nd2. rewrite post_Node. unfold post. rewrite skipn_map', skipn_S_replace_at, skipn_replace_at by lia.
    rewrite (skipn_head' _ _ _ Ek). cbn [tailpart tl]. rewrite skipn_map'. reflexivity. }
  pose proof S2 as (_ & _ & L2 & _).
  split; [exact S2|]. split; [|split].
  - rewrite (flatten_split nd2 j lch' L2 E2), P2, Q2. reflexivity.
  - unfold nd2. cbn [n_children]. apply nth_error_replace_other; lia.
  - assert (Hj2 : j < n_count nd2) by (unfold nd2, n_count; cbn [n_items]; rewrite replace_at_length; lia).
    rewrite (pre_snoc nd2 j lch' L2 E2 Hj2), P2. f_equal. f_equal.
    unfold nd2. cbn [n_items]. rewrite (nth_error_nth' _ _ _ 0%Z (replace_at_nth_error j x _ Hjk)). reflexivity.
Qed.

Lemma valid_of_node p : forall d n nd j, valid d p n 0 -> node_at p n = Some nd -> j <= n_count nd -> valid d p n j.
Proof.
  induction p as [|c p IH]; intros d n nd j V E H.
  - simpl in *. inversion E; subst; auto.
  - destruct (valid_cons _ _ _ _ _ V) as (d' & ch & -> & Ec & V'). cbn [node_at valid] in *. rewrite Ec in *. eauto.
Qed.

Lemma valid_0 p : forall d n j, valid d p n j -> valid d p n 0.
Proof.
  induction p as [|c p IH]; intros d n j V; [simpl; lia|].
  destruct (valid_cons _ _ _ _ _ V) as (d' & ch & -> & Ec & V'). cbn [valid]. rewrite Ec. eauto.
Qed.

End Rem2.
