(* C20 -- executable model of momo::stdish::unsynchronized_pool_allocator (stdish/pool_allocator.h:56-184).

   The model describes what the code DOES, branch by branch:
     - every allocator object ("handle") holds a shared_ptr to a MemPool ("pool"); rebound copies share it;
     - allocate(n)   (lines 111-127): n == 1 and the pool's block parameters equal the parameters of the
                     handle's value type -> pool; n == 1, not equal but the pool is IDLE (allocate count 0)
                     -> the pool object is replaced by a fresh MemPool with the new parameters (line 119),
                     then pool; otherwise raw memory from the base allocator, size n * sizeof(value_type);
     - deallocate(p, n) (lines 129-134): decides pool vs raw by the SAME test evaluated at deallocation
                     time (n == 1 and parameters equal), it does not know where p came from;
     - copy ctor / rebinding conversion share the pool (refcount + 1), operator= re-seats the shared_ptr,
       select_on_container_copy_construction makes a brand-new pool, the destructor of the last owner
       destroys the MemPool, which returns all its buffers (and the shared_ptr control block, which
       allocate_shared took from the same base allocator).
   The inside of MemPool (buffers of 32 blocks, free-block cache) is property C09; here a pool only counts
   the base buffers it holds ([pheld]); how many buffers one pool Allocate/Deallocate acquires/releases is
   an input annotation of the operation ([grow]/[shrink], observed on the real run), while everything the
   allocator decides itself (routing, re-parameterisation, what is released when) is computed.

   The block-size correction is NOT hand-written: [get_params] calls the cxx2coq-generated
   Gen_MemPoolConst.CorrectBlockSize (MemPool.h:43-49), regenerated from /repo on every run. *)
From Coq Require Import ZArith List Bool Arith Lia.
From MomoCommon Require Import GenPrelude.
From C20 Require Gen_UIntMath Gen_MemPoolConst Gen_MemPool Gen_PoolAllocator.
Import ListNotations.
Local Open Scope Z_scope.

(* value type of an allocator instantiation: sizeof(value_type), ObjectAlignmenter<value_type>::alignment *)
Record vtype := mkVt { vsize : Z; valign : Z }.
Definition vt_eqb (a b : vtype) : bool := (vsize a =? vsize b) && (valign a =? valign b).

(* MemPoolParams<blockCount, cachedFreeBlockCount>: run-time part (blockSize, blockAlignment) *)
Definition params := (Z * Z)%type.

(* the compile-time part of TMemPoolParams: the model and every theorem are for ALL values; the harness runs
   <32,16> (default), <4,0> (no cache), <1,2> (one block per buffer) and <127,1> *)
Record pcfg := mkCfg { block_count : Z; cached_free_block_count : Z }.
Definition cfg_default : pcfg := mkCfg 32 16.

(* pvIsEqual (175-180) *)
Definition params_eqb (p q : params) : bool := (fst p =? fst q) && (snd p =? snd q).

Inductive tag := Pooled (q : params) | RawMem (size : Z).
Definition tag_eqb (a b : tag) : bool :=
  match a, b with
  | Pooled p, Pooled q => params_eqb p q
  | RawMem s, RawMem t => s =? t
  | _, _ => false
  end.
Definition is_pooled (t : tag) : bool := match t with Pooled _ => true | RawMem _ => false end.

Record pool := mkPool {
  pparams : params;    (* MemPool::Params of the shared pool object *)
  pcount : nat;        (* MemPool::GetAllocateCount() *)
  prefs : nat;         (* shared_ptr use_count *)
  pheld : nat;         (* base buffers currently held by the MemPool (abstract; C09 owns the policy) *)
  palive : bool        (* the MemPool object (and its control block) exists *)
}.

Record block := mkBlock {
  balive : bool;
  bpool : nat;         (* pool of the allocator it was obtained from *)
  bvt : vtype;         (* value type of the allocator it was obtained from *)
  bn : Z;              (* count argument of allocate *)
  btag : tag           (* where it really came from *)
}.

Record handle := mkHandle { halive : bool; hpool : nat; hvt : vtype }.

Record state := mkState {
  pools : nat -> pool;     npools : nat;
  handles : nat -> handle; nhandles : nat;
  blocks : nat -> block;   nblocks : nat;
  cached : nat -> nat      (* per pool: MemPool::mCachedCount, freed blocks parked in the pool's cache *)
}.

Definition dead_pool : pool := mkPool (0, 0) 0 0 0 false.
Definition dead_handle : handle := mkHandle false 0 (mkVt 0 0).
Definition dead_block : block := mkBlock false 0 (mkVt 0 0) 0 (RawMem 0).
Definition init : state := mkState (fun _ => dead_pool) 0 (fun _ => dead_handle) 0 (fun _ => dead_block) 0 (fun _ => O).

Definition updn {A} (f : nat -> A) (i : nat) (v : A) : nat -> A := fun j => if Nat.eqb j i then v else f j.

Definition set_pool (st : state) (p : nat) (x : pool) : state :=
  mkState (updn (pools st) p x) (npools st) (handles st) (nhandles st) (blocks st) (nblocks st) (cached st).
Definition set_handle (st : state) (h : nat) (x : handle) : state :=
  mkState (pools st) (npools st) (updn (handles st) h x) (nhandles st) (blocks st) (nblocks st) (cached st).
Definition set_block (st : state) (b : nat) (x : block) : state :=
  mkState (pools st) (npools st) (handles st) (nhandles st) (updn (blocks st) b x) (nblocks st) (cached st).
Definition set_cached (st : state) (p : nat) (c : nat) : state :=
  mkState (pools st) (npools st) (handles st) (nhandles st) (blocks st) (nblocks st) (updn (cached st) p c).
Definition push_pool (st : state) (x : pool) : state :=
  mkState (updn (pools st) (npools st) x) (S (npools st)) (handles st) (nhandles st) (blocks st) (nblocks st) (cached st).
Definition push_handle (st : state) (x : handle) : state :=
  mkState (pools st) (npools st) (updn (handles st) (nhandles st) x) (S (nhandles st)) (blocks st) (nblocks st) (cached st).
Definition push_block (st : state) (x : block) : state :=
  mkState (pools st) (npools st) (handles st) (nhandles st) (updn (blocks st) (nblocks st) x) (S (nblocks st)) (cached st).

(* what one operation did, as observable from outside *)
Record obs := mkObs {
  o_dest : option tag;     (* allocate: where the block came from; deallocate: where it was sent *)
  o_origin : option tag;   (* deallocate: where the block had come from *)
  o_pool : nat;            (* pool concerned (after the operation) *)
  o_allocs : nat;          (* base-allocator allocations performed by the operation *)
  o_frees : nat;           (* base-allocator deallocations performed by the operation *)
  o_reparam : bool         (* the idle pool was re-parameterised (line 119) *)
}.

Inductive op :=
| OpNew (vt : vtype)                                 (* explicit ctor from a base allocator, 76-79 *)
| OpCopy (h : nat)                                   (* copy ctor, 81-84 *)
| OpMove (h : nat)                                   (* construction from an rvalue allocator: NO move constructor is
                                                        declared (the user-declared copy operations suppress it), so this
                                                        selects the copy constructor: source keeps its pool *)
| OpRebind (h : nat) (vt : vtype)                    (* conversion to another value type, 94-99 *)
| OpSocc (h : nat)                                   (* select_on_container_copy_construction, 106-109 *)
| OpAssign (hd hs : nat)                             (* operator=, 88-92 *)
| OpDestroy (h : nat)                                (* ~unsynchronized_pool_allocator, 86 *)
| OpAlloc (h : nat) (n : Z) (grow : nat)             (* allocate, 111-127 *)
| OpDealloc (h : nat) (b : nat) (n : Z) (shrink : nat) (* deallocate, 129-134 *)
| OpAllocFail (h : nat) (n : Z) (grow : nat)         (* allocate in which the base allocator throws after the pool
                                                        obtained [grow] buffers *)
| OpElem (h : nat)                                   (* construct / destroy (137-148): element life time only *)
| OpQuery (h1 h2 : nat)                              (* operator== / != (150-160), get_base_allocator (101): read only *)
| OpSoccFail (h : nat).                              (* select_on_container_copy_construction in which allocate_shared throws *)

(* shared_ptr release: the last owner destroys the MemPool.  ~MemPool (MemPool.h:228-235) has
   MOMO_EXTRA_CHECK(allocCount == 0) and then returns every buffer; the control block obtained by
   allocate_shared goes back to the same base allocator. *)
Definition release (st : state) (p : nat) : outcome (state * nat) :=
  let P := pools st p in
  match prefs P with
  | S O =>
      if Nat.eqb (pcount P) 0
      then Ok (set_pool st p (mkPool (pparams P) 0 0 0 false), S (pheld P))
      else Stuck
  | r => Ok (set_pool st p (mkPool (pparams P) (pcount P) (pred r) (pheld P) (palive P)), O)
  end.

Definition acquire (st : state) (p : nat) : state :=
  let P := pools st p in
  set_pool st p (mkPool (pparams P) (pcount P) (S (prefs P)) (pheld P) (palive P)).

Section Cfg.
Variable cfg : pcfg.

(* pvGetMemPoolParams (169-173) -> MemPoolParams(blockSize, blockAlignment) (MemPool.h:78-83): GENERATED CorrectBlockSize *)
Definition get_params (vt : vtype) : params :=
  (Gen_MemPoolConst.CorrectBlockSize (vsize vt) (valign vt) (block_count cfg), valign vt).

(* pvUseCache (MemPool.h:455-458): the GENERATED function, on the pool's current parameters *)
Definition use_cache (P : pool) : bool :=
  Gen_MemPool.pvUseCache (cached_free_block_count cfg) (fst (pparams P)) (snd (pparams P)).
(* MemPool::Allocate (281-303) takes a parked block, without touching the base allocator, when the cache is not empty *)
Definition from_cache (st : state) (p : nat) : bool := use_cache (pools st p) && negb (Nat.eqb (cached st p) 0).

(* the decision part of allocate (111-127) and deallocate (129-134), as separate functions: proved equal to the
   cxx2coq-GENERATED Gen_PoolAllocator.allocate / deallocate (PoolAllocProofs: gen_allocate_refines, gen_deallocate_refines)
   and to what [step] does (step_alloc_follows_decision, step_dealloc_follows_decision) *)
Inductive adec := APool (recreate : bool) | ARaw (size : Z).
Definition alloc_decision (vt : vtype) (P : pool) (n : Z) : adec :=
  if n =? 1 then
    let equal := params_eqb (get_params vt) (pparams P) in
    if negb equal && Nat.eqb (pcount P) 0 then APool true
    else if equal then APool false
    else ARaw (n * vsize vt)
  else ARaw (n * vsize vt).
Inductive ddec := DPool | DRaw (size : Z).
Definition dealloc_decision (vt : vtype) (P : pool) (n : Z) : ddec :=
  if (n =? 1) && params_eqb (get_params vt) (pparams P) then DPool else DRaw (n * vsize vt).

(* operator== (150-154): two allocators are equal iff they share the pool *)
Definition alloc_eq (st : state) (h1 h2 : nat) : bool := Nat.eqb (hpool (handles st h1)) (hpool (handles st h2)).

(* the pool side of a pooled allocate / deallocate on (GetAllocateCount, mCachedCount): what MemPool::Allocate (281-303) and
   MemPool::Deallocate (305-323) do to these two fields; proved equal to the cxx2coq-GENERATED Gen_MemPoolOps.Allocate /
   Deallocate / pvFlushDeallocate (PoolAllocProofs: gen_pool_Allocate_refines, gen_pool_Deallocate_refines) and to what
   [step] does (step_alloc_pool_counts, step_dealloc_pool_counts) *)
Definition pool_allocate_counts (P : pool) (c : nat) : nat * nat :=
  (S (pcount P), if use_cache P && negb (Nat.eqb c 0) then pred c else c).
Definition pool_deallocate_counts (P : pool) (c : nat) : option (nat * nat) :=
  match pcount P with
  | O => None                                         (* MOMO_ASSERT(allocCount > 0) *)
  | S k => Some (k, if use_cache P
                    then S (if Z.leb (cached_free_block_count cfg) (Z.of_nat c) then O else c)
                    else c)
  end.

Definition new_pool (vt : vtype) : pool := mkPool (get_params vt) 0 1 0 true.

Definition step (st : state) (o : op) : outcome (state * obs) :=
  match o with
  | OpNew vt =>
      (* allocate_shared<MemPool>(alloc, pvGetMemPoolParams(), MemManager(alloc)): one base allocation *)
      let p := npools st in
      Ok (push_handle (push_pool st (new_pool vt)) (mkHandle true p vt),
          mkObs None None p 1 0 false)
  | OpCopy h =>
      let H := handles st h in
      Ok (push_handle (acquire st (hpool H)) (mkHandle true (hpool H) (hvt H)),
          mkObs None None (hpool H) 0 0 false)
  | OpMove h =>
      let H := handles st h in
      Ok (push_handle (acquire st (hpool H)) (mkHandle true (hpool H) (hvt H)),
          mkObs None None (hpool H) 0 0 false)
  | OpRebind h vt =>
      let H := handles st h in
      Ok (push_handle (acquire st (hpool H)) (mkHandle true (hpool H) vt),
          mkObs None None (hpool H) 0 0 false)
  | OpSocc h =>
      (* unsynchronized_pool_allocator(get_base_allocator()): a new pool for the SAME value type *)
      let H := handles st h in
      let p := npools st in
      Ok (push_handle (push_pool st (new_pool (hvt H))) (mkHandle true p (hvt H)),
          mkObs None None p 1 0 false)
  | OpAssign hd hs =>
      (* mMemPool = alloc.mMemPool : shared_ptr copy-assignment = acquire source, release old *)
      let Hd := handles st hd in
      let Hs := handles st hs in
      match release (acquire st (hpool Hs)) (hpool Hd) with
      | Ok (st1, fr) =>
          Ok (set_handle st1 hd (mkHandle true (hpool Hs) (hvt Hd)), mkObs None None (hpool Hs) 0 fr false)
      | Stuck => Stuck | Fuel => Fuel | Exn => Exn
      end
  | OpDestroy h =>
      let H := handles st h in
      match release st (hpool H) with
      | Ok (st1, fr) =>
          Ok (set_handle st1 h (mkHandle false (hpool H) (hvt H)), mkObs None None (hpool H) 0 fr false)
      | Stuck => Stuck | Fuel => Fuel | Exn => Exn
      end
  | OpAlloc h n grow =>
      let H := handles st h in
      let p := hpool H in
      let P := pools st p in
      let raw :=
        (* 125-126: MemManagerProxy::Allocate(memManager, count * sizeof(value_type)) *)
        let t := RawMem (n * vsize (hvt H)) in
        Ok (push_block st (mkBlock true p (hvt H) n t), mkObs (Some t) None p 1 0 false) in
      if n =? 1 then
        let mp := get_params (hvt H) in                       (* 115 *)
        let equal := params_eqb mp (pparams P) in             (* 116 *)
        if negb equal && Nat.eqb (pcount P) 0 then            (* 117 *)
          (* 119: *mMemPool = MemPool(mp, ...): the old (idle) MemPool is destroyed and returns its
             buffers; 123: Allocate from the new one *)
          (* the parked blocks of the old parameter set die with the old MemPool: the new one starts with an
             empty cache *)
          let P' := mkPool mp 1 (prefs P) grow (palive P) in
          Ok (set_cached (push_block (set_pool st p P') (mkBlock true p (hvt H) n (Pooled mp))) p 0,
              mkObs (Some (Pooled mp)) None p grow (pheld P) true)
        else if equal then                                    (* 122-123 *)
          let g := if from_cache st p then O else grow in     (* MemPool.h:284-289 vs 291-299 *)
          let c := if from_cache st p then pred (cached st p) else cached st p in
          let P' := mkPool (pparams P) (S (pcount P)) (prefs P) (pheld P + g) (palive P) in
          Ok (set_cached (push_block (set_pool st p P') (mkBlock true p (hvt H) n (Pooled (pparams P)))) p c,
              mkObs (Some (Pooled (pparams P))) None p g 0 false)
        else raw
      else raw
  | OpDealloc h b n shrink =>
      let H := handles st h in
      let p := hpool H in
      let P := pools st p in
      let B := blocks st b in
      let dead := mkBlock false (bpool B) (bvt B) (bn B) (btag B) in
      let orig := if balive B then Some (btag B) else None in
      if (n =? 1) && params_eqb (get_params (hvt H)) (pparams P) then     (* 131 *)
        (* 132: mMemPool->Deallocate(ptr): MOMO_ASSERT(allocCount > 0) *)
        match pcount P with
        | O => Stuck
        | S c =>
            (* MemPool.h:305-323: with a cache the block is parked; a full cache (16) is flushed first; only a
               flush, or the cache-less path, hands blocks back to buffers and may release a buffer *)
            let flush := Z.leb (cached_free_block_count cfg) (Z.of_nat (cached st p)) in
            let fr := if use_cache P && negb flush then O else Nat.min shrink (pheld P) in
            let k := if use_cache P then S (if flush then O else cached st p) else cached st p in
            let P' := mkPool (pparams P) c (prefs P) (pheld P - fr) (palive P) in
            Ok (set_cached (set_block (set_pool st p P') b dead) p k,
                mkObs (Some (Pooled (pparams P))) orig p 0 fr false)
        end
      else
        (* 133: MemManagerProxy::Deallocate(memManager, ptr, count * sizeof(value_type)) *)
        Ok (set_block st b dead, mkObs (Some (RawMem (n * vsize (hvt H)))) orig p 0 1 false)
  | OpAllocFail h n grow =>
      (* the base allocator throws inside allocate(): no block is handed out.  Raw path: nothing happened.
         Pool path: MemPool::Allocate increments allocCount only after the block exists (line 300), so the
         count is unchanged, but buffers obtained before the throw stay with the pool; and line 119 has
         ALREADY replaced an idle pool of other parameters by a fresh one (old buffers and cache gone). *)
      let H := handles st h in
      let p := hpool H in
      let P := pools st p in
      let nothing := Ok (st, mkObs None None p 0 0 false) in
      if n =? 1 then
        let mp := get_params (hvt H) in
        let equal := params_eqb mp (pparams P) in
        if negb equal && Nat.eqb (pcount P) 0 then
          Ok (set_cached (set_pool st p (mkPool mp 0 (prefs P) grow (palive P))) p 0,
              mkObs None None p grow (pheld P) true)
        else if equal then
          if from_cache st p then Stuck      (* no base allocation on this path: it cannot fail *)
          else Ok (set_pool st p (mkPool (pparams P) (pcount P) (prefs P) (pheld P + grow) (palive P)),
                   mkObs None None p grow 0 false)
        else nothing
      else nothing
  | OpElem h => Ok (st, mkObs None None (hpool (handles st h)) 0 0 false)
  | OpQuery h1 h2 => Ok (st, mkObs None None (hpool (handles st h1)) 0 0 false)
  | OpSoccFail h =>
      (* the base allocator throws while the new pool is created (106-109): nothing exists yet, nothing changes.  The
         exception can only reach the caller if the function is not noexcept - the flag is GENERATED from the declaration
         (Gen_PoolAllocator.select_on_container_copy_construction_noexcept; /repo fix f8cb4ff); otherwise std::terminate. *)
      if Gen_PoolAllocator.select_on_container_copy_construction_noexcept then Stuck
      else Ok (st, mkObs None None (hpool (handles st h)) 0 0 false)
  end.

Fixpoint run (st : state) (ops : list op) : outcome (state * list obs) :=
  match ops with
  | [] => Ok (st, [])
  | o :: r =>
      match step st o with
      | Ok (st1, ob) =>
          match run st1 r with
          | Ok (st2, obs) => Ok (st2, ob :: obs)
          | Stuck => Stuck | Fuel => Fuel | Exn => Exn
          end
      | Stuck => Stuck | Fuel => Fuel | Exn => Exn
      end
  end.

(* a deallocation went back to where the block came from *)
Definition routed_ok (o : obs) : bool :=
  match o_origin o, o_dest o with
  | Some a, Some b => tag_eqb a b
  | Some _, None => false
  | None, _ => true
  end.

(* ---------------------------------------------------------------------------------------------------
   Client protocol (what every std container guarantees: the Cpp17Allocator requirements) *)
Definition handle_ok (st : state) (h : nat) : bool := Nat.ltb h (nhandles st) && halive (handles st h).

Definition allb (n : nat) (f : nat -> bool) : bool := forallb f (seq 0 n).

(* no live block was obtained through pool p *)
Definition no_blocks_of (st : state) (p : nat) : bool :=
  allb (nblocks st) (fun i => negb (balive (blocks st i) && Nat.eqb (bpool (blocks st i)) p)).

Definition proto_ok (st : state) (o : op) : bool :=
  match o with
  | OpNew vt => true
  | OpCopy h => handle_ok st h
  | OpMove h => handle_ok st h
  | OpRebind h vt => handle_ok st h
  | OpSocc h => handle_ok st h
  | OpAssign hd hs =>
      handle_ok st hd && handle_ok st hs && vt_eqb (hvt (handles st hd)) (hvt (handles st hs)) &&
      (* the allocator that loses its pool no longer owns memory from it unless somebody else shares it *)
      (Nat.eqb (hpool (handles st hd)) (hpool (handles st hs)) ||
       negb (Nat.eqb (prefs (pools st (hpool (handles st hd)))) 1) ||
       no_blocks_of st (hpool (handles st hd)))
  | OpDestroy h =>
      handle_ok st h &&
      (negb (Nat.eqb (prefs (pools st (hpool (handles st h)))) 1) || no_blocks_of st (hpool (handles st h)))
  | OpAlloc h n grow => handle_ok st h && (1 <=? n)      (* allocate(0) trips MOMO_ASSERT(size > 0) in MemManagerProxy::Allocate *)
  | OpDealloc h b n shrink =>
      (* deallocate(p, n): p was returned by allocate(n) of an EQUAL allocator (same pool) of the same type *)
      let B := blocks st b in
      handle_ok st h && Nat.ltb b (nblocks st) && balive B &&
      Nat.eqb (bpool B) (hpool (handles st h)) && vt_eqb (bvt B) (hvt (handles st h)) && (bn B =? n)
  | OpSoccFail h => handle_ok st h
  | OpElem h => handle_ok st h
  | OpQuery h1 h2 => handle_ok st h1 && handle_ok st h2
  | OpAllocFail h n grow =>
      (* a failure needs a base allocation: not the take-from-cache path *)
      handle_ok st h && (1 <=? n) &&
      negb ((n =? 1) && params_eqb (get_params (hvt (handles st h))) (pparams (pools st (hpool (handles st h)))) &&
            from_cache st (hpool (handles st h)))
  end.

(* Hypothesis H, as a monitor: a single-object request made while a pooled block of the same pool is
   outstanding uses that block's parameter set.  (Stated over the live blocks, not over the pool.) *)
Definition h_ok (st : state) (o : op) : bool :=
  match o with
  | OpAlloc h n grow =>
      if n =? 1 then
        let H := handles st h in
        allb (nblocks st) (fun i =>
          let B := blocks st i in
          if balive B && Nat.eqb (bpool B) (hpool H) then
            match btag B with Pooled q => params_eqb (get_params (hvt H)) q | RawMem _ => true end
          else true)
      else true
  | _ => true
  end.

(* sane value types (only used by the block-size lemma, the routing theorems hold for ALL vtypes) *)
Definition vt_ok (vt : vtype) : bool := (0 <? vsize vt) && (vsize vt <? 2 ^ 32) && (0 <? valign vt) && (valign vt <=? 1024).

(* a history all of whose steps respect the protocol (and, optionally, H) at the state they run in *)
Fixpoint good (useH : bool) (st : state) (ops : list op) : bool :=
  match ops with
  | [] => true
  | o :: r =>
      proto_ok st o && (negb useH || h_ok st o) &&
      match step st o with
      | Ok (st1, _) => good useH st1 r
      | _ => true
      end
  end.

(* base-allocator blocks outstanding according to the model: control block + buffers of every living
   pool, plus every live raw block *)
Fixpoint sumn (n : nat) (f : nat -> nat) : nat :=
  match n with O => O | S k => sumn k f + f k end.
Definition pool_out (P : pool) : nat := if palive P then S (pheld P) else O.
Definition raw_out (B : block) : nat := if balive B && negb (is_pooled (btag B)) then 1%nat else O.
Definition outstanding (st : state) : nat :=
  (sumn (npools st) (fun p => pool_out (pools st p)) + sumn (nblocks st) (fun b => raw_out (blocks st b)))%nat.

(* std::swap(a, b) on two allocators of the same type (no move operations are declared, so copies):
   Alloc tmp(std::move(a)); a = std::move(b); b = std::move(tmp); ~tmp *)
Definition swap_ops (st : state) (h1 h2 : nat) : list op :=
  [OpMove h1; OpAssign h1 h2; OpAssign h2 (nhandles st); OpDestroy (nhandles st)].

End Cfg.
