(* Property C17 -- theorems only.  Each is closed by `exact <lemma>` and followed by Print Assumptions.
   Gen_Leaves.v (pvMultShift, pvGetStepCount, pvCompare) is regenerated from HashSorter.h on every run; the
   search functions are the hand model SorterSearch.v instantiated with those leaves (Instance.v), which is
   also what is extracted and run against the real C++. *)
From Coq Require Import ZArith List Bool.
From MomoCommon Require Import GenPrelude.
From C17 Require Gen_Leaves Leaves_Proofs SorterSearch Search_Proofs Instance.
Import ListNotations.
Local Open Scope Z_scope.

(* pvMultShift(h, n) (the split 32x32-bit variant compiled on this target) never exceeds floor(h*n/2^64) and
   is therefore a valid index < n for every 64-bit h and every n > 0: the interpolation probe is in range. *)
Theorem C17_multshift_lt : forall h n, 0 <= h < 2 ^ 64 -> 0 < n < 2 ^ 64 ->
  0 <= Gen_Leaves.pvMultShift h n <= (h * n) / 2 ^ 64 /\ Gen_Leaves.pvMultShift h n < n.
Proof. exact Leaves_Proofs.multshift_lt. Qed.
Print Assumptions C17_multshift_lt.

(* it is an under-approximation, not the exact floor (documented, harmless: only a probe position) *)
Theorem C17_multshift_not_exact :
  exists h n, 0 <= h < 2 ^ 64 /\ 0 < n < 2 ^ 64 /\ Gen_Leaves.pvMultShift h n < (h * n) / 2 ^ 64.
Proof. exact Leaves_Proofs.multshift_not_exact. Qed.
Print Assumptions C17_multshift_not_exact.

(* pvBinarySearch / pvExponentialSearch over ANY comparer that is defined on [0,n): they terminate within
   the fuel, call the comparer only on [0,n) (otherwise the result would be Stuck), and return an index in
   [0,n]; found -> comparer is 0 there; for a sorted comparer not-found -> partition point. *)
Theorem C17_binary_search_spec : forall cmp c n, Search_Proofs.cmp_ok cmp c n -> 0 <= n < 2 ^ 62 ->
  exists k b, SorterSearch.pvBinarySearch cmp n = Ok (k, b) /\ Search_Proofs.sres c n k b.
Proof. exact Search_Proofs.pvBinarySearch_spec. Qed.
Print Assumptions C17_binary_search_spec.

Theorem C17_exponential_search_spec : forall cmp c n, Search_Proofs.cmp_ok cmp c n -> 0 <= n < 2 ^ 62 ->
  exists k b, SorterSearch.pvExponentialSearch cmp n = Ok (k, b) /\ Search_Proofs.sres c n k b.
Proof. exact Search_Proofs.pvExponentialSearch_spec. Qed.
Print Assumptions C17_exponential_search_spec.

(* pvFindHash on EVERY array (sorted or not, any count < 2^62 including 0) returns Ok: every hash it reads
   is at an index in [0,count) (rdh would give Stuck otherwise), it terminates, the result index is in
   [0,count]; found -> the index carries the hash; on a hash-sorted array not-found -> lower bound. *)
Theorem C17_findhash_spec : forall count hash qh,
  0 <= count < 2 ^ 62 -> (forall i, 0 <= i < count -> 0 <= hash i < 2 ^ 64) -> 0 <= qh < 2 ^ 64 ->
  exists k b, Instance.FindHash count hash qh = Ok (k, b) /\ Search_Proofs.fhres count hash qh k b.
Proof. exact Instance.FindHash_spec. Qed.
Print Assumptions C17_findhash_spec.

Theorem C17_findhash_found_iff : forall count hash qh k b,
  0 <= count < 2 ^ 62 -> (forall i, 0 <= i < count -> 0 <= hash i < 2 ^ 64) -> 0 <= qh < 2 ^ 64 ->
  Instance.FindHash count hash qh = Ok (k, b) -> Search_Proofs.sorted count hash ->
  (b = true <-> exists i, 0 <= i < count /\ hash i = qh).
Proof. exact Instance.FindHash_found_iff. Qed.
Print Assumptions C17_findhash_found_iff.

Theorem C17_findhash_empty : forall hash qh, Instance.FindHash 0 hash qh = Ok (0, false).
Proof. exact Instance.FindHash_empty. Qed.
Print Assumptions C17_findhash_empty.
