(* C01 -- the chained bucket kind BucketLimP1 (items in a memory-pool block behind a pointer; mState = (memPoolIndex << 4) | count):
   AddCrt / Remove / pvSet / WasFull / IsFull REGENERATED from HashBucketLimP1.h (Gen_LimP1_ops: the item pointer is a scalar, the
   pool block handed out by `Memory` is an opaque fresh pointer, item construction / relocation / deallocation calls are skipped,
   asserts dropped by -DNDEBUG; maxCount and Params::skipFirstMemPool symbolic) refine the list-level bucket of HashModel.v:
   AddCrt returns position `count` of the (possibly new) block = append in GetBounds order and count+1; Remove count-1 (the move of
   the last item into the hole is the skipped itemReplacer call); WasFull' = WasFull || (index(count+1) = index(maxCount)), sticky
   under Remove -- i.e. the hand model's (wf0, wfThr) rule; the state invariant `J` is preserved. *)
From Coq Require Import ZArith List Lia Bool.
From MomoCommon Require Import GenPrelude.
From C01 Require Gen_LimP1_ops.
Import ListNotations.
Local Open Scope Z_scope.

Section LimP1.
  Variable skip : bool.
  Variable maxCount : Z.
  Hypothesis Hmc : 1 <= maxCount <= 15.

  Notation idx_of := (Gen_LimP1_ops.pvGetMemPoolIndex_of skip).
  Notation M := (Gen_LimP1_ops.pvGetMemPoolIndex_of skip maxCount).
  Notation AddCrt := (Gen_LimP1_ops.AddCrt skip).
  Notation Remove := (Gen_LimP1_ops.Remove skip maxCount).
  Notation WasFull := (Gen_LimP1_ops.WasFull skip maxCount).
  Notation IsFull := (Gen_LimP1_ops.IsFull maxCount).

  (* st = idx * 16 + n; idx is the pool index of some count c >= n the bucket has been sized for; null pointer iff empty *)
  Definition J (st ptr n : Z) : Prop :=
    exists c, 1 <= c <= maxCount /\ st = idx_of c * 16 + n /\ 0 <= n <= c /\ (ptr = 0 <-> n = 0).

  Definition pack_ok : bool :=
    forallb (fun i => forallb (fun c => wrapU 8 (Z.lor (wrapU 64 (Z.shiftl (Z.of_nat i) 4)) (Z.of_nat c)) =? Z.of_nat i * 16 + Z.of_nat c) (seq 0 16)) (seq 0 16).
  Lemma pack_ok_true : pack_ok = true. Proof. vm_compute. reflexivity. Qed.
  Lemma pack idx c : 0 <= idx < 16 -> 0 <= c < 16 -> wrapU 8 (Z.lor (wrapU 64 (Z.shiftl idx 4)) c) = idx * 16 + c.
  Proof.
    intros Hi Hc. pose proof pack_ok_true as P. unfold pack_ok in P. rewrite forallb_forall in P.
    specialize (P (Z.to_nat idx) ltac:(apply in_seq; lia)). rewrite forallb_forall in P.
    specialize (P (Z.to_nat c) ltac:(apply in_seq; lia)). rewrite !Z2Nat.id in P by lia. apply Z.eqb_eq. exact P.
  Qed.
  Lemma dec_count idx n : 0 <= idx < 16 -> 0 <= n < 16 -> Z.land (idx * 16 + n) 15 = n.
  Proof. intros. change 15 with (Z.ones 4). rewrite Z.land_ones by lia. change (2 ^ 4) with 16. rewrite Z.add_comm, Z.mod_add by lia. apply Z.mod_small. lia. Qed.
  Lemma dec_idx idx n : 0 <= idx < 16 -> 0 <= n < 16 -> Z.shiftr (idx * 16 + n) 4 = idx.
  Proof. intros. rewrite Z.shiftr_div_pow2 by lia. change (2 ^ 4) with 16. rewrite Z.add_comm, Z.div_add by lia. rewrite Z.div_small by lia. lia. Qed.
  Lemma idx_range c : 1 <= c <= maxCount -> 1 <= idx_of c < 16 /\ c <= idx_of c.
  Proof. intros H. unfold Gen_LimP1_ops.pvGetMemPoolIndex_of. destruct skip; simpl; [destruct (Z.eqb_spec c 1)|]; lia. Qed.
  Lemma idx_cases c : idx_of c = if skip && (c =? 1) then 2 else c. Proof. reflexivity. Qed.

  Theorem lp1_count_isfull st ptr n : J st ptr n ->
    Gen_LimP1_ops.pvGetCount st ptr = n /\ (IsFull st ptr = true <-> n = maxCount).
  Proof.
    intros [c [Hc [E [Hn _]]]]. destruct (idx_range c Hc) as [Hi _]. unfold Gen_LimP1_ops.IsFull, Gen_LimP1_ops.pvGetCount. subst st.
    rewrite dec_count by lia. split; auto. apply Z.eqb_eq.
  Qed.

  Theorem lp1_init st0 ptr0 : let '(st, ptr) := Gen_LimP1_ops.pvSet st0 ptr0 0 (idx_of 1) 0 in
    J st ptr 0 /\ WasFull st ptr = (idx_of 1 =? M).
  Proof.
    unfold Gen_LimP1_ops.pvSet. cbv zeta. destruct (idx_range 1 ltac:(lia)) as [Hi _]. rewrite pack by lia. split.
    - exists 1. split; [lia|]. split; auto. split; [lia|]. tauto.
    - unfold Gen_LimP1_ops.WasFull, Gen_LimP1_ops.pvGetMemPoolIndex. rewrite dec_idx by lia. reflexivity.
  Qed.

  Theorem lp1_addcrt st ptr n mem : J st ptr n -> n < maxCount -> mem <> 0 ->
    exists pos st' ptr', AddCrt st ptr mem mem = Ok (pos, st', ptr') /\ J st' ptr' (n + 1) /\ pos = ptr' + n /\ (ptr' = ptr \/ ptr' = mem) /\
      WasFull st' ptr' = WasFull st ptr || (idx_of (n + 1) =? M).
  Proof.
    intros [c [Hc [E [Hn Hp]]]] Hlt Hmem. destruct (idx_range c Hc) as [Hi Hci].
    assert (P64 : 2 ^ 64 = 18446744073709551616) by reflexivity.
    unfold Gen_LimP1_ops.AddCrt, Gen_LimP1_ops.pvGetItems, Gen_LimP1_ops.pvGetMemPoolIndex, Gen_LimP1_ops.pvGetCount, Gen_LimP1_ops.pvSet,
      Gen_LimP1_ops.WasFull, Gen_LimP1_ops.pvGetMemPoolIndex. cbv zeta. subst st.
    rewrite dec_idx by lia. rewrite dec_count by lia.
    destruct (Z.eqb_spec ptr 0) as [P0|P0].
    - assert (n = 0) by tauto. subst n. rewrite pack by lia.
      eexists _, _, _. split; [reflexivity|]. rewrite dec_idx by lia. split; [|split; [lia|split; [auto|]]].
      + exists c. split; auto. split; [reflexivity|]. split; [lia|]. split; intros; [contradiction|lia].
      + (* idx_of 1 = M -> idx_of c = M *)
        destruct (Z.eqb_spec (idx_of c) M) as [A|A]; auto. simpl. symmetry. apply Z.eqb_neq. intro B. apply A.
        rewrite !idx_cases in *. destruct skip; simpl in *; [destruct (Z.eqb_spec c 1), (Z.eqb_spec maxCount 1)|]; lia.
    - assert (n <> 0) by tauto.
      destruct (Z.eqb_spec n (idx_of c)) as [G|G].
      + (* the block is full: a block of the next pool *)
        assert (Hc1 : idx_of c = c) by (rewrite idx_cases in *; destruct skip; simpl in *; [destruct (Z.eqb_spec c 1)|]; lia).
        rewrite (wrapU_small 64 (n + 1)) by lia. destruct (idx_range (n + 1) ltac:(lia)) as [Hi' _]. rewrite pack by lia.
        eexists _, _, _. split; [reflexivity|]. rewrite dec_idx by lia. split; [|split; [lia|split; [auto|]]].
        * exists (n + 1). split; [lia|]. split; [reflexivity|]. split; [lia|]. split; intros; [contradiction|lia].
        * destruct (Z.eqb_spec (idx_of c) M) as [A|A]; auto. exfalso.
          rewrite Hc1 in A. rewrite idx_cases in A. destruct skip; simpl in *; [destruct (Z.eqb_spec maxCount 1)|]; lia.
      + (* room in the block: in place *)
        rewrite (wrapU_small 8 (idx_of c * 16 + n + 1)) by (simpl; lia). replace (idx_of c * 16 + n + 1) with (idx_of c * 16 + (n + 1)) by lia.
        eexists _, _, _. split; [reflexivity|]. rewrite dec_idx by lia. split; [|split; [lia|split; [auto|]]].
        * destruct (Z.eq_dec n c) as [->|Hne].
          -- (* skipFirstMemPool, one item in a two-item block *)
             assert (Hs : skip = true /\ c = 1) by (rewrite idx_cases in G; destruct skip; simpl in *; [destruct (Z.eqb_spec c 1)|]; try lia; auto).
             destruct Hs as [Hs ->]. exists 2. split; [lia|]. rewrite !idx_cases. rewrite Hs. simpl. split; [reflexivity|]. split; [lia|]. split; intros; [contradiction|lia].
          -- exists c. split; auto. split; [reflexivity|]. split; [lia|]. split; intros; [contradiction|lia].
        * destruct (Z.eqb_spec (idx_of c) M) as [A|A]; auto. simpl. symmetry. apply Z.eqb_neq. intro B. apply A.
          rewrite !idx_cases in *. destruct skip; simpl in *;
            [destruct (Z.eqb_spec c 1), (Z.eqb_spec maxCount 1), (Z.eqb_spec (n + 1) 1)|]; lia.
  Qed.

  Theorem lp1_remove st ptr n iter : J st ptr n -> 1 <= n ->
    exists r st' ptr', Remove st ptr iter = Ok (r, st', ptr') /\ J st' ptr' (n - 1) /\ WasFull st' ptr' = WasFull st ptr /\
      (1 < n -> ptr' = ptr /\ r = iter) /\ (n = 1 -> ptr' = 0 /\ r = 0).
  Proof.
    intros [c [Hc [E [Hn Hp]]]] H1. destruct (idx_range c Hc) as [Hi Hci]. destruct (idx_range 1 ltac:(lia)) as [Hi1 _]. destruct (idx_range maxCount ltac:(lia)) as [HiM _].
    unfold Gen_LimP1_ops.Remove, Gen_LimP1_ops.pvGetItems, Gen_LimP1_ops.pvGetMemPoolIndex, Gen_LimP1_ops.pvGetCount, Gen_LimP1_ops.pvSet,
      Gen_LimP1_ops.WasFull, Gen_LimP1_ops.pvGetMemPoolIndex. cbv zeta. subst st.
    rewrite dec_idx by lia. rewrite dec_count by lia.
    destruct (Z.eqb_spec n 1) as [->|N1].
    - destruct (Z.eqb_spec (idx_of c) M) as [A|A]; cbn [negb].
      + rewrite pack by lia. eexists _, _, _. split; [reflexivity|]. rewrite dec_idx by lia. split; [|split; [apply Z.eqb_eq; exact A|split; [lia|auto]]].
        exists c. split; auto. split; [rewrite A; reflexivity|]. split; [lia|]. tauto.
      + rewrite pack by lia. eexists _, _, _. split; [reflexivity|]. rewrite dec_idx by lia. split; [|split; [|split; [lia|auto]]].
        * exists 1. split; [lia|]. split; [reflexivity|]. split; [lia|]. tauto.
        * (* the index falls back to index(1): WasFull stays false *)
          apply Z.eqb_neq. intro B. apply A. rewrite !idx_cases in *. destruct skip; simpl in *; [destruct (Z.eqb_spec c 1), (Z.eqb_spec maxCount 1)|]; lia.
    - rewrite (wrapU_small 8 (idx_of c * 16 + n - 1)) by (simpl; lia). replace (idx_of c * 16 + n - 1) with (idx_of c * 16 + (n - 1)) by lia.
      eexists _, _, _. split; [reflexivity|]. rewrite dec_idx by lia. split; [|split; [reflexivity|split; [auto|lia]]].
      exists c. split; auto. split; [reflexivity|]. split; [lia|]. split; intros; [|lia]. assert (n = 0) by tauto. lia.
  Qed.
End LimP1.
