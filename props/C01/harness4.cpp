// C01 harness TU 4: Open8 (and its Open2N2<3> fallback), more item sizes / categories on the default buckets
#include "c01_harness.h"
using namespace momo;
typedef HashBucketOpen8 O8; typedef HashBucketLimP4<> L4;
static const Reg regs[] = {
	C01_SET("S.O8.b.f", O8, 8, 4, 0, true, false),
	C01_SET("S.O8.b.q", O8, 8, 4, 0, false, false),
	C01_MAP("M.O8.a.q", O8, 4, 4, 0, false, false),
	C01_SET("S.O8.e.q", O8, 40, 8, 0, false, false),
	C01_SET("S.O8.d.p", O8, 24, 8, 0, false, true),
	C01_SET("S.O8.f.f", O8, 16, 16, 0, true, false),
	C01_MAP("M.O8.y.q", O8, 40, 8, 2, false, false),
	C01_SET("S.L4.e.q", L4, 40, 8, 0, false, false),
	C01_SET("S.L4.f.p", L4, 16, 16, 0, false, true),
	C01_SET("S.L4.h.f", L4, 2, 2, 0, true, false),
	C01_MAP("M.L4.m.q", L4, 24, 8, 1, false, false),
	C01_SET("S.L4.x.q", L4, 8, 4, 2, false, false),
	C01_SETU("S.O8.u.n", O8),
	C01_MAPV("T.O8.b.q", O8, 8, 4, 0, false, false, StrVal),
	C01_MAPV("B.O8.c.p", O8, 8, 8, 0, false, true, BigVal),
};
// o8 <shortHash> b0 .. b6 : the order in which the REAL BucketOpen8::Find calls itemPred (which slots, in which order)
static void leaf(const std::vector<std::string>& w)
{
	typedef internal::BucketOpen8<internal::HashSetBucketItemTraits<HashSetItemTraits<uint64_t, MemManagerDefault>>> B8;
	if (w.size() != 8) { puts("?leaf"); return; }
	alignas(B8) static unsigned char buf[sizeof(B8)];
	B8* b = new (buf) B8();		// never destroyed (the destructor asserts count == 0)
	size_t sh = std::stoull(w[0]);
	for (size_t i = 0; i < 7; ++i) b->mData[i] = uint8_t(std::stoull(w[1 + i]));
	size_t hc24 = (sh * (size_t(1) << 24) + 247) / 248;		// ptCalcShortHash(hc24 << 40) == sh
	size_t hashCode = hc24 << 40;
	MemManagerDefault mm; B8::Params params(mm);
	std::string out;
	const unsigned char* base = reinterpret_cast<const unsigned char*>(&b->mItems[0]);
	auto pred = [&out, base] (const uint64_t& item)
	{
		size_t idx = size_t(reinterpret_cast<const unsigned char*>(&item) - base) / sizeof(b->mItems[0]);
		if (!out.empty()) out += ",";
		out += std::to_string(idx);
		return false;
	};
	b->template Find<true>(params, pred, hashCode);
	puts(out.c_str());
}
int main() { return c01_main(regs, sizeof(regs) / sizeof(regs[0]), &leaf); }
