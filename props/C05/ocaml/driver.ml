(* C05 model driver: the extracted Coq model (ArrayModel.run_op) runs the same scripts as harness.cpp.
   Case line:  CONT ELEM IC NM NR op op ...     (see harness.cpp for the op syntax and the output format) *)
open Zutil
open ArrayShift
open ArrayModel

let err_name = function
  | EIndex -> "EIndex" | ECap -> "ECap" | EReadMoved -> "EReadMoved" | EReadRaw -> "EReadRaw" | ECtor -> "ECtor"
  | EAssignRaw -> "EAssignRaw" | EDestroyRaw -> "EDestroyRaw" | EFuel -> "EFuel" | EDangling -> "EDangling" | EGrow -> "EGrow"

let n = nat_of_int
let arg_of kind x : int arg = if kind = "r" then ArgRef (n (int_of_string x)) else ArgVal (int_of_string x)

let parse_op0 (cnt : int) (tok : string) : int op =
  match Stdlib.String.split_on_char ':' tok with
  | ["ab"; k; x] -> OAddBack (arg_of k x)
  | ["abm"; k; x] -> OAddBackR (arg_of k x)
  | ["ins"; j; c; k; x] -> OInsert (n (int_of_string j), n (int_of_string c), arg_of k x)
  | ["ins1"; j; k; x] -> OInsert (n (int_of_string j), n 1, arg_of k x)
  | ["insm"; j; k; x] -> OInsertR (n (int_of_string j), arg_of k x)
  | ["insr"; j; vs] ->
    let l = if vs = "" then [] else Stdlib.List.map int_of_string (Stdlib.String.split_on_char ',' vs) in
    OInsertRange (n (int_of_string j), l)
  | ["insi"; j; vs] ->
    let l = if vs = "" then [] else Stdlib.List.map int_of_string (Stdlib.String.split_on_char ',' vs) in
    OInsertInput (n (int_of_string j), l)
  | ["asgr"; vs] ->
    OAssignRange (if vs = "" then [] else Stdlib.List.map int_of_string (Stdlib.String.split_on_char ',' vs))
  | ["rb"; c] -> ORemoveBack (n (int_of_string c))
  | ["clr"; b] -> OClear (b = "1")
  | ["rm"; j; c] -> ORemove (n (int_of_string j), n (int_of_string c))
  | ["rmf"; m] -> let m = int_of_string m in ORemoveFilter (fun v -> v mod m = 0)
  | ["sc"; c; k; x] -> OSetCount (n (int_of_string c), arg_of k x)
  | ["asg"; c; k; x] -> OAssign (n (int_of_string c), arg_of k x)
  | ["rs"; c] -> OReserve (n (int_of_string c))
  | ["sh"; c] -> OShrink (n (if c = "-" then cnt else int_of_string c))
  | ["set"; i; v] -> OSet (n (int_of_string i), int_of_string v)
  | _ -> failwith ("bad op " ^ tok)

let ints vs = if vs = "" then [] else Stdlib.List.map int_of_string (Stdlib.String.split_on_char ',' vs)
(* cur = the current element sequence (copy construction / copy assignment = a new array built from it) *)
let parse_op (cnt : int) (cur : int option list) (tok : string) : int op option =
  match Stdlib.String.split_on_char ':' tok with
  | ["emb"; k; x] -> Some (OAddBack (arg_of k x))                      (* AddBackVar / emplace_back *)
  | ["emi"; j; k; x] -> Some (OInsert (n (int_of_string j), n 1, arg_of k x))   (* InsertVar / emplace: always a temporary *)
  | ["insl"; j; vs] -> Some (OInsertRange (n (int_of_string j), ints vs))       (* initializer list = forward range *)
  | ["sc0"; c] -> Some (OSetCount (n (int_of_string c), ArgVal 0))     (* SetCount(n): value-initialised items *)
  | ["rm1"; j] -> Some (ORemove (n (int_of_string j), n 1))
  | ["cpc"] | ["cpa"] -> Some OCopyRound                                 (* copy construction / assignment + Swap *)
  | ["mvc"] -> Some OMoveRound                                           (* move construction + move assignment *)
  | ["swp"; _; _] -> None                                                (* swap there and back: identity *)
  | _ -> Some (parse_op0 cnt tok)

let () = iter_lines (fun line ->
  match words line with
  | ["grow"; gor; cap; mn; cause; lin] ->
    (match Gen_Grow.coq_GrowCapacity (gor = "1") (z_of_string cap) (z_of_string mn) (z_of_string cause) (lin = "1") with
     | GenPrelude.Ok r -> print_endline (string_of_z r)
     | GenPrelude.Stuck -> print_endline "Stuck" | GenPrelude.Fuel -> print_endline "Fuel" | GenPrelude.Exn -> print_endline "Exn")
  | ["gl"; fn; ns; caps; idx; cnts; iis] ->
    (* the GENERATED loops of ArrayShifter (Gen_ShiftLoops.v) on the cell function: items 10..10+n-1, an external object of value 5 at
       cell cap+5 *)
    let ni = int_of_string ns and ci = int_of_string caps in
    let items = fun j -> let k = int_of_z j in if k >= 0 && k < ni then z_of_int (10 + k) else if k = ci + 5 then z_of_int 5 else z_of_int 0 in
    let zn = z_of_string ns and zc = z_of_string caps and zi = z_of_string idx and zk = z_of_string cnts in
    let item_idx = if int_of_string iis < ni then z_of_string iis else z_of_int (ci + 5) in
    let show res = match res with
      | GenPrelude.Ok ((_, items'), cnt') ->
        let m = int_of_z cnt' in
        "ok [" ^ Stdlib.String.concat "," (Stdlib.List.init m (fun k -> string_of_z (items' (z_of_int k)))) ^ "]"
      | GenPrelude.Stuck -> "abort" | GenPrelude.Exn -> "exception" | GenPrelude.Fuel -> "fuel" in
    print_endline (match fn with
      | "remove" -> show (Gen_ShiftLoops.coq_ShiftRemove items zn zc zi zk)
      | "sremove" -> show (Gen_ShiftLoopsSeg.coq_ShiftRemove items zn zc zi zk)          (* the SegmentedArray instantiation *)
      | "sinsert" -> show (Gen_ShiftLoopsSeg.coq_ShiftInsert items zn zc zi zk item_idx)
      | "insert" -> show (Gen_ShiftLoops.coq_ShiftInsert items zn zc zi zk item_idx)
      | "aaddback" | "aaddbackm" ->
        (* Array::AddBack(const Item&) executed from the AST facts (FactsProofs.gen_add_back_f): itemBuffer in cell 2^64 + 1 *)
        let big k = z_of_string (Z.to_string (Z.add (Z.shift_left Z.one 64) (Z.of_int k))) in
        let aliased = int_of_string iis < ni in
        let it = if aliased then z_of_string iis else big 7 in
        let items2 = fun j -> if string_of_z j = string_of_z (big 7) then z_of_int 5 else items j in
        (match (if fn = "aaddbackm" then FactsProofs.gen_add_back_move_f else FactsProofs.gen_add_back_f) false items2 zn zc it (big 1) with
         | GenPrelude.Ok ((items', cnt'), _) ->
           let m = int_of_z cnt' in
           "ok [" ^ Stdlib.String.concat "," (Stdlib.List.init m (fun k -> string_of_z (items' (z_of_int k)))) ^ "]"
         | GenPrelude.Stuck -> "abort" | GenPrelude.Exn -> "exception" | GenPrelude.Fuel -> "fuel")
      | "ainsert" ->
        (* Array::Insert from the generated pieces, its branches EXECUTED FROM THE AST FACTS (FactsProofs.gen_array_insert_f): buffer at address 1000, the ItemHandler temporary
           in cell 2^64 + 1, an external item in cell 2^64 + 7 (value 5) at address 7 *)
        let big k = z_of_string (Z.to_string (Z.add (Z.shift_left Z.one 64) (Z.of_int k))) in
        let aliased = int_of_string iis < ni in
        let it = if aliased then z_of_string iis else big 7 in
        let items2 = fun j -> if string_of_z j = string_of_z (big 7) then z_of_int 5 else items j in
        let ptr = if aliased then z_of_int (1000 + int_of_string iis) else z_of_int 7 in
        (match FactsProofs.gen_array_insert_f false items2 zn zc (z_of_int 1000) zi zk it ptr (big 1) with
         | GenPrelude.Ok ((items', cnt'), _) ->
           let m = int_of_z cnt' in
           "ok [" ^ Stdlib.String.concat "," (Stdlib.List.init m (fun k -> string_of_z (items' (z_of_int k)))) ^ "]"
         | GenPrelude.Stuck -> "abort" | GenPrelude.Exn -> "exception" | GenPrelude.Fuel -> "fuel")
      | _ -> "?")
  | ["gd"; "indexof"; ns; _caps; idx; _] ->
    (* generated Array::pvIndexOf: the buffer starts at address 1000 (in items); element i, one past the end, or an object elsewhere *)
    let ni = int_of_string ns and ii = int_of_string idx in
    let ptr = if ii <= ni && (ii < ni || ni > 0 || int_of_string _caps > 0) then 1000 + ii else 7 in
    let r = Gen_IndexOf.pvIndexOf (z_of_int 1000) (z_of_string ns) (z_of_int ptr) in
    print_endline (if string_of_z r = "18446744073709551615" then "max" else string_of_z r)
  | ["gd"; "shrink"; ns; caps; _; cnts] ->
    (* generated Array::Shrink clamp, internalCapacity = 0: the capacity after Shrink(capacity) *)
    print_endline ("cap " ^ string_of_z (Gen_GuardsArray.coq_Shrink_clamp (z_of_int 0) (z_of_string ns) (z_of_string caps) (z_of_string cnts)))
  | ["gd"; "segshrink"; ns; caps; _; cnts] ->
    (* generated SegmentedArray::Shrink clamp; the capacity is then rounded up to whole segments of 4 items (cnst, logInitialItemCount = 2) *)
    let up4 k = (k + 3) / 4 * 4 in
    let segcap = up4 (max (int_of_string ns) (int_of_string caps)) in
    let r = int_of_z (Gen_GuardsSeg.coq_SegShrink_clamp (z_of_int segcap) (z_of_string ns) (z_of_string cnts)) in
    print_endline ("cap " ^ string_of_int (if r = segcap then segcap else up4 r))
  | ["gd"; fn; ns; caps; idx; cnts] ->
    (* the GENERATED guards (Gen_Guards*.v) decide accept / abort / exception; Array::Insert = prefix, then (after the
       growth the prefix asks for) the guard of InsertNogrow *)
    let zn = z_of_string ns and zc = z_of_string caps and zi = z_of_string idx and zk = z_of_string cnts in
    let word = function GenPrelude.Ok _ -> "ok" | GenPrelude.Stuck -> "abort" | GenPrelude.Exn -> "exception" | GenPrelude.Fuel -> "fuel" in
    let after_insert_nogrow newcap g =
      match Gen_GuardsShifter.coq_InsertNogrow_guard zn newcap zi zk with
      | GenPrelude.Ok _ -> "ok g=" ^ g | o -> word o in
    print_endline (match fn with
      | "remove" -> (match Gen_GuardsShifter.coq_Remove_guard zn zi zk with GenPrelude.Ok _ -> "ok g=0" | o -> word o)
      | "insnogrow" -> after_insert_nogrow zc "0"
      | "insert" ->
        (match Gen_GuardsArray.coq_Insert_prefix zn zc zi zk with
         | GenPrelude.Ok (newCount, grow) ->
           if string_of_z grow = "1" then after_insert_nogrow newCount "1" else after_insert_nogrow zc "0"
         | o -> word o)
      | "rb" -> (match Gen_GuardsArray.coq_RemoveBack_guard zn zk with GenPrelude.Ok _ -> "ok g=0" | o -> word o)
      | "abn" -> (match Gen_GuardsArray.coq_AddBackNogrowCrt_guard zn zc with GenPrelude.Ok _ -> "ok g=0" | o -> word o)
      | "idx" -> (match Gen_GuardsArray.index_guard zn zi with GenPrelude.Ok _ -> "ok g=0" | o -> word o)
      | "seginsert" ->
        (match Gen_GuardsSeg.coq_SegInsert_guard zn zi zk with
         | GenPrelude.Ok _ -> (match Gen_GuardsShifter.coq_InsertNogrow_guard zn (z_of_string "18446744073709551615") zi zk with
                               | GenPrelude.Ok _ -> "ok" | o -> word o)
         | o -> word o)
      | "segrb" -> (match Gen_GuardsSeg.coq_SegRemoveBack_guard zn zk with GenPrelude.Ok _ -> "ok" | o -> word o)
      | _ -> "?")
  | cont :: elem :: ic :: nm :: nr :: ops ->
    let is_arr = Stdlib.String.length cont >= 3 && Stdlib.String.sub cont 0 3 = "arr" in
    let is_vec = cont = "vec" in
    let icn = if is_arr || is_vec then int_of_string ic else 0 in
    let some v = Some v and none _ = None in
    let (self_move, after_move) = match elem with
      | "pod" | "cpy" -> (some, some) | "ntm" -> (some, none) | _ -> (none, none) in
    let step = run_op self_move after_move (n icn) (cont <> "arrG") (nm = "1") (nr = "1") (cont = "arrR") in
    let buf = Buffer.create 256 in
    let st = ref (array_empty (n icn)) in
    (try
      Stdlib.List.iteri (fun k tok ->
        let cnt = int_of_nat (ArrayShift.cnt (body !st)) in
        let res = match parse_op cnt (observe !st) tok with Some o -> step !st o | None -> Ok !st in
        match res with
        | Ok a ->
          st := a;
          Buffer.add_char buf '[';
          Stdlib.List.iteri (fun i o -> if i > 0 then Buffer.add_char buf ',';
                       Buffer.add_string buf (match o with Some v -> string_of_int v | None -> "M")) (observe a);
          Buffer.add_char buf ']';
          Buffer.add_char buf 'c';
          Buffer.add_string buf (if is_arr || is_vec then string_of_int (int_of_nat (cap (body a))) else "-");
          Buffer.add_char buf 'a';
          Buffer.add_string buf (if is_arr then string_of_int (int_of_nat (allocs a)) else "-");
          Buffer.add_char buf ' '
        | Err e -> Buffer.add_string buf (Printf.sprintf "ERR:%s@%d " (err_name e) k); raise Exit) ops;
      Buffer.add_string buf "twin=ok"
    with Exit -> ());
    print_endline (Buffer.contents buf)
  | _ -> print_endline "?")
