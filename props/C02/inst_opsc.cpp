// instantiation TU for cxx2coq (C02, growth round): the node operations that write the count byte, CONTINUOUS layout
#include "momo/TreeSet.h"
namespace momo {
typedef TreeSet<int, TreeTraits<int, false, TreeNode<32, 4, MemPoolParams<8>, true>, true>> InstSetC;
void c02_inst_use_c() { InstSetC s; s.Insert(1); s.Remove(s.GetBegin()); }
}
