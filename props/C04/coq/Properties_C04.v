(* Property C04 -- theorems only.  Each is closed by `exact <lemma>` and followed by Print Assumptions.
   Reading guide.  `wp m s Q E` (Effects.v) unfolds to
        match m s with (Ok a, s') => Q a s' | (Exn, s') => E s' | (Stuck, _) => False end
   i.e. for the start state s -- which contains the failure schedule, so every statement below holds for ALL
   schedules -- the mechanism never performs an undefined step, a normal return satisfies Q and an
   exceptional exit satisfies E.  `unchanged h h'` = every cell of every block, the set of live blocks, their
   sizes and all data-member registers are exactly as before (strong guarantee incl. "nothing leaked"). *)
From Coq Require Import List Arith Lia Bool.
From C04 Require Import Effects ObjMgr.
Import ListNotations.

(* ObjectManager::RelocateExec (both overloads of pvRelocateExec, ObjectManager.h:508-535), for every element
   category, every count, every pair of iterators over pairwise distinct locations and every executor that
   is itself all-or-nothing on a footprint disjoint from the ranges: on an exception (from a copy or from the
   executor) everything is as before; on success the objects are in dst, src is raw storage again. *)
Theorem relocate_exec_strong :
  forall (src dst : nat -> loc) (n : nat) (exec : M unit) (fp : loc -> Prop) (P : heap -> Prop) (R : heap -> heap -> Prop),
    exec_spec exec fp P R -> (forall j, j < n -> ~ fp (src j) /\ ~ fp (dst j)) ->
    forall c s, range_pre src dst n (hp s) -> P (hp s) ->
      wp (relocate_exec c src dst n exec) s
         (fun _ s' => moved_range src dst n fp (hp s) (hp s') /\ R (hp s) (hp s'))
         (fun s' => unchanged (hp s) (hp s')).
Proof. exact relocate_exec_spec. Qed.
Print Assumptions relocate_exec_strong.

(* the same statement in the customary form: run op s = (Exn, s') -> obs/resources s' = obs/resources s, never Stuck *)
Theorem relocate_exec_strong_explicit :
  forall (src dst : nat -> loc) (n : nat) (exec : M unit) (fp : loc -> Prop) (P : heap -> Prop) (R : heap -> heap -> Prop),
    exec_spec exec fp P R -> (forall j, j < n -> ~ fp (src j) /\ ~ fp (dst j)) ->
    forall c s, range_pre src dst n (hp s) -> P (hp s) ->
      (forall s', relocate_exec c src dst n exec s = (Exn, s') -> unchanged (hp s) (hp s')) /\
      (forall s', relocate_exec c src dst n exec s <> (Stuck, s')) /\
      (forall s', relocate_exec c src dst n exec s = (Ok tt, s') -> moved_range src dst n fp (hp s) (hp s')).
Proof. exact ObjMgr.relocate_exec_explicit. Qed.
Print Assumptions relocate_exec_strong_explicit.

(* ObjectManager::RelocateCreate (ObjectManager.h:359-366) with any all-or-nothing creator *)
Theorem relocate_create_strong :
  forall c src dst n (creator : loc -> M unit) newl fp P R s,
    exec_spec (creator newl) fp P R -> (forall j, j < n -> ~ fp (src j) /\ ~ fp (dst j)) ->
    range_pre src dst n (hp s) -> P (hp s) ->
    wp (relocate_create c src dst n creator newl) s
       (fun _ s' => moved_range src dst n fp (hp s) (hp s') /\ R (hp s) (hp s'))
       (fun s' => unchanged (hp s) (hp s')).
Proof. exact relocate_create_spec. Qed.
Print Assumptions relocate_create_strong.

(* ObjectManager::Relocate(range) (pvRelocate, ObjectManager.h:486-506): for types that are not nothrow
   relocatable it is RelocateCreate of items 1.. with "move item 0" as the creator, then Destroy(item 0) *)
Theorem relocate_range_strong :
  forall c src dst n s, range_pre src dst n (hp s) ->
    wp (relocate_range c src dst n) s
       (fun _ s' => moved_range src dst n (fun _ => False) (hp s) (hp s'))
       (fun s' => unchanged (hp s) (hp s')).
Proof. exact relocate_range_spec. Qed.
Print Assumptions relocate_range_strong.

(* ObjectManager::CopyExec (ObjectManager.h:291-305) *)
Theorem copy_exec_strong :
  forall (sl dl : loc) (v : nat) (exec : M unit) fp P R,
    exec_spec exec fp P R -> sl <> dl -> ~ fp sl -> ~ fp dl ->
    forall s, one_pre sl dl v (hp s) -> P (hp s) ->
      wp (copy_exec sl dl exec) s
         (fun _ s' => mem (hp s') dl = Live v /\ mem (hp s') sl = Live v /\
                      (forall l, ~ fp l -> l <> dl -> mem (hp s') l = mem (hp s) l) /\
                      agree (fun _ => False) (hp s) (hp s') /\ fields_same (hp s) (hp s') /\ R (hp s) (hp s'))
         (fun s' => unchanged (hp s) (hp s')).
Proof. exact copy_exec_spec. Qed.
Print Assumptions copy_exec_strong.

(* ObjectManager::MoveExec (both overloads of pvMoveExec, ObjectManager.h:392-415): on an exception every
   location other than the argument object sl is as before; sl itself is as before unless the element has a
   throwing move constructor (then it may be moved-from -- "srcObject has been changed!" in the source). *)
Theorem move_exec_strong :
  forall (sl dl : loc) (v : nat) (exec : M unit) fp P R,
    exec_spec exec fp P R -> sl <> dl -> ~ fp sl -> ~ fp dl ->
    forall c s, one_pre sl dl v (hp s) -> P (hp s) ->
      wp (move_exec c sl dl exec) s
         (fun _ s' => mem (hp s') dl = Live v /\ mem (hp s') sl = src_after c v /\
                      (forall l, ~ fp l -> l <> dl -> l <> sl -> mem (hp s') l = mem (hp s) l) /\
                      agree (fun _ => False) (hp s) (hp s') /\ fields_same (hp s) (hp s') /\ R (hp s) (hp s'))
         (fun s' => agree (fun l => l <> sl) (hp s) (hp s') /\ fields_same (hp s) (hp s') /\
                    (c <> THM -> mem (hp s') sl = mem (hp s) sl)).
Proof. exact move_exec_spec. Qed.
Print Assumptions move_exec_strong.

(* non-vacuity: the copy / move creators used by the containers are executors in the sense above *)
Theorem creator_copy_is_executor :
  forall a l v, a <> l ->
    exec_spec (creator_copy a l) (two a l)
      (fun h => valid h a = true /\ valid h l = true /\ mem h a = Live v /\ mem h l = Raw)
      (fun h h' => mem h' l = Live v /\ mem h' a = Live v).
Proof. exact creator_copy_spec. Qed.
Print Assumptions creator_copy_is_executor.
