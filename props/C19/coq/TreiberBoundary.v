(* C19 -- the boundary of the claim: the table must outlive its detached rows.
   `stepd` adds the destruction of the table (after which Crew::Data -- the atomic head `freeRaws` -- and the pool are
   gone and the owner does nothing any more) to the machine.  A disposer step that reads or CASes the head of a dead
   table is a use-after-free.
     * guaranteed: if at the moment of destruction no row is detached and no destructor is in flight, then in EVERY
       continuation no step ever touches the freed head;
     * witness: destroy the table while one row is still detached -- its destructor then loads the freed head. *)
From Coq Require Import List Arith Bool PeanoNat.
From C19 Require Import Treiber TreiberInv TreiberThms.
Import ListNotations.

Record dstate := mkD { st : state; dead : bool }.
Inductive dlabel := DL (l : label) | DDestroy.

Definition dinit : dstate := mkD init false.

Definition owner_label (l : label) : bool :=
  match l with
  | OExchange | ORead | OFree _ | ODone | OAlloc _ _ | OAdd _ | OExtract _ | ORemove _ _ => true
  | _ => false
  end.

Definition stepd (ds : dstate) (dl : dlabel) : option dstate :=
  match dl with
  | DDestroy =>      (* ~DataTable after pvDestroyRaws: the owner is outside any drain *)
      match dead ds, own (st ds) with
      | false, OIdle => Some (mkD (st ds) true)
      | _, _ => None
      end
  | DL l =>
      if dead ds && owner_label l then None
      else match step (st ds) l with Some s' => Some (mkD s' (dead ds)) | None => None end
  end.

Fixpoint rund (ds : dstate) (ls : list dlabel) : option dstate :=
  match ls with
  | [] => Some ds
  | l :: ls' => match stepd ds l with Some ds' => rund ds' ls' | None => None end
  end.

Definition touches_head (l : label) : bool := match l with DLoad _ | DCas _ _ => true | _ => false end.

(* an enabled step that accesses the head of a destroyed table *)
Definition use_after_free (ds : dstate) (l : label) : Prop :=
  dead ds = true /\ touches_head l = true /\ stepd ds (DL l) <> None.

(* "the table outlives its rows": nothing detached, no destructor in flight *)
Definition no_rows_outside (s : state) : Prop :=
  forall r, status s r <> Detached /\ status s r <> Pending.

Definition settled (ds : dstate) : Prop :=
  dead ds = true /\ (forall t, dpcs (st ds) t = Idle) /\ no_rows_outside (st ds).

Lemma settled_step ds dl ds' : settled ds -> stepd ds dl = Some ds' -> settled ds'.
Proof.
  intros [D [P N]] H. unfold stepd in H. destruct dl as [l|].
  - rewrite D in H. simpl in H. destruct (owner_label l) eqn:Eo; try discriminate.
    destruct (step (st ds) l) as [s'|] eqn:E; try discriminate. inversion H; subst; clear H. simpl.
    destruct l; try discriminate; unfold step in E.
    + rewrite P in E. destruct (N r) as [Nd _]. destruct (status (st ds) r); try discriminate. congruence.
    + rewrite P in E. discriminate.
    + rewrite P in E. discriminate.
    + rewrite P in E. discriminate.
    + destruct (in_use (status (st ds) r)); try discriminate. inversion E; subst. split; auto.
  - rewrite D in H. discriminate.
Qed.

Lemma settled_run ls : forall ds ds', settled ds -> rund ds ls = Some ds' -> settled ds'.
Proof.
  induction ls; simpl; intros ds ds' S H; [inversion H; subst; auto|].
  destruct (stepd ds a) eqn:E; try discriminate. eapply IHls; [|eauto]. eapply settled_step; eauto.
Qed.

Theorem table_outlives_rows_no_use_after_free ds ds1 ls ds2 l :
  inv (st ds) -> no_rows_outside (st ds) ->
  stepd ds DDestroy = Some ds1 -> rund ds1 ls = Some ds2 ->
  ~ use_after_free ds2 l.
Proof.
  intros I N Hd Hr [D [T E]].
  assert (S1 : settled ds1).
  { unfold stepd in Hd. destruct (dead ds); try discriminate. destruct (own (st ds)); try discriminate.
    inversion Hd; subst; simpl. split; auto. split; auto. simpl.
    intros t. destruct (dpcs (st ds) t) eqn:Ep; auto; exfalso;
      (assert (Hh : held (dpcs (st ds) t) = Some r) by (rewrite Ep; auto));
      apply (i_held _ I) in Hh; destruct (N r); congruence. }
  pose proof (settled_run _ _ _ S1 Hr) as [_ [P _]].
  apply E. unfold stepd. rewrite D. destruct l; try discriminate; simpl; unfold step; rewrite P; reflexivity.
Qed.

(* the hypothesis is satisfiable and destruction is then enabled: e.g. after every row was destroyed and drained *)
Theorem table_outlives_rows_nonvacuous :
  exists ds ds1, rund dinit [DL (OAlloc 0 None); DL (DBegin 1 0); DL (DLoad 1); DL (DLink 1); DL (DCas 1 false);
                             DL OExchange; DL ORead; DL (OFree None); DL ODone] = Some ds /\
    no_rows_outside (st ds) /\ stepd ds DDestroy = Some ds1 /\ reclaimed (st ds) = [(0, 1)].
Proof.
  eexists; eexists; split; [vm_compute; reflexivity|]. split; [|split; vm_compute; reflexivity].
  intros r. vm_compute. destruct r; split; discriminate.
Qed.

(* the witness on the other side of the boundary *)
Theorem table_destroyed_before_its_row_refuted :
  exists ds, rund dinit [DL (OAlloc 0 None); DDestroy; DL (DBegin 1 0)] = Some ds /\
    use_after_free ds (DLoad 1) /\
    (* ... and the row's buffer can never be reclaimed any more: no owner step is enabled *)
    (forall l, owner_label l = true -> stepd ds (DL l) = None) /\ status (st ds) 0 = Pending.
Proof.
  eexists; split; [vm_compute; reflexivity|]. split; [|split].
  - split; [reflexivity|]. split; [reflexivity|]. vm_compute. discriminate.
  - intros l H. unfold stepd. simpl. rewrite H. reflexivity.
  - vm_compute. reflexivity.
Qed.
