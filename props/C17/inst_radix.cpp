// instantiation TU for cxx2coq (C17, grow round 2): the integral code getter for every width/signedness, pvGetRadix,
// the first shift computed by Sort(), and both pvRadixSort overloads, for RadixSorter<8> on 64-bit codes and
// RadixSorter<16> on 8-bit codes (radix wider than the code: the bb23c06 case)
#include "momo/RadixSorter.h"
namespace momo { namespace internal {
struct C17CodeGetter64 { uint64_t operator()(uint64_t* p) const { return *p; } };
struct C17CodeGetter8 { uint8_t operator()(uint8_t* p) const { return *p; } };
struct C17Swapper64 { void operator()(uint64_t* a, uint64_t* b) const { std::iter_swap(a, b); } };
struct C17Swapper8 { void operator()(uint8_t* a, uint8_t* b) const { std::iter_swap(a, b); } };
struct C17Group64 { void operator()(uint64_t*, size_t) const {} };
struct C17Group8 { void operator()(uint8_t*, size_t) const {} };
inline void c17_use2(uint64_t* b, uint8_t* c, size_t n)
{
	RadixSorter<8>::Sort(b, n, C17CodeGetter64(), C17Swapper64(), C17Group64());
	RadixSorter<16>::Sort(c, n, C17CodeGetter8(), C17Swapper8(), C17Group8());
	int8_t i8 = 0; int16_t i16 = 0; int32_t i32 = 0; int64_t i64 = 0; uint8_t u8 = 0; uint16_t u16 = 0; uint32_t u32 = 0; uint64_t u64 = 0;
	(void)RadixSorterCodeGetter<int8_t*>()(&i8); (void)RadixSorterCodeGetter<int16_t*>()(&i16);
	(void)RadixSorterCodeGetter<int32_t*>()(&i32); (void)RadixSorterCodeGetter<int64_t*>()(&i64);
	(void)RadixSorterCodeGetter<uint8_t*>()(&u8); (void)RadixSorterCodeGetter<uint16_t*>()(&u16);
	(void)RadixSorterCodeGetter<uint32_t*>()(&u32); (void)RadixSorterCodeGetter<uint64_t*>()(&u64);
}
}}
