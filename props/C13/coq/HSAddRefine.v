(* C13: HashSet::pvAddNogrow<false> -- the probing loop that ends in "Hash table is full" -- regenerated from HashSet.h
   (Gen_HSAdd.v: buckets are handles, IsFull / AddCrt / UpdateMaxProbe are Section variables acting on an abstract world)
   IS the insertion of the hand table model OpenTable.add, for every bucket bookkeeping instance of OpenTable. *)
From Coq Require Import ZArith Bool List Lia.
From MomoCommon Require Import GenPrelude.
From C13 Require Import ProbeSeq OpenTable.
From C13 Require Gen_HSAdd Gen_BucketBase.
Import ListNotations.
Local Open Scope Z_scope.

Section Refine.
Variable n : Z.
Hypothesis Hn : 0 <= n <= 63.
Variable next : Z -> Z -> Z -> Z.          (* GetNextBucketIndex (bucketIndex, bucketCount, probe) *)
Variable B : Type.
Variable updB : B -> Z -> B.
Variable Aarg : Type.
Variable addB : Aarg -> B -> B.
Variable fullB : B -> bool.
Variable mkarg : Z -> Z -> Z -> Aarg.      (* AddCrt's remaining arguments: hashCode, logBucketCount, probe *)
Variable hash : Z -> Z.                    (* the user's hash function: arbitrary *)

Definition home (k : Z) : Z := Gen_BucketBase.GetStartBucketIndex (hash k) (2 ^ n).

(* the abstract world of Gen_HSAdd := the model table; a bucket handle := its index *)
Definition W := table B.
Definition w_isfull (s : W) (b : Z) : bool := fullB (bd B s b).
Definition w_addcrt (s : W) (b key hc lbc probe : Z) : outcome (Z * W) :=
  Ok (0, {| bk := fun i => if Z.eqb i b then key :: bk B s i else bk B s i;
            bd := fun i => if Z.eqb i b then addB (mkarg hc lbc probe) (bd B s i) else bd B s i |}).
Definition w_updmax (s : W) (b probe : Z) : outcome (unit * W) :=
  Ok (tt, {| bk := bk B s; bd := fun i => if Z.eqb i b then updB (bd B s i) probe else bd B s i |}).

Definition gen_add (s : W) (mCount k : Z) :=
  Gen_HSAdd.pvAddNogrow W (fun _ => 2 ^ n) (fun _ => n) Gen_BucketBase.GetStartBucketIndex
    (fun i _ bc p => next i bc p) (fun _ i => i) w_isfull w_addcrt w_updmax s mCount 0 (hash k) k.
Definition gen_loop (fuel : nat) (s : W) (k : Z) (p : nat) :=
  Gen_HSAdd.pvAddNogrow_loop0 W (fun i _ bc p => next i bc p) (fun _ i => i) w_isfull fuel (2 ^ n) 0 (hash k) s
    (probe_index next n (home k) p) (probe_index next n (home k) p) (Z.of_nat p).

Lemma pow_pos_n : 0 < 2 ^ n. Proof. apply Z.pow_pos_nonneg; lia. Qed.
Lemma pow_le63 : 2 ^ n <= 2 ^ 63. Proof. apply Z.pow_le_mono_r; lia. Qed.
Lemma Nn : Z.of_nat (Z.to_nat (2 ^ n)) = 2 ^ n. Proof. pose proof pow_pos_n. lia. Qed.

Lemma loop_is_first_free s k : forall f p, (p + S f = Z.to_nat (2 ^ n))%nat ->
  gen_loop (S (S f)) s k p =
  match first_free n next B fullB s (home k) p (S f) with
  | Some q => Ok (None, (probe_index next n (home k) q, probe_index next n (home k) q, Z.of_nat q))
  | None => Exn
  end.
Proof.
  pose proof pow_pos_n as Hp. pose proof pow_le63 as H63. pose proof Nn as HN.
  induction f as [|f IH]; intros p Hpf; unfold gen_loop; rewrite Gen_HSAdd.pvAddNogrow_loop0_eq;
    cbn [first_free]; unfold w_isfull at 1; unfold pidx.
  - destruct (fullB (bd B s (probe_index next n (home k) p))); [|reflexivity].
    rewrite wrapU_small by (change (2 ^ 64) with (2 * 2 ^ 63); lia).
    destruct (Z.geb_spec (Z.of_nat p + 1) (2 ^ n)); [reflexivity|lia].
  - destruct (fullB (bd B s (probe_index next n (home k) p))); [|reflexivity].
    rewrite wrapU_small by (change (2 ^ 64) with (2 * 2 ^ 63); lia).
    destruct (Z.geb_spec (Z.of_nat p + 1) (2 ^ n)); [lia|].
    specialize (IH (S p) ltac:(lia)). unfold gen_loop in IH.
    replace (Z.of_nat p + 1) with (Z.of_nat (S p)) by lia. cbn [probe_index] in IH |- *.
    exact IH.
Qed.

(* the regenerated pvAddNogrow and the model's add agree: same "full" verdict, same receiving bucket and probe,
   same resulting table (AddCrt on the receiving bucket with the real arguments, then UpdateMaxProbe on the home bucket),
   mCount untouched (the <false> instantiation) *)
Theorem generated_addnogrow_is_table_add s mCount k :
  gen_add s mCount k =
  match first_free n next B fullB s (home k) 0 (Z.to_nat (2 ^ n)) with
  | None => Exn
  | Some p =>
      match add n next home B updB Aarg addB fullB s k (mkarg (hash k) n (Z.of_nat p)) with
      | Some s' => Ok (0, s', mCount)
      | None => Stuck
      end
  end.
Proof.
  pose proof pow_pos_n as Hp. pose proof Nn as HN.
  unfold gen_add, Gen_HSAdd.pvAddNogrow.
  destruct (Z.to_nat (2 ^ n)) as [|f] eqn:Hf; [lia|].
  pose proof (loop_is_first_free s k f 0%nat ltac:(lia)) as HL. unfold gen_loop in HL.
  cbn [probe_index] in HL. fold (home k). change (Z.of_nat 0) with 0 in HL. rewrite HL. clear HL.
  unfold add, OpenTable.N. rewrite Hf.
  destruct (first_free n next B fullB s (home k) 0 (S f)) as [p|]; [|reflexivity].
  unfold w_addcrt, w_updmax, pidx. reflexivity.
Qed.

(* the home bucket computed by the generated GetStartBucketIndex is a bucket of the table *)
Lemma home_range k : 0 <= hash k -> 0 <= home k < 2 ^ n.
Proof.
  intros Hk. pose proof pow_pos_n as Hp. pose proof pow_le63 as H63.
  unfold home, Gen_BucketBase.GetStartBucketIndex.
  rewrite wrapU_small by (change (2 ^ 64) with (2 * 2 ^ 63); lia).
  replace (2 ^ n - 1) with (Z.ones n) by (rewrite Z.ones_equiv; lia).
  rewrite Z.land_ones by lia. apply Z.mod_pos_bound. lia.
Qed.
End Refine.
