(* C03 -- L2 resource machine, part 5: SegmentedArray with its Array<Segment*> pointer array (mSegments).
   pvIncCapacity (SegmentedArray.h:686-707) does, for every new segment, mSegments.Reserve(segCount + 1) - which may replace
   the pointer array by a bigger one (Array::pvGrow -> Data::Reset: allocate, move the pointers, free the old array) and may
   throw - then pvAllocateSegment, then AddBackNogrow.  The pointer array is freed by ~mSegments, after the segments. *)
From Coq Require Import ZArith Bool List Lia.
From C03 Require Import Effects Effects2.
Import ListNotations.
Local Open Scope Z_scope.

Record sa2 : Type := mkS {
  s_olds : list (Z * nat);          (* full segments, newest first: (block, items) *)
  s_cur : option (Z * nat);         (* current segment and the items constructed in it *)
  s_ptr : option (Z * nat)          (* the pointer array: (block, capacity in pointers) *)
}.

Section SegArr2.
Variables mgr segsz psz : Z.
Variable segcapf : nat -> nat.      (* capacity of the k-th segment *)
Variable pgrow : nat -> nat -> nat. (* new capacity of the pointer array given the old capacity and the needed count (Array growth policy) *)

Definition segcount (st : sa2) : nat := (length (s_olds st) + match s_cur st with Some _ => 1 | None => 0 end)%nat.

(* mSegments.Reserve(segCount + 1) *)
Definition ptr_reserve (st : sa2) (s : rstate) : (sa2 * outcome unit) * rstate :=
  let need := S (segcount st) in
  match s_ptr st with
  | Some (p, cap) =>
      if Nat.leb need cap then ((st, Val tt), s)
      else match p_alloc mgr (psz * Z.of_nat (pgrow cap need)) s with
           | (Val np, s1) =>
               match p_dealloc mgr p (psz * Z.of_nat cap) s1 with
               | (Val _, s2) => ((mkS (s_olds st) (s_cur st) (Some (np, pgrow cap need)), Val tt), s2)
               | (_, s2) => ((st, Stuck), s2)
               end
           | (Exc, s1) => ((st, Exc), s1)
           | (Stuck, s1) => ((st, Stuck), s1)
           end
  | None =>
      match p_alloc mgr (psz * Z.of_nat (pgrow 0 need)) s with
      | (Val np, s1) => ((mkS (s_olds st) (s_cur st) (Some (np, pgrow 0 need)), Val tt), s1)
      | (Exc, s1) => ((st, Exc), s1)
      | (Stuck, s1) => ((st, Stuck), s1)
      end
  end.

(* one iteration of pvIncCapacity: Reserve, pvAllocateSegment, AddBackNogrow; the (full) current segment joins the old ones *)
Definition new_segment (st : sa2) (s : rstate) : (sa2 * outcome unit) * rstate :=
  match ptr_reserve st s with
  | ((st1, Val _), s1) =>
      match p_alloc mgr segsz s1 with
      | (Val seg, s2) =>
          ((mkS (match s_cur st1 with Some c => c :: s_olds st1 | None => s_olds st1 end) (Some (seg, O)) (s_ptr st1), Val tt), s2)
      | (Exc, s2) => ((st1, Exc), s2)
      | (Stuck, s2) => ((st1, Stuck), s2)
      end
  | r => r
  end.

(* AddBackCrt n times *)
Fixpoint sa2_fill (src : Z) (i : Z) (n : nat) (st : sa2) (s : rstate) : (sa2 * outcome unit) * rstate :=
  match n with
  | O => ((st, Val tt), s)
  | S n' =>
      let room := match s_cur st with Some (_, fill) => Nat.ltb fill (segcapf (length (s_olds st))) | None => false end in
      match (if room then ((st, Val tt), s) else new_segment st s) with
      | ((st1, Val _), s1) =>
          match s_cur st1 with
          | Some (seg, fill) =>
              match p_copy (seg, Z.of_nat fill) (src, i) s1 with
              | (Val _, s2) => sa2_fill src (i + 1) n' (mkS (s_olds st1) (Some (seg, S fill)) (s_ptr st1)) s2
              | (o, s2) => ((st1, o), s2)
              end
          | None => ((st1, Stuck), s1)
          end
      | r => r
      end
  end.

(* pvDecCount(0); pvDecCapacity(0): items destroyed, segments returned; the pointer array stays *)
Definition sa2_clear_segs (st : sa2) : M unit :=
  match s_cur st with
  | Some (seg, fill) => p_touch_blk seg ;;; om_destroy_n seg 0 fill ;;; p_dealloc mgr seg segsz
  | None => ret tt
  end ;;;
  drop_rows mgr segsz (s_olds st).

(* ~mSegments *)
Definition sa2_free_ptr (st : sa2) : M unit :=
  match s_ptr st with
  | Some (p, cap) => p_dealloc mgr p (psz * Z.of_nat cap)
  | None => ret tt
  end.

(* SegmentedArray(begin, end, memManager), then ~SegmentedArray and the member destructors *)
Definition sa2_ctor_then_destroy (src : Z) (n : nat) : M unit := fun s =>
  let '((st, o), s1) := sa2_fill src 0 n (mkS [] None None) s in
  let '((st', o'), s2) :=
    match o with
    | Exc => match sa2_clear_segs st s1 with                 (* catch (...) { pvDecCount(0); pvDecCapacity(0); throw; } *)
             | (Stuck, s2) => ((st, Stuck), s2)
             | (_, s2) => ((mkS [] None (s_ptr st), Exc), s2)
             end
    | _ => ((st, o), s1)
    end in
  match o' with
  | Stuck => (Stuck, s2)
  | _ => match (sa2_clear_segs st' ;;; sa2_free_ptr st') s2 with
         | (Val _, s3) => (o', s3)
         | (r, s3) => (r, s3)
         end
  end.

End SegArr2.
