(* C02 (growth rounds) -- the node operations of details/TreeNode.h that WRITE the bytes the B-tree invariant depends on
   (mCounter.count, mCounter.indexes[], the item array, the child array, mMemPoolIndex), translated by cxx2coq from both layouts
   (Gen_NodeOpsI: indexed, Gen_NodeOpsC: continuous), now INCLUDING the std::copy / std::copy_backward range copies on the
   index table and on the child array (function update on a range) and, for the continuous layout, ItemTraits::ShiftNothrow
   on the item array (an ASSUMED primitive: its semantics is stated in the generated comment; proving it belongs to C03).
   Only the item remover / item creator functors remain skipped.  Proved about the REAL code:
   - Stuck exactly when an assert fails; count + 1 / count - 1 without uint8 wrap;
   - the WHOLE new index table / item array / child array, as closed formulas (shift_ins / shift_del / ch_ins / ch_del);
   - FRAME: mMemPoolIndex is never written; a leaf's child array is never written; entries outside the shifted range keep
     their value;
   - the indexed table and the continuous item array undergo the SAME permutation (same code across layouts);
   - the generated table equals the hand model of the table (IndexTable.v) entry by entry, so every theorem of IndexTable.v
     (permutation kept, logical sequence = insert_at / remove_at, all node histories) is a theorem about the generated code;
   - pvInitIndexes writes the identity table on [0, maxCapacity) and nothing else. *)
From Coq Require Import ZArith Bool List Lia.
From MomoCommon Require Import GenPrelude.
From C02 Require Import Gen_NodeOpsI Gen_NodeOpsC BTreeModel IndexTable.
Local Open Scope Z_scope.

(* closed forms *)
Definition shift_ins (t : Z -> Z) (index cnt : Z) : Z -> Z :=
  fun j => if j =? index then t cnt else if andb (index <? j) (j <=? cnt) then t (j - 1) else t j.
Definition shift_del (t : Z -> Z) (index cnt : Z) : Z -> Z :=
  fun j => if j =? cnt - 1 then t index else if andb (index <=? j) (j <? cnt - 1) then t (j + 1) else t j.
Definition ch_ins (ch : Z -> Z) (index cnt : Z) : Z -> Z :=
  fun j => if andb (index + 1 <? j) (j <=? cnt + 1) then ch (j - 1) else ch j.     (* child index+1 is duplicated, the caller sets it *)
Definition ch_del (ch : Z -> Z) (index cnt : Z) : Z -> Z :=
  fun j => if andb (index <=? j) (j <? cnt) then ch (j + 1) else ch j.             (* child index disappears *)

Ltac zb :=
  repeat match goal with
         | |- context [Z.eqb ?a ?b] => destruct (Z.eqb_spec a b)
         | |- context [Z.leb ?a ?b] => destruct (Z.leb_spec a b)
         | |- context [Z.ltb ?a ?b] => destruct (Z.ltb_spec a b)
         end; cbn [andb negb]; try lia; try reflexivity; try (f_equal; lia).

Lemma w8 x : 0 <= x < 256 -> wrapU 8 x = x.
Proof. intros. apply wrapU_small. change (2 ^ 8) with 256. lia. Qed.
Lemma w64 x : 0 <= x < 1000 -> wrapU 64 x = x.
Proof. intros. apply wrapU_small. change (2 ^ 64) with 18446744073709551616. lia. Qed.

Section NodeOps.
Variables (leafPools maxCap step : Z).
Notation capI := (Gen_NodeOpsI.GetCapacity leafPools maxCap step).
Notation leafI := (Gen_NodeOpsI.IsLeaf leafPools).
Notation acceptI := (Gen_NodeOpsI.AcceptBackItem leafPools maxCap step).
Notation acceptC := (Gen_NodeOpsC.AcceptBackItem leafPools maxCap step).
Notation removeI := (Gen_NodeOpsI.Remove leafPools).
Notation removeC := (Gen_NodeOpsC.Remove leafPools).

(* ---------- indexed layout ---------- *)
Theorem acceptI_stuck mpi cnt t ch index :
  acceptI mpi cnt t ch index = Stuck <-> ~ (cnt < capI mpi cnt t ch /\ index <= cnt).
Proof.
  unfold Gen_NodeOpsI.AcceptBackItem, Gen_NodeOpsI.GetCount.
  destruct (Z.ltb_spec cnt (capI mpi cnt t ch)) as [A|A]; destruct (Z.leb_spec index cnt) as [B|B]; split; intros G; try lia; try discriminate; try reflexivity.
Qed.

Theorem acceptI_spec mpi cnt t ch index :
  0 <= index <= cnt -> cnt < capI mpi cnt t ch -> capI mpi cnt t ch <= 255 ->
  exists T C, acceptI mpi cnt t ch index = Ok (tt, cnt + 1, T, C) /\
    (forall j, T j = shift_ins t index cnt j) /\
    (forall j, C j = if leafI mpi cnt t ch then ch j else ch_ins ch index cnt j).
Proof.
  intros Hi Hc H255. unfold Gen_NodeOpsI.AcceptBackItem, Gen_NodeOpsI.GetCount, Gen_NodeOpsI.pvAcceptBackItem.
  replace (cnt <? capI mpi cnt t ch) with true by (symmetry; apply Z.ltb_lt; lia).
  replace (index <=? cnt) with true by (symmetry; apply Z.leb_le; lia).
  rewrite w8 by lia. eexists. eexists. split; [reflexivity|]. split; intros j.
  - unfold shift_ins, upd. zb.
  - change (Gen_NodeOpsI.IsLeaf leafPools mpi cnt ?a ch) with (leafI mpi cnt t ch).
    destruct (leafI mpi cnt t ch); cbn [negb]; [reflexivity|]. unfold ch_ins. zb.
Qed.

Theorem removeI_stuck mpi cnt t ch index : removeI mpi cnt t ch index = Stuck <-> ~ index < cnt.
Proof.
  unfold Gen_NodeOpsI.Remove, Gen_NodeOpsI.GetCount. destruct (Z.ltb_spec index cnt) as [A|A]; split; intros G; try lia; try discriminate; reflexivity.
Qed.

Theorem removeI_spec mpi cnt t ch index :
  0 <= index < cnt -> cnt <= 255 ->
  exists T C, removeI mpi cnt t ch index = Ok (tt, cnt - 1, T, C) /\
    (forall j, T j = shift_del t index cnt j) /\
    (forall j, C j = if leafI mpi cnt t ch then ch j else ch_del ch index cnt j).
Proof.
  intros Hi H255. unfold Gen_NodeOpsI.Remove, Gen_NodeOpsI.GetCount, Gen_NodeOpsI.pvRemove.
  replace (index <? cnt) with true by (symmetry; apply Z.ltb_lt; lia).
  rewrite w8 by lia. rewrite w64 by lia. eexists. eexists. split; [reflexivity|]. split; intros j.
  - unfold shift_del, upd. zb.
  - change (Gen_NodeOpsI.IsLeaf leafPools mpi cnt ?a ch) with (leafI mpi cnt t ch).
    destruct (leafI mpi cnt t ch); cbn [negb]; [reflexivity|]. unfold ch_del. zb.
Qed.

(* FRAME: capacity and leaf flag are functions of mMemPoolIndex, which no node operation returns as written *)
Theorem capacity_frame mpi cnt t ch cnt' t' ch' : capI mpi cnt t ch = capI mpi cnt' t' ch' /\ leafI mpi cnt t ch = leafI mpi cnt' t' ch'.
Proof. split; reflexivity. Qed.

(* ---------- continuous layout: the item array undergoes the permutation the indexed table undergoes ---------- *)
Theorem acceptC_spec mpi cnt ch items index :
  0 <= index <= cnt -> cnt < capI mpi cnt items ch -> capI mpi cnt items ch <= 255 ->
  exists C I, acceptC mpi cnt ch items index = Ok (tt, cnt + 1, C, I) /\
    (forall j, I j = shift_ins items index cnt j) /\
    (forall j, C j = if leafI mpi cnt items ch then ch j else ch_ins ch index cnt j).
Proof.
  intros Hi Hc H255. unfold Gen_NodeOpsC.AcceptBackItem, Gen_NodeOpsC.GetCount, Gen_NodeOpsC.pvAcceptBackItem.
  change (Gen_NodeOpsC.GetCapacity leafPools maxCap step mpi cnt ch items) with (capI mpi cnt items ch).
  replace (cnt <? capI mpi cnt items ch) with true by (symmetry; apply Z.ltb_lt; lia).
  replace (index <=? cnt) with true by (symmetry; apply Z.leb_le; lia).
  rewrite w8 by lia. rewrite !w64 by lia. eexists. eexists. split; [reflexivity|]. split; intros j.
  - unfold shift_ins. zb.
  - change (Gen_NodeOpsC.IsLeaf leafPools mpi cnt ch ?a) with (leafI mpi cnt items ch).
    destruct (leafI mpi cnt items ch); cbn [negb]; [reflexivity|]. unfold ch_ins. zb.
Qed.

Theorem removeC_spec mpi cnt ch items index :
  0 <= index < cnt -> cnt <= 255 ->
  exists C I, removeC mpi cnt ch items index = Ok (tt, cnt - 1, C, I) /\
    (forall j, I j = shift_del items index cnt j) /\
    (forall j, C j = if leafI mpi cnt items ch then ch j else ch_del ch index cnt j).
Proof.
  intros Hi H255. unfold Gen_NodeOpsC.Remove, Gen_NodeOpsC.GetCount, Gen_NodeOpsC.pvRemove.
  replace (index <? cnt) with true by (symmetry; apply Z.ltb_lt; lia).
  rewrite w8 by lia. rewrite (w64 (cnt - index)) by lia. rewrite w64 by lia. eexists. eexists. split; [reflexivity|]. split; intros j.
  - unfold shift_del. zb.
  - change (Gen_NodeOpsC.IsLeaf leafPools mpi cnt ch ?a) with (leafI mpi cnt items ch).
    destruct (leafI mpi cnt items ch); cbn [negb]; [reflexivity|]. unfold ch_del. zb.
Qed.

Theorem same_code_stuck mpi cnt t ch items index :
  (acceptC mpi cnt ch items index = Stuck <-> acceptI mpi cnt t ch index = Stuck) /\
  (removeC mpi cnt ch items index = Stuck <-> removeI mpi cnt t ch index = Stuck).
Proof.
  split.
  - unfold Gen_NodeOpsC.AcceptBackItem, Gen_NodeOpsI.AcceptBackItem, Gen_NodeOpsC.GetCount, Gen_NodeOpsI.GetCount.
    change (Gen_NodeOpsC.GetCapacity leafPools maxCap step mpi cnt ch items) with (capI mpi cnt t ch).
    destruct (cnt <? capI mpi cnt t ch); [|tauto]. destruct (index <=? cnt); [|tauto]. split; discriminate.
  - unfold Gen_NodeOpsC.Remove, Gen_NodeOpsI.Remove, Gen_NodeOpsC.GetCount, Gen_NodeOpsI.GetCount, Gen_NodeOpsC.pvRemove.
    destruct (index <? cnt); [|tauto]. split; discriminate.
Qed.

(* ---------- pvInitIndexes: identity on [0, maxCapacity), nothing else ---------- *)
Lemma init_loop fuel i t :
  0 <= i <= maxCap -> maxCap <= 255 -> (Z.to_nat (maxCap - i) < fuel)%nat ->
  exists t', Gen_NodeOpsI.pvInitIndexes_loop0 maxCap fuel i t = Ok (maxCap, t') /\
    forall j, t' j = if andb (i <=? j) (j <? maxCap) then j else t j.
Proof.
  revert i t. induction fuel as [|fuel IH]; intros i t Hi Hm Hf; [lia|].
  rewrite Gen_NodeOpsI.pvInitIndexes_loop0_eq. destruct (i <? maxCap) eqn:E.
  - apply Z.ltb_lt in E. cbv zeta. rewrite w64 by lia. rewrite w8 by lia.
    destruct (IH (i + 1) (upd t i i)) as (t' & E1 & E2); [lia|lia|lia|].
    exists t'. split; [exact E1|]. intros j. rewrite E2. unfold upd. zb.
  - apply Z.ltb_ge in E. assert (i = maxCap) by lia. subst i. exists t. split; [reflexivity|]. intros j. zb.
Qed.

Theorem init_indexes_identity mpi cnt t ch :
  0 <= maxCap <= 255 ->
  exists t', Gen_NodeOpsI.pvInitIndexes maxCap mpi cnt t ch = Ok (tt, t') /\
    (forall j, 0 <= j < maxCap -> t' j = j) /\ (forall j, ~ (0 <= j < maxCap) -> t' j = t j).
Proof.
  intros H. unfold Gen_NodeOpsI.pvInitIndexes.
  destruct (init_loop Gen_NodeOpsI.fuel_of_pvInitIndexes 0 t) as (t' & E1 & E2); [lia|lia| |].
  { unfold Gen_NodeOpsI.fuel_of_pvInitIndexes. rewrite Z.sub_0_r. apply Z2Nat.inj_lt; lia. }
  rewrite E1. exists t'. split; [reflexivity|]. split; intros j Hj; rewrite E2; zb.
Qed.

End NodeOps.

(* ---------- the generated table IS the hand model of the table (IndexTable.v), entry by entry ---------- *)
Definition tbl (l : list nat) : Z -> Z := fun j => Z.of_nat (nth (Z.to_nat j) l 0%nat).

Lemma nth_firstn_lt {A} i n (l : list A) d : (i < n)%nat -> nth i (firstn n l) d = nth i l d.
Proof. revert i l. induction n; intros i l H; [lia|]. destruct l; [destruct i; reflexivity|]. destruct i; [reflexivity|]. cbn [firstn nth]. apply IHn. lia. Qed.
Lemma nth_skipn_add {A} i n (l : list A) d : nth i (skipn n l) d = nth (n + i) l d.
Proof. revert l. induction n; intros l; [reflexivity|]. destruct l; [destruct i; reflexivity|]. cbn [skipn]. rewrite IHn. reflexivity. Qed.

Theorem hand_accept_table_is_generated (n : inode) index j :
  (index <= icount n)%nat -> (icount n < length (idx n))%nat -> (j < length (idx n))%nat ->
  tbl (idx (accept_back n index)) (Z.of_nat j) = shift_ins (tbl (idx n)) (Z.of_nat index) (Z.of_nat (icount n)) (Z.of_nat j).
Proof.
  intros Hi Hc Hj. unfold shift_ins, tbl, accept_back. cbn [idx]. rewrite !Nat2Z.id. set (c := icount n) in *. set (l := idx n) in *.
  assert (LA : length (firstn index l) = index) by (apply firstn_length_le; lia).
  assert (LB : length (firstn (c - index) (skipn index l)) = (c - index)%nat) by (apply firstn_length_le; rewrite skipn_length; lia).
  destruct (Z.eqb_spec (Z.of_nat j) (Z.of_nat index)) as [E|E].
  - assert (j = index) by lia. subst j. rewrite app_nth2 by lia. rewrite LA, Nat.sub_diag. reflexivity.
  - destruct (Z.ltb_spec (Z.of_nat index) (Z.of_nat j)); destruct (Z.leb_spec (Z.of_nat j) (Z.of_nat c)); cbn [andb].
    + rewrite app_nth2 by lia. rewrite LA. destruct (j - index)%nat as [|m] eqn:Em; [lia|]. cbn [nth].
      rewrite app_nth1 by lia. rewrite nth_firstn_lt by lia. rewrite nth_skipn_add.
      replace (Z.to_nat (Z.of_nat j - 1)) with (index + m)%nat by lia. reflexivity.
    + rewrite app_nth2 by lia. rewrite LA. destruct (j - index)%nat as [|m] eqn:Em; [lia|]. cbn [nth].
      rewrite app_nth2 by lia. rewrite LB, nth_skipn_add. f_equal. f_equal. lia.
    + rewrite app_nth1 by lia. rewrite nth_firstn_lt by lia. reflexivity.
    + lia.
Qed.

Theorem hand_remove_table_is_generated (n : inode) index j :
  (index < icount n)%nat -> (icount n <= length (idx n))%nat -> (j < length (idx n))%nat ->
  tbl (idx (remove_idx n index)) (Z.of_nat j) = shift_del (tbl (idx n)) (Z.of_nat index) (Z.of_nat (icount n)) (Z.of_nat j).
Proof.
  intros Hi Hc Hj. unfold shift_del, tbl, remove_idx. cbn [idx]. rewrite !Nat2Z.id. set (c := icount n) in *. set (l := idx n) in *.
  assert (LA : length (firstn index l) = index) by (apply firstn_length_le; lia).
  assert (LB : length (firstn (c - index - 1) (skipn (S index) l)) = (c - index - 1)%nat) by (apply firstn_length_le; rewrite skipn_length; lia).
  destruct (Z.eqb_spec (Z.of_nat j) (Z.of_nat c - 1)) as [E|E].
  - assert (j = c - 1)%nat by lia. subst j. rewrite app_nth2 by lia. rewrite LA. rewrite app_nth2 by lia. rewrite LB.
    replace (c - 1 - index - (c - index - 1))%nat with 0%nat by lia. reflexivity.
  - destruct (Z.leb_spec (Z.of_nat index) (Z.of_nat j)); destruct (Z.ltb_spec (Z.of_nat j) (Z.of_nat c - 1)); cbn [andb].
    + rewrite app_nth2 by lia. rewrite LA. rewrite app_nth1 by lia. rewrite nth_firstn_lt by lia. rewrite nth_skipn_add.
      f_equal. f_equal. lia.
    + rewrite app_nth2 by lia. rewrite LA. rewrite app_nth2 by lia. rewrite LB.
      destruct (j - index - (c - index - 1))%nat as [|m] eqn:Em; [lia|]. cbn [nth]. rewrite nth_skipn_add. f_equal. f_equal. lia.
    + rewrite app_nth1 by lia. rewrite nth_firstn_lt by lia. reflexivity.
    + lia.
Qed.
