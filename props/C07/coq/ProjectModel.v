(* C07 / DataTable::pvProject<distinct> (DataTable.h:1588-1615): for every row that passes the filter a result row with
   the projected columns is created; with `distinct` the result table carries a unique hash over all projected columns
   and a row whose AddRaw is refused is dropped again.  A consistent unique hash refuses exactly when a row with the same
   key is present (C07_find_unique_is_scan / C07_add_raw_refusal_agrees), so the loop is: keep the key unless it is
   already among the kept keys.  Theorem: the loop computes TableSpec.project = the projection of the brute-force rows,
   deduplicated (first occurrences, in table order) when distinct. *)
From Coq Require Import List ZArith Lia Bool Arith PeanoNat Permutation.
From C07 Require Import TableSpec.
Import ListNotations.

Fixpoint project_loop (distinct : bool) (cols : list nat) (p : pred) (rs : list row) (acc : list (list Z)) : list (list Z) :=
  match rs with
  | [] => acc
  | r :: rs' =>
      if evalp p r then
        let k := proj cols r in
        if distinct && existsb (zlist_eqb k) acc then project_loop distinct cols p rs' acc    (* AddRaw refused: RemoveBack + destroy *)
        else project_loop distinct cols p rs' (acc ++ [k])
      else project_loop distinct cols p rs' acc
  end.

Lemma project_loop_plain cols p rs acc :
  project_loop false cols p rs acc = acc ++ map (proj cols) (filter (evalp p) rs).
Proof.
  revert acc; induction rs as [|r rs IH]; intros acc; simpl; [rewrite app_nil_r; reflexivity|].
  destruct (evalp p r); simpl; [rewrite IH, <- app_assoc; reflexivity|apply IH].
Qed.

Lemma project_loop_distinct cols p rs : forall acc seen,
  (forall k, existsb (zlist_eqb k) acc = existsb (zlist_eqb k) seen) ->
  project_loop true cols p rs acc = acc ++ distinct_keys seen (map (proj cols) (filter (evalp p) rs)).
Proof.
  induction rs as [|r rs IH]; intros acc seen H; simpl; [rewrite app_nil_r; reflexivity|].
  destruct (evalp p r); simpl; [|apply IH; exact H].
  rewrite (H (proj cols r)). destruct (existsb (zlist_eqb (proj cols r)) seen) eqn:E.
  - apply IH. exact H.
  - rewrite (IH (acc ++ [proj cols r]) (proj cols r :: seen)); [rewrite <- app_assoc; reflexivity|].
    intros k. rewrite existsb_app. simpl. rewrite H. rewrite orb_false_r. apply orb_comm.
Qed.

(* the loop of pvProject computes the L0 specification *)
Theorem project_loop_is_spec t distinct p cols : project_loop distinct cols p (rows t) [] = project t distinct p cols.
Proof.
  unfold project. destruct distinct.
  - rewrite (project_loop_distinct cols p (rows t) [] []); [reflexivity|reflexivity].
  - apply project_loop_plain.
Qed.

(* what the deduplication is: no key twice, exactly the keys of the input, nothing from `seen` *)
Lemma distinct_keys_spec : forall ks seen,
  NoDup (distinct_keys seen ks) /\ forall k, In k (distinct_keys seen ks) <-> (In k ks /\ ~ In k seen).
Proof.
  induction ks as [|k0 ks IH]; intros seen; simpl; [split; [constructor|intros k; tauto]|].
  destruct (existsb (zlist_eqb k0) seen) eqn:E.
  - destruct (IH seen) as [H1 H2]. split; [exact H1|]. intros k. rewrite H2. split; [tauto|]. intros [[->|Hk] Hn]; [|tauto].
    exfalso. apply Hn. apply existsb_exists in E as (x & Hx & Ex). apply zlist_eqb_eq in Ex. subst. exact Hx.
  - destruct (IH (k0 :: seen)) as [H1 H2]. split.
    + constructor; [|exact H1]. intros Hin. apply H2 in Hin as [_ Hn]. apply Hn. left. reflexivity.
    + intros k. simpl. rewrite H2. simpl. split.
      * intros [<-|[Hk Hn]]; [split; [left; reflexivity|]|split; [right; exact Hk|tauto]].
        intros Hin. assert (existsb (zlist_eqb k0) seen = true); [|congruence].
        apply existsb_exists. exists k0. split; [exact Hin|apply zlist_eqb_refl].
      * intros [[<-|Hk] Hn]; [left; reflexivity|].
        destruct (list_eq_dec Z.eq_dec k0 k) as [->|Hne]; [left; reflexivity|right; split; [exact Hk|tauto]].
Qed.

Theorem project_is_projection_of_scan t p cols :
  project t false p cols = map (proj cols) (filter (evalp p) (rows t)) /\
  NoDup (project t true p cols) /\
  (forall k, In k (project t true p cols) <-> In k (map (proj cols) (filter (evalp p) (rows t)))).
Proof.
  split; [reflexivity|]. unfold project. destruct (distinct_keys_spec (map (proj cols) (filter (evalp p) (rows t))) []) as [H1 H2].
  split; [exact H1|]. intros k. rewrite H2. simpl. tauto.
Qed.
