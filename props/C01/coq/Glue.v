(* C01 -- glue: the predicates the HashSet-level hand model (HashModel.v) evaluates on its list buckets ARE the regenerated bucket leaves
   evaluated on the real bytes, whenever the bytes represent the bucket's items (repr / repr2 with tags = map tag items):
     HashModel.isFull  (pvAddNogrow's `while (bucket->IsFull())` probe loop)   = Gen IsFull
     HashModel.bfind   (pvFind's `bucket->Find(...)` in the generation / probe loops) = the short-hash filter loop over the byte slots
   so add_loop / probe_loop / gfind of the hand model take, at every bucket they visit, the branch the real code takes. *)
From Coq Require Import ZArith List Lia Bool.
From MomoCommon Require Import GenPrelude.
From C01 Require Import HashModel ListAux BucketFind OpenN1Ops Open2N2Ops.
From C01 Require Gen_OpenN1_ops Gen_Open2N2_ops Gen_OpenN1.
Import ListNotations.
Local Open Scope Z_scope.

Arguments items {B}.

Section GlueN1.
  Variable B : Type.
  Variable h : Z -> Z.
  Variable maxCount : Z.
  Variable reverse : bool.
  Hypothesis Hmc : 1 <= maxCount <= 7.
  Hypothesis Hh : forall k, 0 <= h k < 2 ^ 64.

  Definition tagN1 (kv : item) : Z := Gen_OpenN1_ops.ptCalcShortHash (h (fst kv)).

  (* pvAddNogrow's loop condition *)
  Theorem n1_isfull_glue (b : bucket B) (d : Z -> Z) : OpenN1Ops.repr maxCount reverse d (map tagN1 (items b)) ->
    Gen_OpenN1_ops.IsFull reverse maxCount d = isFull B maxCount false b.
  Proof.
    intros R. unfold isFull, blen. apply Bool.eq_true_iff_eq.
    rewrite (OpenN1Ops.n1_isfull maxCount reverse Hmc d _ R). rewrite map_length. rewrite Z.leb_le.
    destruct R as [Hn _]. rewrite map_length in Hn. lia.
  Qed.

  (* pvFind's in-bucket search: the filter loop over the byte slots read in Bounds order *)
  Definition slots_of (d : Z -> Z) : list Z := map (fun i => d (OpenN1Ops.slot maxCount reverse (Z.of_nat i))) (seq 0 (Z.to_nat maxCount)).

  Lemma slots_of_split (d : Z -> Z) tags : OpenN1Ops.repr maxCount reverse d tags ->
    exists empties, slots_of d = tags ++ empties /\ Forall (fun s => 248 <= s) empties.
  Proof.
    intros R. pose proof (OpenN1Ops.n1_slots maxCount reverse d tags R) as S. destruct R as [Hn _].
    set (f := fun i : nat => d (OpenN1Ops.slot maxCount reverse (Z.of_nat i))).
    exists (map f (seq (length tags) (Z.to_nat maxCount - length tags))). split.
    - unfold slots_of. fold f.
      replace (Z.to_nat maxCount) with (length tags + (Z.to_nat maxCount - length tags))%nat at 1 by lia.
      rewrite seq_app, map_app. f_equal.
      apply nth_ext with (d := f 0%nat) (d' := 0).
      + rewrite map_length, seq_length. reflexivity.
      + intros n Hn'. rewrite map_length, seq_length in Hn'. rewrite map_nth. rewrite seq_nth by lia. simpl. unfold f.
        destruct (S (Z.of_nat n)) as [A _]; [lia|]. rewrite A by lia. rewrite Nat2Z.id. reflexivity.
    - apply Forall_forall. intros x Hx. apply in_map_iff in Hx. destruct Hx as [i [E Hi]]. apply in_seq in Hi. subst x. unfold f.
      destruct (S (Z.of_nat i)) as [_ A]; [lia|]. apply A. lia.
  Qed.

  Theorem n1_find_glue (b : bucket B) (d : Z -> Z) k : OpenN1Ops.repr maxCount reverse d (map tagN1 (items b)) ->
    find_sh (slots_of d) (items b) (Gen_OpenN1_ops.ptCalcShortHash (h k)) k 0 = Some (bfind k (items b) 0).
  Proof.
    intros R. destruct (slots_of_split d _ R) as [empties [E F]]. rewrite E.
    apply (bucket_find_complete h Gen_OpenN1_ops.ptCalcShortHash 248); auto.
    intros k0. pose proof (openn1_sh_lt (h k0) (Hh k0)) as L. exact (proj2 L).
  Qed.
End GlueN1.

Section GlueO2.
  Variable B : Type.
  Variable h : Z -> Z.
  Variable maxCount : Z.
  Hypothesis Hmc : 1 <= maxCount <= 3.

  Definition tagO2 (kv : item) : Z := Gen_Open2N2_ops.pvCalcShortHash (h (fst kv)).

  Theorem o2_isfull_glue (b : bucket B) st sh hp probes : Open2N2Ops.repr2 maxCount st sh hp (map tagO2 (items b)) probes ->
    Gen_Open2N2_ops.IsFull st sh hp = isFull B maxCount false b.
  Proof.
    intros R. unfold isFull, blen. apply Bool.eq_true_iff_eq.
    rewrite (Open2N2Ops.o2_isfull maxCount Hmc st sh hp _ probes R). rewrite map_length. rewrite Z.leb_le.
    destruct R as [_ [Hn _]]. rewrite map_length in Hn. lia.
  Qed.
End GlueO2.
