// instantiation TU for cxx2coq (C08): the arithmetic kernels of the value-array representation
#include "momo/HashMultiMap.h"
namespace momo { namespace internal {
typedef HashMultiMapKeyValueTraits<int, int64_t, MemManagerDefault> C08KVT;
typedef HashMultiMapArrayBucketItemTraits<C08KVT> C08IT;
template class ArrayBucket<C08IT, 7, MemPoolParams<>, ArraySettings<>>;
typedef HashMultiMapKeyValueTraits<int, std::string, MemManagerDefault> C08KVTs;
typedef HashMultiMapArrayBucketItemTraits<C08KVTs> C08ITs;
template class ArrayBucket<C08ITs, 2, MemPoolParams<3, 1>, ArraySettings<>>;
}
template class ArraySettings<0, true, true>;
}
