(* C12: the bucket class the real HashSet selects for a slow-hash key with HashBucketOpen8 (instantiated through the container,
   ItemTraits = HashSetBucketItemTraits<...>) has the SAME code as the explicitly instantiated BucketOpen2N2<.,3,true> the
   theorems are stated about: both files are regenerated on every run and every function is convertible. *)
From Coq Require Import ZArith Bool List.
From MomoCommon Require Import GenPrelude.
From C12 Require Gen_O2 Gen_O2set.

Lemma open8_selected_bucket_same_code :
  Gen_O2set.pvGetCount = Gen_O2.pvGetCount /\ Gen_O2set.pvSetEmpty = Gen_O2.pvSetEmpty /\ Gen_O2set.Clear = Gen_O2.Clear /\
  Gen_O2set.pvCalcShortHash = Gen_O2.pvCalcShortHash /\ Gen_O2set.pvGetProbeShift = Gen_O2.pvGetProbeShift /\
  Gen_O2set.IsFull = Gen_O2.IsFull /\ Gen_O2set.WasFull = Gen_O2.WasFull /\ Gen_O2set.Find = Gen_O2.Find /\
  Gen_O2set.AddCrt = Gen_O2.AddCrt /\ Gen_O2set.Remove = Gen_O2.Remove /\ Gen_O2set.GetHashCodePart = Gen_O2.GetHashCodePart /\
  Gen_O2set.GetNextBucketIndex = Gen_O2.GetNextBucketIndex.
Proof. repeat split; reflexivity. Qed.
