(* C04 -- TreeNode::pvRemove for continuous nodes (details/TreeNode.h:332-347): the item to remove is rotated to the
   end of the node with ShiftNothrow, the item remover runs on it, and if the remover throws the rotation is undone
   with ShiftNothrow over the reverse iterator.  ShiftNothrow = ObjectManager::pvShiftNothrow for nothrow relocatable
   items (ObjectManager.h:537-547): relocate *begin to a buffer, shift the next `shift` items down, relocate the
   buffer to the end.  (Nodes of items that are not nothrow shiftable use the index permutation instead, where the
   remover runs before anything is modified.) *)
From Coq Require Import List Arith Lia Bool PeanoNat.
From C04 Require Import Effects ObjMgr.
Import ListNotations.

Fixpoint shift_loop (it : nat -> loc) (i n : nat) : M unit :=
  match n with 0 => ret tt | S n' => relocate1 NTM (it (S i)) (it i) ;; shift_loop it (S i) n' end.

Definition shift_nothrow (it : nat -> loc) (tmp : loc) (shift : nat) : M unit :=
  if shift =? 0 then ret tt
  else relocate1 NTM (it 0) tmp ;; shift_loop it 0 shift ;; relocate1 NTM tmp (it shift).

(* pvRemove(params, index, count, itemRemover, true_type) with count = index + shift + 1 *)
Definition node_remove (items : nat -> loc) (tmp : loc) (index shift : nat) (remover : M unit) : M unit :=
  shift_nothrow (fun j => items (index + j)) tmp shift ;;
  try_catch remover
            (shift_nothrow (fun j => items (index + shift - j)) tmp shift ;; throw).

Section Shift.
Variable (it : nat -> loc).

(* it i is raw, it (i+1 .. i+n) are live: afterwards everything moved down by one and it (i+n) is raw *)
Lemma wp_shift_loop : forall n i s (Q : unit -> st -> Prop) (E : st -> Prop),
  (forall j, i <= j <= i + n -> valid (hp s) (it j) = true) ->
  mem (hp s) (it i) = Raw ->
  (forall j, i < j <= i + n -> exists v, mem (hp s) (it j) = Live v) ->
  (forall j k, i <= j <= i + n -> i <= k <= i + n -> j <> k -> it j <> it k) ->
  (forall s', (forall j, i <= j < i + n -> mem (hp s') (it j) = mem (hp s) (it (S j))) ->
              mem (hp s') (it (i + n)) = Raw ->
              (forall l, (forall j, i <= j <= i + n -> it j <> l) -> mem (hp s') l = mem (hp s) l) ->
              agree (fun _ => False) (hp s) (hp s') -> same_regs (hp s) (hp s') -> Q tt s') ->
  wp (shift_loop it i n) s Q E.
Proof.
  induction n; intros i s Q E Hv Hr Hl Hinj HQ.
  - simpl. apply wp_ret. apply HQ; auto.
    + intros; lia. + rewrite Nat.add_0_r; auto. + apply agree_refl. + intro; reflexivity.
  - simpl. destruct (Hl (S i) ltac:(lia)) as [v Hv1].
    apply wp_bind. eapply wp_relocate1 with (v := v); auto.
    + apply Hv; lia. + apply Hv; lia. + apply Hinj; lia. + intros C; contradiction C; reflexivity.
    + intros s1 H1.
      assert (M1 : forall l, mem (hp s1) l = if loc_eqb l (it (S i)) then Raw else if loc_eqb l (it i) then Live v else mem (hp s) l).
      { intros l. rewrite (hq_mem _ _ H1). reflexivity. }
      assert (V1 : forall l, valid (hp s1) l = valid (hp s) l) by (intros; rewrite (heq_valid _ _ _ H1); reflexivity).
      apply IHn.
      * intros j Hj. rewrite V1. apply Hv; lia.
      * rewrite M1, loc_eqb_refl. reflexivity.
      * intros j Hj. destruct (Hl j ltac:(lia)) as [w Hw]. exists w. rewrite M1.
        rewrite (loc_eqb_neq (it j) (it (S i))) by (apply Hinj; lia).
        rewrite (loc_eqb_neq (it j) (it i)) by (apply Hinj; lia). auto.
      * intros; apply Hinj; lia.
      * intros s' A B C D F. apply HQ.
        -- intros j Hj. destruct (Nat.eq_dec j i) as [Hji|Hji].
           ++ subst j. rewrite C by (intros k Hk; apply Hinj; lia). rewrite M1.
              rewrite (loc_eqb_neq (it i) (it (S i))) by (apply Hinj; lia). rewrite loc_eqb_refl. symmetry; exact Hv1.
           ++ rewrite A by lia. rewrite M1.
              rewrite (loc_eqb_neq (it (S j)) (it (S i))) by (apply Hinj; lia).
              rewrite (loc_eqb_neq (it (S j)) (it i)) by (apply Hinj; lia). reflexivity.
        -- replace (i + S n) with (S i + n) by lia. exact B.
        -- intros l Hn. rewrite C by (intros k Hk; apply Hn; lia). rewrite M1.
           rewrite (loc_eqb_neq l (it (S i))) by (intro X; apply (Hn (S i)); [lia|auto]).
           rewrite (loc_eqb_neq l (it i)) by (intro X; apply (Hn i); [lia|auto]). reflexivity.
        -- eapply agree_trans; [|exact D]. destruct H1 as [_ Ha Hb Hn' _]; split; [contradiction|exact Ha|exact Hb|exact Hn'].
        -- intros r. rewrite F. apply (hq_regs _ _ H1).
Qed.

(* rotation: afterwards it j holds what it (j+1) held (j < shift), it shift holds what it 0 held, tmp is raw again *)
Lemma wp_shift_nothrow : forall tmp shift s (Q : unit -> st -> Prop) (E : st -> Prop),
  (forall j, j <= shift -> valid (hp s) (it j) = true /\ exists v, mem (hp s) (it j) = Live v) ->
  valid (hp s) tmp = true -> mem (hp s) tmp = Raw ->
  (forall j k, j <= shift -> k <= shift -> j <> k -> it j <> it k) ->
  (forall j, j <= shift -> it j <> tmp) ->
  (forall s', (forall j, j < shift -> mem (hp s') (it j) = mem (hp s) (it (S j))) ->
              mem (hp s') (it shift) = mem (hp s) (it 0) ->
              (forall l, (forall j, j <= shift -> it j <> l) -> mem (hp s') l = mem (hp s) l) ->
              agree (fun _ => False) (hp s) (hp s') -> same_regs (hp s) (hp s') -> Q tt s') ->
  wp (shift_nothrow it tmp shift) s Q E.
Proof.
  intros tmp shift s Q E Hc Vt Rt Hinj Ht HQ. unfold shift_nothrow.
  destruct (shift =? 0) eqn:E0.
  - apply Nat.eqb_eq in E0. subst shift. apply wp_ret. apply HQ; auto.
    + intros; lia. + apply agree_refl. + intro; reflexivity.
  - apply Nat.eqb_neq in E0.
    destruct (Hc 0 ltac:(lia)) as [V0 [v0 M0]].
    apply wp_bind. eapply wp_relocate1 with (v := v0); auto.
    { apply Ht; lia. } { intros C; contradiction C; reflexivity. }
    intros s1 H1.
    assert (M1 : forall l, mem (hp s1) l = if loc_eqb l (it 0) then Raw else if loc_eqb l tmp then Live v0 else mem (hp s) l).
    { intros l. rewrite (hq_mem _ _ H1). reflexivity. }
    assert (V1 : forall l, valid (hp s1) l = valid (hp s) l) by (intros; rewrite (heq_valid _ _ _ H1); reflexivity).
    apply wp_bind. apply wp_shift_loop.
    + intros j Hj. rewrite V1. apply Hc; lia.
    + rewrite M1, loc_eqb_refl; reflexivity.
    + intros j Hj. destruct (Hc j ltac:(lia)) as [_ [w Hw]]. exists w. rewrite M1.
      rewrite (loc_eqb_neq (it j) (it 0)) by (apply Hinj; lia). rewrite (loc_eqb_neq (it j) tmp) by (apply Ht; lia). auto.
    + intros; apply Hinj; lia.
    + intros s2 A B C D F. simpl in *.
      assert (Mt2 : mem (hp s2) tmp = Live v0).
      { rewrite C by (intros j Hj; apply Ht; lia). rewrite M1. rewrite (loc_eqb_neq tmp (it 0)) by (intro X; symmetry in X; revert X; apply Ht; lia).
        rewrite loc_eqb_refl. reflexivity. }
      eapply wp_relocate1 with (v := v0); auto.
      * rewrite (agree_valid _ _ _ _ D), V1; auto.
      * rewrite (agree_valid _ _ _ _ D), V1. apply Hc; lia.
      * intro X; symmetry in X; revert X; apply Ht; lia.
      * intros C'; contradiction C'; reflexivity.
      * intros s3 H3.
        assert (M3 : forall l, mem (hp s3) l = if loc_eqb l tmp then Raw else if loc_eqb l (it shift) then Live v0 else mem (hp s2) l).
        { intros l. rewrite (hq_mem _ _ H3). reflexivity. }
        apply HQ.
        -- intros j Hj. rewrite M3. rewrite (loc_eqb_neq (it j) tmp) by (apply Ht; lia).
           rewrite (loc_eqb_neq (it j) (it shift)) by (apply Hinj; lia). rewrite A by lia. rewrite M1.
           rewrite (loc_eqb_neq (it (S j)) (it 0)) by (apply Hinj; lia). rewrite (loc_eqb_neq (it (S j)) tmp) by (apply Ht; lia). reflexivity.
        -- rewrite M3. rewrite (loc_eqb_neq (it shift) tmp) by (apply Ht; lia). rewrite loc_eqb_refl. symmetry; exact M0.
        -- intros l Hn. rewrite M3. destruct (loc_eq_dec l tmp) as [->|Hlt].
           ++ rewrite loc_eqb_refl. symmetry; exact Rt.
           ++ rewrite (loc_eqb_neq l tmp) by auto. rewrite (loc_eqb_neq l (it shift)) by (intro X; apply (Hn shift); [lia|auto]).
              rewrite C by (intros j Hj; apply Hn; lia). rewrite M1.
              rewrite (loc_eqb_neq l (it 0)) by (intro X; apply (Hn 0); [lia|auto]). rewrite (loc_eqb_neq l tmp) by auto. reflexivity.
        -- assert (A01 : agree (fun _ => False) (hp s) (hp s1)) by (destruct H1 as [_ Ha Hb Hn' _]; split; [contradiction|exact Ha|exact Hb|exact Hn']).
           assert (A23 : agree (fun _ => False) (hp s2) (hp s3)) by (destruct H3 as [_ Ha Hb Hn' _]; split; [contradiction|exact Ha|exact Hb|exact Hn']).
           eapply agree_trans; [exact A01|]. eapply agree_trans; [exact D|exact A23].
        -- intros r. rewrite (hq_regs _ _ H3). simpl. rewrite F. apply (hq_regs _ _ H1).
Qed.
End Shift.

(* TreeNode::pvRemove (continuous node): for every index, every number of items behind it and every remover that is
   all-or-nothing on the last item: if the remover throws, the node is exactly as before (the rotation is undone) *)
Theorem node_remove_spec : forall items tmp index shift remover fp P R s,
  exec_spec remover fp P R ->
  (forall p, index <= p <= index + shift -> valid (hp s) (items p) = true /\ exists v, mem (hp s) (items p) = Live v) ->
  valid (hp s) tmp = true -> mem (hp s) tmp = Raw ->
  (forall p q, index <= p <= index + shift -> index <= q <= index + shift -> p <> q -> items p <> items q) ->
  (forall p, index <= p <= index + shift -> items p <> tmp) ->
  (forall l, fp l -> l <> tmp /\ forall p, index <= p < index + shift -> items p <> l) ->
  (forall h', agree (fun l => l <> tmp /\ forall p, index <= p <= index + shift -> items p <> l) (hp s) h' ->
              mem h' (items (index + shift)) = mem (hp s) (items index) -> P h') ->
  wp (node_remove items tmp index shift remover) s
     (fun _ s' => forall p, index <= p < index + shift -> mem (hp s') (items p) = mem (hp s) (items (S p)))
     (fun s' => unchanged (hp s) (hp s')).
Proof.
  intros items tmp index shift remover fp P R s Hex Hc Vt Rt Hinj Ht Hfp HP. unfold node_remove.
  apply wp_bind. apply wp_shift_nothrow; auto.
  { intros j Hj. apply Hc; lia. }
  { intros j k Hj Hk Hjk. apply Hinj; lia. }
  { intros j Hj. apply Ht; lia. }
  intros s1 A B C D F.
  assert (S1 : forall p, index <= p < index + shift -> mem (hp s1) (items p) = mem (hp s) (items (S p))).
  { intros p Hp. specialize (A (p - index) ltac:(lia)). simpl in A.
    replace (index + (p - index)) with p in A by lia. replace (index + S (p - index)) with (S p) in A by lia. exact A. }
  assert (S1last : mem (hp s1) (items (index + shift)) = mem (hp s) (items index)).
  { simpl in B. rewrite Nat.add_0_r in B. exact B. }
  assert (S1out : forall l, (forall p, index <= p <= index + shift -> items p <> l) -> mem (hp s1) l = mem (hp s) l).
  { intros l Hl. apply C. intros j Hj. apply Hl; lia. }
  assert (V1 : forall l, valid (hp s1) l = valid (hp s) l) by (intros; apply (agree_valid _ _ _ _ D)).
  assert (HP1 : P (hp s1)).
  { apply HP; auto. destruct D. split; auto. intros l [L1 L2]. apply S1out; auto. }
  apply wp_try. apply (ex_run _ _ _ _ Hex s1 HP1).
  - (* the remover threw: rotate back *)
    intros s2 H2.
    assert (M2 : forall l, mem (hp s2) l = mem (hp s1) l) by (intros; apply (hq_mem _ _ H2)).
    apply wp_bind. apply wp_shift_nothrow.
    + intros j Hj. rewrite (heq_valid _ _ _ H2), V1. split. { apply Hc; lia. }
      rewrite M2. destruct (Nat.eq_dec j 0) as [->|Hj0].
      * rewrite Nat.sub_0_r, S1last. apply Hc; lia.
      * rewrite S1 by lia. apply Hc; lia.
    + rewrite (heq_valid _ _ _ H2), V1; auto.
    + rewrite M2, S1out; auto.
    + intros j k Hj Hk Hjk. apply Hinj; lia.
    + intros j Hj. apply Ht; lia.
    + intros s3 A' B' C' D' F'. apply wp_throw. simpl in *.
      assert (T3 : forall p, index < p <= index + shift -> mem (hp s3) (items p) = mem (hp s2) (items (p - 1))).
      { intros p Hp. specialize (A' (index + shift - p) ltac:(lia)).
        replace (index + shift - (index + shift - p)) with p in A' by lia.
        replace (index + shift - S (index + shift - p)) with (p - 1) in A' by lia. exact A'. }
      assert (T3first : mem (hp s3) (items index) = mem (hp s2) (items (index + shift))).
      { replace (index + shift - shift) with index in B' by lia. rewrite Nat.sub_0_r in B'. exact B'. }
      split.
      * intros l. destruct (in_range_dec items index (S (index + shift)) l) as [[p [Hp El]]|N].
        -- subst l. destruct (Nat.eq_dec p index) as [->|Hpi].
           ++ rewrite T3first, M2, S1last. reflexivity.
           ++ rewrite T3 by lia. rewrite M2, S1 by lia. replace (S (p - 1)) with p by lia. reflexivity.
        -- rewrite C' by (intros j Hj; apply N; lia). rewrite M2. apply S1out. intros p Hp. apply N; lia.
      * intros b. rewrite (ag_alive _ _ _ D'), (hq_alive _ _ H2). apply (ag_alive _ _ _ D).
      * intros b. rewrite (ag_bsize _ _ _ D'), (hq_bsize _ _ H2). apply (ag_bsize _ _ _ D).
      * rewrite (ag_next _ _ _ D'), (hq_next _ _ H2). apply (ag_next _ _ _ D).
      * intros r _. rewrite F', (hq_regs _ _ H2). apply F.
  - (* the remover succeeded *)
    intros s2 Ag2 Hr2 HR2 p Hp. simpl.
    rewrite (ag_mem _ _ _ Ag2). { apply S1; auto. }
    intros Ffp. destruct (Hfp _ Ffp) as [_ Hn]. apply (Hn p); auto.
Qed.
