(* C02 (growth round 4) -- TreeSet::pvFindFirst(Node*, itemPred): the REAL search inside one node (linear scan guarded by the test of
   the last item / binary search), translated by cxx2coq (Gen_FindFirst.v: the predicate is a function of the logical item index,
   node->GetCount() and TreeTraits::useLinearSearch are section variables).  It is the hand model's `search`, hence (with
   BTreeSearch.search_correct) it returns the first position whose item satisfies a monotone predicate - for GetLowerBound the first
   position with !(item < key), for GetUpperBound the first with key < item. *)
From Coq Require Import ZArith Bool List Lia Arith.
From MomoCommon Require Import GenPrelude.
From C02 Require Import Gen_FindFirst BTreeModel BTreeSearch.
Import ListNotations.

Definition ipred (P : Z -> bool) (ks : list Z) : Z -> bool := fun i => P (nth (Z.to_nat i) ks 0%Z).

Lemma w64s x : (0 <= x < 1000)%Z -> wrapU 64 x = x.
Proof. intros. apply wrapU_small. change (2 ^ 64)%Z with 18446744073709551616%Z. lia. Qed.

Lemma lin_loop P ks : forall l pre fuel,
  ks = pre ++ l -> existsb P l = true -> length l < fuel -> length ks <= 255 ->
  Gen_FindFirst.pvFindFirst_node_loop0 fuel (ipred P ks) (Z.of_nat (length pre)) = Ok (Z.of_nat (length pre + first_true P l)).
Proof.
  induction l as [|x l IH]; intros pre fuel E Ex Hf Hk; [discriminate|].
  destruct fuel as [|fuel]; [simpl in Hf; lia|]. rewrite Gen_FindFirst.pvFindFirst_node_loop0_eq.
  assert (Ex0 : ipred P ks (Z.of_nat (length pre)) = P x).
  { unfold ipred. rewrite Nat2Z.id, E, app_nth2 by lia. rewrite Nat.sub_diag. reflexivity. }
  rewrite Ex0. cbn [first_true existsb] in *. destruct (P x) eqn:Px; cbn [negb].
  - rewrite Nat.add_0_r. reflexivity.
  - cbn [orb] in Ex. cbv zeta. rewrite w64s by (rewrite E, app_length in Hk; simpl in Hk; lia).
    specialize (IH (pre ++ [x]) fuel). rewrite app_length in IH. cbn [length] in IH.
    replace (Z.of_nat (length pre) + 1)%Z with (Z.of_nat (length pre + 1)) by lia.
    rewrite IH; [f_equal; f_equal; lia| rewrite <- app_assoc; exact E | exact Ex | simpl in Hf; lia | exact Hk].
Qed.

Lemma last_true_exists P (ks : list Z) : ks <> [] -> P (nth (length ks - 1) ks 0%Z) = true -> existsb P ks = true.
Proof.
  intros N H. apply existsb_exists. exists (nth (length ks - 1) ks 0%Z). split; [|exact H].
  apply nth_In. destruct ks; [congruence|]. simpl. lia.
Qed.

Lemma bin_loop P ks : forall f fuel l r,
  l <= r -> r <= 255 -> r - l < f -> f <= fuel ->
  exists r', Gen_FindFirst.pvFindFirst_node_loop1 fuel (ipred P ks) (Z.of_nat l) (Z.of_nat r) = Ok (Z.of_nat (bsearch f P ks l r), r').
Proof.
  induction f as [|f IH]; intros fuel l r Hl Hr Hd Hf; [lia|].
  destruct fuel as [|fuel]; [lia|]. rewrite Gen_FindFirst.pvFindFirst_node_loop1_eq. cbn [bsearch].
  destruct (Nat.ltb_spec l r) as [L|L].
  - replace (Z.of_nat l <? Z.of_nat r)%Z with true by (symmetry; apply Z.ltb_lt; lia). cbv zeta.
    rewrite w64s by lia.
    assert (Em : ((Z.of_nat l + Z.of_nat r) / 2)%Z = Z.of_nat ((l + r) / 2)).
    { rewrite <- Nat2Z.inj_add. rewrite (Nat2Z.inj_div (l + r) 2). reflexivity. }
    rewrite Em. set (m := (l + r) / 2).
    assert (Hm : l <= m < r).
    { unfold m. split; [apply Nat.div_le_lower_bound; lia | apply Nat.div_lt_upper_bound; lia]. }
    unfold ipred at 1. rewrite Nat2Z.id. destruct (P (nth m ks 0%Z)).
    + apply IH; lia.
    + rewrite w64s by lia. replace (Z.of_nat m + 1)%Z with (Z.of_nat (S m)) by lia. apply IH; lia.
  - replace (Z.of_nat l <? Z.of_nat r)%Z with false by (symmetry; apply Z.ltb_ge; lia). eexists. reflexivity.
Qed.

(* the generated node search IS the hand model's search *)
Theorem gen_find_first_is_search (linear : bool) P (ks : list Z) :
  length ks <= 255 ->
  Gen_FindFirst.pvFindFirst_node linear (Z.of_nat (length ks)) (ipred P ks) = Ok (Z.of_nat (search linear P ks)).
Proof.
  intros Hk. unfold Gen_FindFirst.pvFindFirst_node, search. destruct linear.
  - unfold search_lin. destruct (Nat.eqb_spec (length ks) 0) as [E0|E0].
    + rewrite E0. reflexivity.
    + replace (Z.of_nat (length ks) =? 0)%Z with false by (symmetry; apply Z.eqb_neq; lia). cbn [orb].
      rewrite w64s by lia. unfold ipred at 1. replace (Z.to_nat (Z.of_nat (length ks) - 1)) with (length ks - 1) by lia.
      destruct (P (nth (length ks - 1) ks 0%Z)) eqn:Pl; cbn [negb]; [|reflexivity].
      assert (Ne : ks <> []) by (intros ->; simpl in E0; lia).
      pose proof (lin_loop P ks ks [] Gen_FindFirst.fuel_of_pvFindFirst_node eq_refl (last_true_exists P ks Ne Pl)) as LL.
      cbn [length Nat.add] in LL. change (Z.of_nat 0) with 0%Z in LL. rewrite LL; [reflexivity| |exact Hk].
      unfold Gen_FindFirst.fuel_of_pvFindFirst_node. change (Z.to_nat 300) with 300. lia.
  - destruct (bin_loop P ks (S (length ks)) Gen_FindFirst.fuel_of_pvFindFirst_node 0 (length ks)) as (r' & E); try lia.
    { unfold Gen_FindFirst.fuel_of_pvFindFirst_node. change (Z.to_nat 300) with 300. lia. }
    change (Z.of_nat 0) with 0%Z in E. rewrite E. reflexivity.
Qed.

(* ... hence it returns the first position whose item satisfies a monotone predicate (linear or binary alike) *)
Theorem gen_find_first_is_first_true (linear : bool) P (ks : list Z) :
  length ks <= 255 -> mono P ks ->
  Gen_FindFirst.pvFindFirst_node linear (Z.of_nat (length ks)) (ipred P ks) = Ok (Z.of_nat (first_true P ks)).
Proof. intros Hk Hm. rewrite gen_find_first_is_search by exact Hk. rewrite (search_correct linear P ks Hm). reflexivity. Qed.

(* the heart of the sorted-sequence lookups: on a sorted node the REAL search with GetLowerBound's predicate !(item < key) returns the
   first position whose item is not less than the key (and with GetUpperBound's predicate key < item the first greater one) *)
Theorem gen_lower_bound_in_node (linear : bool) (ks : list Z) (k : Z) :
  length ks <= 255 -> Sorted.StronglySorted Z.le ks ->
  exists i, Gen_FindFirst.pvFindFirst_node linear (Z.of_nat (length ks)) (ipred (fun x => negb (x <? k)%Z) ks) = Ok (Z.of_nat i) /\
    i <= length ks /\ (forall j, j < i -> (nth j ks 0 < k)%Z) /\ (forall j, i <= j < length ks -> (k <= nth j ks 0)%Z).
Proof.
  intros Hk Ss. pose proof (sorted_mono_ge ks k Ss) as Hm.
  exists (first_true (fun x => negb (x <? k)%Z) ks). split; [apply gen_find_first_is_first_true; assumption|].
  split; [apply ft_le|]. split; intros j Hj.
  - pose proof (ft_before _ ks j Hj) as B. cbv beta in B. apply negb_false_iff, Z.ltb_lt in B. exact B.
  - pose proof (mono_after _ ks j Hm Hj) as A. cbv beta in A. apply negb_true_iff, Z.ltb_ge in A. exact A.
Qed.

Theorem gen_upper_bound_in_node (linear : bool) (ks : list Z) (k : Z) :
  length ks <= 255 -> Sorted.StronglySorted Z.le ks ->
  exists i, Gen_FindFirst.pvFindFirst_node linear (Z.of_nat (length ks)) (ipred (fun x => (k <? x)%Z) ks) = Ok (Z.of_nat i) /\
    i <= length ks /\ (forall j, j < i -> (nth j ks 0 <= k)%Z) /\ (forall j, i <= j < length ks -> (k < nth j ks 0)%Z).
Proof.
  intros Hk Ss. pose proof (sorted_mono_gt ks k Ss) as Hm.
  exists (first_true (fun x => (k <? x)%Z) ks). split; [apply gen_find_first_is_first_true; assumption|].
  split; [apply ft_le|]. split; intros j Hj.
  - pose proof (ft_before _ ks j Hj) as B. cbv beta in B. apply Z.ltb_ge in B. exact B.
  - pose proof (mono_after _ ks j Hm Hj) as A. cbv beta in A. apply Z.ltb_lt in A. exact A.
Qed.
