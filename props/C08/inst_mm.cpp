#include "momo/HashMultiMap.h"
namespace momo {
template class HashMultiMap<int, int64_t>;
}
namespace momo { namespace internal {
struct C08VS : public HashMultiMapSettings {};
template class VersionKeeper<C08VS, true>;    // what HashMultiMapIterator derives from when checkValueVersion is on
}}
