#!/bin/bash
# grow_next round 2 mutants: J1 (generation walk never advances; now breaks a THEOREM via the generated Gen_HSFind.pvFindKey),
# K1 (Open2N2 decoded maxProbe halved; breaks the Open2N2 find-across-generations chain of theorems)
cd /verif
run() {
  d=$(mktemp -d); cp -r /repo/include $d/
  cp evidence/C12.json $d/ev_keep.json 2>/dev/null; ls replays > $d/replays_before.txt 2>/dev/null   # a mutant run must not leave evidence / replays behind
  python3 - "$d/include/momo/$2" "$3" "$4" <<'PY'
import sys
p,old,new=sys.argv[1:4]
s=open(p).read()
assert s.count(old)==1,(s.count(old))
open(p,'w').write(s.replace(old,new))
PY
  echo "=== $1"; VERIF_REPO=$d timeout 3000 ./check C12 > build/C12/mut_$1.log 2>&1; echo "exit=$?"
  grep -E "BROKEN|VIOLATION|done:" build/C12/mut_$1.log | cut -c1-230
  cp build/C12/coq_make.log build/C12/coq_make_$1.log 2>/dev/null
  cp $d/ev_keep.json evidence/C12.json 2>/dev/null; for r in $(ls replays | grep '^C12-'); do grep -qx "$r" $d/replays_before.txt || rm -f replays/$r; done
  rm -rf $d
}
run J1 HashSet.h "				buckets = buckets->GetNextBuckets();
				if (buckets == nullptr)
					break;" "				buckets = nullptr;
				if (buckets == nullptr)
					break;"
run K1 details/HashBucketOpen2N2.h "			return size_t{mState[0]} << (mState[1] >> 2);" "			return (size_t{mState[0]} << (mState[1] >> 2)) >> 1;"
# K2: the per-generation probing loop of HashSet::pvFind(indexCode, buckets, pred) stops one probe early
run K2 HashSet.h "		for (size_t probe = 1; bucket->WasFull() && probe <= maxProbe; ++probe)" "		for (size_t probe = 1; bucket->WasFull() && probe < maxProbe; ++probe)"
python3 /verif/props/C12/regen_clean.py   # leave the clean translation in the shared coq directory
