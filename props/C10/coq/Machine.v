(* C10 -- the L2 resource machine for element relocation: categories, events, failure schedules and the
   ObjectManager mechanisms exactly as coded in /repo/include/momo/ObjectManager.h.
   Executable Gallina (extracted and run against the real functions on kit elements). *)
From Coq Require Import ZArith Bool List Lia.
Import ListNotations.
Local Open Scope Z_scope.

(* element categories (harness: c10::LE<C> over harness/kit.h elements) as momo sees them with the default
   MOMO_IS_NOTHROW_RELOCATABLE_APPENDIX of UserSettings.h:43-54 ("we can use the move constructor even if it is
   not marked as noexcept": every type that HAS a move constructor is nothrow-relocatable, relocation runs in
   noexcept functions):
     NTM  nothrow move constructor and move assignment
     SMH  as NTM; self-move-assignment empties the object
     THM  has a move constructor that is not declared noexcept (assumed not to throw while relocating, see
          assumptions); its move ASSIGNMENT and its copy operations may throw
     CPY  copy-only: no move constructor, "moving" selects the copy operations, which may throw *)
Inductive cat := NTM | SMH | THM | CPY.

(* ObjectRelocator::isNothrowRelocatable (ObjectManager.h:89-92) *)
Definition nothrow_reloc (c : cat) : bool := match c with NTM | SMH | THM => true | CPY => false end.
(* std::is_nothrow_move_assignable *)
Definition nothrow_massign (c : cat) : bool := match c with NTM | SMH => true | THM | CPY => false end.
(* ObjectManager::isNothrowAnywayAssignable = nothrow move-assignable || nothrow swappable || nothrow relocatable
   (std::swap of THM / CPY objects is not noexcept) *)
Definition nothrow_anyway (c : cat) : bool := nothrow_massign c || nothrow_reloc c.

Notation item := Z (only parsing).
Definition moved : Z := -1.             (* content of a moved-from kit element *)

Inductive fkind := FAlloc | FCopy | FFunc.
Inductive ev :=
| EMove (v : Z)                 (* move construction from an object holding v *)
| ECopy (v : Z)                 (* copy construction (for CPY also what "move" does) *)
| EDtor (v : Z)                 (* destruction of an object holding v (moved = -1) *)
| EMAssign (src dst : Z)        (* move assignment  dst = std::move(src) *)
| ECAssign (src dst : Z)        (* copy assignment *)
| EFail (k : fkind).            (* the injected failure fired *)

Definition is_copy (e : ev) : bool := match e with ECopy _ | ECAssign _ _ => true | _ => false end.

(* The world: three failure schedules (one per kind of fallible step), consumed left to right -- an empty
   schedule means "no further failure" -- and the event trace (most recent event first). *)
Record world := W { sf : list bool; sa : list bool; sc : list bool; tr : list ev }.

Definition pop (l : list bool) : bool * list bool := match l with [] => (false, []) | b :: t => (b, t) end.
Definition emit (w : world) (e : ev) : world := W (sf w) (sa w) (sc w) (e :: tr w).

(* a fallible step of each kind: None = it threw *)
Definition step_copy (w : world) : option world :=
  let (b, t) := pop (sc w) in
  if b then None else Some (W (sf w) (sa w) t (tr w)).
Definition fail_copy (w : world) : world := W (sf w) (sa w) (snd (pop (sc w))) (EFail FCopy :: tr w).
Definition step_func (w : world) : option world :=
  let (b, t) := pop (sf w) in
  if b then None else Some (W t (sa w) (sc w) (tr w)).
Definition fail_func (w : world) : world := W (snd (pop (sf w))) (sa w) (sc w) (EFail FFunc :: tr w).
Definition step_alloc (w : world) : option world :=
  let (b, t) := pop (sa w) in
  if b then None else Some (W (sf w) t (sc w) (tr w)).
Definition fail_alloc (w : world) : world := W (sf w) (snd (pop (sa w))) (sc w) (EFail FAlloc :: tr w).

(* result of a mechanism: the world afterwards + either the new contents (Some) or "threw" (None) *)

(* ::new(dst) Object(std::move(src)) -- returns (new object, src afterwards) *)
Definition move_ctor (c : cat) (w : world) (v : Z) : world * option (Z * Z) :=
  match c with
  | NTM | SMH | THM => (emit w (EMove v), Some (v, moved))
  | CPY => match step_copy w with
           | None => (fail_copy w, None)
           | Some w1 => (emit w1 (ECopy v), Some (v, v)) end
  end.

(* ::new(dst) Object(src): the copy constructor of every category may throw *)
Definition copy_ctor (c : cat) (w : world) (v : Z) : world * option Z :=
  match step_copy w with
  | None => (fail_copy w, None)
  | Some w1 => (emit w1 (ECopy v), Some v)
  end.

(* dst = std::move(src): returns (dst afterwards, src afterwards) *)
Definition move_assign (c : cat) (w : world) (src dst : Z) : world * option (Z * Z) :=
  match c with
  | NTM | SMH => (emit w (EMAssign src dst), Some (src, moved))
  | THM => match step_copy w with
           | None => (fail_copy w, None)
           | Some w1 => (emit w1 (EMAssign src dst), Some (src, moved)) end
  | CPY => match step_copy w with
           | None => (fail_copy w, None)
           | Some w1 => (emit w1 (ECAssign src dst), Some (src, src)) end
  end.

(* dst = src *)
Definition copy_assign (c : cat) (w : world) (src dst : Z) : world * option Z :=
  match step_copy w with
  | None => (fail_copy w, None)
  | Some w1 => (emit w1 (ECAssign src dst), Some src)
  end.

Definition dtor (w : world) (v : Z) : world := emit w (EDtor v).

(* ObjectRelocator::Relocate (ObjectManager.h:95-116): move-construct, destroy the source.
   Some v = the relocated object; None = threw, source untouched. *)
Definition relocate (c : cat) (w : world) (v : Z) : world * option Z :=
  match move_ctor c w v with
  | (w1, None) => (w1, None)
  | (w1, Some (n, s)) => (dtor w1 s, Some n)
  end.

(* ObjectManager::Replace = AssignAnyway(src, dst); Destroy(src)  (ObjectManager.h:328-340, 417-451).
   pvAssignAnyway overloads:  nothrow move-assignable -> dst = std::move(src);
   else nothrow relocatable (THM) -> Relocate(dst, buf); Relocate(src, &dst); Relocate(buf, &src);
   else (CPY) -> dst = std::move(src), i.e. the copy assignment, which may throw.
   Some d = new contents of dst (src destroyed); None = threw (src and dst untouched). *)
Definition replace (c : cat) (w : world) (src dst : Z) : world * option Z :=
  if nothrow_massign c then
    match move_assign c w src dst with
    | (w1, None) => (w1, None)
    | (w1, Some (d, s)) => (dtor w1 s, Some d)
    end
  else if nothrow_reloc c then
    match relocate c w dst with
    | (w1, None) => (w1, None)
    | (w1, Some buf) =>
      match relocate c w1 src with
      | (w2, None) => (w2, None)
      | (w2, Some d) =>
        match relocate c w2 buf with
        | (w3, None) => (w3, None)
        | (w3, Some s) => (dtor w3 s, Some d)
        end
      end
    end
  else
    match move_assign c w src dst with
    | (w1, None) => (w1, None)
    | (w1, Some (d, s)) => (dtor w1 s, Some d)
    end.

(* ObjectManager::ReplaceRelocate(src, mid, dstPtr) (ObjectManager.h:342-485): mid is relocated to dstPtr and
   src takes mid's place.  Result Some (ext, mid') ; None = threw with src, mid untouched, dstPtr raw. *)
Definition replace_relocate (c : cat) (w : world) (src mid : Z) : world * option (Z * Z) :=
  if nothrow_reloc c then
    (* Relocate(mid, dst); Relocate(src, &mid) *)
    match relocate c w mid with
    | (w1, None) => (w1, None)
    | (w1, Some e) =>
      match relocate c w1 src with
      | (w2, None) => (w2, None)
      | (w2, Some m) => (w2, Some (e, m))
      end
    end
  else if nothrow_anyway c then
    (* Move(mid, dst); Replace(src, mid) -- not selected for any of the four categories *)
    match move_ctor c w mid with
    | (w1, None) => (w1, None)
    | (w1, Some (e, mid1)) =>
      match replace c w1 src mid1 with
      | (w2, None) => (w2, None)
      | (w2, Some m) => (w2, Some (e, m))
      end
    end
  else
    (* Copy(mid, dst); try { Replace(src, mid) } catch (...) { Destroy(dstPtr); throw; } *)
    match copy_ctor c w mid with
    | (w1, None) => (w1, None)
    | (w1, Some e) =>
      match replace c w1 src mid with
      | (w2, None) => (dtor w2 e, None)
      | (w2, Some m) => (w2, Some (e, m))
      end
    end.

(* ------------------------------------------------------------------ facts, for every schedule *)

Definition no_copy (t : list ev) : Prop := Forall (fun e => is_copy e = false) t.

Lemma no_copy_cons e t : is_copy e = false -> no_copy t -> no_copy (e :: t).
Proof. intros; constructor; assumption. Qed.

Lemma relocate_nothrow c w v : nothrow_reloc c = true ->
  exists w', relocate c w v = (w', Some v) /\ tr w' = EDtor moved :: EMove v :: tr w
             /\ sf w' = sf w /\ sa w' = sa w /\ sc w' = sc w.
Proof. destruct c; simpl; intros H; try discriminate; eexists; (split; [reflexivity|]); simpl; auto. Qed.

Lemma relocate_value c w v w' r : relocate c w v = (w', Some r) -> r = v.
Proof.
  unfold relocate, move_ctor. destruct c; simpl; try (intros H; inversion H; reflexivity);
  destruct (step_copy w); simpl; intros H; inversion H; reflexivity.
Qed.

Lemma relocate_no_copy c w v w' r : nothrow_reloc c = true -> no_copy (tr w) ->
  relocate c w v = (w', r) -> no_copy (tr w').
Proof.
  intros Hc Hn H. destruct (relocate_nothrow c w v Hc) as (w1 & E & T & _). rewrite E in H. inversion H; subst.
  rewrite T. repeat apply no_copy_cons; auto.
Qed.

Lemma replace_relocate_value c w s m w' e m' : replace_relocate c w s m = (w', Some (e, m')) -> e = m /\ m' = s.
Proof.
  unfold replace_relocate, relocate, replace, move_ctor, move_assign, copy_ctor.
  destruct c; simpl; try (intros H; inversion H; auto; fail);
  repeat (match goal with |- context [step_copy ?x] => destruct (step_copy x); simpl end);
  intros H; inversion H; auto.
Qed.

(* Replace: on success dst holds the old src value, for every category and schedule *)
Lemma replace_value c w s d w' r : replace c w s d = (w', Some r) -> r = s.
Proof.
  unfold replace, relocate, move_ctor, move_assign.
  destruct c; simpl; try (intros H; inversion H; auto; fail);
  repeat (match goal with |- context [step_copy ?x] => destruct (step_copy x); simpl end);
  intros H; inversion H; auto.
Qed.

Lemma replace_relocate_nothrow c w s m : nothrow_reloc c = true ->
  exists w', replace_relocate c w s m = (w', Some (m, s)) /\
     tr w' = EDtor moved :: EMove s :: EDtor moved :: EMove m :: tr w /\ sf w' = sf w /\ sa w' = sa w /\ sc w' = sc w.
Proof. destruct c; simpl; intros H; try discriminate; eexists; (split; [reflexivity|]); simpl; auto. Qed.

Lemma replace_relocate_no_copy c w s m w' r : nothrow_reloc c = true -> no_copy (tr w) ->
  replace_relocate c w s m = (w', r) -> no_copy (tr w').
Proof.
  intros Hc Hn H. destruct (replace_relocate_nothrow c w s m Hc) as (w1 & E & T & _). rewrite E in H. inversion H; subst.
  rewrite T. repeat apply no_copy_cons; auto.
Qed.

(* the functor / allocation schedules are only consumed by their own steps *)
Lemma step_func_tr w w' : step_func w = Some w' -> tr w' = tr w.
Proof. unfold step_func. destruct (pop (sf w)) as [b t]. destruct b; intros H; inversion H; reflexivity. Qed.
Lemma step_alloc_tr w w' : step_alloc w = Some w' -> tr w' = tr w.
Proof. unfold step_alloc. destruct (pop (sa w)) as [b t]. destruct b; intros H; inversion H; reflexivity. Qed.
