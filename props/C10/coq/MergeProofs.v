(* C10 -- proofs about the merge / extract model, for EVERY failure schedule. *)
From Coq Require Import ZArith Bool List Lia Permutation Arith.
From C10 Require Import Machine Merge.
Import ListNotations.
Local Open Scope Z_scope.

(* ---------------------------------------------------------------- list facts *)

Lemma nth_split_skipn (b : list item) (i : nat) : (i < length b)%nat ->
  b = firstn i b ++ nth i b 0 :: skipn (S i) b.
Proof.
  revert i; induction b as [|a b IH]; intros i H; simpl in *; [lia|].
  destruct i; simpl; [reflexivity|]. f_equal. apply IH. lia.
Qed.

Lemma bucket_remove_perm b i : (i < length b)%nat -> Permutation (nth i b 0 :: bucket_remove b i) b.
Proof.
  intros H. pose proof (nth_split_skipn b i H) as Hb. unfold bucket_remove.
  remember (firstn i b) as pre in *. remember (skipn (S i) b) as post in *. remember (nth i b 0) as x in *.
  clear Heqpre Heqpost Heqx. subst b.
  destruct (rev post) as [|l rp] eqn:E; apply (f_equal (@rev item)) in E; rewrite rev_involutive in E; subst post; simpl.
  - apply Permutation_cons_append.
  - etransitivity; [|apply Permutation_middle]. constructor.
    apply Permutation_app_head. apply Permutation_cons_append.
Qed.

Lemma bucket_remove_length b i : (i < length b)%nat -> S (length (bucket_remove b i)) = length b.
Proof. intros H. pose proof (Permutation_length (bucket_remove_perm b i H)) as P. simpl in P. exact P. Qed.

Lemma perm_transfer (A b b' C D : list item) x :
  Permutation (x :: b') b -> Permutation ((A ++ b' ++ C) ++ D ++ [x]) ((A ++ b ++ C) ++ D).
Proof.
  intros P. rewrite app_assoc.
  apply perm_trans with (x :: ((A ++ b' ++ C) ++ D)); [symmetry; apply Permutation_cons_append|].
  change (x :: (A ++ b' ++ C) ++ D) with ((x :: A ++ b' ++ C) ++ D). apply Permutation_app_tail.
  etransitivity; [apply Permutation_middle|]. apply Permutation_app_head.
  change (x :: b' ++ C) with ((x :: b') ++ C). apply Permutation_app_tail. exact P.
Qed.

Lemma has_key_false_notin d k : has_key d k = false -> ~ In k (map key d).
Proof.
  intros H I. apply in_map_iff in I. destruct I as (y & E & I).
  assert (has_key d k = true); [|congruence].
  apply existsb_exists. exists y. split; [exact I|]. apply Z.eqb_eq. exact E.
Qed.

Lemma has_key_true_in d k : has_key d k = true -> In k (map key d).
Proof.
  intros H. apply existsb_exists in H. destruct H as (y & I & E). apply Z.eqb_eq in E. subst. apply in_map. exact I.
Qed.

Lemma in_has_key d k : In k (map key d) -> has_key d k = true.
Proof.
  intros I. destruct (has_key d k) eqn:E; [reflexivity|]. exfalso. exact (has_key_false_notin _ _ E I).
Qed.

Lemma nodup_keys_snoc d x : NoDup (map key d) -> has_key d (key x) = false -> NoDup (map key (d ++ [x])).
Proof.
  intros N H. rewrite map_app. simpl.
  apply Permutation_NoDup with (l := key x :: map key d); [apply Permutation_cons_append|].
  constructor; [apply has_key_false_notin; exact H|exact N].
Qed.

(* ---------------------------------------------------------------- mechanism facts *)

Lemma extract_reloc_value c w x r w' e : extract_reloc c w x r = (w', Some e) -> e = x.
Proof.
  unfold extract_reloc. destruct r as [l|].
  - destruct (replace_relocate c w l x) as [w1 [[e1 m1]|]] eqn:E; intros H; inversion H; subst.
    apply replace_relocate_value in E. tauto.
  - apply relocate_value.
Qed.

Lemma extract_reloc_no_copy c w x r w' o : nothrow_reloc c = true -> no_copy (tr w) ->
  extract_reloc c w x r = (w', o) -> no_copy (tr w').
Proof.
  unfold extract_reloc. intros Hc Hn. destruct r as [l|].
  - destruct (replace_relocate c w l x) as [w1 o1] eqn:E. pose proof (replace_relocate_no_copy _ _ _ _ _ _ Hc Hn E) as N.
    destruct o1 as [[e1 m1]|]; intros H; inversion H; subst; exact N.
  - intros H. exact (relocate_no_copy _ _ _ _ _ Hc Hn H).
Qed.

(* a nothrow-relocatable category never throws while relocating: the extraction always succeeds *)
Lemma extract_reloc_nothrow c w x r : nothrow_reloc c = true -> exists w', extract_reloc c w x r = (w', Some x).
Proof.
  intros Hc. unfold extract_reloc. destruct r as [l|].
  - destruct (replace_relocate_nothrow c w l x Hc) as (w' & E & _). rewrite E. eexists; reflexivity.
  - destruct (relocate_nothrow c w x Hc) as (w' & E & _). rewrite E. eexists; reflexivity.
Qed.

Lemma fail_func_tr w : tr (fail_func w) = EFail FFunc :: tr w. Proof. reflexivity. Qed.
Lemma fail_alloc_tr w : tr (fail_alloc w) = EFail FAlloc :: tr w. Proof. reflexivity. Qed.

(* ================================================================ HashSet::pvMergeTo *)

Definition hinv (init : list item) (st : mstate) : Prop :=
  Permutation (src_items st ++ s_dst st) init /\ (s_idx st <= length (s_cur st))%nat.

Ltac hstep_cases c multi st :=
  unfold hstep; destruct st as [dn b idx todo dst w stat]; simpl;
  destruct stat; simpl; try tauto;
  destruct idx as [|i]; simpl;
  [ destruct todo as [|b2 t]; simpl
  | destruct (step_func w) as [w1|] eqn:Ef; simpl;
    [ destruct (negb multi && has_key dst (key (nth i b 0))) eqn:Eh; simpl;
      [ | destruct (step_alloc w1) as [w2|] eqn:Ea; simpl;
          [ destruct (extract_reloc c w2 (nth i b 0) (repl_of b i)) as [w3 [e|]] eqn:Ee; simpl | ] ]
    | ] ].

Lemma hstep_inv c multi init st : hinv init st -> hinv init (hstep c multi st).
Proof.
  unfold hinv, src_items. hstep_cases c multi st; intros [P L]; simpl in *; try (split; [exact P|lia]); try tauto.
  - split; [|lia]. rewrite concat_app. simpl. rewrite app_nil_r. rewrite <- !app_assoc in *. exact P.
  - apply extract_reloc_value in Ee. subst e.
    assert (Hi : (i < length b)%nat) by lia.
    split.
    + etransitivity; [|exact P]. apply perm_transfer. apply bucket_remove_perm. exact Hi.
    + pose proof (bucket_remove_length b i Hi). lia.
Qed.

Lemma hrun_inv c multi init n st : hinv init st -> hinv init (hrun c multi n st).
Proof. intros H. induction n; simpl; [exact H|]. apply hstep_inv. exact IHn. Qed.

Lemma hinit_inv src dst w : hinv (concat src ++ dst) (hinit src dst w).
Proof. split; simpl; [|lia]. unfold src_items. simpl. reflexivity. Qed.

(* merge_conservation, hash source: after ANY number of loop iterations (hence also in the state left behind
   by a failure part-way, and in the final state) source (+) destination is the initial multiset. *)
Theorem hmerge_conservation c multi src dst w n :
  Permutation (src_items (hrun c multi n (hinit src dst w)) ++ s_dst (hrun c multi n (hinit src dst w)))
              (concat src ++ dst).
Proof. exact (proj1 (hrun_inv c multi _ n _ (hinit_inv src dst w))). Qed.

(* unique-key destinations never contain duplicate keys *)
Lemma hstep_nodup c multi st : multi = false ->
  NoDup (map key (s_dst st)) -> NoDup (map key (s_dst (hstep c multi st))).
Proof.
  intros Hm. hstep_cases c multi st; intros N; subst multi; simpl in *; try exact N.
  apply extract_reloc_value in Ee. subst e. apply nodup_keys_snoc; assumption.
Qed.

Theorem hmerge_unique_nodup c src dst w n :
  NoDup (map key dst) -> NoDup (map key (s_dst (hrun c false n (hinit src dst w)))).
Proof. intros N. induction n; simpl; [exact N|]. apply hstep_nodup; [reflexivity|exact IHn]. Qed.

(* the trace of a movable (nothrow-relocatable) category contains no copy *)
Lemma hstep_no_copy c multi st : nothrow_reloc c = true ->
  no_copy (tr (s_w st)) -> no_copy (tr (s_w (hstep c multi st))).
Proof.
  intros Hc. hstep_cases c multi st; intros N; simpl in *; try exact N;
  try (apply step_func_tr in Ef); try (apply step_alloc_tr in Ea);
  try (rewrite Ef; exact N); try (apply no_copy_cons; [reflexivity|]; try rewrite Ea; try rewrite Ef; exact N).
  - eapply extract_reloc_no_copy; [exact Hc| |exact Ee]. rewrite Ea, Ef. exact N.
  - eapply extract_reloc_no_copy; [exact Hc| |exact Ee]. rewrite Ea, Ef. exact N.
Qed.

Theorem hmerge_no_copy c multi src dst w n : nothrow_reloc c = true -> no_copy (tr w) ->
  no_copy (tr (s_w (hrun c multi n (hinit src dst w)))).
Proof. intros Hc N. induction n; simpl; [exact N|]. apply hstep_no_copy; assumption. Qed.

(* an element refused by a unique-key destination stays in the source *)
Definition hkeep (dst0 : list item) (st : mstate) : Prop :=
  (forall k, In k (map key dst0) -> In k (map key (s_dst st))).

Lemma hstep_keys_grow c multi st k : In k (map key (s_dst st)) -> In k (map key (s_dst (hstep c multi st))).
Proof.
  hstep_cases c multi st; intros I; simpl in *; try exact I.
  rewrite map_app. apply in_or_app. left. exact I.
Qed.

Lemma hstep_stays c multi st y : multi = false -> In y (src_items st) -> has_key (s_dst st) (key y) = true ->
  (s_idx st <= length (s_cur st))%nat -> In y (src_items (hstep c multi st)).
Proof.
  intros Hm. unfold src_items. hstep_cases c multi st; intros I K L; subst multi; simpl in *; try exact I.
  - rewrite concat_app. simpl. rewrite app_nil_r. rewrite <- !app_assoc. exact I.
  - apply extract_reloc_value in Ee. subst e.
    assert (Hne : y <> nth i b 0) by (intros ->; congruence).
    assert (Hi : (i < length b)%nat) by lia.
    apply in_app_or in I. apply in_or_app. destruct I as [I|I]; [left; exact I|right].
    apply in_app_or in I. apply in_or_app. destruct I as [I|I]; [left|right; exact I].
    apply (Permutation_in _ (Permutation_sym (bucket_remove_perm b i Hi))) in I.
    destruct I as [I|I]; [congruence|exact I].
Qed.

Theorem hmerge_refused_stays c src dst w n y :
  In y (concat src) -> has_key dst (key y) = true ->
  In y (src_items (hrun c false n (hinit src dst w))).
Proof.
  intros I K.
  assert (G : In y (src_items (hrun c false n (hinit src dst w))) /\
              has_key (s_dst (hrun c false n (hinit src dst w))) (key y) = true).
  { induction n; simpl.
    - split; [|exact K]. unfold src_items; simpl. exact I.
    - destruct IHn as [I1 K1]. split.
      + apply hstep_stays; [reflexivity|exact I1|exact K1|].
        exact (proj2 (hrun_inv c false _ n _ (hinit_inv src dst w))).
      + apply in_has_key. apply hstep_keys_grow. apply has_key_true_in. exact K1. }
  exact (proj1 G).
Qed.

(* ================================================================ TreeSet::pvMergeTo (every shape oracle) *)

Ltac tstep_cases c multi st :=
  unfold tstep; destruct st as [kept rest dst w stat shape]; simpl;
  destruct stat; simpl; try tauto;
  destruct rest as [|x r]; simpl;
  [ | destruct (step_func w) as [w1|] eqn:Ef; simpl;
      [ destruct (negb multi && has_key dst (key x)) eqn:Eh; simpl;
        [ | destruct (step_alloc w1) as [w2|] eqn:Ea; simpl;
            [ destruct (pop shape) as [internal sh] eqn:Ep; simpl;
              destruct (extract_reloc c w2 x (pred_of kept internal)) as [w3 [e|]] eqn:Ee; simpl | ] ]
      | ] ].

Lemma tstep_conserve c multi init st :
  Permutation (tsrc_items st ++ t_dst st) init -> Permutation (tsrc_items (tstep c multi st) ++ t_dst (tstep c multi st)) init.
Proof.
  unfold tsrc_items. tstep_cases c multi st; intros P; simpl in *; try exact P.
  - rewrite <- (app_assoc kept [x] r). simpl. exact P.
  - apply extract_reloc_value in Ee. subst e. etransitivity; [|exact P].
    rewrite app_assoc. etransitivity; [symmetry; apply Permutation_cons_append|].
    rewrite <- !app_assoc. simpl. apply Permutation_middle.
Qed.

Theorem tmerge_conservation c multi src dst w shape n :
  Permutation (tsrc_items (trun c multi n (tinit src dst w shape)) ++ t_dst (trun c multi n (tinit src dst w shape)))
              (src ++ dst).
Proof. induction n; simpl; [reflexivity|]. apply tstep_conserve. exact IHn. Qed.

Lemma tstep_nodup c multi st : multi = false ->
  NoDup (map key (t_dst st)) -> NoDup (map key (t_dst (tstep c multi st))).
Proof.
  intros Hm. tstep_cases c multi st; intros N; subst multi; simpl in *; try exact N.
  apply extract_reloc_value in Ee. subst e. apply nodup_keys_snoc; assumption.
Qed.

Theorem tmerge_unique_nodup c src dst w shape n :
  NoDup (map key dst) -> NoDup (map key (t_dst (trun c false n (tinit src dst w shape)))).
Proof. intros N. induction n; simpl; [exact N|]. apply tstep_nodup; [reflexivity|exact IHn]. Qed.

Lemma tstep_no_copy c multi st : nothrow_reloc c = true ->
  no_copy (tr (t_w st)) -> no_copy (tr (t_w (tstep c multi st))).
Proof.
  intros Hc. tstep_cases c multi st; intros N; simpl in *; try exact N;
  try (apply step_func_tr in Ef); try (apply step_alloc_tr in Ea);
  try (rewrite Ef; exact N); try (apply no_copy_cons; [reflexivity|]; try rewrite Ea; try rewrite Ef; exact N).
  - eapply extract_reloc_no_copy; [exact Hc| |exact Ee]. rewrite Ea, Ef. exact N.
  - eapply extract_reloc_no_copy; [exact Hc| |exact Ee]. rewrite Ea, Ef. exact N.
Qed.

Theorem tmerge_no_copy c multi src dst w shape n : nothrow_reloc c = true -> no_copy (tr w) ->
  no_copy (tr (t_w (trun c multi n (tinit src dst w shape)))).
Proof. intros Hc N. induction n; simpl; [exact N|]. apply tstep_no_copy; assumption. Qed.

Lemma tstep_keys_grow c multi st k : In k (map key (t_dst st)) -> In k (map key (t_dst (tstep c multi st))).
Proof.
  tstep_cases c multi st; intros I; simpl in *; try exact I.
  rewrite map_app. apply in_or_app. left. exact I.
Qed.

Lemma tstep_stays c multi st y : multi = false -> In y (tsrc_items st) -> has_key (t_dst st) (key y) = true ->
  In y (tsrc_items (tstep c multi st)).
Proof.
  intros Hm. unfold tsrc_items. tstep_cases c multi st; intros I K; subst multi; simpl in *; try exact I.
  - rewrite <- app_assoc. exact I.
  - apply extract_reloc_value in Ee. subst e.
    assert (Hne : y <> x) by (intros ->; congruence).
    apply in_app_or in I. apply in_or_app. destruct I as [I|[I|I]]; [left; exact I|congruence|right; exact I].
Qed.

Theorem tmerge_refused_stays c src dst w shape n y :
  In y src -> has_key dst (key y) = true -> In y (tsrc_items (trun c false n (tinit src dst w shape))).
Proof.
  intros I K.
  assert (G : In y (tsrc_items (trun c false n (tinit src dst w shape))) /\
              has_key (t_dst (trun c false n (tinit src dst w shape))) (key y) = true).
  { induction n; simpl.
    - split; [exact I|exact K].
    - destruct IHn as [I1 K1]. split.
      + apply tstep_stays; [reflexivity|exact I1|exact K1].
      + apply in_has_key. apply tstep_keys_grow. apply has_key_true_in. exact K1. }
  exact (proj1 G).
Qed.

(* completeness of the tree merge: when the loop has finished, every item left in the source has its key in a
   unique-key destination, and nothing is left when the destination is a multi-key container *)
Definition tdone_inv (multi : bool) (st : tstate) : Prop :=
  forall y, In y (t_kept st) -> multi = false /\ has_key (t_dst st) (key y) = true.

Lemma has_key_app d e k : has_key d k = true -> has_key (d ++ e) k = true.
Proof. unfold has_key. rewrite existsb_app. intros ->. reflexivity. Qed.

Lemma tstep_done c multi st : tdone_inv multi st -> tdone_inv multi (tstep c multi st).
Proof.
  unfold tdone_inv. tstep_cases c multi st; intros H y I; simpl in *; try (apply H; exact I).
  - apply in_app_or in I. destruct I as [I|[I|[]]]; [apply H; exact I|]. subst y.
    apply andb_prop in Eh. destruct Eh as [E1 E2]. split; [destruct multi; [discriminate|reflexivity]|exact E2].
  - destruct (H y I) as [M K]. split; [exact M|]. apply has_key_app. exact K.
Qed.

Lemma tstep_finished_rest c multi st : (t_stat st = Finished -> t_rest st = []) ->
  t_stat (tstep c multi st) = Finished -> t_rest (tstep c multi st) = [].
Proof.
  tstep_cases c multi st; intros F Hs; try discriminate; try reflexivity; try (apply F; reflexivity).
Qed.

Theorem tmerge_finished_complete c multi src dst w shape n :
  t_stat (trun c multi n (tinit src dst w shape)) = Finished ->
  t_rest (trun c multi n (tinit src dst w shape)) = [] /\
  forall y, In y (tsrc_items (trun c multi n (tinit src dst w shape))) ->
    multi = false /\ has_key (t_dst (trun c multi n (tinit src dst w shape))) (key y) = true.
Proof.
  assert (G : tdone_inv multi (trun c multi n (tinit src dst w shape)) /\
              (t_stat (trun c multi n (tinit src dst w shape)) = Finished ->
               t_rest (trun c multi n (tinit src dst w shape)) = [])).
  { induction n; simpl.
    - split; [intros y []|discriminate].
    - destruct IHn as [D F]. split; [apply tstep_done; exact D|].
      apply tstep_finished_rest. exact F. }
  intros Hs. destruct G as [D F]. split; [exact (F Hs)|].
  intros y I. unfold tsrc_items in I. rewrite (F Hs), app_nil_r in I. exact (D y I).
Qed.

(* with no failure scheduled the loop does finish within length src + 1 iterations *)
Definition quiet (w : world) : Prop := sf w = [] /\ sa w = [] /\ sc w = [].

Lemma quiet_step_func w : quiet w -> exists w', step_func w = Some w' /\ quiet w'.
Proof. intros (F & A & C). unfold step_func. rewrite F. simpl. eexists; split; [reflexivity|]. repeat split; assumption. Qed.
Lemma quiet_step_alloc w : quiet w -> exists w', step_alloc w = Some w' /\ quiet w'.
Proof. intros (F & A & C). unfold step_alloc. rewrite A. simpl. eexists; split; [reflexivity|]. repeat split; assumption. Qed.
Lemma quiet_step_copy w : quiet w -> exists w', step_copy w = Some w' /\ quiet w' /\ tr w' = tr w.
Proof. intros (F & A & C). unfold step_copy. rewrite C. simpl. eexists; split; [reflexivity|]. repeat split; assumption. Qed.

Lemma quiet_emit w e : quiet w -> quiet (emit w e).
Proof. intros (F & A & C). repeat split; assumption. Qed.

Lemma quiet_relocate c w v : quiet w -> exists w', relocate c w v = (w', Some v) /\ quiet w'.
Proof.
  intros Q. unfold relocate, move_ctor. destruct c; simpl;
  try (eexists; split; [reflexivity|]; repeat apply quiet_emit; exact Q).
  destruct (quiet_step_copy w Q) as (w1 & E & Q1 & _). rewrite E. simpl.
  eexists; split; [reflexivity|]. repeat apply quiet_emit; exact Q1.
Qed.

Lemma quiet_replace_relocate c w s m : quiet w -> exists w', replace_relocate c w s m = (w', Some (m, s)) /\ quiet w'.
Proof.
  intros Q. destruct (nothrow_reloc c) eqn:Hc.
  - unfold replace_relocate. rewrite Hc.
    destruct (quiet_relocate c w m Q) as (w1 & E1 & Q1). rewrite E1.
    destruct (quiet_relocate c w1 s Q1) as (w2 & E2 & Q2). rewrite E2. eexists; split; [reflexivity|exact Q2].
  - destruct c; try discriminate. unfold replace_relocate, copy_ctor, replace, move_assign. simpl.
    destruct (quiet_step_copy w Q) as (w1 & E1 & Q1 & _). rewrite E1. simpl.
    assert (Q1' : quiet (emit w1 (ECopy m))) by (apply quiet_emit; exact Q1).
    destruct (quiet_step_copy _ Q1') as (w2 & E2 & Q2 & _). rewrite E2. simpl.
    eexists; split; [reflexivity|]. repeat apply quiet_emit. exact Q2.
Qed.

Lemma quiet_extract_reloc c w x r : quiet w -> exists w', extract_reloc c w x r = (w', Some x) /\ quiet w'.
Proof.
  intros Q. unfold extract_reloc. destruct r as [l|].
  - destruct (quiet_replace_relocate c w l x Q) as (w' & E & Q'). rewrite E. eexists; split; [reflexivity|exact Q'].
  - apply quiet_relocate. exact Q.
Qed.

Lemma tstep_quiet_progress c multi st : t_stat st = Running -> quiet (t_w st) ->
  (t_rest st = [] /\ t_stat (tstep c multi st) = Finished) \/
  (t_stat (tstep c multi st) = Running /\ quiet (t_w (tstep c multi st)) /\
   S (length (t_rest (tstep c multi st))) = length (t_rest st)).
Proof.
  destruct st as [kept rest dst w stat shape]. simpl. intros -> Q. unfold tstep. simpl.
  destruct rest as [|x r]; simpl; [left; split; reflexivity|]. right.
  destruct (quiet_step_func w Q) as (w1 & E1 & Q1). rewrite E1.
  destruct (negb multi && has_key dst (key x)); simpl; [split; [reflexivity|split; [assumption|reflexivity]]|].
  destruct (quiet_step_alloc w1 Q1) as (w2 & E2 & Q2). rewrite E2.
  destruct (pop shape) as [internal sh].
  destruct (quiet_extract_reloc c w2 x (pred_of kept internal) Q2) as (w3 & E3 & Q3). rewrite E3. simpl.
  split; [reflexivity|split; [assumption|reflexivity]].
Qed.

Lemma iter_shift {A} (f : A -> A) n x : Nat.iter (S n) f x = Nat.iter n f (f x).
Proof. induction n; simpl; [reflexivity|]. simpl in IHn. rewrite <- IHn. reflexivity. Qed.

Lemma trun_stable c multi n st : t_stat st <> Running -> trun c multi n st = st.
Proof.
  intros H. induction n; [reflexivity|]. unfold trun in *. simpl. rewrite IHn.
  unfold tstep. destruct (t_stat st); [congruence|reflexivity|reflexivity].
Qed.

Theorem tmerge_quiet_finishes c multi src dst w shape : quiet w ->
  t_stat (tmerge c multi src dst w shape) = Finished.
Proof.
  intros Q. unfold tmerge.
  assert (G : forall n st, t_stat st = Running -> quiet (t_w st) -> (length (t_rest st) < n)%nat ->
              t_stat (trun c multi n st) = Finished).
  { induction n; intros st R Qs L; [lia|].
    unfold trun. rewrite iter_shift. fold (trun c multi n (tstep c multi st)).
    destruct (tstep_quiet_progress c multi st R Qs) as [[E F]|(R' & Q' & L')].
    - rewrite trun_stable; [exact F|congruence].
    - apply IHn; [exact R'|exact Q'|lia]. }
  apply G; simpl; [reflexivity|exact Q|lia].
Qed.

(* ================================================================ TreeSet::pvMergeToLinear *)

Lemma advance_app multi x : forall dpost w dpre w' p q,
  advance multi w x dpre dpost = (w', Some (p, q)) -> p ++ q = dpre ++ dpost.
Proof.
  induction dpost as [|d r IH]; simpl; intros w dpre w' p q H.
  - inversion H; reflexivity.
  - destruct (step_func w) as [w1|]; [|discriminate].
    destruct (is_ordered multi d x).
    + apply IH in H. rewrite H. rewrite <- app_assoc. reflexivity.
    + inversion H; reflexivity.
Qed.

Lemma advance_no_copy multi x : forall dpost w dpre w' o,
  advance multi w x dpre dpost = (w', o) -> no_copy (tr w) -> no_copy (tr w').
Proof.
  induction dpost as [|d r IH]; simpl; intros w dpre w' o H N.
  - inversion H; subst; exact N.
  - destruct (step_func w) as [w1|] eqn:Ef.
    + apply step_func_tr in Ef. destruct (is_ordered multi d x).
      * eapply IH; [exact H|]. rewrite Ef. exact N.
      * inversion H; subst. rewrite Ef. exact N.
    + inversion H; subst. apply no_copy_cons; [reflexivity|exact N].
Qed.

Lemma lstep_conserve c multi init st :
  Permutation (lsrc_items st ++ ldst_items st) init ->
  Permutation (lsrc_items (lstep c multi st) ++ ldst_items (lstep c multi st)) init.
Proof.
  unfold lsrc_items, ldst_items, lstep. destruct st as [kept rest dpre dpost w stat shape]. simpl.
  destruct stat; simpl; try tauto.
  destruct rest as [|x r]; simpl; [tauto|].
  destruct (advance multi w x dpre dpost) as [w1 [[p q]|]] eqn:Ea; simpl; [|tauto].
  apply advance_app in Ea. intros P. rewrite <- Ea in P. clear Ea.
  set (g := if multi then (w1, Some true) else
            match q with [] => (w1, Some true)
            | d :: _ => match step_func w1 with None => (fail_func w1, None) | Some w2 => (w2, Some (key x <? key d)) end end).
  destruct g as [w2 [[|]|]]; simpl; try exact P.
  - destruct (step_alloc w2) as [w3|]; simpl; [|exact P].
    destruct (pop shape) as [internal sh].
    destruct (extract_reloc c w3 x (pred_of kept internal)) as [w4 [e|]] eqn:Ee; simpl; [|exact P].
    apply extract_reloc_value in Ee. subst e. etransitivity; [|exact P].
    (* (kept ++ r) ++ (p ++ [x]) ++ q  ~  (kept ++ x :: r) ++ p ++ q *)
    rewrite <- !app_assoc. apply Permutation_app_head. simpl.
    symmetry. rewrite !app_assoc. apply Permutation_middle.
  - destruct q as [|d dr]; simpl.
    + rewrite <- (app_assoc kept [x] r). simpl. exact P.
    + rewrite <- (app_assoc kept [x] r). rewrite <- (app_assoc p [d] dr). simpl. exact P.
Qed.

Theorem lmerge_conservation c multi src dst w shape n :
  Permutation (lsrc_items (lrun c multi n (linit src dst w shape)) ++ ldst_items (lrun c multi n (linit src dst w shape)))
              (src ++ dst).
Proof. induction n; simpl; [reflexivity|]. apply lstep_conserve. exact IHn. Qed.

Lemma lstep_no_copy c multi st : nothrow_reloc c = true ->
  no_copy (tr (l_w st)) -> no_copy (tr (l_w (lstep c multi st))).
Proof.
  intros Hc. unfold lstep. destruct st as [kept rest dpre dpost w stat shape]. simpl.
  destruct stat; simpl; try tauto.
  destruct rest as [|x r]; simpl; [tauto|].
  destruct (advance multi w x dpre dpost) as [w1 o] eqn:Ea. intros N.
  pose proof (advance_no_copy _ _ _ _ _ _ _ Ea N) as N1.
  destruct o as [[p q]|]; simpl; [|exact N1].
  assert (G : forall (g : world * option bool), 
            g = (if multi then (w1, Some true) else
                 match q with [] => (w1, Some true)
                 | d :: _ => match step_func w1 with None => (fail_func w1, None) | Some w2 => (w2, Some (key x <? key d)) end end) ->
            no_copy (tr (fst g))).
  { intros g ->. destruct multi; [exact N1|]. destruct q; [exact N1|].
    destruct (step_func w1) eqn:Ef; simpl; [apply step_func_tr in Ef; rewrite Ef; exact N1|apply no_copy_cons; [reflexivity|exact N1]]. }
  specialize (G _ eq_refl).
  destruct (if multi then (w1, Some true) else
            match q with [] => (w1, Some true)
            | d :: _ => match step_func w1 with None => (fail_func w1, None) | Some w2 => (w2, Some (key x <? key d)) end end)
    as [w2 [[|]|]]; simpl in *; try exact G.
  - destruct (step_alloc w2) as [w3|] eqn:Eal; simpl; [|apply no_copy_cons; [reflexivity|exact G]].
    apply step_alloc_tr in Eal.
    destruct (pop shape) as [internal sh].
    destruct (extract_reloc c w3 x (pred_of kept internal)) as [w4 o4] eqn:Ee.
    assert (N4 : no_copy (tr w4)) by (eapply extract_reloc_no_copy; [exact Hc| |exact Ee]; rewrite Eal; exact G).
    destruct o4; simpl; exact N4.
  - destruct q; simpl; exact G.
Qed.

Theorem lmerge_no_copy c multi src dst w shape n : nothrow_reloc c = true -> no_copy (tr w) ->
  no_copy (tr (l_w (lrun c multi n (linit src dst w shape)))).
Proof. intros Hc N. induction n; simpl; [exact N|]. apply lstep_no_copy; assumption. Qed.

(* ================================================================ holder: extract / Insert(ExtractedItem&&) *)

(* for every schedule: after extract_at (success or failure) bucket (+) holder is the bucket *)
Theorem extract_at_conservation c w b i w' b' h ok : (i < length b)%nat ->
  extract_at c w b i = (w', b', h, ok) -> Permutation (holder_items h ++ b') b /\ (ok = false -> b' = b /\ h = None).
Proof.
  unfold extract_at. intros Hi.
  destruct (extract_reloc c w (nth i b 0) (repl_of b i)) as [w1 [e|]] eqn:Ee; intros H; inversion H; subst; simpl.
  - apply extract_reloc_value in Ee. subst e. split; [apply bucket_remove_perm; exact Hi|discriminate].
  - split; [reflexivity|auto].
Qed.

(* for every schedule: Insert(ExtractedItem&&) keeps holder (+) destination; the item leaves the holder only if
   it was inserted; a refused item (key present in a unique-key set) or a failure leaves it in the holder *)
Theorem insert_holder_conservation c multi w dst h w' dst' h' st :
  insert_holder c multi w dst h = (w', dst', h', st) ->
  Permutation (holder_items h' ++ dst') (holder_items h ++ dst) /\
  (h' = h /\ dst' = dst \/ exists x, h = Some x /\ h' = None /\ dst' = dst ++ [x] /\ st = Finished /\
                                   (multi = false -> has_key dst (key x) = false)) /\
  (multi = false -> NoDup (map key dst) -> NoDup (map key dst')).
Proof.
  unfold insert_holder. destruct h as [x|]; [|intros H; inversion H; subst; simpl; auto].
  destruct (step_func w) as [w1|]; [|intros H; inversion H; subst; simpl; auto].
  destruct (negb multi && has_key dst (key x)) eqn:Eh; [intros H; inversion H; subst; simpl; auto|].
  destruct (step_alloc w1) as [w2|]; [|intros H; inversion H; subst; simpl; auto].
  destruct (relocate c w2 x) as [w3 [e|]] eqn:Er; intros H; inversion H; subst; simpl; auto.
  apply relocate_value in Er. subst e.
  assert (K : multi = false -> has_key dst (key x) = false) by (intros ->; simpl in Eh; exact Eh).
  split; [symmetry; apply Permutation_cons_append|]. split.
  - right. exists x. auto.
  - intros Hm N. apply nodup_keys_snoc; auto.
Qed.

(* extract_insert_roundtrip: with no failure scheduled, extracting any item of a unique-key bucket and inserting
   the handle back into the same set succeeds, empties the handle and restores the set (as a multiset) *)
Theorem extract_insert_roundtrip c w b i : quiet w -> (i < length b)%nat -> NoDup (map key b) ->
  exists w1 b1 x w2 b2,
    extract_at c w b i = (w1, b1, Some x, true) /\ x = nth i b 0 /\
    insert_holder c false w1 b1 (Some x) = (w2, b2, None, Finished) /\ Permutation b2 b /\ quiet w2.
Proof.
  intros Q Hi N. unfold extract_at.
  destruct (quiet_extract_reloc c w (nth i b 0) (repl_of b i) Q) as (w1 & E1 & Q1). rewrite E1.
  exists w1, (bucket_remove b i), (nth i b 0).
  pose proof (bucket_remove_perm b i Hi) as P.
  assert (K : has_key (bucket_remove b i) (key (nth i b 0)) = false).
  { destruct (has_key (bucket_remove b i) (key (nth i b 0))) eqn:E; [|reflexivity]. exfalso.
    apply has_key_true_in in E.
    assert (N2 : NoDup (map key (nth i b 0 :: bucket_remove b i))).
    { eapply Permutation_NoDup; [|exact N]. apply Permutation_map. symmetry. exact P. }
    simpl in N2. inversion N2; subst. contradiction. }
  unfold insert_holder.
  destruct (quiet_step_func w1 Q1) as (w2 & E2 & Q2). rewrite E2. simpl. rewrite K.
  destruct (quiet_step_alloc w2 Q2) as (w3 & E3 & Q3). rewrite E3.
  destruct (quiet_relocate c w3 (nth i b 0) Q3) as (w4 & E4 & Q4). rewrite E4.
  exists w4, (bucket_remove b i ++ [nth i b 0]).
  split; [reflexivity|]. split; [reflexivity|]. split; [reflexivity|]. split; [|exact Q4].
  etransitivity; [symmetry; apply Permutation_cons_append|exact P].
Qed.

(* the holder's move constructor and Clear, for every schedule: at most one relocated item, never lost *)
Theorem holder_move_conservation c w h w' n o : holder_move c w h = (w', n, o) ->
  match n with
  | Some h2 => o = None /\ h2 = h          (* constructed: the item now lives in the new holder only *)
  | None => o = h                           (* constructor threw: the old holder still owns the item *)
  end.
Proof.
  unfold holder_move. destruct h as [x|]; [|intros H; inversion H; auto].
  destruct (relocate c w x) as [w1 [e|]] eqn:E; intros H; inversion H; subst; auto.
  apply relocate_value in E. subst. auto.
Qed.

Theorem holder_no_copy c multi w dst h w' dst' h' st : nothrow_reloc c = true -> no_copy (tr w) ->
  insert_holder c multi w dst h = (w', dst', h', st) -> no_copy (tr w').
Proof.
  intros Hc N. unfold insert_holder. destruct h as [x|]; [|intros H; inversion H; subst; exact N].
  destruct (step_func w) as [w1|] eqn:Ef; [|intros H; inversion H; subst; apply no_copy_cons; [reflexivity|exact N]].
  apply step_func_tr in Ef.
  destruct (negb multi && has_key dst (key x)); [intros H; inversion H; subst; rewrite Ef; exact N|].
  destruct (step_alloc w1) as [w2|] eqn:Ea; [|intros H; inversion H; subst; apply no_copy_cons; [reflexivity|rewrite Ef; exact N]].
  apply step_alloc_tr in Ea.
  destruct (relocate c w2 x) as [w3 o] eqn:Er.
  assert (N3 : no_copy (tr w3)) by (eapply relocate_no_copy; [exact Hc| |exact Er]; rewrite Ea, Ef; exact N).
  destruct o; intros H; inversion H; subst; exact N3.
Qed.

(* ================================================================ HashSet::pvMergeTo: completeness *)

Lemma skipn_firstn_app (b X : list item) i : (i <= length b)%nat -> skipn i (firstn i b ++ X) = X.
Proof.
  intros H. rewrite skipn_app. rewrite firstn_length. replace (Nat.min i (length b)) with i by lia.
  rewrite Nat.sub_diag. simpl. rewrite skipn_all2; [reflexivity|rewrite firstn_length; lia].
Qed.

Lemma skipn_bucket_remove b i : (i < length b)%nat -> Permutation (skipn i (bucket_remove b i)) (skipn (S i) b).
Proof.
  intros H. unfold bucket_remove. destruct (rev (skipn (S i) b)) as [|l rp] eqn:E;
  apply (f_equal (@rev Z)) in E; rewrite rev_involutive in E; rewrite E; simpl.
  - rewrite <- (app_nil_r (firstn i b)). rewrite skipn_firstn_app; [reflexivity|lia].
  - rewrite skipn_firstn_app; [|lia]. apply Permutation_cons_append.
Qed.

Lemma skipn_nth_cons (b : list item) i : (i < length b)%nat -> skipn i b = nth i b 0 :: skipn (S i) b.
Proof.
  revert i; induction b as [|a b IH]; intros i H; simpl in H; [lia|].
  destruct i; [reflexivity|]. simpl. apply IH. lia.
Qed.

Definition hvisited (st : mstate) : list item := concat (s_done st) ++ skipn (s_idx st) (s_cur st).
Definition hdone_inv (multi : bool) (st : mstate) : Prop :=
  forall y, In y (hvisited st) -> multi = false /\ has_key (s_dst st) (key y) = true.

Lemma hstep_done c multi st : (s_idx st <= length (s_cur st))%nat -> hdone_inv multi st -> hdone_inv multi (hstep c multi st).
Proof.
  unfold hdone_inv, hvisited. hstep_cases c multi st; intros L H y I; simpl in *; try (apply H; exact I).
  - (* next bucket *)
    rewrite skipn_all in I. rewrite app_nil_r in I. rewrite concat_app in I. simpl in I. rewrite app_nil_r in I.
    apply H. exact I.
  - (* refused *)
    assert (Hi : (i < length b)%nat) by lia.
    apply in_app_or in I. destruct I as [I|I]; [apply H; apply in_or_app; left; exact I|].
    rewrite (skipn_nth_cons b i Hi) in I. destruct I as [<-|I].
    + apply andb_prop in Eh. destruct Eh as [E1 E2]. split; [destruct multi; [discriminate|reflexivity]|exact E2].
    + apply H. apply in_or_app. right. exact I.
  - (* extracted *)
    assert (Hi : (i < length b)%nat) by lia.
    assert (G : In y (concat dn ++ skipn (S i) b)).
    { apply in_app_or in I. apply in_or_app. destruct I as [I|I]; [left; exact I|right].
      eapply Permutation_in; [apply skipn_bucket_remove; exact Hi|exact I]. }
    destruct (H y G) as [M K]. split; [exact M|apply has_key_app; exact K].
Qed.

Lemma hstep_finished_shape c multi st : (s_stat st = Finished -> s_idx st = O /\ s_todo st = []) ->
  s_stat (hstep c multi st) = Finished -> s_idx (hstep c multi st) = O /\ s_todo (hstep c multi st) = [].
Proof.
  hstep_cases c multi st; intros F Hs; try discriminate; try (split; reflexivity); try (apply F; reflexivity).
Qed.

(* a HashSet merge that ran to completion left in the source only items whose key the (unique-key) destination
   holds; nothing when the destination is multi-key *)
Theorem hmerge_finished_complete c multi src dst w n :
  s_stat (hrun c multi n (hinit src dst w)) = Finished ->
  forall y, In y (src_items (hrun c multi n (hinit src dst w))) ->
    multi = false /\ has_key (s_dst (hrun c multi n (hinit src dst w))) (key y) = true.
Proof.
  assert (G : hdone_inv multi (hrun c multi n (hinit src dst w)) /\
              (s_stat (hrun c multi n (hinit src dst w)) = Finished ->
               s_idx (hrun c multi n (hinit src dst w)) = O /\ s_todo (hrun c multi n (hinit src dst w)) = [])).
  { induction n; simpl.
    - split; [intros y []|discriminate].
    - destruct IHn as [D F]. split.
      + apply hstep_done; [exact (proj2 (hrun_inv c multi _ n _ (hinit_inv src dst w)))|exact D].
      + apply hstep_finished_shape. exact F. }
  intros Hs y I. destruct G as [D F]. destruct (F Hs) as [Fi Ft].
  apply D. unfold hvisited. unfold src_items in I. rewrite Ft in I. simpl in I. rewrite app_nil_r in I.
  rewrite Fi. simpl. exact I.
Qed.

(* with no failure scheduled the hash merge finishes within hfuel iterations *)
Definition hmeasure (st : mstate) : nat := s_idx st + length (concat (s_todo st)) + length (s_todo st).

Lemma hstep_quiet_progress c multi st : s_stat st = Running -> quiet (s_w st) -> (s_idx st <= length (s_cur st))%nat ->
  (hmeasure st = O /\ s_stat (hstep c multi st) = Finished) \/
  (s_stat (hstep c multi st) = Running /\ quiet (s_w (hstep c multi st)) /\ S (hmeasure (hstep c multi st)) = hmeasure st).
Proof.
  destruct st as [dn b idx todo dst w stat]. unfold hmeasure. simpl. intros -> Q L. unfold hstep. simpl.
  destruct idx as [|i]; simpl.
  - destruct todo as [|b2 t]; simpl; [left; split; reflexivity|].
    right. split; [reflexivity|]. split; [exact Q|]. rewrite app_length. lia.
  - right. destruct (quiet_step_func w Q) as (w1 & E1 & Q1). rewrite E1.
    destruct (negb multi && has_key dst (key (nth i b 0))); simpl; [split; [reflexivity|split; [exact Q1|lia]]|].
    destruct (quiet_step_alloc w1 Q1) as (w2 & E2 & Q2). rewrite E2.
    destruct (quiet_extract_reloc c w2 (nth i b 0) (repl_of b i) Q2) as (w3 & E3 & Q3). rewrite E3. simpl.
    split; [reflexivity|split; [exact Q3|lia]].
Qed.

Lemma hrun_stable c multi n st : s_stat st <> Running -> hrun c multi n st = st.
Proof.
  intros H. induction n; [reflexivity|]. unfold hrun in *. simpl. rewrite IHn.
  unfold hstep. destruct (s_stat st); [congruence|reflexivity|reflexivity].
Qed.

Theorem hmerge_quiet_finishes c multi src dst w : quiet w -> s_stat (hmerge c multi src dst w) = Finished.
Proof.
  intros Q. unfold hmerge.
  assert (G : forall n st, s_stat st = Running -> quiet (s_w st) -> (s_idx st <= length (s_cur st))%nat ->
              (hmeasure st < n)%nat -> s_stat (hrun c multi n st) = Finished).
  { induction n; intros st R Qs L M; [lia|].
    unfold hrun. rewrite iter_shift. fold (hrun c multi n (hstep c multi st)).
    destruct (hstep_quiet_progress c multi st R Qs L) as [[E F]|(R' & Q' & M')].
    - rewrite hrun_stable; [exact F|congruence].
    - apply IHn; [exact R'|exact Q'| |lia].
      assert (I : hinv (src_items st ++ s_dst st) st) by (split; [reflexivity|exact L]).
      exact (proj2 (hstep_inv c multi _ st I)). }
  apply G; simpl; [reflexivity|exact Q|lia|].
  unfold hmeasure, hfuel. simpl. lia.
Qed.

(* ================================================================ pvMergeToLinear keeps a unique-key destination unique
   (this loop relies on both trees being sorted: stated for strictly key-sorted inputs) *)

Fixpoint ksorted (l : list item) : Prop :=
  match l with [] => True | a :: r => (forall b, In b r -> key a < key b) /\ ksorted r end.

Lemma ksorted_app l1 : forall l2, ksorted (l1 ++ l2) <->
  ksorted l1 /\ ksorted l2 /\ (forall a b, In a l1 -> In b l2 -> key a < key b).
Proof.
  induction l1 as [|a l1 IH]; intros l2; simpl.
  - split; [intros H; repeat split; auto; intros a b []|tauto].
  - rewrite IH. split.
    + intros (Ha & S1 & S2 & C). repeat split; auto.
      * intros b Hb. apply Ha. apply in_or_app. left. exact Hb.
      * intros x b [<-|Hx] Hb; [apply Ha; apply in_or_app; right; exact Hb|apply C; assumption].
    + intros ((Ha & S1) & S2 & C). repeat split; auto.
      intros b Hb. apply in_app_or in Hb. destruct Hb as [Hb|Hb]; [apply Ha; exact Hb|apply C; [left; reflexivity|exact Hb]].
Qed.

Lemma ksorted_nodup l : ksorted l -> NoDup (map key l).
Proof.
  induction l as [|a r IH]; simpl; intros H; [constructor|]. destruct H as [Ha S]. constructor; [|apply IH; exact S].
  intros I. apply in_map_iff in I. destruct I as (b & E & Hb). specialize (Ha b Hb). lia.
Qed.

Definition linv (st : lstate) : Prop :=
  ksorted (l_dpre st ++ l_dpost st) /\ ksorted (l_rest st) /\
  (forall d x, In d (l_dpre st) -> In x (l_rest st) -> key d < key x).

Lemma advance_unique x : forall dpost w dpre w' p q,
  advance false w x dpre dpost = (w', Some (p, q)) -> (forall d, In d dpre -> key d < key x) ->
  p ++ q = dpre ++ dpost /\ (forall d, In d p -> key d < key x) /\
  match q with [] => True | d :: _ => ~ key d < key x end.
Proof.
  induction dpost as [|d r IH]; simpl; intros w dpre w' p q H Hp.
  - inversion H; subst. auto.
  - destruct (step_func w) as [w1|]; [|discriminate]. unfold is_ordered in H.
    destruct (Z.ltb_spec (key d) (key x)) as [L|G].
    + apply IH in H.
      * destruct H as (E & P & Q). split; [rewrite E, <- app_assoc; reflexivity|auto].
      * intros e He. apply in_app_or in He. destruct He as [He|[<-|[]]]; [apply Hp; exact He|exact L].
    + inversion H; subst. split; [reflexivity|]. split; [exact Hp|lia].
Qed.

Lemma ksorted_single x : ksorted [x].
Proof. simpl. split; [intros b []|exact I]. Qed.

Lemma ksorted_snoc p x : ksorted p -> (forall d, In d p -> key d < key x) -> ksorted (p ++ [x]).
Proof.
  intros Sp P. apply ksorted_app. split; [exact Sp|]. split; [apply ksorted_single|].
  intros a b Ha [<-|[]]. apply P. exact Ha.
Qed.

Lemma linv_same (p q r : list item) x :
  ksorted p -> ksorted q -> (forall a b, In a p -> In b q -> key a < key b) ->
  (forall d, In d p -> key d < key x) -> (forall b, In b r -> key x < key b) -> ksorted r ->
  ksorted (p ++ q) /\ ((forall b, In b r -> key x < key b) /\ ksorted r) /\
  (forall d y, In d p -> x = y \/ In y r -> key d < key y).
Proof.
  intros Sp Sq C P Hx Sr. split; [apply ksorted_app; auto|]. split; [auto|].
  intros d y Hd [<-|Hy]; [apply P; exact Hd|]. specialize (P d Hd). specialize (Hx y Hy). lia.
Qed.

Lemma linv_inserted (p q r : list item) x :
  ksorted p -> ksorted q -> (forall a b, In a p -> In b q -> key a < key b) ->
  (forall d, In d p -> key d < key x) -> (forall b, In b q -> key x < key b) ->
  (forall b, In b r -> key x < key b) -> ksorted r ->
  ksorted ((p ++ [x]) ++ q) /\ ksorted r /\ (forall d y, In d (p ++ [x]) -> In y r -> key d < key y).
Proof.
  intros Sp Sq C P Q Hx Sr. split; [|split; [exact Sr|]].
  - apply ksorted_app. split; [apply ksorted_snoc; assumption|]. split; [exact Sq|].
    intros a b Ha Hb. apply in_app_or in Ha. destruct Ha as [Ha|[<-|[]]]; [apply C; assumption|apply Q; exact Hb].
  - intros d y Hd Hy. apply in_app_or in Hd. specialize (Hx y Hy).
    destruct Hd as [Hd|[<-|[]]]; [specialize (P d Hd); lia|exact Hx].
Qed.

Lemma lstep_linv c st : linv st -> linv (lstep c false st).
Proof.
  unfold linv, lstep. destruct st as [kept rest dpre dpost w stat shape]. simpl.
  destruct stat; simpl; try tauto.
  destruct rest as [|x r]; simpl; [tauto|].
  intros (Sd & (Hx & Sr) & C).
  destruct (advance false w x dpre dpost) as [w1 [[p q]|]] eqn:Ea; simpl; [|repeat split; auto].
  apply advance_unique in Ea; [|intros d Hd; apply C; [exact Hd|left; reflexivity]].
  destruct Ea as (E & P & Q). rewrite <- E in Sd. apply ksorted_app in Sd. destruct Sd as (Sp & Sq & Cpq).
  pose proof (linv_same p q r x Sp Sq Cpq P Hx Sr) as Same.
  destruct q as [|d dr]; simpl.
  - (* dstIter == end: insert at the end *)
    destruct (step_alloc w1) as [w3|]; simpl; [|exact Same].
    destruct (pop shape) as [internal sh].
    destruct (extract_reloc c w3 x (pred_of kept internal)) as [w4 [e|]] eqn:Ee; simpl; [|exact Same].
    apply extract_reloc_value in Ee. subst e.
    apply (linv_inserted p [] r x); auto. intros b [].
  - destruct (step_func w1) as [w2|]; simpl; [|exact Same].
    destruct (Z.ltb_spec (key x) (key d)) as [L|G]; simpl.
    + (* key < GetKey( *dstIter): insert before dstIter *)
      destruct (step_alloc w2) as [w3|]; simpl; [|exact Same].
      destruct (pop shape) as [internal sh].
      destruct (extract_reloc c w3 x (pred_of kept internal)) as [w4 [e|]] eqn:Ee; simpl; [|exact Same].
      apply extract_reloc_value in Ee. subst e.
      apply (linv_inserted p (d :: dr) r x); auto.
      intros b [<-|Hb]; [exact L|]. simpl in Sq. destruct Sq as [Hd _]. specialize (Hd b Hb). lia.
    + (* equal keys: the item is refused, both iterators advance *)
      split; [|split; [exact Sr|]].
      * rewrite <- app_assoc. simpl. apply ksorted_app. auto.
      * intros e y He Hy. apply in_app_or in He. specialize (Hx y Hy). destruct He as [He|[<-|[]]]; [specialize (P e He); lia|lia].
Qed.

Theorem lmerge_unique_nodup c src dst w shape n : ksorted src -> ksorted dst ->
  NoDup (map key (ldst_items (lrun c false n (linit src dst w shape)))).
Proof.
  intros Ss Sd. apply ksorted_nodup.
  assert (G : linv (lrun c false n (linit src dst w shape))).
  { induction n; simpl; [|apply lstep_linv; exact IHn].
    unfold linv. simpl. repeat split; auto. intros d x []. }
  exact (proj1 G).
Qed.

(* ================================================================ pvMergeToLinear: refused stays, completeness *)

Lemma has_key_false_intro l k : (forall d, In d l -> key d <> k) -> has_key l k = false.
Proof.
  intros H. destruct (has_key l k) eqn:E; [|reflexivity]. exfalso.
  apply has_key_true_in in E. apply in_map_iff in E. destruct E as (d & Ed & Hd). exact (H d Hd Ed).
Qed.

Lemma has_key_in l d : In d l -> has_key l (key d) = true.
Proof. intros H. apply in_has_key. apply in_map. exact H. Qed.

(* what one iteration of the linear loop does to a state that satisfies the sortedness invariant *)
Lemma lstep_spec c st x r : linv st -> l_stat st = Running -> l_rest st = x :: r ->
  (l_stat (lstep c false st) = Failed /\ l_kept (lstep c false st) = l_kept st /\ l_rest (lstep c false st) = l_rest st /\
   ldst_items (lstep c false st) = ldst_items st)
  \/ (l_stat (lstep c false st) = Running /\ l_kept (lstep c false st) = l_kept st ++ [x] /\ l_rest (lstep c false st) = r /\
      ldst_items (lstep c false st) = ldst_items st /\ has_key (ldst_items st) (key x) = true)
  \/ (l_stat (lstep c false st) = Running /\ l_kept (lstep c false st) = l_kept st /\ l_rest (lstep c false st) = r /\
      has_key (ldst_items st) (key x) = false /\
      exists p q, ldst_items st = p ++ q /\ ldst_items (lstep c false st) = p ++ x :: q).
Proof.
  unfold linv, lstep, ldst_items. destruct st as [kept rest dpre dpost w stat shape]. simpl.
  intros (Sd & Sr0 & C) -> ->. simpl in Sr0. destruct Sr0 as [Hx Sr].
  destruct (advance false w x dpre dpost) as [w1 [[p q]|]] eqn:Ea; simpl; [|left; auto].
  apply advance_unique in Ea; [|intros d Hd; apply C; [exact Hd|left; reflexivity]].
  destruct Ea as (E & P & Q). rewrite <- E in *. apply ksorted_app in Sd. destruct Sd as (Sp & Sq & Cpq).
  destruct q as [|d dr]; simpl.
  - destruct (step_alloc w1) as [w3|]; simpl; [|left; auto].
    destruct (pop shape) as [internal sh].
    destruct (extract_reloc c w3 x (pred_of kept internal)) as [w4 [e|]] eqn:Ee; simpl; [|left; auto].
    apply extract_reloc_value in Ee. subst e. right. right. repeat split; auto.
    + apply has_key_false_intro. intros d Hd. rewrite app_nil_r in Hd. specialize (P d Hd). lia.
    + exists p, []. split; [reflexivity|]. apply app_nil_r.
  - destruct (step_func w1) as [w2|]; simpl; [|left; auto].
    destruct (Z.ltb_spec (key x) (key d)) as [L|G]; simpl.
    + destruct (step_alloc w2) as [w3|]; simpl; [|left; auto].
      destruct (pop shape) as [internal sh].
      destruct (extract_reloc c w3 x (pred_of kept internal)) as [w4 [e|]] eqn:Ee; simpl; [|left; auto].
      apply extract_reloc_value in Ee. subst e. right. right. repeat split; auto.
      * apply has_key_false_intro. intros e He. apply in_app_or in He. destruct He as [He|[<-|He]].
        -- specialize (P e He). lia.
        -- lia.
        -- simpl in Sq. destruct Sq as [Hd _]. specialize (Hd e He). lia.
      * exists p, (d :: dr). split; [reflexivity|]. rewrite <- app_assoc. reflexivity.
    + right. left. repeat split; auto.
      * rewrite <- app_assoc. reflexivity.
      * assert (key d = key x) by lia. rewrite <- H. apply has_key_in. apply in_or_app. right. left. reflexivity.
Qed.

Lemma lrun_linv c src dst w shape n : ksorted src -> ksorted dst -> linv (lrun c false n (linit src dst w shape)).
Proof.
  intros Ss Sd. induction n; simpl; [|apply lstep_linv; exact IHn].
  unfold linv. simpl. repeat split; auto. intros d x [].
Qed.

Lemma lstep_idle c multi st : l_stat st <> Running -> lstep c multi st = st.
Proof. unfold lstep. destruct (l_stat st); [congruence|reflexivity|reflexivity]. Qed.

Lemma lstep_finish c multi st : l_stat st = Running -> l_rest st = [] ->
  l_stat (lstep c multi st) = Finished /\ l_kept (lstep c multi st) = l_kept st /\ l_rest (lstep c multi st) = [] /\
  ldst_items (lstep c multi st) = ldst_items st.
Proof. destruct st as [kept rest dpre dpost w stat shape]. simpl. intros -> ->. unfold lstep, ldst_items. simpl. auto. Qed.

(* an item refused by the (sorted, unique-key) destination stays in the (sorted) source, at every step *)
Theorem lmerge_refused_stays c src dst w shape n y : ksorted src -> ksorted dst ->
  In y src -> has_key dst (key y) = true -> In y (lsrc_items (lrun c false n (linit src dst w shape))).
Proof.
  intros Ss Sd I K.
  assert (G : In y (lsrc_items (lrun c false n (linit src dst w shape))) /\
              has_key (ldst_items (lrun c false n (linit src dst w shape))) (key y) = true).
  { induction n; simpl; [split; [exact I|exact K]|].
    pose proof (lrun_linv c src dst w shape n Ss Sd) as Li.
    destruct IHn as [I1 K1]. revert Li I1 K1. generalize (lrun c false n (linit src dst w shape)). intros st Li I1 K1.
    destruct (l_stat st) eqn:Es; [|rewrite lstep_idle; [auto|congruence]|rewrite lstep_idle; [auto|congruence]].
    destruct (l_rest st) as [|x r] eqn:Er.
    - destruct (lstep_finish c false st Es Er) as (_ & Ek & Er' & Ed). unfold lsrc_items in *. rewrite Ek, Er', Ed. rewrite Er in I1. auto.
    - destruct (lstep_spec c st x r Li Es Er) as [(_ & Ek & Er' & Ed)|[(_ & Ek & Er' & Ed & _)|(_ & Ek & Er' & Kx & p & q & E1 & E2)]];
        unfold lsrc_items in *; rewrite Ek, Er'.
      + rewrite Ed. rewrite Er in *. auto.
      + rewrite Ed. rewrite Er in I1. split; [|exact K1]. rewrite <- app_assoc. exact I1.
      + rewrite Er in I1. assert (y <> x) by (intros ->; congruence). split.
        * apply in_app_or in I1. apply in_or_app. destruct I1 as [I1|[I1|I1]]; [left; exact I1|congruence|right; exact I1].
        * rewrite E2. rewrite E1 in K1. unfold has_key in *. rewrite existsb_app in *. simpl.
          apply orb_true_iff in K1. destruct K1 as [K1|K1]; [rewrite K1; reflexivity|rewrite K1; rewrite !orb_true_r; reflexivity]. }
  exact (proj1 G).
Qed.

(* a linear merge that ran to completion left in the source only items whose key the destination holds *)
Theorem lmerge_finished_complete c src dst w shape n : ksorted src -> ksorted dst ->
  l_stat (lrun c false n (linit src dst w shape)) = Finished ->
  l_rest (lrun c false n (linit src dst w shape)) = [] /\
  forall y, In y (lsrc_items (lrun c false n (linit src dst w shape))) ->
    has_key (ldst_items (lrun c false n (linit src dst w shape))) (key y) = true.
Proof.
  intros Ss Sd.
  assert (G : (forall y, In y (l_kept (lrun c false n (linit src dst w shape))) ->
                 has_key (ldst_items (lrun c false n (linit src dst w shape))) (key y) = true) /\
              (l_stat (lrun c false n (linit src dst w shape)) = Finished -> l_rest (lrun c false n (linit src dst w shape)) = [])).
  { induction n; simpl; [split; [intros y []|discriminate]|].
    pose proof (lrun_linv c src dst w shape n Ss Sd) as Li.
    destruct IHn as [D F]. revert Li D F. generalize (lrun c false n (linit src dst w shape)). intros st Li D F.
    destruct (l_stat st) eqn:Es; [|rewrite lstep_idle; [rewrite Es; auto|congruence]|rewrite lstep_idle; [rewrite Es; split; [auto|discriminate]|congruence]].
    destruct (l_rest st) as [|x r] eqn:Er.
    - destruct (lstep_finish c false st Es Er) as (Ef & Ek & Er' & Ed). rewrite Ek, Er', Ed. auto.
    - destruct (lstep_spec c st x r Li Es Er) as [(Ef & Ek & Er' & Ed)|[(Ef & Ek & Er' & Ed & Kx)|(Ef & Ek & Er' & Kx & p & q & E1 & E2)]];
        rewrite Ek, Ef; (split; [|discriminate]).
      + rewrite Ed. exact D.
      + rewrite Ed. intros y Hy. apply in_app_or in Hy. destruct Hy as [Hy|[<-|[]]]; [apply D; exact Hy|exact Kx].
      + intros y Hy. specialize (D y Hy). rewrite E2. rewrite E1 in D. unfold has_key in *. rewrite existsb_app in *. simpl.
        apply orb_true_iff in D. destruct D as [D|D]; [rewrite D; reflexivity|rewrite D; rewrite !orb_true_r; reflexivity]. }
  intros Hs. destruct G as [D F]. split; [exact (F Hs)|].
  intros y I. unfold lsrc_items in I. rewrite (F Hs), app_nil_r in I. exact (D y I).
Qed.

(* ================================================================ pvMergeToLinear with MULTI-key trees *)
Fixpoint ksle (l : list item) : Prop :=
  match l with [] => True | a :: r => (forall b, In b r -> key a <= key b) /\ ksle r end.

Lemma ksle_app l1 : forall l2, ksle (l1 ++ l2) <->
  ksle l1 /\ ksle l2 /\ (forall a b, In a l1 -> In b l2 -> key a <= key b).
Proof.
  induction l1 as [|a l1 IH]; intros l2; simpl.
  - split; [intros H; repeat split; auto; intros a b []|tauto].
  - rewrite IH. split.
    + intros (Ha & S1 & S2 & C). repeat split; auto.
      * intros b Hb. apply Ha. apply in_or_app. left. exact Hb.
      * intros x b [<-|Hx] Hb; [apply Ha; apply in_or_app; right; exact Hb|apply C; assumption].
    + intros ((Ha & S1) & S2 & C). repeat split; auto.
      intros b Hb. apply in_app_or in Hb. destruct Hb as [Hb|Hb]; [apply Ha; exact Hb|apply C; [left; reflexivity|exact Hb]].
Qed.

(* the multi-key loop never refuses: nothing is ever kept back in the source *)
Lemma lstep_multi_kept c st : l_kept st = [] -> l_kept (lstep c true st) = [].
Proof.
  unfold lstep. destruct st as [kept rest dpre dpost w stat shape]. simpl. intros ->.
  destruct stat; simpl; try reflexivity. destruct rest as [|x r]; simpl; [reflexivity|].
  destruct (advance true w x dpre dpost) as [w1 [[p q]|]]; simpl; [|reflexivity].
  destruct (step_alloc w1) as [w3|]; simpl; [|reflexivity].
  destruct (pop shape) as [internal sh].
  destruct (extract_reloc c w3 x (pred_of [] internal)) as [w4 [e|]]; reflexivity.
Qed.

Lemma lstep_finished_rest c multi st : (l_stat st = Finished -> l_rest st = []) ->
  l_stat (lstep c multi st) = Finished -> l_rest (lstep c multi st) = [].
Proof.
  unfold lstep. destruct st as [kept rest dpre dpost w stat shape]. simpl. intros F.
  destruct stat; simpl; try (intros H; try discriminate H; apply F; reflexivity).
  destruct rest as [|x r]; simpl; [reflexivity|].
  destruct (advance multi w x dpre dpost) as [w1 [[p q]|]]; simpl; [|discriminate].
  destruct (if multi then (w1, Some true) else match q with [] => (w1, Some true)
            | d :: _ => match step_func w1 with None => (fail_func w1, None) | Some w2 => (w2, Some (key x <? key d)) end end)
    as [w2 [[|]|]]; simpl; try discriminate.
  - destruct (step_alloc w2) as [w3|]; simpl; [|discriminate].
    destruct (pop shape) as [internal sh].
    destruct (extract_reloc c w3 x (pred_of kept internal)) as [w4 [e|]]; simpl; discriminate.
  - destruct q; simpl; discriminate.
Qed.

(* a multi-key linear merge that ran to completion moved EVERY source item: the source is empty *)
Theorem lmerge_multi_finished_empty c src dst w shape n :
  l_stat (lrun c true n (linit src dst w shape)) = Finished -> lsrc_items (lrun c true n (linit src dst w shape)) = [].
Proof.
  assert (G : l_kept (lrun c true n (linit src dst w shape)) = [] /\
              (l_stat (lrun c true n (linit src dst w shape)) = Finished -> l_rest (lrun c true n (linit src dst w shape)) = [])).
  { induction n; simpl; [split; [reflexivity|discriminate]|]. destruct IHn as [K F].
    split; [apply lstep_multi_kept; exact K|apply lstep_finished_rest; exact F]. }
  intros Hs. destruct G as [K F]. unfold lsrc_items. rewrite K, (F Hs). reflexivity.
Qed.

Lemma advance_multi x : forall dpost w dpre w' p q,
  advance true w x dpre dpost = (w', Some (p, q)) -> (forall d, In d dpre -> key d <= key x) ->
  p ++ q = dpre ++ dpost /\ (forall d, In d p -> key d <= key x) /\
  match q with [] => True | d :: _ => key x < key d end.
Proof.
  induction dpost as [|d r IH]; simpl; intros w dpre w' p q H Hp.
  - inversion H; subst. auto.
  - destruct (step_func w) as [w1|]; [|discriminate]. unfold is_ordered in H.
    destruct (Z.ltb_spec (key x) (key d)) as [L|G]; simpl in H.
    + inversion H; subst. split; [reflexivity|]. split; [exact Hp|exact L].
    + apply IH in H.
      * destruct H as (E & P & Q). split; [rewrite E, <- app_assoc; reflexivity|auto].
      * intros e He. apply in_app_or in He. destruct He as [He|[<-|[]]]; [apply Hp; exact He|lia].
Qed.

Definition minv (st : lstate) : Prop :=
  ksle (l_dpre st ++ l_dpost st) /\ ksle (l_rest st) /\
  (forall d x, In d (l_dpre st) -> In x (l_rest st) -> key d <= key x).

Lemma lstep_minv c st : minv st -> minv (lstep c true st).
Proof.
  unfold minv, lstep. destruct st as [kept rest dpre dpost w stat shape]. simpl.
  destruct stat; simpl; try tauto.
  destruct rest as [|x r]; simpl; [tauto|].
  intros (Sd & (Hx & Sr) & C).
  destruct (advance true w x dpre dpost) as [w1 [[p q]|]] eqn:Ea; simpl; [|repeat split; auto].
  apply advance_multi in Ea; [|intros d Hd; apply C; [exact Hd|left; reflexivity]].
  destruct Ea as (E & P & Q). rewrite <- E in Sd. apply ksle_app in Sd. destruct Sd as (Sp & Sq & Cpq).
  assert (Same : ksle (p ++ q) /\ ((forall b, In b r -> key x <= key b) /\ ksle r) /\
                 (forall d y, In d p -> x = y \/ In y r -> key d <= key y)).
  { split; [apply ksle_app; auto|]. split; [auto|]. intros d y Hd [<-|Hy]; [apply P; exact Hd|].
    specialize (P d Hd). specialize (Hx y Hy). lia. }
  destruct (step_alloc w1) as [w3|]; simpl; [|exact Same].
  destruct (pop shape) as [internal sh].
  destruct (extract_reloc c w3 x (pred_of kept internal)) as [w4 [e|]] eqn:Ee; simpl; [|exact Same].
  apply extract_reloc_value in Ee. subst e. split; [|split; [exact Sr|]].
  - apply ksle_app. split; [|split; [exact Sq|]].
    + apply ksle_app. split; [exact Sp|]. split; [simpl; split; [intros b []|exact I]|]. intros a b Ha [<-|[]]. apply P. exact Ha.
    + intros a b Ha Hb. apply in_app_or in Ha. destruct Ha as [Ha|[<-|[]]]; [apply Cpq; assumption|].
      destruct q as [|d dr]; [destruct Hb|]. destruct Hb as [<-|Hb]; [lia|]. simpl in Sq. destruct Sq as [Hd _]. specialize (Hd b Hb). lia.
  - intros d y Hd Hy. apply in_app_or in Hd. specialize (Hx y Hy). destruct Hd as [Hd|[<-|[]]]; [specialize (P d Hd); lia|exact Hx].
Qed.

(* multi-key linear merge of sorted trees: the destination stays sorted at every step, for every schedule; an inserted
   item goes AFTER every destination item with an equivalent key (advance_multi: everything it passes has key <= its key,
   the item it stops at has a strictly greater key) *)
Theorem lmerge_multi_sorted c src dst w shape n : ksle src -> ksle dst ->
  ksle (ldst_items (lrun c true n (linit src dst w shape))).
Proof.
  intros Ss Sd. assert (G : minv (lrun c true n (linit src dst w shape))).
  { induction n; simpl; [|apply lstep_minv; exact IHn]. unfold minv. simpl. repeat split; auto. intros d x []. }
  exact (proj1 G).
Qed.

(* ---------------------------------------------------------------- the `ksorted` premise of the linear theorems is INDUCTIVE
   (final round).  The source of pvMergeToLinear only ever loses items: at every step, for every key policy, schedule, category and
   input, what is left in the source is an order-preserving sub-sequence of the original source ... *)
Inductive subseq : list item -> list item -> Prop :=
| subseq_nil : subseq [] []
| subseq_skip a l s : subseq l s -> subseq l (a :: s)
| subseq_keep a l s : subseq l s -> subseq (a :: l) (a :: s).

Lemma subseq_refl l : subseq l l.
Proof. induction l; constructor; assumption. Qed.

Lemma subseq_in l s : subseq l s -> forall a, In a l -> In a s.
Proof. induction 1; simpl; intros b Hb; [exact Hb|right; auto|destruct Hb as [<-|Hb]; [left; reflexivity|right; auto]]. Qed.

Lemma subseq_drop_middle k x r : forall s, subseq (k ++ x :: r) s -> subseq (k ++ r) s.
Proof.
  intros s H. remember (k ++ x :: r) as l eqn:E. revert k E.
  induction H as [|a l s H IH|a l s H IH]; intros k E.
  - destruct k; discriminate.
  - constructor. apply IH. exact E.
  - destruct k as [|b k]; simpl in E.
    + inversion E; subst. constructor. exact H.
    + inversion E; subst. simpl. apply subseq_keep. apply IH. reflexivity.
Qed.

Lemma ksorted_subseq l s : subseq l s -> ksorted s -> ksorted l.
Proof.
  induction 1 as [|a l s H IH|a l s H IH]; simpl; intros S; [exact I|apply IH; apply S|].
  destruct S as [Ha S]. split; [|apply IH; exact S]. intros b Hb. apply Ha. eapply subseq_in; eassumption.
Qed.

Lemma ksle_subseq l s : subseq l s -> ksle s -> ksle l.
Proof.
  induction 1 as [|a l s H IH|a l s H IH]; simpl; intros S; [exact I|apply IH; apply S|].
  destruct S as [Ha S]. split; [|apply IH; exact S]. intros b Hb. apply Ha. eapply subseq_in; eassumption.
Qed.

Lemma lstep_src_subseq c multi st : subseq (lsrc_items (lstep c multi st)) (lsrc_items st).
Proof.
  unfold lstep, lsrc_items. destruct st as [kept rest dpre dpost w stat shape]. simpl.
  destruct stat; try apply subseq_refl.
  destruct rest as [|x r]; [apply subseq_refl|].
  destruct (advance multi w x dpre dpost) as [w1 [[p q]|]]; [|apply subseq_refl].
  assert (A : forall w2 dpre' dpost',
    subseq (l_kept (match step_alloc w2 with
          | None => LS kept (x :: r) dpre' dpost' (fail_alloc w2) Failed shape
          | Some w3 => let (internal, sh) := pop shape in
            match extract_reloc c w3 x (pred_of kept internal) with
            | (w4, None) => LS kept (x :: r) dpre' dpost' w4 Failed sh
            | (w4, Some e) => LS kept r (dpre' ++ [e]) dpost' w4 Running sh
            end end) ++ l_rest (match step_alloc w2 with
          | None => LS kept (x :: r) dpre' dpost' (fail_alloc w2) Failed shape
          | Some w3 => let (internal, sh) := pop shape in
            match extract_reloc c w3 x (pred_of kept internal) with
            | (w4, None) => LS kept (x :: r) dpre' dpost' w4 Failed sh
            | (w4, Some e) => LS kept r (dpre' ++ [e]) dpost' w4 Running sh
            end end)) (kept ++ x :: r)).
  { intros w2 dpre' dpost'. destruct (step_alloc w2) as [w3|]; simpl; [|apply subseq_refl].
    destruct (pop shape) as [internal sh].
    destruct (extract_reloc c w3 x (pred_of kept internal)) as [w4 [e|]]; simpl; [|apply subseq_refl].
    apply subseq_drop_middle with (x := x). apply subseq_refl. }
  destruct multi; [apply A|].
  destruct q as [|d dr]; [apply A|].
  destruct (step_func w1) as [w2|]; [|simpl; apply subseq_refl].
  destruct (Z.ltb (key x) (key d)); [apply A|].
  simpl. rewrite <- app_assoc. apply subseq_refl.
Qed.

Theorem lmerge_source_order_preserved c multi src dst w shape n :
  subseq (lsrc_items (lrun c multi n (linit src dst w shape))) src.
Proof.
  induction n; simpl; [apply subseq_refl|].
  assert (T : forall a b d, subseq a b -> subseq b d -> subseq a d).
  { intros a b d H1 H2. revert a H1. induction H2; intros a0 H1; [exact H1|constructor; auto|].
    inversion H1; subst; [constructor; auto|apply subseq_keep; auto]. }
  eapply T; [apply lstep_src_subseq|exact IHn].
Qed.

(* ... hence both trees satisfy the premise again at every step -- also in the state an exception leaves behind: a further
   MergeTo / MergeFrom on them is covered by the same theorems (unique keys: strictly sorted; multi keys: sorted) *)
Theorem lmerge_keeps_both_sorted c src dst w shape n : ksorted src -> ksorted dst ->
  ksorted (lsrc_items (lrun c false n (linit src dst w shape))) /\ ksorted (ldst_items (lrun c false n (linit src dst w shape))).
Proof.
  intros Ss Sd. split.
  - eapply ksorted_subseq; [apply lmerge_source_order_preserved|exact Ss].
  - exact (proj1 (lrun_linv c src dst w shape n Ss Sd)).
Qed.

Theorem lmerge_multi_keeps_both_sorted c src dst w shape n : ksle src -> ksle dst ->
  ksle (lsrc_items (lrun c true n (linit src dst w shape))) /\ ksle (ldst_items (lrun c true n (linit src dst w shape))).
Proof.
  intros Ss Sd. split.
  - eapply ksle_subseq; [apply lmerge_source_order_preserved|exact Ss].
  - apply lmerge_multi_sorted; assumption.
Qed.
