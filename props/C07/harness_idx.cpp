#include <cstdio>
int main() { return 0; }
