(* C05 -- ArrayShifter::Remove(array, itemFilter) refines List.filter *)
From Coq Require Import List Arith Lia Bool.
From C05 Require Import ArrayShift ShiftProofs.
Import ListNotations.

Local Arguments for_up : simpl never.

Section FP.
Variable V : Type.
Variable self_move : V -> option V.
Variable after_move : V -> option V.
Variable p : V -> bool.
Notation cell := (cell V).
Notation arr := (arr V).
Definition keep (o : option V) : bool := negb (holds V p o).
Notation hp := (holds V p).

Lemma firstn_S_nth {A} (l : list A) i (d : A) : i < length l -> firstn (S i) l = firstn i l ++ [nth i l d].
Proof.
  revert i; induction l; intros i Hi; simpl in Hi; [lia|]. destruct i; simpl; auto. f_equal. apply IHl. lia.
Qed.

Lemma filter_keep_all (l : list (option V)) : (forall j, j < length l -> hp (nth j l None) = false) -> filter keep l = l.
Proof.
  induction l; intros H; simpl; auto. pose proof (H 0 ltac:(simpl; lia)) as H0. simpl in H0.
  unfold keep at 1. rewrite H0. simpl. f_equal.
  apply IHl. intros j Hj. apply (H (S j)). simpl; lia.
Qed.

Lemma filter_len_le {A} (f : A -> bool) (l : list A) : length (filter f l) <= length l.
Proof. induction l; simpl; auto. destruct (f a); simpl; lia. Qed.

Lemma skip_kept_ok (l : list (option V)) r : forall fuel k,
  length l - k < fuel -> k <= length l -> (forall j, j < k -> hp (nth j l None) = false) ->
  exists k', skip_kept V fuel p (arr_ofo l r) k = Ok k' /\ k' <= length l /\
    (forall j, j < k' -> hp (nth j l None) = false) /\ (k' < length l -> hp (nth k' l None) = true).
Proof.
  destruct (arr_ofo_pre V l r) as (Hc & _ & Hlive & _).
  induction fuel; intros k Hf Hk Hall; [lia|]. simpl skip_kept. change (cnt (arr_ofo l r)) with (length l).
  destruct (Nat.ltb_spec k (length l)).
  - rewrite (item_at_ok V (arr_ofo l r) k (nth k l None)) by auto. simpl.
    destruct (hp (nth k l None)) eqn:Hp.
    + exists k. repeat split; auto.
    + apply IHfuel; try lia. intros j Hj. destruct (Nat.eq_dec j k); [subst; auto|apply Hall; lia].
  - exists k. repeat split; auto. lia.
Qed.

Theorem remove_filter_refines (l : list (option V)) r :
  remove_filter V self_move after_move p (arr_ofo l r) =
    Ok (arr_ofo (filter keep l) (r + (length l - length (filter keep l))), length l - length (filter keep l)).
Proof.
  destruct l as [|d l0].
  { simpl. unfold remove_filter. simpl. unfold for_up. simpl. rewrite Nat.add_0_r. reflexivity. }
  remember (d :: l0) as l eqn:Heql. assert (Hn0 : 0 < length l) by (subst; simpl; lia). clear Heql l0.
  remember (length l) as n eqn:Heqn.
  destruct (arr_ofo_pre V l r) as (Hc & Hcap & Hlive & Hraw). rewrite <- Heqn in Hc, Hcap, Hlive, Hraw.
  unfold remove_filter. cbv zeta. rewrite Hc.
  destruct (skip_kept_ok l r (S n) 0 ltac:(lia) ltac:(lia) ltac:(intros j Hj; lia)) as (k0 & -> & Hk0 & Hpre & Hat).
  rewrite <- Heqn in Hk0, Hat. simpl bind.
  assert (Hlen_le : forall i, length (filter keep (firstn i l)) <= i).
  { intros i. etransitivity; [apply filter_len_le|]. rewrite firstn_length. lia. }
  destruct (Nat.eq_dec k0 n) as [->|Hne].
  - (* nothing is removed *)
    rewrite for_up_none by lia. simpl.
    assert (Hall : filter keep l = l) by (apply (filter_keep_all l); intros j Hj; apply Hpre; rewrite Heqn; auto).
    rewrite Hall. rewrite <- Heqn. rewrite Nat.sub_diag.
    unfold remove_back. rewrite Hc. simpl. rewrite Nat.sub_0_r, Nat.add_0_r. unfold arr_ofo. rewrite <- Heqn. reflexivity.
  - assert (Hk0n : k0 < n) by lia. specialize (Hat Hk0n).
    pose (I := fun i (st : arr * nat) => let (s, k) := st in
       k < i /\ k = length (filter keep (firstn i l)) /\ cnt s = n /\ length (cells s) = n + r /\
       (forall j, j < k -> get (cells s) j = mcell (nth j (filter keep (firstn i l)) None)) /\
       (forall j, k <= j -> j < i -> get (cells s) j <> Raw) /\
       (forall j, i <= j -> get (cells s) j = if j <? n then mcell (nth j l None) else Raw)).
    match goal with |- context [for_up ?fu ?lo ?hi ?body ?st0] =>
      destruct (for_up_inv I body (k0 + 1) n) with (fuel := fu) (i := lo) (s := st0) as ([s1 k1] & -> & HI) end; try lia.
    { intros i [s k] Hlo Hi (Hki & Hk & Hcs & Hls & H1 & H2 & H3).
      assert (Hsrc : get (cells s) i = mcell (nth i l None)).
      { rewrite H3 by lia. destruct (Nat.ltb_spec i n); [auto|lia]. }
      rewrite (item_at_ok V s i (nth i l None)) by (auto; lia). simpl bind.
      assert (Hfs : firstn (S i) l = firstn i l ++ [nth i l None]) by (apply firstn_S_nth; lia).
      destruct (hp (nth i l None)) eqn:Hp.
      - assert (Hkp : keep (nth i l None) = false) by (unfold keep; rewrite Hp; auto).
        eexists; split; [reflexivity|]. unfold I. rewrite Hfs, filter_app. simpl. rewrite Hkp.
        rewrite app_nil_r. repeat split; auto; try lia.
        + intros j Hj1 Hj2. destruct (Nat.eq_dec j i); [subst; rewrite Hsrc; apply (mcell_not_raw V)|apply H2; lia].
        + intros j Hj. apply H3; lia.
      - assert (Hdst : get (cells s) k <> Raw) by (apply H2; lia).
        rewrite (move_assign_items_ok V self_move after_move s i k (nth i l None)); try lia; auto.
        simpl bind. eexists; split; [reflexivity|]. unfold I. cbn [cells cnt].
        assert (Hkp : keep (nth i l None) = true) by (unfold keep; rewrite Hp; auto).
        rewrite Hfs, filter_app. simpl. rewrite Hkp. rewrite app_length. simpl.
        rewrite !length_set.
        assert (Hkl : k < length (cells s)) by (apply get_not_raw_lt; auto).
        repeat split; auto; try lia.
        + intros j Hj. rewrite get_set by (rewrite length_set; lia). rewrite get_set by lia.
          destruct (Nat.eqb_spec j i); [lia|]. destruct (Nat.eqb_spec j k).
          * subst j. rewrite app_nth2 by lia. rewrite <- Hk, Nat.sub_diag. reflexivity.
          * rewrite app_nth1 by lia. apply H1. lia.
        + intros j Hj1 Hj2. rewrite get_set by (rewrite length_set; lia).
          destruct (Nat.eqb_spec j i); [apply src_after_not_raw|]. rewrite get_set_other by lia. apply H2; lia.
        + intros j Hj. rewrite !get_set_other by lia. apply H3; lia. }
    { unfold I.
      assert (Hf0 : filter keep (firstn k0 l) = firstn k0 l).
      { apply (filter_keep_all _). intros j Hj. rewrite firstn_length in Hj.
        rewrite nth_firstn_lt by lia. apply Hpre. lia. }
      assert (Hf1 : filter keep (firstn (k0 + 1) l) = firstn k0 l).
      { rewrite Nat.add_1_r, (firstn_S_nth l k0 None) by lia. rewrite filter_app, Hf0. simpl.
        unfold keep at 1. rewrite Hat. simpl. apply app_nil_r. }
      rewrite Hf1. rewrite firstn_length. rewrite <- Heqn.
      split; [lia|]. split; [lia|]. split; [exact Hc|].
      split; [unfold arr_ofo; cbn [cells]; rewrite length_objs_raws, <- Heqn; reflexivity|].
      split; [intros j Hj; rewrite Hlive by lia; rewrite nth_firstn_lt by lia; reflexivity|].
      split; [intros j Hj1 Hj2; rewrite Hlive by lia; apply (mcell_not_raw V)|].
      intros j Hj. destruct (Nat.ltb_spec j n); [apply Hlive; auto|apply Hraw; auto]. }
    destruct HI as (Hk1n & Hk1 & Hcs & Hls & H1 & H2 & H3).
    assert (Hfn : firstn n l = l) by (rewrite Heqn; apply firstn_all).
    rewrite Hfn in *. simpl bind.
    destruct (remove_back_ok V s1 (n - k1)) as (c' & He & Hl' & Hg'); try (unfold cap; lia).
    { intros j Hj. apply H2; lia. }
    rewrite He. simpl bind. rewrite <- Hk1. f_equal. f_equal.
    unfold arr_ofo. rewrite <- Hk1. rewrite Hcs. replace (n - (n - k1)) with k1 by lia. f_equal.
    apply get_ext.
    + rewrite length_objs_raws, <- Hk1, Hl'. unfold cap. lia.
    + intros j. rewrite Hg', Hcs. rewrite get_objs_raws, <- Hk1.
      replace (n - (n - k1)) with k1 by lia.
      destruct (Nat.ltb_spec j k1).
      * destruct (Nat.leb_spec k1 j); [lia|]. simpl. apply H1; auto.
      * destruct (Nat.leb_spec k1 j); [|lia]. destruct (Nat.ltb_spec j n); simpl; auto.
        rewrite H3 by lia. destruct (Nat.ltb_spec j n); [lia|auto].
Qed.

(* ---- InsertNogrow(array, index, Item&&): the rvalue may be a temporary or an element in front of the insertion
   point (Array::Insert moves every other aliased element into an ArrayItemHandler first).  The inserted object is
   the OLD a[p]; a[p] itself is left as after_move says (moved-from); everything else as in the list insertion. ---- *)
Lemma nth_lset {A} (l : list A) q y j d : q < length l -> nth j (lset l q y) d = if j =? q then y else nth j l d.
Proof.
  revert q j; induction l; intros q j Hq; simpl in Hq; [lia|]. destruct q, j; simpl; auto. apply IHl; lia.
Qed.
Lemma length_lset {A} (l : list A) q y : length (lset l q y) = length l.
Proof. revert q; induction l; intros [|q]; simpl; auto. Qed.

Lemma firstn_set_lt (c : list cell) q x k : q < k -> firstn k (set c q x) = set (firstn k c) q x.
Proof.
  revert q k; induction c; intros q k Hk; destruct k; try lia; simpl; [destruct q; reflexivity|].
  destruct q; simpl; auto. f_equal. apply IHc. lia.
Qed.

Lemma src_after_after_o (o : option V) : src_after V after_move o = mcell (after_o V after_move o).
Proof. destruct o; reflexivity. Qed.

(* the list after the rvalue argument has been moved out of *)
Definition moved_out (l : list (option V)) (x : arg V) : list (option V) :=
  match x with ArgVal _ => l | ArgRef q => lset l q (after_o V after_move (nth q l None)) end.

Theorem insert_rvalue_refines (l : list (option V)) r index (x : arg V) :
  index <= length l -> 1 <= r -> arg_ok V index x ->
  insert_nogrow_rvalue V self_move after_move true (arr_ofo l r) index x =
    Ok (arr_ofo (firstn index (moved_out l x) ++ [arg_val V l x] ++ skipn index (moved_out l x)) (r - 1)).
Proof.
  intros Hi Hr Hx. unfold insert_nogrow_rvalue.
  destruct (arr_ofo_pre V l r) as (Hc & Hcap & Hlive & Hraw).
  set (s0 := arr_ofo l r) in *.
  set (o := arg_val V l x).
  (* the prefix (cells below index) before and after the single fetch *)
  set (pre0 := firstn index (cells s0)).
  set (pre1 := match x with ArgVal _ => pre0 | ArgRef q => set pre0 q (src_after V after_move o) end).
  set (Q := fun (m : nat) (pfx : list cell) => match m with 0 => pfx = pre0 | _ => pfx = pre1 end).
  assert (Hobj : forall (s : arr) q, x = ArgRef q -> firstn index (cells s) = pre0 -> obj_at V (cells s) q = Ok o).
  { intros s q -> Hp. simpl in Hx. apply obj_at_mcell. rewrite <- (get_firstn V (cells s) index q) by auto.
    rewrite Hp. unfold pre0. rewrite get_firstn by auto. apply Hlive. lia. }
  assert (HA : assign_hyp V (source_rvalue V self_move after_move x) index 1 (fun _ => o) Q).
  { intros m k dst s Hm Hk Hd1 Hd2 Hd3 HQ. assert (m = 0) by lia. subst m. simpl in HQ.
    assert (Hdl : dst < length (cells s)) by (apply get_not_raw_lt; auto).
    destruct x as [v|q]; simpl.
    - rewrite assign_val_ok by auto. unfold upd. eexists; split; [reflexivity|]. rewrite length_set.
      repeat split; auto; try (intros j Hj; apply get_set; auto); try (rewrite firstn_set_ge by auto; auto).
    - simpl in Hx. rewrite (Hobj s q eq_refl HQ). simpl.
      destruct (Nat.eqb_spec q dst); [lia|]. rewrite assign_val_ok by auto. unfold upd. simpl.
      eexists; split; [reflexivity|]. rewrite !length_set. repeat split; auto;
        try (intros j Hj; rewrite get_set_other by lia; apply get_set; auto);
        try (rewrite firstn_set_lt by lia; rewrite firstn_set_ge by lia; rewrite HQ; reflexivity). }
  assert (HP : push_hyp V (source_rvalue V self_move after_move x) index 1 (fun _ => o) Q).
  { intros m k s Hm Hk Hc1 Hc2 Hrw HQ. assert (m = 0) by lia. subst m. simpl in HQ.
    destruct x as [v|q]; simpl.
    - rewrite add_back_ctor_ok by auto. eexists; split; [reflexivity|]. rewrite length_set.
      repeat split; auto; try (intros j Hj; apply get_set; auto); try (rewrite firstn_set_ge by auto; auto).
    - simpl in Hx. rewrite (Hobj s q eq_refl HQ). simpl. rewrite add_back_ctor_ok by auto. simpl.
      eexists; split; [reflexivity|]. cbn [cells cnt]. rewrite !length_set. repeat split; auto;
        try (intros j Hj; rewrite get_set_other by lia; apply get_set; auto);
        try (rewrite firstn_set_lt by lia; rewrite firstn_set_ge by lia; rewrite HQ; reflexivity). }
  destruct (insert_nogrow_gen_post V self_move after_move _ index 1 _ Q HA HP s0 (fun j => nth j l None))
    as (s' & -> & (Hc' & Hl' & HQ' & Hg')); try (rewrite ?Hc, ?Hcap; lia); auto.
  { simpl. reflexivity. }
  f_equal. destruct s' as [c' n']. simpl in Hc', Hl', HQ', Hg'. unfold arr_ofo.
  assert (Hlm : length (moved_out l x) = length l) by (destruct x; simpl; auto using length_lset).
  rewrite length_spec by lia. rewrite Hlm. simpl length. f_equal; [|lia].
  assert (Hnm : forall j, j <> match x with ArgVal _ => length l | ArgRef q => q end ->
                nth j (moved_out l x) None = nth j l None).
  { intros j Hj. destruct x as [v|q]; simpl; auto. simpl in Hx. rewrite nth_lset by lia.
    destruct (Nat.eqb_spec j q); [congruence|auto]. }
  apply (insert_finish V (moved_out l x) [o] r index c'); simpl length; try lia.
  - intros j Hj. rewrite <- (get_firstn V c' index j) by auto. rewrite HQ'. unfold pre1.
    destruct x as [v|q].
    + unfold pre0. rewrite get_firstn by auto. simpl. apply Hlive; lia.
    + simpl in Hx. simpl moved_out. rewrite nth_lset by lia.
      assert (Hql : q < length pre0) by (unfold pre0; rewrite firstn_length; unfold cap in Hcap; lia).
      rewrite get_set by auto. destruct (Nat.eqb_spec j q).
      * rewrite src_after_after_o. reflexivity.
      * unfold pre0. rewrite get_firstn by auto. apply Hlive; lia.
  - intros j Hj. rewrite Hg' by auto. rewrite Hlm.
    destruct (Nat.ltb_spec j (index + 1)).
    + replace (j - index) with 0 by lia. reflexivity.
    + destruct (Nat.ltb_spec j (length l + 1)); auto. rewrite Hnm; auto. destruct x; simpl in *; lia.
Qed.
End FP.
