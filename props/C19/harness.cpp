// C19 implementation side: the REAL momo::DataTable free-row list, observed through private access.
//   seq:<cfg> <ops>      single-thread schedule replay on table configuration <cfg>; prints one line: an event per op with
//                        the canonical id of the raw buffer, the free list as seen by walking the link words from
//                        Crew::Data::freeRaws, the pool's allocate count, live item count; the end token carries the measured
//                        facts of the configuration (row size, pool block size/count, keepRowNumber) checked by prop.py
//                        (`seq` = seq:big, `seqt` = seq:u8)
//   cross                rows of two tables swapped / move-assigned across each other: each buffer must return to ITS table
//   stress k rounds seed [cfg]  multi-threaded: k disposer threads destroy / move-assign / swap rows moved to them while the
//                        owner creates / adds / extracts / removes / clears (built with -fsanitize=thread / address as well)
// configurations:
//   big  id:size_t + Tracked + std::string      u8 / i16 / u32 / p8 / p9  rows of 1 / 2 / 4 / 8 / 9..16 bytes (link word = 8)
//   idx  big + unique hash index on id (TryAdd / TryInsert / TryUpdate can FAIL and leave the row detached)
//   keep DataSettings<true> (row number stored in the raw)    pool DataTraits with MemPoolParams<2, 3> (2 blocks per buffer, cache 3)
//   stat DataColumnListStatic<struct{char}> (Raw = the struct, 1 byte)
// ops:  n NewRow   q<k> NewRow(copy of detached #k)   e NewRow whose item assignment throws   f<k> NewRow(copy of #k) whose item copy throws   a<k> TryAdd   i<i>,<k> TryInsert
//       p<i>,<k> TryUpdate(row i := detached #k)   x<i> Extract(i)   z<i> Extract(i, keepRowOrder=false)   r<i> Remove   c Clear
//       d<k> destroy detached #k   m<k> move-construct + move-assign into the moved-from object   w<k>,<j> #k = move(#j) (old #k dies)
//       y<k>,<j> swap   s<k> rewrite items   v move the TABLE into another object and back   j<k> Remove(rowFilter)   g<k> Assign(begin,end)   l<k> Remove(begin,end)   k copy-construct the table
#include "private_access.h"
#include "momo/DataTable.h"
#include <condition_variable>
#include <deque>

using namespace momo;

struct MMStats { size_t allocs = 0, deallocs = 0; long long bytes = 0; };
class CountMM
{
public:
	explicit CountMM(MMStats* s) noexcept : st(s) {}
	CountMM(CountMM&&) = default;
	CountMM(const CountMM&) = default;
	~CountMM() = default;
	CountMM& operator=(const CountMM&) = delete;
	void* Allocate(size_t n)
	{
		void* p = std::malloc(n);
		if (p == nullptr) throw std::bad_alloc();
		++st->allocs; st->bytes += (long long)n;
		return p;
	}
	void Deallocate(void* p, size_t n) noexcept { ++st->deallocs; st->bytes -= (long long)n; std::free(p); }
	bool IsEqual(const CountMM& o) const noexcept { return st == o.st; }
	MMStats* st;
};

struct Tracked
{
	static std::atomic<long> live, ctors, dtors;
	std::string payload;
	Tracked() : payload("a string long enough to live on the heap, not in the SSO buffer") { ++live; ++ctors; }
	explicit Tracked(const char* s) : payload(s) { ++live; ++ctors; }
	Tracked(const Tracked& t) : payload(t.payload) { if (payload == "poison2") throw std::runtime_error("poison2"); ++live; ++ctors; }
	Tracked(Tracked&& t) noexcept : payload(std::move(t.payload)) { ++live; ++ctors; }
	Tracked& operator=(const Tracked& t) { if (t.payload == "poison") throw std::runtime_error("poison"); payload = t.payload; return *this; }
	~Tracked() { --live; ++dtors; }
};
std::atomic<long> Tracked::live(0), Tracked::ctors(0), Tracked::dtors(0);

static const DataColumn<size_t> colId("id");
static const DataColumn<Tracked> colT("t");
static const DataColumn<std::string> colS("s");
static const DataColumn<uint8_t> colB("b");
static const DataColumn<int16_t> colH("h");
static const DataColumn<uint32_t> colW("w");

// ---------------------------------------------------------------- configurations
struct Dyn      // the dynamic column list; the column set is chosen at run time
{
	typedef DataColumnList<DataColumnTraits<>, CountMM> ColumnList;
	typedef DataTable<ColumnList> Table;
	typedef Table::Row Row;
	static int variant;      // 0 big, 1 u8, 2 i16, 3 u32, 4 p8, 5 p9, 6 idx
	static bool tracked() { return variant == 0 || variant == 6; }
	static Table make(MMStats* st)
	{
		ColumnList cl{ CountMM(st) };
		switch (variant)
		{
		case 1: cl.Add(colB); break;
		case 2: cl.Add(colH); break;
		case 3: cl.Add(colW); break;
		case 4: cl.Add(colId); break;
		case 5: cl.Add(colId, colB); break;
		default: cl.Add(colId, colT, colS);
		}
		Table t(std::move(cl));
		if (variant == 6) t.AddUniqueHashIndex(colId);
		return t;
	}
	static void fill(Row& row, size_t n)
	{
		switch (variant)
		{
		case 1: row[colB] = uint8_t(n); break;
		case 2: row[colH] = int16_t(n); break;
		case 3: row[colW] = uint32_t(n); break;
		case 4: row[colId] = n; break;
		case 5: row[colId] = n; row[colB] = uint8_t(n); break;
		default: row[colId] = n; row[colS] = "row " + std::to_string(n) + " with a long tail to force a heap allocation";
		}
	}
	static void rewrite(Row& row, size_t k)
	{
		switch (variant)
		{
		case 1: row[colB] = uint8_t(0xA5 + k); break;
		case 2: row[colH] = int16_t(-1 - (int)k); break;
		case 3: row[colW] = 0xDEADBEEFu + (uint32_t)k; break;
		case 4: row[colId] = ~size_t(0) - k; break;
		case 5: row[colId] = ~size_t(0) - k; row[colB] = 0xFF; break;
		default: row[colId] = variant == 6 ? 1000000 : 1000000 + k; row[colS] = "rewritten";     // idx: every rewritten row collides in the unique index
		}
	}
	static bool throwingNew(Table& t)
	{
		if (!tracked()) return false;
		try { Row r = t.NewRow(colT = Tracked("poison")); (void)r; } catch (const std::runtime_error&) { return true; }
		return false;
	}
	static bool throwingCopy(Table& t, Row& src)     // NewRow(const Row&): the item COPY throws inside pvCreateRaw's rawCreator
	{
		if (!tracked()) return false;
		bool thrown = false; std::string keep = src[colT].payload; src[colT].payload = "poison2";
		try { Row r = t.NewRow(src); (void)r; } catch (const std::runtime_error&) { thrown = true; }
		src[colT].payload = keep;
		return thrown;
	}
	static size_t rowSize(const Table& t) { return t.GetColumnList().GetTotalSize(); }
};
int Dyn::variant = 0;

struct Keep     // the row number is kept inside the raw
{
	typedef DataColumnList<DataColumnTraits<>, CountMM, DataItemTraits<CountMM>, DataSettings<true>> ColumnList;
	typedef DataTable<ColumnList> Table;
	typedef Table::Row Row;
	MOMO_STATIC_ASSERT(ColumnList::Settings::keepRowNumber);
	static bool tracked() { return false; }
	static Table make(MMStats* st) { ColumnList cl{ CountMM(st) }; cl.Add(colB); return Table(std::move(cl)); }
	static void fill(Row& row, size_t n) { row[colB] = uint8_t(n); }
	static void rewrite(Row& row, size_t k) { row[colB] = uint8_t(0x5A + k); }
	static bool throwingNew(Table&) { return false; }
	template<typename R> static bool throwingCopy(Table&, R&) { return false; }
	static size_t rowSize(const Table& t) { return t.GetColumnList().GetTotalSize(); }
};
MOMO_STATIC_ASSERT(!Dyn::ColumnList::Settings::keepRowNumber);

struct PoolTraits : public DataTraits { typedef MemPoolParams<2, 3> RawMemPoolParams; };
struct Pool     // tiny pool buffers (2 blocks) with a cache of 3 free blocks: buffers come and go all the time
{
	typedef Dyn::ColumnList ColumnList;
	typedef DataTable<ColumnList, PoolTraits> Table;
	typedef Table::Row Row;
	MOMO_STATIC_ASSERT(Table::RawMemPool::Params::blockCount == 2 && Table::RawMemPool::Params::cachedFreeBlockCount == 3);
	static bool tracked() { return false; }
	static Table make(MMStats* st) { ColumnList cl{ CountMM(st) }; cl.Add(colH); return Table(std::move(cl)); }
	static void fill(Row& row, size_t n) { row[colH] = int16_t(n); }
	static void rewrite(Row& row, size_t k) { row[colH] = int16_t(-7 - (int)k); }
	static bool throwingNew(Table&) { return false; }
	template<typename R> static bool throwingCopy(Table&, R&) { return false; }
	static size_t rowSize(const Table& t) { return t.GetColumnList().GetTotalSize(); }
};
MOMO_STATIC_ASSERT(Dyn::Table::RawMemPool::Params::blockCount == 32);

struct OneChar { char c; };
MOMO_DATA_COLUMN_STRUCT(OneChar, c);
struct Stat     // static column list: Raw is the struct itself, one byte long
{
	typedef DataColumnListStatic<OneChar, DataColumnInfo<OneChar>, CountMM> ColumnList;
	typedef DataTable<ColumnList> Table;
	typedef Table::Row Row;
	MOMO_STATIC_ASSERT((std::is_same<ColumnList::Raw, OneChar>::value) && sizeof(OneChar) < sizeof(void*));
	static bool tracked() { return false; }
	static Table make(MMStats* st) { return Table(ColumnList(CountMM(st))); }
	static void fill(Row& row, size_t n) { row[c] = char('a' + n % 26); }
	static void rewrite(Row& row, size_t k) { row[c] = char('A' + k % 26); }
	static bool throwingNew(Table&) { return false; }
	template<typename R> static bool throwingCopy(Table&, R&) { return false; }
	static size_t rowSize(const Table&) { return sizeof(OneChar); }
};

struct Ids
{
	std::map<const void*, int> ids;
	int of(const void* p) { auto it = ids.find(p); if (it != ids.end()) return it->second; int k = (int)ids.size(); ids[p] = k; return k; }
};

// the free list exactly as pvDeallocateFreeRaws would see it (bounded walk: a cycle is reported, not followed)
template<typename Table>
static std::string freeList(Table& t, Ids& ids, size_t bound)
{
	std::string s; void* p = t.mCrew.mData->freeRaws.load(); size_t n = 0;
	while (p != nullptr)
	{
		if (++n > bound) { s += "CYCLE"; break; }
		if (!s.empty()) s += ',';
		s += std::to_string(ids.of(p));
		p = internal::MemCopyer::FromBuffer<void*>(p);
	}
	return s;
}

static void two(const std::string& op, size_t& a, size_t& b)
{
	size_t comma = op.find(',');
	a = op.size() > 1 ? (size_t)std::stoul(op.substr(1, comma == std::string::npos ? std::string::npos : comma - 1)) : 0;
	b = comma == std::string::npos || comma + 1 >= op.size() ? 0 : (size_t)std::stoul(op.substr(comma + 1));
}

template<typename Cfg>
static void runSeq(std::istringstream& is, const char* cfgName)
{
	typedef typename Cfg::Table Table; typedef typename Cfg::Row Row;
	MMStats st; std::ostringstream out; bool first = true;
	long live0 = Tracked::live.load();
	size_t rowSize = 0, blockSize = 0, blockCount = 0, alignment = 0; bool keep = Table::ColumnList::Settings::keepRowNumber;
	{
		Table table(Cfg::make(&st));
		alignment = table.GetColumnList().GetAlignment(); rowSize = Cfg::rowSize(table); blockSize = table.mRawMemPool.GetBlockSize(); blockCount = Table::RawMemPool::Params::blockCount;
		Ids ids; std::vector<Row> det; size_t created = 0; std::string op;
		Table* cur = &table;                 // the table object that currently owns the crew (changes while the table is moved around)
		const Row* extraObj = nullptr;       // a temporary Row object to be shown after the detached slots
		auto objState = [&] (const Row& r) {  // the three members of the Row object, byte for byte (canonicalised)
			std::string s = r.mRaw == nullptr ? "-" : std::to_string(ids.of(r.mRaw));
			s += r.mFreeRaws == &cur->mCrew.mData->freeRaws ? ":T" : r.mFreeRaws == nullptr ? ":0" : ":?";
			s += r.mColumnList == &cur->GetColumnList() ? "" : "!cl";
			return s;
		};
		auto emit = [&] (const std::string& ev) {
			if (!first) out << ' '; first = false;
			out << ev << "|fl=" << freeList(*cur, ids, created + 1) << "|pc=" << cur->mRawMemPool.GetAllocateCount()
				<< "|lv=" << (Tracked::live.load() - live0) << "|ro=";
			for (size_t i = 0; i < det.size(); ++i) out << (i ? "," : "") << objState(det[i]);
			if (extraObj != nullptr) out << (det.empty() ? "" : ",") << objState(*extraObj);
		};
		auto S = [] (int id) { return std::to_string(id); };
		while (is >> op)
		{
			char c = op[0]; size_t k = 0, j = 0; two(op, k, j);
			if (c == 'n')
			{
				Row row = table.NewRow(); ++created;
				int id = ids.of(row.GetRaw()); Cfg::fill(row, created);
				det.push_back(std::move(row)); emit("N" + S(id));
			}
			else if (c == 'q' && !det.empty())
			{
				Row row = table.NewRow(det[k % det.size()]); ++created;
				int id = ids.of(row.GetRaw()); det.push_back(std::move(row)); emit("N" + S(id));
			}
			else if (c == 'e')
			{
				bool thrown = Cfg::throwingNew(table); if (thrown) ++created;
				emit(thrown ? "Z" : "-");      // allocated (after a drain), failed, deallocated directly
			}
			else if (c == 'f' && !det.empty())
			{
				bool thrown = Cfg::throwingCopy(table, det[k % det.size()]); if (thrown) ++created;
				emit(thrown ? "Z" : "-");      // pvCreateRaw's catch: mRawMemPool.Deallocate(raw)
			}
			else if ((c == 'a' || c == 'i') && !det.empty())
			{
				size_t pos = k; if (c == 'i') { pos = k % (table.GetCount() + 1); k = j; }
				k %= det.size(); int id = ids.of(det[k].GetRaw());
				auto res = (c == 'a') ? table.TryAdd(std::move(det[k])) : table.TryInsert(pos, std::move(det[k]));
				if (res) { det.erase(det.begin() + k); emit("A" + S(id)); }
				else emit("U" + S(id));            // refused by the unique index: the row stays detached and alive
			}
			else if (c == 'p' && !det.empty() && table.GetCount() > 0)
			{
				size_t pos = k % table.GetCount(); k = j % det.size();
				int oldId = ids.of(table[pos].GetRaw()), id = ids.of(det[k].GetRaw());
				auto res = table.TryUpdate(pos, std::move(det[k]));
				if (res) { det.erase(det.begin() + k); emit("P" + S(oldId) + "," + S(id)); }
				else emit("U" + S(id));
			}
			else if ((c == 'x' || c == 'z') && table.GetCount() > 0)
			{
				k %= table.GetCount(); int id = ids.of(table[k].GetRaw());
				det.push_back(table.Extract(k, c == 'x')); emit("X" + S(id));
			}
			else if (c == 'd' && !det.empty())
			{
				k %= det.size(); int id = ids.of(det[k].GetRaw());
				det.erase(det.begin() + k);      // ~DataRow: the push
				emit("D" + S(id));
			}
			else if (c == 'r' && table.GetCount() > 0)
			{
				k %= table.GetCount(); int id = ids.of(table[k].GetRaw());
				table.Remove(k); emit("R" + S(id));
			}
			else if (c == 'c')
			{
				std::string ev = "C";
				for (size_t i = 0; i < table.GetCount(); ++i) ev += (i ? "," : "") + S(ids.of(table[i].GetRaw()));
				table.Clear(); emit(ev);
			}
			else if (c == 'm' && !det.empty())
			{
				k %= det.size(); int id = ids.of(det[k].GetRaw());
				{
					Row moved(std::move(det[k]));                 // the slot is now a moved-from object
					extraObj = &moved; emit("O" + S(k)); extraObj = nullptr;
					det[k] = std::move(moved);                    // move-assign INTO a moved-from object; two empty destructors
				}
				emit("M" + S(k));
			}
			else if (c == 'w' && det.size() > 1 && k % det.size() != j % det.size())
			{
				k %= det.size(); j %= det.size(); int oldId = ids.of(det[k].GetRaw());
				det[k] = std::move(det[j]);       // the old row of #k dies INSIDE the assignment: a push; #j is now a moved-from object
				emit("W" + S(oldId) + "," + std::to_string(k) + "," + std::to_string(j));
				det.erase(det.begin() + j);
				emit("H" + std::to_string(j));
			}
			else if (c == 'y' && det.size() > 1)
			{
				k %= det.size(); j %= det.size();
				if (k != j) { using std::swap; swap(det[k], det[j]); det[k].Swap(det[j]); det[j].Swap(det[k]); emit("Y" + std::to_string(k) + "," + std::to_string(j)); }
				else emit("-");
			}
			else if (c == 's' && !det.empty())
			{
				k %= det.size(); int id = ids.of(det[k].GetRaw());
				Cfg::rewrite(det[k], k); emit("S" + S(id));
			}
			else if (c == 'j' && table.GetCount() > 0)
			{	// Remove(rowFilter): every second row goes (pvRemove -> pvFilterRaws -> pvDestroyRaw: straight to the pool)
				std::string ev = "Q"; std::set<const void*> gone; size_t idx = 0;
				for (size_t i = 0; i < table.GetCount(); ++i) if (i % 2 == k % 2) { ev += (gone.empty() ? "" : ",") + S(ids.of(table[i].GetRaw())); gone.insert(table[i].GetRaw()); }
				size_t removed = table.Remove([&] (typename Table::ConstRowReference ref) { (void)idx; return gone.count(ref.GetRaw()) != 0; });
				emit(removed == gone.size() ? ev : "Q!");
			}
			else if ((c == 'g' || c == 'l') && table.GetCount() > 0)
			{	// g: Assign(begin, end) keeps every second row, in REVERSED order; l: Remove(begin, end) removes every second row
				std::vector<typename Table::ConstRowReference> sel; std::string ev = "Q"; bool any = false;
				for (size_t i = 0; i < table.GetCount(); ++i)
				{
					bool pick = (i % 2 == k % 2);
					if (pick) sel.push_back(table[i]);
					if (pick == (c == 'l')) { ev += (any ? "," : "") + S(ids.of(table[i].GetRaw())); any = true; }   // the rows that will be destroyed
				}
				size_t before = table.GetCount();
				if (c == 'g') { std::reverse(sel.begin(), sel.end()); table.Assign(sel.begin(), sel.end()); }
				else table.Remove(sel.begin(), sel.end());
				bool ok = table.GetCount() == (c == 'g' ? sel.size() : before - sel.size());
				emit(ok ? ev : "Q!");
			}
			else if (c == 'k')
			{	// table copy construction (pvFill -> pvImportRaw -> pvCreateRaw): the copy has its OWN crew, list head and pool
				bool ok = true;
				{
					Table copy(table);
					ok = copy.GetCount() == table.GetCount() && copy.mCrew.mData != table.mCrew.mData
						&& copy.mCrew.mData->freeRaws.load() == nullptr && copy.mRawMemPool.GetAllocateCount() == copy.GetCount();
					if (copy.GetCount() > 0) { Row r = copy.Extract(0); ok = ok && r.mFreeRaws == &copy.mCrew.mData->freeRaws; }   // pushed onto the COPY's list
					ok = ok && (copy.GetCount() + (copy.mCrew.mData->freeRaws.load() != nullptr ? 1 : 0)) == copy.mRawMemPool.GetAllocateCount();
				}
				emit(ok ? "-" : "K!");
			}
			else if (c == 'v')
			{
				Table other(std::move(table));       // Crew data (the list head) must stay where the rows point
				cur = &other;
				emit(table.mCrew.IsNull() && !other.mCrew.IsNull() ? "V1" : "V!");   // the moved-from table has a null crew; rows are compared against `other`
				table = std::move(other);            // DataTable(std::move(other)).Swap(*this)
				cur = &table;
				emit(other.mCrew.IsNull() && !table.mCrew.IsNull() ? "V0" : "V!");
			}
			else
				emit("-");
		}
		// epilogue: all detached rows die (pushes), then the table (pvDestroyRaws drains and destroys the rest)
		std::string ev = "E";
		for (size_t i = 0; i < det.size(); ++i) ev += (i ? "," : "") + S(ids.of(det[i].GetRaw()));
		det.clear();
		emit(ev);
		ev = "C";
		for (size_t i = 0; i < table.GetCount(); ++i) ev += (i ? "," : "") + S(ids.of(table[i].GetRaw()));
		table.Clear();
		emit(ev);
	}
	out << " end|mm=" << st.bytes << "|ad=" << (long long)st.allocs - (long long)st.deallocs << "|lv=" << (Tracked::live.load() - live0)
		<< "|cfg=" << cfgName << "|row=" << rowSize << "|block=" << blockSize << "|bc=" << blockCount << "|keep=" << (keep ? 1 : 0) << "|al=" << alignment;
	puts(out.str().c_str());
}

// ---------------------------------------------------------------- rows of two tables crossing each other
static void runCross()
{
	typedef Dyn::Table Table; typedef Dyn::Row Row;
	Dyn::variant = 0; MMStats sa, sb; long live0 = Tracked::live.load();
	size_t ownA = 0, foreignA = 0, ownB = 0, foreignB = 0, pcA = 9, pcB = 9;
	{
		Table A(Dyn::make(&sa)), B(Dyn::make(&sb));
		std::set<void*> rawsA, rawsB;
		Row a1 = A.NewRow(), a2 = A.NewRow(), a3 = A.NewRow(); Row b1 = B.NewRow(), b2 = B.NewRow();
		for (Row* r : { &a1, &a2, &a3 }) rawsA.insert(r->GetRaw());
		for (Row* r : { &b1, &b2 }) rawsB.insert(r->GetRaw());
		{
			using std::swap;
			swap(a1, b1);                       // a1 now holds B's buffer and must push it to B
			Row t(std::move(a2)); a2 = std::move(b2);   // a2 (moved-from) receives B's row
			b2 = std::move(t);                  // b2 (moved-from) receives A's row
			a3.Swap(b1); a3.Swap(b1);           // there and back
		}
		{ Row x1(std::move(a1)), x2(std::move(a2)), x3(std::move(a3)), y1(std::move(b1)), y2(std::move(b2)); }   // all five die
		for (void* p = A.mCrew.mData->freeRaws.load(); p != nullptr; p = internal::MemCopyer::FromBuffer<void*>(p)) (rawsA.count(p) ? ownA : foreignA)++;
		for (void* p = B.mCrew.mData->freeRaws.load(); p != nullptr; p = internal::MemCopyer::FromBuffer<void*>(p)) (rawsB.count(p) ? ownB : foreignB)++;
		A.Clear(); B.Clear(); pcA = A.mRawMemPool.GetAllocateCount(); pcB = B.mRawMemPool.GetAllocateCount();
	}
	printf("cross A=%zu/%zu B=%zu/%zu pcA=%zu pcB=%zu mm=%lld lv=%ld\n", ownA, foreignA, ownB, foreignB, pcA, pcB, sa.bytes + sb.bytes, Tracked::live.load() - live0);
}

// ---------------------------------------------------------------- multi-threaded stress
template<typename Row>
struct Chan
{
	std::mutex m; std::condition_variable cv; std::deque<std::vector<Row>> q; bool done = false;
	void put(std::vector<Row>&& b) { { std::lock_guard<std::mutex> g(m); q.push_back(std::move(b)); } cv.notify_one(); }
	bool get(std::vector<Row>& b)
	{
		std::unique_lock<std::mutex> g(m);
		cv.wait(g, [&] { return done || !q.empty(); });
		if (q.empty()) return false;
		b = std::move(q.front()); q.pop_front(); return true;
	}
	void finish() { { std::lock_guard<std::mutex> g(m); done = true; } cv.notify_all(); }
};

template<typename Cfg>
static void runStress(size_t k, size_t rounds, unsigned long long seed, const char* cfgName)
{
	typedef typename Cfg::Table Table; typedef typename Cfg::Row Row;
	MMStats st; long live0 = Tracked::live.load();
	size_t created = 0, handed = 0, removed = 0, drains = 0; std::atomic<size_t> destroyed(0), assigned(0);
	size_t pcEnd = 99;
	{
		Table table(Cfg::make(&st));
		std::vector<std::unique_ptr<Chan<Row>>> chans; for (size_t i = 0; i < k; ++i) chans.emplace_back(new Chan<Row>);
		std::vector<std::thread> ths;
		for (size_t i = 0; i < k; ++i)
			ths.emplace_back([&, i] {
				std::vector<Row> b, slots; size_t cnt = 0;
				while (chans[i]->get(b))
				{
					destroyed += b.size();
					for (Row& r : b)
					{
						switch (cnt++ % 4)
						{
						case 0: break;                                   // dies with the batch
						case 1: if (slots.size() < 4) { slots.push_back(std::move(r)); break; }
							{ Row taken(std::move(slots[cnt % 4])); slots[cnt % 4] = std::move(r); ++assigned; } break;   // assign into a moved-from slot; `taken` dies
						case 2: if (!slots.empty()) { slots[cnt % slots.size()] = std::move(r); ++assigned; } break;       // assign over a live row: it dies
						default: if (!slots.empty()) { using std::swap; swap(slots[0], r); } break;                          // swap, then the batch kills the other one
						}
					}
					b.clear();          // ~DataRow for the rest of the batch: concurrent pushes
				}
				slots.clear();
			});
		std::mt19937_64 rng(seed);
		for (size_t round = 0; round < rounds; ++round)
		{
			// the owner creates a burst of rows; NewRow drains whatever the disposers have pushed meanwhile
			std::vector<std::vector<Row>> batches(k);
			size_t burst = 1 + rng() % 24;
			for (size_t j = 0; j < burst; ++j)
			{
				void* h = table.mCrew.mData->freeRaws.load();
				if (h != nullptr) ++drains;
				Row row = table.NewRow(); ++created;
				Cfg::fill(row, created);
				switch (rng() % 4)
				{
				case 0: if (!table.TryAdd(std::move(row))) { batches[rng() % k].push_back(std::move(row)); ++handed; } break;
				default: batches[rng() % k].push_back(std::move(row)); ++handed; break;
				}
			}
			// extract some table rows and hand them over as well; remove some directly
			size_t ex = rng() % 4;
			for (size_t j = 0; j < ex && table.GetCount() > 0; ++j)
			{ batches[rng() % k].push_back(table.Extract(rng() % table.GetCount(), rng() % 2 == 0)); ++handed; }
			if (table.GetCount() > 0 && rng() % 3 == 0) { table.Remove(rng() % table.GetCount(), false); ++removed; }
			for (size_t i = 0; i < k; ++i) if (!batches[i].empty()) chans[i]->put(std::move(batches[i]));
			if (rng() % 16 == 0) table.Clear();
			if (rng() % 64 == 0) { Table other(std::move(table)); table = std::move(other); }
			if (rng() % 8 == 0) std::this_thread::yield();
		}
		for (auto& c : chans) c->finish();
		for (auto& t : ths) t.join();
		table.Clear();
		pcEnd = table.mRawMemPool.GetAllocateCount();
	}
	printf("stress k=%zu created=%zu handed=%zu destroyed=%zu drains=%zu pc=%zu mm=%lld ad=%lld lv=%ld cfg=%s assigned=%zu\n", k, created, handed,
		destroyed.load(), drains, pcEnd, st.bytes, (long long)st.allocs - (long long)st.deallocs, Tracked::live.load() - live0, cfgName, assigned.load());
}

static const char* dynNames[] = { "big", "u8", "i16", "u32", "p8", "p9", "idx" };

int main()
{
	std::string line;
	while (std::getline(std::cin, line))
	{
		std::istringstream is(line); std::string cmd; is >> cmd;
		std::string cfg = cmd == "seq" ? "big" : cmd == "seqt" ? "u8" : cmd.compare(0, 4, "seq:") == 0 ? cmd.substr(4) : "";
		int dv = -1; for (int i = 0; i < 7; ++i) if (cfg == dynNames[i]) dv = i;
		if (cmd == "cross") runCross();
		else if (cmd == "stress")
		{
			size_t k = 3, rounds = 200; unsigned long long seed = 1; std::string sc = "big"; is >> k >> rounds >> seed >> sc;
			int sv = -1; for (int i = 0; i < 7; ++i) if (sc == dynNames[i]) sv = i;
			if (sv >= 0) { Dyn::variant = sv; runStress<Dyn>(k, rounds, seed, dynNames[sv]); }
			else if (sc == "keep") runStress<Keep>(k, rounds, seed, "keep");
			else if (sc == "pool") runStress<Pool>(k, rounds, seed, "pool");
			else if (sc == "stat") runStress<Stat>(k, rounds, seed, "stat");
			else puts("?");
		}
		else if (dv >= 0) { Dyn::variant = dv; runSeq<Dyn>(is, dynNames[dv]); }
		else if (cfg == "keep") runSeq<Keep>(is, "keep");
		else if (cfg == "pool") runSeq<Pool>(is, "pool");
		else if (cfg == "stat") runSeq<Stat>(is, "stat");
		else puts("?");
		fflush(stdout);
	}
	return 0;
}
