(* C14 -- allocator / memory-manager propagation.

   Model of (what the code DOES, branch by branch):
     momo::MemManagerStd<Alloc>::operator=(MemManagerStd&&)      MemManager.h:212-226  (enabled-if + pvAssign dispatch)
     MemManagerStd::pvAssign overloads                           MemManager.h:257-278
     internal::MemManagerProxy::IsEqual / Assign / pvAssign      MemManager.h:454-507
     the decisions of the stdish wrappers                        stdish/{unordered_map,unordered_set,unordered_multimap,
                                                                 map,set,vector}.h  operator=(X&&), operator=(const X&),
                                                                 swap, X(X&&, alloc), pvCreateMap/pvCreateSet/pvCreateArray
   and, written independently, the rule table of the C++ standard ([container.requirements.general],
   allocator-aware containers).  `propagation_table` (Proofs.v) says the two agree. *)
From Coq Require Import ZArith Bool List Lia.
Import ListNotations.
Local Open Scope Z_scope.

Definition mgr := Z.      (* identity of an allocator / memory manager (kit::MM id, kit::StdAlloc id) *)

(* compile-time facts about the allocator type *)
Record traits := mkTraits {
  pocca : bool;      (* propagate_on_container_copy_assignment *)
  pocma : bool;      (* propagate_on_container_move_assignment *)
  pocs : bool;       (* propagate_on_container_swap *)
  nma : bool;        (* std::is_nothrow_move_assignable<ByteAllocator> *)
  is_empty : bool    (* std::is_empty<allocator_type> (then all allocators compare equal, e.g. std::allocator) *)
}.

(* ---------------------------------------------------------------- MemManagerStd::operator=(MemManagerStd&&) *)
Inductive assign_kind := AMove | ACopy | ASwap | ADisabled.

(* template<bool enabled = nothrow_move_assignable || POCMA || POCCA || POCS> EnableIf<enabled, ...> operator= *)
Definition mms_assign_enabled (tr : traits) : bool := nma tr || pocma tr || pocca tr || pocs tr.

(* overload resolution of pvAssign(src, dst, BoolConstant<nma || POCMA>, POCCA(), POCS()) *)
Definition mms_pvAssign (tr : traits) : assign_kind :=
  if nma tr || pocma tr then AMove            (* dstAlloc = std::move(srcAlloc)             l.262 *)
  else if pocca tr then ACopy                 (* dstAlloc = (const ByteAllocator&)srcAlloc   l.270 *)
  else if pocs tr then ASwap                  (* std::iter_swap(&dstAlloc, &srcAlloc)        l.277 *)
  else ADisabled.                             (* no viable overload; operator= is SFINAE-disabled in this case *)

(* effect on the pair (source id, destination id); moving/copying an allocator keeps the source's identity *)
Definition mms_assign (tr : traits) (src dst : mgr) : mgr * mgr :=
  match mms_pvAssign tr with
  | AMove | ACopy => (src, src)
  | ASwap => (dst, src)
  | ADisabled => (src, dst)
  end.

(* ---------------------------------------------------------------- MemManagerProxy *)
(* IsEqual: same object or empty type -> true; otherwise memManager1.IsEqual(memManager2) if it exists, else false *)
Definition proxy_is_equal (same_object is_empty_mm has_is_equal : bool) (m1 m2 : mgr) : bool :=
  if same_object || is_empty_mm then true
  else if has_is_equal then Z.eqb m1 m2 else false.

(* Assign(src&&, dst): nothing for the same object / an empty type; `dst = std::move(src)` when the manager is
   nothrow move assignable (for MemManagerStd: exactly when its operator= is enabled); otherwise destroy dst and
   move-construct it from src (MemManagerStd(MemManagerStd&&): ByteAllocator(std::move(...))). *)
Definition proxy_assign (tr : traits) (same_object : bool) (src dst : mgr) : mgr * mgr :=
  if same_object || is_empty tr then (src, dst)
  else if mms_assign_enabled tr then mms_assign tr src dst
  else (src, src).

(* a native momo manager such as kit::MM: copy assignment deleted, no move assignment, stateful, has IsEqual *)
Definition native_traits : traits := mkTraits true true true false false.
(* NB for native containers the pocXX fields are never consulted by the code that is modelled (HashSet/TreeSet/
   HashMultiMap swap crews, Array uses proxy_assign with nma = false); `native_assign` below is what Array does. *)
Definition native_proxy_assign (same_object : bool) (src dst : mgr) : mgr * mgr :=
  if same_object then (src, dst) else (src, src).   (* is_nothrow_move_assignable<kit::MM> = false -> reconstruct *)

(* ---------------------------------------------------------------- stdish wrapper decisions *)
(* allocator_type::operator== ; an empty allocator type has a single value *)
Definition alloc_eq (tr : traits) (a b : mgr) : bool := is_empty tr || Z.eqb a b.

(* operator=(X&&):      bool propagate = is_empty<allocator_type> || POCMA;  alloc = (propagate ? &right : this)->get_allocator() *)
Definition w_propagate_move (tr : traits) : bool := is_empty tr || pocma tr.
(* operator=(const X&): bool propagate = is_empty<allocator_type> || POCCA *)
Definition w_propagate_copy (tr : traits) : bool := is_empty tr || pocca tr.
(* pvCreateMap / pvCreateSet / pvCreateArray (right, alloc):  if (right.get_allocator() == alloc) steal else element-wise *)
Definition w_steal (tr : traits) (right_alloc alloc : mgr) : bool := alloc_eq tr right_alloc alloc.
(* swap: MOMO_ASSERT(POCS::value || get_allocator() == right.get_allocator()): get_allocator() is evaluated iff !POCS *)
Definition w_swap_evaluates_allocators (tr : traits) : bool := negb (pocs tr).
Definition w_swap_assert_holds (tr : traits) (a b : mgr) : bool := pocs tr || alloc_eq tr a b.

(* what the wrapper code computes for one operation on allocators s (source/right) and t (target/this) *)
Inductive wop := OpCopyAssign | OpMoveAssign | OpSwap | OpMoveCtorAlloc (a : mgr) | OpCopyCtorAlloc (a : mgr)
               | OpMoveCtor | OpCopyCtor.

(* allocator the target ends up with.  For the steal path this is the stolen nested container's manager (= s). *)
Definition code_target_alloc (tr : traits) (op : wop) (s t : mgr) : mgr :=
  match op with
  | OpMoveAssign => let alloc := if w_propagate_move tr then s else t in
                    if w_steal tr s alloc then s else alloc
  | OpCopyAssign => if w_propagate_copy tr then s else t      (* HashMap(right.mHashMap, MemManager(alloc)) *)
  | OpSwap => s                                                  (* nested Swap exchanges crews / managers *)
  | OpMoveCtorAlloc a => if w_steal tr s a then s else a
  | OpCopyCtorAlloc a => a
  | OpMoveCtor => s
  | OpCopyCtor => s                                              (* select_on_container_copy_construction default *)
  end.
Definition code_source_alloc (tr : traits) (op : wop) (s t : mgr) : mgr :=
  match op with OpSwap => t | _ => s end.
(* are the elements transferred one by one (moved individually) *)
Definition code_elementwise (tr : traits) (op : wop) (s t : mgr) : bool :=
  match op with
  | OpMoveAssign => negb (w_steal tr s (if w_propagate_move tr then s else t))
  | OpMoveCtorAlloc a => negb (w_steal tr s a)
  | _ => false
  end.

(* ---------------------------------------------------------------- the std rule table (the SPEC) *)
(* [container.requirements.general]/[allocator.requirements]:
     copy assignment : allocator replaced iff POCCA
     move assignment : allocator replaced iff POCMA; if not replaced and the allocators differ the elements are
                       move-assigned/constructed individually; otherwise ownership of the storage is transferred
     swap            : allocators exchanged iff POCS; otherwise they must be equal (else undefined)
     X(X&&, a)       : uses a; individual moves iff a != source allocator
     X(const X&, a)  : uses a;   X(X&&) takes the source's allocator;  X(const X&) takes
                       select_on_container_copy_construction(source) (= a copy for allocators that do not override it). *)
Definition std_defined (tr : traits) (op : wop) (s t : mgr) : bool :=
  match op with OpSwap => pocs tr || Z.eqb s t | _ => true end.
Definition std_target_alloc (tr : traits) (op : wop) (s t : mgr) : mgr :=
  match op with
  | OpCopyAssign => if pocca tr then s else t
  | OpMoveAssign => if pocma tr then s else t
  | OpSwap => if pocs tr then s else t
  | OpMoveCtorAlloc a => a
  | OpCopyCtorAlloc a => a
  | OpMoveCtor => s
  | OpCopyCtor => s
  end.
Definition std_source_alloc (tr : traits) (op : wop) (s t : mgr) : mgr :=
  match op with OpSwap => if pocs tr then t else s | _ => s end.
Definition std_elementwise (tr : traits) (op : wop) (s t : mgr) : bool :=
  match op with
  | OpMoveAssign => negb (pocma tr) && negb (Z.eqb s t)
  | OpMoveCtorAlloc a => negb (Z.eqb s a)
  | _ => false
  end.

(* ---------------------------------------------------------------- facts *)
Lemma enabled_not_disabled tr : mms_assign_enabled tr = true -> mms_pvAssign tr <> ADisabled.
Proof. unfold mms_assign_enabled, mms_pvAssign. destruct tr as [a b c d e]; simpl. destruct d, b, a, c; simpl; congruence. Qed.

(* whatever overload is chosen, the destination ends up with the source's identity *)
Lemma mms_assign_dst tr src dst : mms_assign_enabled tr = true -> snd (mms_assign tr src dst) = src.
Proof.
  intros H. pose proof (enabled_not_disabled tr H) as Hd. unfold mms_assign.
  destruct (mms_pvAssign tr); simpl; congruence.
Qed.

Lemma proxy_assign_dst tr src dst : is_empty tr = false -> snd (proxy_assign tr false src dst) = src.
Proof.
  intros He. unfold proxy_assign. rewrite He. simpl.
  destruct (mms_assign_enabled tr) eqn:E; [apply mms_assign_dst; assumption | reflexivity].
Qed.

(* the source keeps an identity that is one of the two (it is left empty, so either is harmless) *)
Lemma proxy_assign_src tr same src dst :
  fst (proxy_assign tr same src dst) = src \/ fst (proxy_assign tr same src dst) = dst.
Proof.
  unfold proxy_assign, mms_assign. destruct (same || is_empty tr); [left; reflexivity|].
  destruct (mms_assign_enabled tr); [|left; reflexivity].
  destruct (mms_pvAssign tr); simpl; auto.
Qed.

(* the stateful-allocator table: 8 trait combinations (x nma) x equal/unequal *)
Theorem propagation_table_stateful :
  forall tr op s t, is_empty tr = false -> std_defined tr op s t = true ->
    code_target_alloc tr op s t = std_target_alloc tr op s t /\
    code_source_alloc tr op s t = std_source_alloc tr op s t /\
    code_elementwise tr op s t = std_elementwise tr op s t.
Proof.
  intros [ca ma sw nm em] op s t He Hd; simpl in He; subst em.
  unfold code_target_alloc, code_source_alloc, code_elementwise, std_target_alloc, std_source_alloc,
    std_elementwise, std_defined, w_propagate_move, w_propagate_copy, w_steal, alloc_eq in *; simpl in *.
  destruct op; simpl in *;
    try (destruct ca; simpl; repeat split; reflexivity);
    try (repeat split; reflexivity).
  - (* move assign *) destruct ma; simpl.
    + rewrite Z.eqb_refl. repeat split; reflexivity.
    + destruct (Z.eqb_spec s t); simpl; repeat split; auto.
  - (* swap *) destruct sw; simpl in *; [repeat split; reflexivity|].
    apply Z.eqb_eq in Hd. subst. repeat split; reflexivity.
  - (* move ctor with allocator *) destruct (Z.eqb_spec s a); simpl; repeat split; auto.
Qed.

(* empty allocator types: every allocator is equal, nothing is ever transferred element-wise, swap never asserts *)
Theorem propagation_table_empty :
  forall tr op s t, is_empty tr = true ->
    code_elementwise tr op s t = false /\ w_swap_assert_holds tr s t = true.
Proof.
  intros [ca ma sw nm em] op s t He; simpl in He; subst em.
  unfold code_elementwise, w_swap_assert_holds, w_steal, alloc_eq, w_propagate_move; simpl.
  split; [destruct op; reflexivity | apply orb_true_r].
Qed.

(* the swap assertion is exactly the std precondition for stateful allocators *)
Lemma swap_assert_iff_std_defined tr s t :
  is_empty tr = false -> w_swap_assert_holds tr s t = std_defined tr OpSwap s t.
Proof. intros He. unfold w_swap_assert_holds, std_defined, alloc_eq. rewrite He. reflexivity. Qed.

(* all 16 (pocca, pocma, pocs, nma) combinations, as a list, for the finite sweeps and for the OCaml driver *)
Definition all_traits (em : bool) : list traits :=
  flat_map (fun a => flat_map (fun b => flat_map (fun c => map (fun d => mkTraits a b c d em) [false; true])
    [false; true]) [false; true]) [false; true].
