// instantiation TU for cxx2coq (C05): the range checks (guards) of ArrayShifter / Array / SegmentedArray.
// One use of every guarded member so that clang instantiates the bodies.
#include "momo/Array.h"
#include "momo/SegmentedArray.h"
namespace momo {
inline void c05_use(Array<uint64_t>& a, SegmentedArray<uint64_t>& s, const uint64_t& item)
{
	a.Insert(0, 1, item); a.Remove(0, 1); a.RemoveBack(1); a.AddBackNogrow(item); (void)a[0];
	a.AddBack(item); { uint64_t t = 1; a.AddBack(std::move(t)); } a.Shrink(1); a.Reserve(1);
	s.Insert(0, 1, item); s.Remove(0, 1); s.RemoveBack(1); s.Shrink(1);
}
}
