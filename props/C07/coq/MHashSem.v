(* C07 / the member functions of DataIndexes::MultiHash that the two-phase protocol and the queries call, as they are in the
   source: Gen_Protocol.M_RejectAdd, M_AcceptAdd, M_PrepareRemove (with the scan of 2211fdb), M_RejectRemove and M_Find (with
   the absent-key branch of 95ed81f) are the dumped statement trees; this file interprets them over the abstract hash multi
   map of IndexModel.v (groups = (key iterator tag, key row, value array); Find = first visible content-equal key; key
   iteration = list order; Remove(keyIter, i) = swap-remove of value i; RemoveKey) . *)
From Coq Require Import String List ZArith Bool Arith PeanoNat Lia.
From C07 Require Import TableSpec MultiHash IndexModel ProtoSyntax.
From C07 Require Gen_Protocol.
Import ListNotations.
Local Open Scope string_scope.

(* a key iterator is the group it points to (None = the null iterator) *)
Inductive mval := MVraw (z : Z) | MVit (g : option mgroup) | MVnum (n : nat) | MVbool (b : bool) | MVtraits | MVkey (k : list Z)
                | MVbounds (l : list Z) | MVversion.
Definition menv := string -> option mval.
Definition mupd (env : menv) (x : string) (v : mval) : menv := fun y => if String.eqb x y then Some v else env y.
Inductive mflow := MNext | MBreak | MRet (v : option mval).
Definition mres := option (mhash * menv * mflow).

Definition it_eqb (a b : option mgroup) : bool :=
  match a, b with Some x, Some y => Nat.eqb (gtag x) (gtag y) | None, None => true | _, _ => false end.
Definition it_of_field (m : mhash) (p : option nat) : option mgroup :=
  match p with Some t => m_get_group t (mgroups m) | None => None end.

Section MSem.
Variables (R : list Z -> list Z -> bool) (ct : Z -> row).

Fixpoint mev (env : menv) (m : mhash) (e : pexpr) : option mval :=
  match e with
  | EVar x => if x =? "mKeyIteratorAdd" then Some (MVit (it_of_field m (mpadd m)))
              else if x =? "mKeyIteratorRemove" then Some (MVit (it_of_field m (mprem m))) else env x
  | ENum z => Some (MVnum (Z.to_nat z))
  | EMember a f =>
      match mev env m a with
      | Some (MVit (Some g)) => if f =? "key" then Some (MVraw (gkey g)) else None
      | _ => None
      end
  | EUn op a =>
      match mev env m a with
      | Some (MVit p) => if op =? "!" then Some (MVbool (match p with None => true | Some _ => false end))
                         else if op =? "->" then Some (MVit p) else None
      | Some (MVbool b) => if op =? "!" then Some (MVbool (negb b)) else None
      | _ => None
      end
  | EBin op a b =>
      if op =? "&&" then
        match mev env m a with
        | Some (MVbool false) => Some (MVbool false)
        | Some (MVbool true) => match mev env m b with Some (MVbool y) => Some (MVbool y) | _ => None end
        | _ => None
        end
      else
      match mev env m a, mev env m b with
      | Some (MVit x), Some (MVit y) => if op =? "==" then Some (MVbool (it_eqb x y)) else if op =? "!=" then Some (MVbool (negb (it_eqb x y))) else None
      | Some (MVnum x), Some (MVnum y) => if op =? ">" then Some (MVbool (Nat.ltb y x)) else if op =? "-" then Some (MVnum (x - y))
                                          else if op =? "+" then Some (MVnum (x + y)) else None
      | _, _ => None
      end
  | ECall obj meth args =>
      match obj, args with
      | EVar o, [a] =>
          if (o =? "mHashMultiMap") && (meth =? "Find") then
            match mev env m a with
            | Some (MVraw r) => Some (MVit (m_find R ct m (keyc ct (mcols m) r)))
            | Some (MVkey k) => Some (MVit (m_find R ct m k))
            | _ => None
            end
          else None
      | EVar o, [a; b] =>
          match env o, mev env m a, mev env m b with
          | Some MVtraits, Some (MVraw x), Some (MVraw y) =>
              if meth =? "IsEqual" then Some (MVbool (zlist_eqb (keyc ct (mcols m) x) (keyc ct (mcols m) y))) else None
          | _, _, _ => None
          end
      | EVar o, [] => if (o =? "mHashMultiMap") && (meth =? "GetHashTraits") then Some MVtraits else None
      | _, [] =>
          match mev env m obj with
          | Some (MVit (Some g)) => if meth =? "GetCount" then Some (MVnum (length (gvals g))) else None
          | _ => None
          end
      | _, _ => None
      end
  | ECtor ty args =>
      match args with
      | [] => if ty =? "RawBounds" then Some (MVbounds []) else Some (MVit None)
      | [k; ECall it gb []; n; EVar _] =>
          (* RawBounds(keyIter->key, keyIter->GetBegin(), n, version): the key row followed by the first n - 1 values *)
          if (ty =? "RawBounds") && (gb =? "GetBegin") then
            match mev env m k, mev env m it, mev env m n with
            | Some (MVraw kr), Some (MVit (Some g)), Some (MVnum c) => Some (MVbounds (firstn c (kr :: gvals g)))
            | _, _, _ => None
            end
          else None
      | _ => None
      end
  | _ => None
  end.

Definition mset_field (m : mhash) (fld : string) (p : option nat) : option mhash :=
  if fld =? "mKeyIteratorAdd" then Some (mkM (mcols m) (mgroups m) p (mprem m))
  else if fld =? "mKeyIteratorRemove" then Some (mkM (mcols m) (mgroups m) (mpadd m) p) else None.

Definition mseq (r : mres) (k : mhash -> menv -> mres) : mres :=
  match r with Some (m', env', MNext) => k m' env' | other => other end.

Fixpoint mloop (f : mhash -> menv -> mres) (it : string) (gs : list mgroup) (m : mhash) (env : menv) : mres :=
  match gs with
  | [] => Some (m, env, MNext)
  | g :: gs' =>
      match f m (mupd env it (MVit (Some g))) with
      | Some (m', env', MNext) => mloop f it gs' m' env'
      | Some (m', env', MBreak) => Some (m', env', MNext)
      | other => other
      end
  end.

Fixpoint mstmt (s : pstmt) (m : mhash) (env : menv) {struct s} : mres :=
  let mblock := fix mblock (b : list pstmt) (m : mhash) (env : menv) : mres :=
                  match b with [] => Some (m, env, MNext) | s1 :: b' => mseq (mstmt s1 m env) (mblock b') end in
  match s with
  | SDecl x e => match mev env m e with Some v => Some (m, mupd env x v, MNext) | None => None end
  | SExpr (EBin op (EVar fld) rhs) =>
      if op =? "=" then
        match mev env m rhs with
        | Some (MVit p) => match mset_field m fld (option_map gtag p) with Some m' => Some (m', env, MNext) | None => None end
        | _ => None
        end
      else None
  | SExpr (ECall (EVar o) meth args) =>
      if o =? "mHashMultiMap" then
        match args with
        | [it; i] =>
            if meth =? "Remove" then
              match mev env m it, mev env m i with
              | Some (MVit (Some g)), Some (MVnum n) =>
                  Some (mkM (mcols m) (m_update_group (gtag g) (fun g0 => mkG (gtag g0) (gkey g0) (gskey g0) (swap_remove n (gvals g0))) (mgroups m))
                            (mpadd m) (mprem m), env, MNext)
              | _, _ => None
              end
            else None
        | [it] =>
            if meth =? "RemoveKey" then
              match mev env m it with
              | Some (MVit (Some g)) => Some (mkM (mcols m) (m_remove_group (gtag g) (mgroups m)) (mpadd m) (mprem m), env, MNext)
              | _ => None
              end
            else None
        | _ => None
        end
      else None
  | SIf c th el =>
      match mev env m c with
      | Some (MVbool true) => mblock th m env
      | Some (MVbool false) => mblock el m env
      | _ => None
      end
  | SForC [SDecl it (ECall (ECall (EVar o) kb []) gb [])] (EUn n1 (EUn n2 (EVar it1))) (EUn inc (EVar it2)) body =>
      if (o =? "mHashMultiMap") && (kb =? "GetKeyBounds") && (gb =? "GetBegin") && (n1 =? "!") && (n2 =? "!") && (inc =? "++")
         && (it =? it1) && (it =? it2)
      then mloop (mblock body) it (mgroups m) m env else None
  | SReturn ENone => Some (m, env, MRet None)
  | SReturn e => match mev env m e with Some v => Some (m, env, MRet (Some v)) | None => None end
  | SBreak => Some (m, env, MBreak)
  | _ => None
  end.
Fixpoint mexec (b : list pstmt) (m : mhash) (env : menv) : mres :=
  match b with [] => Some (m, env, MNext) | s :: b' => mseq (mstmt s m env) (mexec b') end.

Definition mrun (b : list pstmt) (m : mhash) (env : menv) : option (mhash * option mval) :=
  match mexec b m env with
  | Some (m', _, MRet v) => Some (m', v)
  | Some (m', _, _) => Some (m', None)
  | None => None
  end.
End MSem.
