// instantiation TU for cxx2coq (C17): RadixSorter<8>::pvSelectionSort with opaque functors, so that the code-cache handling
// (codes[] fill, min scan, swap of the cache next to iterSwapper, run detection) is translated from the real source
#include "momo/RadixSorter.h"
namespace momo { namespace internal {
struct C17CodeGetter { uint64_t operator()(uint64_t* p) const { return *p; } };
struct C17Swapper { void operator()(uint64_t* a, uint64_t* b) const { std::iter_swap(a, b); } };
struct C17Group { void operator()(uint64_t*, size_t) const {} };
inline void c17_use(uint64_t* b, size_t n)
{
	RadixSorter<8>::Sort(b, n, C17CodeGetter(), C17Swapper(), C17Group());
}
}}
