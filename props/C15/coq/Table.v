(* C15 -- DataTable row references and selections, checkMode = exception, checkVersion = true, keepRowNumber = true
   (DataTable.h, DataRow.h, DataSelection.h).  Two version cells in DataTable::Crew: changeVersion (bumped by every change
   of the set of rows or of an indexed item; guards index look-ups) and removeVersion (bumped whenever a row is removed
   or replaced; guards row references, selections, column item bounds).  A row is (raw id, value); raws are stable. *)
From Coq Require Import ZArith List Bool Arith Lia.
Import ListNotations.
Local Open Scope Z_scope.

Record thandle := mkTH { ttid : option nat; tsnap : nat; tids : list nat; tissel : bool }.
   (* row reference: tids = [raw id]; selection: the selected raw ids; ttid: Some 0 this table, Some 1 another table *)
Definition tnull : thandle := mkTH None 0 [] false.
(* index look-up handle (grow round 4): the RowHashBounds returned by FindByMultiHash(index, column == bval).  Two keepers: the raw
   bounds / raw iterators (DataRawMultiHashIterator) snapshot changeVersion, the row bounds and the row references they produce
   snapshot removeVersion.  All rows of the bounds hold the same item, so reads do not depend on the hash order. *)
Record bhandle := mkBH { bok : bool; bcsnap : nat; brsnap : nat; bval : Z; bids : list nat }.
Definition bnull : bhandle := mkBH false 0 0 0 [].
Record tstate := mkTS { cver : nat; rver : nat; nextid : nat; rows : list (nat * Z); ths : nat -> thandle; tbs : nat -> bhandle }.
Inductive tout := TAcc (v : option Z) | TRej | TUndef.

Definition tset (s : tstate) (i : nat) (h : thandle) : tstate :=
  mkTS (cver s) (rver s) (nextid s) (rows s) (fun j => if Nat.eqb j i then h else ths s j) (tbs s).
Definition tbset (s : tstate) (i : nat) (b : bhandle) : tstate :=
  mkTS (cver s) (rver s) (nextid s) (rows s) (ths s) (fun j => if Nat.eqb j i then b else tbs s j).
Definition tupd (s : tstate) (c r n : nat) (l : list (nat * Z)) : tstate := mkTS c r n l (ths s) (tbs s).
Fixpoint find_id (id : nat) (l : list (nat * Z)) : option Z :=
  match l with [] => None | (i, v) :: t => if Nat.eqb i id then Some v else find_id id t end.
Fixpoint index_of (id : nat) (l : list (nat * Z)) : option nat :=
  match l with [] => None | (i, v) :: t => if Nat.eqb i id then Some O else option_map S (index_of id t) end.
Definition del_id (id : nat) (l : list (nat * Z)) : list (nat * Z) := filter (fun e => negb (Nat.eqb (fst e) id)) l.
Definition set_val (id : nat) (v : Z) (l : list (nat * Z)) : list (nat * Z) :=
  map (fun e => if Nat.eqb (fst e) id then (id, v) else e) l.
Definition tcount (s : tstate) : nat := length (rows s).

(* VersionKeeper::Check() of a row reference / selection (keeper on removeVersion) *)
Definition tself (s : tstate) (h : thandle) : bool :=
  match ttid h with Some O => Nat.eqb (tsnap h) (rver s) | Some _ => true | None => false end.
Definition tref (s : tstate) (id : nat) : thandle := mkTH (Some 0%nat) (rver s) [id] false.

Inductive top :=
| TRef (i : nat) (slot : nat)          (* table[i] *)
| TSelect (slot : nat)                 (* table.Select() *)
| TForeign (slot : nat)                (* row reference of another table *)
| TSelRef (ssel : nat) (j : nat) (slot : nat)   (* selection[j] *)
| TRead (slot : nat)                   (* rowRef[column] *)
| TGetNumber (slot : nat)
| TAddRow (v : Z)
| TInsert (i : nat) (v : Z)
| TRemoveRef (slot : nat)              (* table.Remove(rowRef) / Extract(rowRef) *)
| TRemoveNum (i : nat)
| TUpdateRef (slot : nat) (v : Z)      (* table.Update(rowRef, column, v) *)
| TUpdateNum (i : nat) (v : Z)         (* table.Update(i, newRow): replaces the row *)
| TRemoveIf (m : Z)                    (* table.Remove(filter) *)
| TSelectIf (m : Z) (slot : nat)       (* table.Select(filter): rows with value mod m = 0 *)
| TSelOfSel (ssel : nat) (m : Z) (slot : nat)   (* Selection(sel, filter): a selection of a selection (copies the keeper) *)
| TSelSort (ssel : nat)                (* sel.Sort(column) *)
| TSelSum (ssel : nat)                 (* iterate the selection reading every row *)
| TSelReverse (ssel : nat)
| TSelRemove (ssel : nat) (j n : nat)  (* sel.Remove(index, count) *)
| TSelCount (ssel : nat)
| TRemoveSel (ssel : nat)              (* table.Remove(sel.GetBegin(), sel.GetEnd()) *)
| TClear
| TCount
| TFindMulti (v : Z) (slot : nat)      (* table.FindByMultiHash(index, column == v) *)
| TBoundsCount (slot : nat)            (* bounds.GetCount(): noexcept, no check *)
| TBoundsAt (slot : nat) (j : nat)     (* bounds[j][column] *)
| TBoundsSum (slot : nat).             (* for (row : bounds) sum += row[column] *)
Definition bfresh (s : tstate) (b : bhandle) : bool := Nat.eqb (bcsnap b) (cver s) && Nat.eqb (brsnap b) (rver s).

Definition val_of (s : tstate) (id : nat) : Z := match find_id id (rows s) with Some v => v | None => 0 end.
Fixpoint insert_by (f : nat -> Z) (x : nat) (l : list nat) : list nat :=
  match l with [] => [x] | y :: t => if f x <=? f y then x :: l else y :: insert_by f x t end.
Definition sort_by (f : nat -> Z) (l : list nat) : list nat := fold_right (insert_by f) [] l.
Definition sel_handle (h : thandle) (ids : list nat) : thandle := mkTH (ttid h) (tsnap h) ids true.

Definition tstep (s : tstate) (o : top) : tstate * tout :=
  match o with
  | TRef i slot =>
    match nth_error (rows s) i with
    | Some (id, _) => (tset s slot (tref s id), TAcc None)
    | None => (s, TRej)                                  (* MOMO_CHECK(rowNumber < GetCount()) *)
    end
  | TSelect slot => (tset s slot (mkTH (Some 0%nat) (rver s) (map fst (rows s)) true), TAcc (Some (Z.of_nat (tcount s))))
  | TForeign slot => (tset s slot (mkTH (Some 1%nat) 0 [0%nat] false), TAcc None)
  | TSelRef ssel j slot =>
    let h := ths s ssel in
    if tissel h then
      match nth_error (tids h) j with
      | Some id => (tset s slot (mkTH (ttid h) (tsnap h) [id] false), TAcc None)     (* the reference copies the selection's keeper *)
      | None => (s, TRej)                                (* MOMO_CHECK(index < GetCount()) *)
      end
    else (s, TUndef)
  | TRead slot =>
    let h := ths s slot in
    if tself s h then
      match ttid h, tids h with
      | Some O, [id] => match find_id id (rows s) with Some v => (s, TAcc (Some v)) | None => (s, TUndef) end
      | Some (S _), _ => (s, TAcc (Some 1))          (* the other table holds the single row with value 1 *)
      | _, _ => (s, TUndef)
      end
    else (s, TRej)
  | TGetNumber slot =>
    let h := ths s slot in
    if tself s h then
      match ttid h, tids h with
      | Some O, [id] => match index_of id (rows s) with Some n => (s, TAcc (Some (Z.of_nat n))) | None => (s, TUndef) end
      | Some (S _), _ => (s, TAcc (Some 0))
      | _, _ => (s, TUndef)
      end
    else (s, TRej)
  | TAddRow v => (tupd s (S (cver s)) (rver s) (S (nextid s)) (rows s ++ [(nextid s, v)]), TAcc None)
  | TInsert i v =>
    if Nat.leb i (tcount s) then
      (tupd s (S (cver s)) (rver s) (S (nextid s)) (firstn i (rows s) ++ (nextid s, v) :: skipn i (rows s)), TAcc None)
    else (s, TRej)
  | TRemoveRef slot =>
    let h := ths s slot in
    match ttid h with
    | Some O =>                                          (* same column list *)
      if tself s h then
        match tids h with
        | [id] => match find_id id (rows s) with
                  | Some _ => (tupd s (S (cver s)) (S (rver s)) (nextid s) (del_id id (rows s)), TAcc None)
                  | None => (s, TUndef) end
        | _ => (s, TUndef)
        end
      else (s, TRej)
    | _ => (s, TRej)                                     (* MOMO_CHECK(&rowRef.GetColumnList() == &GetColumnList()) *)
    end
  | TRemoveNum i =>
    match nth_error (rows s) i with
    | Some (id, _) => (tupd s (S (cver s)) (S (rver s)) (nextid s) (del_id id (rows s)), TAcc None)
    | None => (s, TRej)
    end
  | TUpdateRef slot v =>
    let h := ths s slot in
    match ttid h with
    | Some O =>
      if tself s h then
        match tids h with
        | [id] => match find_id id (rows s) with
                  | Some _ => (tupd s (S (cver s)) (rver s) (nextid s) (set_val id v (rows s)), TAcc None)
                  | None => (s, TUndef) end
        | _ => (s, TUndef)
        end
      else (s, TRej)
    | _ => (s, TRej)
    end
  | TUpdateNum i v =>
    match nth_error (rows s) i with
    | Some _ => (tupd s (S (cver s)) (S (rver s)) (S (nextid s)) (firstn i (rows s) ++ (nextid s, v) :: skipn (S i) (rows s)), TAcc None)
    | None => (s, TRej)
    end
  | TRemoveIf m =>
    if m =? 0 then (s, TUndef) else
    let l := filter (fun e => negb (snd e mod m =? 0)) (rows s) in
    (tupd s (S (cver s)) (S (rver s)) (nextid s) l, TAcc (Some (Z.of_nat (tcount s - length l))))   (* pvFilterRaws always bumps *)
  | TSelectIf m slot =>
    if m =? 0 then (s, TUndef) else
    let ids := map fst (filter (fun e => snd e mod m =? 0) (rows s)) in
    (tset s slot (mkTH (Some 0%nat) (rver s) ids true), TAcc (Some (Z.of_nat (length ids))))
  | TSelOfSel ssel m slot =>
    let h := ths s ssel in
    if (m =? 0) || negb (tissel h) then (s, TUndef) else
    match ttid h, tids h with
    | Some O, [] => (tset s slot (sel_handle h []), TAcc (Some 0))        (* nothing is read *)
    | Some O, _ =>
      if tself s h then
        let ids := filter (fun id => val_of s id mod m =? 0) (tids h) in
        (tset s slot (sel_handle h ids), TAcc (Some (Z.of_nat (length ids))))
      else (s, TRej)                                                   (* the filter reads through a checked row reference *)
    | _, _ => (s, TUndef)
    end
  | TSelSort ssel =>
    let h := ths s ssel in
    if negb (tissel h) then (s, TUndef) else
    match ttid h with
    | Some O => if tself s h then (tset s ssel (sel_handle h (sort_by (val_of s) (tids h))), TAcc None) else (s, TRej)
    | _ => (s, TUndef)
    end
  | TSelSum ssel =>
    let h := ths s ssel in
    if negb (tissel h) then (s, TUndef) else
    match ttid h, tids h with
    | Some O, [] => (s, TAcc (Some 0))
    | Some O, _ => if tself s h then (s, TAcc (Some (fold_right (fun id a => val_of s id + a) 0 (tids h)))) else (s, TRej)
    | _, _ => (s, TUndef)
    end
  | TSelReverse ssel =>
    let h := ths s ssel in
    if tissel h then (tset s ssel (sel_handle h (rev (tids h))), TAcc None) else (s, TUndef)
  | TSelRemove ssel j n =>
    let h := ths s ssel in
    if tissel h then
      if Nat.leb j (length (tids h)) && Nat.leb n (length (tids h) - j) then
        (tset s ssel (sel_handle h (firstn j (tids h) ++ skipn (j + n) (tids h))), TAcc None)
      else (s, TRej)
    else (s, TUndef)
  | TSelCount ssel =>
    let h := ths s ssel in
    if tissel h then (s, TAcc (Some (Z.of_nat (length (tids h))))) else (s, TUndef)
  | TRemoveSel ssel =>
    let h := ths s ssel in
    if negb (tissel h) then (s, TUndef) else
    match ttid h, tids h with
    | Some O, [] => (tupd s (S (cver s)) (S (rver s)) (nextid s) (rows s), TAcc (Some 0))     (* pvFilterRaws always bumps *)
    | Some O, ids =>
      if tself s h then
        let l := filter (fun e => negb (existsb (Nat.eqb (fst e)) ids)) (rows s) in
        (tupd s (S (cver s)) (S (rver s)) (nextid s) l, TAcc (Some (Z.of_nat (tcount s - length l))))
      else (s, TRej)                                                   (* every row of the range is checked *)
    | _, _ => (s, TUndef)
    end
  | TClear => (tupd s (S (cver s)) (S (rver s)) (nextid s) [], TAcc None)
  | TCount => (s, TAcc (Some (Z.of_nat (tcount s))))
  | TFindMulti v slot =>
    let ids := map fst (filter (fun e => snd e =? v) (rows s)) in
    (tbset s slot (mkBH true (cver s) (rver s) v ids), TAcc (Some (Z.of_nat (length ids))))
  | TBoundsCount slot =>
    let b := tbs s slot in
    if bok b then (s, TAcc (Some (Z.of_nat (length (bids b))))) else (s, TUndef)
  | TBoundsAt slot j =>
    let b := tbs s slot in
    if bok b then
      if Nat.ltb j (length (bids b)) then                 (* MOMO_CHECK(index < GetCount()) comes first *)
        if bfresh s b then (s, TAcc (Some (bval b)))      (* raw iterator -> : Check(changeVersion); row reference: Check(removeVersion) *)
        else (s, TRej)
      else (s, TRej)
    else (s, TUndef)
  | TBoundsSum slot =>
    let b := tbs s slot in
    if bok b then
      match bids b with
      | [] => (s, TAcc (Some 0))                          (* begin == end: nothing is dereferenced *)
      | _ => if bfresh s b then (s, TAcc (Some (bval b * Z.of_nat (length (bids b))))) else (s, TRej)
      end
    else (s, TUndef)
  end.

Definition tinit : tstate := mkTS 0 0 0 [] (fun _ => tnull) (fun _ => bnull).
Fixpoint trun (s : tstate) (ops : list top) : tstate :=
  match ops with [] => s | o :: t => trun (fst (tstep s o)) t end.
Fixpoint trun_out (s : tstate) (ops : list top) : tstate * list tout :=
  match ops with
  | [] => (s, [])
  | o :: t => let r := tstep s o in let r2 := trun_out (fst r) t in (fst r2, snd r :: snd r2)
  end.
