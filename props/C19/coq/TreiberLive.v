(* C19 -- no row is ever lost: from EVERY reachable state there is a continuation (each busy disposer finishes its push,
   the owner finishes its walk and drains once more) that reaches quiescence, where by TreiberThms.quiescent_all_reclaimed
   every disposed row has been reclaimed exactly once. *)
From Coq Require Import List Arith Bool PeanoNat Lia Permutation.
From C19 Require Import Treiber TreiberInv TreiberThms.
Import ListNotations.

Definition fin_busy (s : state) : Prop := exists l : list tid, forall t, dpcs s t <> Idle -> In t l.

Lemma fin_busy_init : fin_busy init.
Proof. exists []. intros t H. apply H. reflexivity. Qed.

Lemma fin_busy_step s l s' : fin_busy s -> step s l = Some s' -> fin_busy s'.
Proof.
  intros [bl Hb] Hs.
  assert (X : exists t0, forall t, dpcs s' t <> Idle -> t = t0 \/ dpcs s t <> Idle).
  { destruct l; unfold step in Hs;
      repeat match type of Hs with
      | match ?x with _ => _ end = _ => destruct x; try discriminate
      | (if ?x then _ else _) = _ => destruct x; try discriminate
      end; inversion Hs; subst; clear Hs; simpl;
      try (exists 0; intros; right; assumption);
      exists t; intros t1 H1; destruct (Nat.eq_dec t1 t); auto; right; rewrite upd_neq in H1; auto. }
  destruct X as [t0 X]. exists (t0 :: bl). intros t H. destruct (X t H); [left; auto|right; auto].
Qed.

Lemma fin_busy_run ls : forall s s', fin_busy s -> run s ls = Some s' -> fin_busy s'.
Proof.
  induction ls; simpl; intros s s' F H; [inversion H; subst; auto|].
  destruct (step s a) eqn:E; try discriminate. eapply IHls; [|eauto]. eapply fin_busy_step; eauto.
Qed.

Lemma oeqb_refl a : oeqb a a = true.
Proof. destruct (oeqb_spec a a); congruence. Qed.

(* a disposer running alone from `Start` completes its push in three steps *)
Lemma from_start s t r :
  dpcs s t = Start r ->
  exists s', run s [DLoad t; DLink t; DCas t false] = Some s' /\ dpcs s' t = Idle /\
             (forall t', t' <> t -> dpcs s' t' = dpcs s t') /\ own s' = own s.
Proof.
  intros E. unfold run, step. rewrite E. simpl. rewrite upd_eq. simpl. rewrite upd_eq. simpl.
  rewrite oeqb_refl. simpl. eexists; split; [reflexivity|]. simpl. split; [apply upd_eq|]. split; auto.
  intros t' N. rewrite !upd_neq; auto.
Qed.

Lemma finish_thread s t :
  exists ls s', run s ls = Some s' /\ dpcs s' t = Idle /\
                (forall t', t' <> t -> dpcs s' t' = dpcs s t') /\ own s' = own s.
Proof.
  destruct (dpcs s t) eqn:E.
  - exists [], s. simpl. auto.
  - destruct (from_start s t r E) as [s' H]. eexists; eexists; eauto.
  - (* Loaded: link, then behave like Linked *)
    assert (S1 : exists s1, step s (DLink t) = Some s1 /\ dpcs s1 t = Linked r h /\
                            (forall t', t' <> t -> dpcs s1 t' = dpcs s t') /\ own s1 = own s).
    { unfold step. rewrite E. eexists; split; [reflexivity|]. simpl. split; [apply upd_eq|]. split; auto.
      intros; apply upd_neq; auto. }
    destruct S1 as [s1 [H1 [P1 [Q1 O1]]]].
    assert (S2 : exists s2, step s1 (DCas t false) = Some s2 /\ (dpcs s2 t = Idle \/ dpcs s2 t = Start r) /\
                            (forall t', t' <> t -> dpcs s2 t' = dpcs s1 t') /\ own s2 = own s1).
    { unfold step. rewrite P1. destruct (negb false && oeqb (head s1) h); eexists; (split; [reflexivity|]); simpl;
        rewrite upd_eq; (split; [auto|]); (split; auto); intros; apply upd_neq; auto. }
    destruct S2 as [s2 [H2 [P2 [Q2 O2]]]].
    destruct P2 as [P2|P2].
    + exists [DLink t; DCas t false], s2. cbn [run]. rewrite H1, H2. repeat split; auto.
      * intros t' N. rewrite Q2, Q1; auto.
      * congruence.
    + destruct (from_start s2 t r P2) as [s3 [H3 [P3 [Q3 O3]]]].
      exists ([DLink t; DCas t false] ++ [DLoad t; DLink t; DCas t false]), s3.
      rewrite (run_app [DLink t; DCas t false] _ s s2); [|cbn [run]; rewrite H1, H2; reflexivity].
      repeat split; auto.
      * intros t' N. rewrite Q3, Q2, Q1; auto.
      * congruence.
  - assert (S2 : exists s2, step s (DCas t false) = Some s2 /\ (dpcs s2 t = Idle \/ dpcs s2 t = Start r) /\
                            (forall t', t' <> t -> dpcs s2 t' = dpcs s t') /\ own s2 = own s).
    { unfold step. rewrite E. destruct (negb false && oeqb (head s) h); eexists; (split; [reflexivity|]); simpl;
        rewrite upd_eq; (split; [auto|]); (split; auto); intros; apply upd_neq; auto. }
    destruct S2 as [s2 [H2 [P2 [Q2 O2]]]].
    destruct P2 as [P2|P2].
    + exists [DCas t false], s2. cbn [run]. rewrite H2. repeat split; auto.
    + destruct (from_start s2 t r P2) as [s3 [H3 [P3 [Q3 O3]]]].
      exists ([DCas t false] ++ [DLoad t; DLink t; DCas t false]), s3.
      rewrite (run_app [DCas t false] _ s s2); [|cbn [run]; rewrite H2; reflexivity].
      repeat split; auto.
      * intros t' N. rewrite Q3, Q2; auto.
      * congruence.
Qed.

Lemma finish_all bl : forall s,
  (forall t, dpcs s t <> Idle -> In t bl) ->
  exists ls s', run s ls = Some s' /\ (forall t, dpcs s' t = Idle) /\ own s' = own s.
Proof.
  induction bl; intros s Hb.
  - exists [], s. simpl. repeat split; auto. intros t. destruct (dpcs s t) eqn:E; auto; exfalso; apply (Hb t); congruence.
  - destruct (finish_thread s a) as [ls1 [s1 [R1 [P1 [Q1 O1]]]]].
    destruct (IHbl s1) as [ls2 [s2 [R2 [P2 O2]]]].
    { intros t Ht. destruct (Nat.eq_dec t a); [subst; congruence|].
      rewrite Q1 in Ht by auto. destruct (Hb t Ht); [congruence|auto]. }
    exists (ls1 ++ ls2), s2. rewrite (run_app _ _ _ _ R1). repeat split; auto. congruence.
Qed.

(* the owner, running alone, finishes the walk it is in *)
Lemma finish_walk n : forall s,
  inv s -> length (drain s) <= n ->
  exists ls s', run s ls = Some s' /\ own s' = OIdle /\ dpcs s' = dpcs s /\ head s' = head s.
Proof.
  induction n; intros s I Hn.
  - pose proof (i_own s I) as O. destruct (drain s) eqn:Ed; [|simpl in Hn; lia].
    destruct (own s) as [|c|r nx] eqn:Eo.
    + exists [], s. simpl. auto.
    + simpl in O. subst c. exists [ODone]. unfold run, step. rewrite Eo. eexists; split; [reflexivity|]. simpl. auto.
    + destruct O as [d [E _]]. discriminate.
  - pose proof (i_own s I) as O.
    destruct (own s) as [|c|r nx] eqn:Eo.
    + exists [], s. simpl. auto.
    + destruct c as [r|].
      * (* read, free, continue *)
        assert (S1 : exists s1, step s ORead = Some s1 /\ dpcs s1 = dpcs s /\ head s1 = head s /\ drain s1 = drain s).
        { unfold step. rewrite Eo. eexists; split; [reflexivity|]. simpl. auto. }
        destruct S1 as [s1 [H1 [P1 [Q1 D1]]]].
        pose proof (inv_step _ _ _ I H1) as I1. pose proof (i_own s1 I1) as O1.
        assert (Eo1 : exists nx, own s1 = ONext r nx).
        { unfold step in H1. rewrite Eo in H1. inversion H1; subst; simpl. eauto. }
        destruct Eo1 as [nx Eo1]. rewrite Eo1 in O1. destruct O1 as [d [Ed1 _]].
        assert (S2 : exists s2, step s1 (OFree None) = Some s2 /\ dpcs s2 = dpcs s1 /\ head s2 = head s1 /\ drain s2 = d).
        { unfold step. rewrite Eo1. eexists; split; [reflexivity|]. simpl. rewrite Ed1. auto. }
        destruct S2 as [s2 [H2 [P2 [Q2 D2]]]].
        pose proof (inv_step _ _ _ I1 H2) as I2.
        destruct (IHn s2 I2) as [ls [s3 [R3 [A3 [B3 C3]]]]].
        { rewrite D2. rewrite D1 in Ed1. rewrite Ed1 in Hn. simpl in Hn. lia. }
        exists (ORead :: OFree None :: ls), s3. cbn [run]. rewrite H1, H2. repeat split; auto; congruence.
      * exists [ODone]. unfold run, step. rewrite Eo. eexists; split; [reflexivity|]. simpl. auto.
    + destruct O as [d [Ed _]].
      assert (S2 : exists s2, step s (OFree None) = Some s2 /\ dpcs s2 = dpcs s /\ head s2 = head s /\ drain s2 = d).
      { unfold step. rewrite Eo. eexists; split; [reflexivity|]. simpl. rewrite Ed. auto. }
      destruct S2 as [s2 [H2 [P2 [Q2 D2]]]].
      pose proof (inv_step _ _ _ I H2) as I2.
      destruct (IHn s2 I2) as [ls [s3 [R3 [A3 [B3 C3]]]]].
      { rewrite D2. rewrite Ed in Hn. simpl in Hn. lia. }
      exists (OFree None :: ls), s3. cbn [run]. rewrite H2. repeat split; auto; congruence.
Qed.

Theorem quiescence_reachable s :
  reachable s -> exists ls s', run s ls = Some s' /\ quiescent s' /\ Permutation (disposed s') (reclaimed s').
Proof.
  intros R. pose proof (inv_reachable s R) as I.
  assert (F : fin_busy s) by (destruct R as [l0 R]; eapply fin_busy_run; [apply fin_busy_init|eauto]).
  destruct F as [bl Hb].
  destruct (finish_all bl s Hb) as [ls1 [s1 [R1 [P1 O1]]]].
  pose proof (inv_run _ _ _ I R1) as I1.
  destruct (finish_walk (length (drain s1)) s1 I1 (le_n _)) as [ls2 [s2 [R2 [A2 [B2 C2]]]]].
  pose proof (inv_run _ _ _ I1 R2) as I2.
  assert (S3 : exists s3, step s2 OExchange = Some s3 /\ dpcs s3 = dpcs s2 /\ head s3 = None).
  { unfold step. rewrite A2. eexists; split; [reflexivity|]. simpl. auto. }
  destruct S3 as [s3 [H3 [P3 Q3]]].
  pose proof (inv_step _ _ _ I2 H3) as I3.
  destruct (finish_walk (length (drain s3)) s3 I3 (le_n _)) as [ls4 [s4 [R4 [A4 [B4 C4]]]]].
  assert (RR : run s (ls1 ++ ls2 ++ OExchange :: ls4) = Some s4).
  { rewrite (run_app _ _ _ _ R1). rewrite (run_app _ _ _ _ R2). cbn [run]. rewrite H3. auto. }
  assert (Q : quiescent s4).
  { split; [|split]; auto; [|congruence]. intros t. rewrite B4, P3, B2. apply P1. }
  exists (ls1 ++ ls2 ++ OExchange :: ls4), s4. split; auto. split; auto.
  destruct R as [l0 R0].
  apply (quiescent_all_reclaimed (l0 ++ ls1 ++ ls2 ++ OExchange :: ls4)); auto.
  rewrite (run_app _ _ _ _ R0). auto.
Qed.

(* deadlock freedom of the destructor: a disposer that is not idle always has its next step enabled, whatever the others do
   (lock-free, not wait-free: the CAS may fail again and again under interference; see the note at quiescence_reachable) *)
Theorem disposer_never_blocked s t :
  match dpcs s t with
  | Idle => True
  | Start _ => step s (DLoad t) <> None
  | Loaded _ _ => step s (DLink t) <> None
  | Linked _ _ => forall sp, step s (DCas t sp) <> None
  end.
Proof.
  unfold step. destruct (dpcs s t); auto; try discriminate.
  intros sp. destruct (negb sp && oeqb (head s) h); discriminate.
Qed.
