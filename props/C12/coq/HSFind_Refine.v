(* C12: the two Find functions of HashSet.h GENERATED and proved equal to the hand models.
   Gen_HSFind.pvFindKey   = HashSet::pvFind(key) (HashSet.h:1043-1064): the walk over chained bucket generations
   Gen_HSFindIn.pvFindIn  = static HashSet::pvFind(indexCode, buckets, itemPred) (HashSet.h:1066-1095): start bucket + probing loop;
                            returns (iterator, indexCode) -- the by-reference indexCode becomes the bucket index on a hit.
   The hash, the bucket arrays, the bucket methods and GetNextBuckets are Section variables of the generated code.  The theorems hold
   for ANY values of these variables (any memory layout: generation pointers gptr i, bucket pointers bk_at bks j, iterator values)
   that satisfy the stated pointwise hypotheses "the method on the pointer of bucket j returns what the generated bucket-level
   leaf returns on the model's bucket j".  Mutants J1 (walk never advances) and K2 (probing stops early) break hs_loop / p4_loop. *)
From Coq Require Import ZArith Bool List Lia.
From MomoCommon Require Import GenPrelude.
From C12 Require Import Bits Known Gen_Base Gen_P4 TableP4 TableP4_Proofs TableP4_Find Gen_O2 Gen_O2MP TableO2 TableO2_Proofs TableO2_Find TableOne TableOne_Proofs GensFind Gen_HSFind Gen_HSFindIn.
Import ListNotations.
Local Open Scope Z_scope.

Section Walk.
Variable A : Type.
Variable tf : Z -> A -> outcome (option (Z * Z)).     (* the per-generation search: (bucket, slot) *)
Variable it : nat -> Z -> Z -> Z.                      (* the BucketIterator of (generation, bucket, slot); BucketIterator() = 0 *)
Hypothesis it_nz : forall g b s, it g b s <> 0.

(* the hand-written walk; the generation index counts from the newest *)
Fixpoint walk (k : nat) (h : Z) (gens : list A) : outcome (option (nat * Z * Z)) :=
  match gens with
  | [] => Ok None
  | a :: r =>
    match tf h a with
    | Ok (Some (b, s)) => Ok (Some (k, b, s))
    | Ok None => walk (S k) h r
    | Stuck => Stuck | Fuel => Fuel | Exn => Exn
    end
  end.

(* what pvFind(key) hands to ConstPositionProxy: (indexCode, bucketIter) *)
Definition resw (h : Z) (r : outcome (option (nat * Z * Z))) : Z * Z :=
  match r with Ok (Some (g, b, s)) => (b, it g b s) | _ => (h, 0) end.

Variable gens : list A.
Variable gptr : nat -> Z.                              (* the Buckets* of generation i *)
Variables (hash_of : Z -> Z) (find_in : Z -> Z -> Z -> Z * Z) (buckets_next : Z -> Z).

Definition chain_ok : Prop :=
  (forall i, (i < length gens)%nat -> gptr i <> 0) /\
  (forall i, (S i < length gens)%nat -> buckets_next (gptr i) = gptr (S i)) /\
  (forall i, S i = length gens -> buckets_next (gptr i) = 0).
Definition find_in_ok : Prop := forall i a ic pred, nth_error gens i = Some a ->
  find_in ic (gptr i) pred = match tf ic a with Ok (Some (b, s)) => (it i b s, b) | _ => (0, ic) end.

Hypothesis Hchain : chain_ok.
Hypothesis Hfind : find_in_ok.
Hypothesis total : forall h, Forall (fun a => exists r, tf h a = Ok r) gens.

Lemma skipn_nth_cons (l : list A) : forall (k : nat) a, nth_error l k = Some a -> skipn k l = a :: skipn (S k) l.
Proof.
  induction l as [|x xs IH]; intros [|k] a Hk; cbn [nth_error skipn] in *; try discriminate.
  - injection Hk as ->. reflexivity.
  - apply IH. exact Hk.
Qed.

Lemma hs_loop h pred : forall fuel k bi, (k < length gens)%nat -> (length gens - k <= fuel)%nat ->
  exists bks, pvFindKey_loop0 false find_in buckets_next fuel pred bi (gptr k) h
              = Ok (snd (resw h (walk k h (skipn k gens))), bks, fst (resw h (walk k h (skipn k gens)))).
Proof.
  destruct Hchain as (Hnz & Hnext & Hlast).
  induction fuel as [|fuel IH]; intros k bi Hk Hf; [lia|].
  rewrite pvFindKey_loop0_eq.
  destruct (nth_error gens k) as [a|] eqn:Ha; [|apply nth_error_None in Ha; lia].
  rewrite (Hfind k a h pred Ha). rewrite (skipn_nth_cons gens k a Ha). cbn [walk].
  pose proof (total h) as Ht. rewrite Forall_forall in Ht. destruct (Ht a (nth_error_In _ _ Ha)) as (r & Hr). rewrite Hr.
  destruct r as [[b s]|].
  - pose proof (it_nz k b s) as Hne. destruct (Z.eqb_spec (it k b s) 0); [contradiction|].
    cbn [negb orb resw fst snd]. eexists. reflexivity.
  - cbn [Z.eqb negb orb].
    destruct (Nat.eq_dec (S k) (length gens)) as [E|E].
    + rewrite (Hlast k E). cbn [Z.eqb]. assert (Hs : skipn (S k) gens = []) by (apply skipn_all2; lia). rewrite Hs. cbn [walk resw fst snd].
      eexists. reflexivity.
    + rewrite (Hnext k ltac:(lia)). pose proof (Hnz (S k) ltac:(lia)) as Hp. destruct (Z.eqb_spec (gptr (S k)) 0); [contradiction|].
      apply IH; lia.
Qed.

(* the generated HashSet::pvFind(key) = the hand-written walk, for up to 70 chained generations *)
Theorem pvFindKey_walk mCount key ht pred : mCount <> 0 -> gens <> [] -> (length gens <= 70)%nat ->
  pvFindKey false hash_of find_in buckets_next mCount (gptr 0) key ht pred = Ok (resw (hash_of key) (walk 0 (hash_of key) gens)).
Proof.
  intros Hc Hg Hl. unfold pvFindKey. destruct (Z.eqb_spec mCount 0); [contradiction|]. cbn [negb].
  assert (Hlen : (0 < length gens)%nat) by (destruct gens; [contradiction|cbn [length]; lia]).
  destruct (hs_loop (hash_of key) pred fuel_of_pvFindKey 0%nat 0 Hlen) as (bks & E).
  { unfold fuel_of_pvFindKey. change (Z.to_nat 70) with 70%nat. lia. }
  cbn [skipn] in E. rewrite E. destruct (resw (hash_of key) (walk 0 (hash_of key) gens)); reflexivity.
Qed.
End Walk.

(* areItemsNothrowRelocatable: only the newest generation is searched (older generations never exist then) *)
Theorem pvFindKey_nothrow hash_of find_in buckets_next mBuckets mCount key ht pred : mCount <> 0 ->
  pvFindKey true hash_of find_in buckets_next mCount mBuckets key ht pred
  = Ok (snd (find_in (hash_of key) mBuckets pred), fst (find_in (hash_of key) mBuckets pred)).
Proof.
  intros Hc. unfold pvFindKey. destruct (Z.eqb_spec mCount 0); [contradiction|]. cbn [negb].
  unfold fuel_of_pvFindKey. change (Z.to_nat 70) with (S 69). rewrite pvFindKey_loop0_eq.
  destruct (find_in (hash_of key) mBuckets pred) as [bi ic]. rewrite orb_true_r. reflexivity.
Qed.

(* an empty set: the null iterator, no table is touched *)
Theorem pvFindKey_empty nr hash_of find_in buckets_next mBuckets key ht pred :
  pvFindKey nr hash_of find_in buckets_next 0 mBuckets key ht pred = Ok (hash_of key, 0).
Proof. reflexivity. Qed.

(* ==== the per-generation search ==== *)
(* the generated loop returns (early-return value, loop state (bucket, bucketIndex, bucketIter, indexCode, probe)); the hand loops
   return the hit.  On a hit the by-reference indexCode is the bucket index, on a miss it is unchanged. *)
Definition conv {R : Type} (f idx_of : R -> Z) (ic : Z) (m : outcome (option R)) (g : outcome (option Z * (Z * Z * Z * Z * Z))) : Prop :=
  match m with
  | Ok (Some x) => exists b0 bi0 it0 pr0, g = Ok (Some (f x), (b0, bi0, it0, idx_of x, pr0))
  | Ok None => exists b0 bi0 it0 pr0, g = Ok (None, (b0, bi0, it0, ic, pr0))
  | Fuel => g = Fuel
  | _ => False
  end.

Section InP4.
Variable t : ptable.
Variables (L key : Z).
Variable itb : Z -> Z -> Z.                          (* iterator value of (bucket, slot) *)
Hypothesis itb_nz : forall b s, itb b s <> 0.
(* ANY bucket-array pointer bks and ANY values of the generated code's Section variables ... *)
Variables (bks : Z) (bk_count bk_logcount : Z -> Z) (b_find : Z -> Z -> Z -> Z -> Z) (b_wasfull : Z -> bool) (bk_at : Z -> Z -> Z).
(* ... such that the methods on the pointer of bucket i return what the generated bucket-level leaves return on the model's bucket i *)
Definition p4_heap_ok : Prop :=
  bk_count bks = wrapU 64 (Z.shiftl 1 L) /\ bk_logcount bks = L /\
  (forall i, b_wasfull (bk_at bks i) = was_full (t i)) /\
  (forall i params pred h, b_find (bk_at bks i) params pred h =
     match pbucket_find (t i) key h with Ok r => if r =? 0 then 0 else itb i (r - 1) | _ => 0 end).
Hypothesis Hheap : p4_heap_ok.

Definition p4_next (i h c probe : Z) : Z := Gen_P4.GetNextBucketIndex i c.
Definition base_maxprobe (b lg : Z) : Z := Gen_Base.GetMaxProbe lg.
Lemma p4_next_eq i h c probe : p4_next i h c probe = Gen_P4.GetNextBucketIndex i c.
Proof. reflexivity. Qed.

Lemma p4_loop bc params h pred maxp : forall fuel idx bi ic probe,
  conv (fun x : Z * Z => itb (fst x) (snd x)) fst ic (pfind_loop fuel t bc idx probe maxp key h)
       (pvFindIn_loop0 p4_next b_find b_wasfull bk_at fuel bc params bks h pred maxp (bk_at bks idx) idx bi ic probe).
Proof.
  destruct Hheap as (_ & _ & Hwf & Hbf).
  induction fuel as [|f IH]; intros idx bi ic probe; [reflexivity|].
  rewrite pvFindIn_loop0_eq. cbn [pfind_loop]. rewrite Hwf.
  destruct (was_full (t idx) && (probe <=? maxp)); [|do 4 eexists; reflexivity].
  cbv zeta. rewrite !p4_next_eq, !Hbf.
  destruct (pbucket_find_spec (t (Gen_P4.GetNextBucketIndex idx bc)) key h) as (r & Hr & _). rewrite Hr.
  destruct (Z.eqb_spec r 0).
  - cbn [Z.eqb negb]. apply IH.
  - destruct (Z.eqb_spec (itb (Gen_P4.GetNextBucketIndex idx bc) (r - 1)) 0) as [E|E]; [destruct (itb_nz _ _ E)|].
    cbn [negb conv fst snd]. do 4 eexists. reflexivity.
Qed.

Definition p4_findin (h pred params : Z) : outcome (Z * Z) :=
  pvFindIn bk_count bk_logcount Gen_Base.GetStartBucketIndex p4_next b_find base_maxprobe b_wasfull bk_at h bks pred params.

(* (iterator, indexCode) of the per-generation search *)
Definition resI (h : Z) (r : option (Z * Z)) : Z * Z := match r with Some (b, s) => (itb b s, b) | None => (0, h) end.

Theorem p4_findin_refines h pred params :
  p4_findin h pred params = match pfind t L key h with Ok r => Ok (resI h r) | Stuck => Stuck | Fuel => Fuel | Exn => Exn end.
Proof.
  pose proof Hheap as (Hbc & Hlc & Hwf & Hbf).
  unfold p4_findin, pvFindIn, pfind. cbv zeta. rewrite Hbc, Hlc, !Hbf. unfold base_maxprobe.
  set (bc := wrapU 64 (Z.shiftl 1 L)). set (start := Gen_Base.GetStartBucketIndex h bc).
  destruct (pbucket_find_spec (t start) key h) as (r & Hr & _). rewrite Hr.
  destruct (Z.eqb_spec r 0).
  - cbn [Z.eqb negb].
    pose proof (p4_loop bc params h pred (Gen_Base.GetMaxProbe L) (S (Z.to_nat (Gen_Base.GetMaxProbe L))) start 0 h 1) as X. revert X. unfold conv.
    destruct (pfind_loop (S (Z.to_nat (Gen_Base.GetMaxProbe L))) t bc start 1 (Gen_Base.GetMaxProbe L) key h) as [[[b s]|]| | |]; intros X;
      [destruct X as (b0 & bi0 & it0 & pr0 & X)|destruct X as (b0 & bi0 & it0 & pr0 & X)|contradiction| |contradiction]; rewrite X; reflexivity.
  - destruct (Z.eqb_spec (itb start (r - 1)) 0) as [E|E]; [destruct (itb_nz _ _ E)|]. reflexivity.
Qed.
End InP4.

Section InO2.
Variable t : table.
Variables (L key : Z).
Variable itb : Z -> Z -> Z.
Hypothesis itb_nz : forall b s, itb b s <> 0.
Variables (bks : Z) (bk_count bk_logcount : Z -> Z) (b_find : Z -> Z -> Z -> Z -> Z) (b_maxprobe : Z -> Z -> Z) (b_wasfull : Z -> bool) (bk_at : Z -> Z -> Z).
Definition o2_heap_ok : Prop :=
  bk_count bks = wrapU 64 (Z.shiftl 1 L) /\ bk_logcount bks = L /\
  (forall i, b_wasfull (bk_at bks i) = Gen_O2.WasFull (bst (t i)) (bsh (t i)) (bhp (t i))) /\
  (forall i lg, b_maxprobe (bk_at bks i) lg = Gen_O2MP.GetMaxProbe (bst (t i))) /\
  (forall i params pred h, b_find (bk_at bks i) params pred h =
     match bucket_find (t i) key h with Ok r => if r =? 0 then 0 else itb i (r - 1) | _ => 0 end).
Hypothesis Hheap : o2_heap_ok.

Definition o2_next (i h c probe : Z) : Z := Gen_O2.GetNextBucketIndex i c probe.
Lemma o2_next_eq i h c probe : o2_next i h c probe = Gen_O2.GetNextBucketIndex i c probe.
Proof. reflexivity. Qed.

Lemma o2_loop bc params h pred maxp : forall fuel idx bi ic probe,
  conv (fun x : Z * Z => itb (fst x) (snd x)) fst ic (find_loop fuel t bc idx probe maxp key h)
       (pvFindIn_loop0 o2_next b_find b_wasfull bk_at fuel bc params bks h pred maxp (bk_at bks idx) idx bi ic probe).
Proof.
  destruct Hheap as (_ & _ & Hwf & _ & Hbf).
  induction fuel as [|f IH]; intros idx bi ic probe; [reflexivity|].
  rewrite pvFindIn_loop0_eq. cbn [find_loop]. rewrite Hwf.
  destruct (Gen_O2.WasFull (bst (t idx)) (bsh (t idx)) (bhp (t idx)) && (probe <=? maxp)); [|do 4 eexists; reflexivity].
  cbv zeta. rewrite !o2_next_eq, !Hbf.
  destruct (bucket_find_spec (t (Gen_O2.GetNextBucketIndex idx bc probe)) key h) as (r & Hr & _). rewrite Hr.
  destruct (Z.eqb_spec r 0).
  - cbn [Z.eqb negb]. apply IH.
  - destruct (Z.eqb_spec (itb (Gen_O2.GetNextBucketIndex idx bc probe) (r - 1)) 0) as [E|E]; [destruct (itb_nz _ _ E)|].
    cbn [negb conv fst snd]. do 4 eexists. reflexivity.
Qed.

Definition o2_findin (h pred params : Z) : outcome (Z * Z) :=
  pvFindIn bk_count bk_logcount Gen_Base.GetStartBucketIndex o2_next b_find b_maxprobe b_wasfull bk_at h bks pred params.

Theorem o2_findin_refines h pred params :
  o2_findin h pred params = match find t L key h with Ok r => Ok (resI itb h r) | Stuck => Stuck | Fuel => Fuel | Exn => Exn end.
Proof.
  pose proof Hheap as (Hbc & Hlc & Hwf & Hmp & Hbf).
  unfold o2_findin, pvFindIn, find. cbv zeta. rewrite Hbc, Hlc, !Hbf, !Hmp.
  set (bc := wrapU 64 (Z.shiftl 1 L)). set (start := Gen_Base.GetStartBucketIndex h bc).
  destruct (bucket_find_spec (t start) key h) as (r & Hr & _). rewrite Hr.
  destruct (Z.eqb_spec r 0).
  - cbn [Z.eqb negb]. set (mp := Gen_O2MP.GetMaxProbe (bst (t start))).
    pose proof (o2_loop bc params h pred mp (S (Z.to_nat mp)) start 0 h 1) as X. revert X. unfold conv.
    destruct (find_loop (S (Z.to_nat mp)) t bc start 1 mp key h) as [[[b s]|]| | |]; intros X;
      [destruct X as (b0 & bi0 & it0 & pr0 & X)|destruct X as (b0 & bi0 & it0 & pr0 & X)|contradiction| |contradiction]; rewrite X; reflexivity.
  - destruct (Z.eqb_spec (itb start (r - 1)) 0) as [E|E]; [destruct (itb_nz _ _ E)|]. reflexivity.
Qed.
End InO2.

Section InOne.
Variable t : otable.
Variables (L key : Z).
Variable it1 : Z -> Z.
Hypothesis it1_nz : forall b, it1 b <> 0.
Variables (bks : Z) (bk_count bk_logcount : Z -> Z) (b_find : Z -> Z -> Z -> Z -> Z) (b_wasfull : Z -> bool) (bk_at : Z -> Z -> Z).
Definition one_heap_ok : Prop :=
  bk_count bks = wrapU 64 (Z.shiftl 1 L) /\ bk_logcount bks = L /\
  (forall i, b_wasfull (bk_at bks i) = Gen_One.WasFull (ost (t i))) /\
  (forall i params pred h, b_find (bk_at bks i) params pred h = if obucket_find (t i) key h =? 0 then 0 else it1 i).
Hypothesis Hheap : one_heap_ok.

Definition one_next (i h c probe : Z) : Z := Gen_Base.GetNextBucketIndex i c.
Lemma one_next_eq i h c probe : one_next i h c probe = Gen_Base.GetNextBucketIndex i c.
Proof. reflexivity. Qed.

Lemma one_loop bc params h pred maxp : forall fuel idx bi ic probe,
  conv it1 (fun b : Z => b) ic (ofind_loop fuel t bc idx probe maxp key h)
       (pvFindIn_loop0 one_next b_find b_wasfull bk_at fuel bc params bks h pred maxp (bk_at bks idx) idx bi ic probe).
Proof.
  destruct Hheap as (_ & _ & Hwf & Hbf).
  induction fuel as [|f IH]; intros idx bi ic probe; [reflexivity|].
  rewrite pvFindIn_loop0_eq. cbn [ofind_loop]. rewrite Hwf.
  destruct (Gen_One.WasFull (ost (t idx)) && (probe <=? maxp)); [|do 4 eexists; reflexivity].
  cbv zeta. rewrite !one_next_eq, !Hbf.
  destruct (Z.eqb_spec (obucket_find (t (Gen_Base.GetNextBucketIndex idx bc)) key h) 0).
  - cbn [Z.eqb negb]. apply IH.
  - destruct (Z.eqb_spec (it1 (Gen_Base.GetNextBucketIndex idx bc)) 0) as [E|E]; [destruct (it1_nz _ E)|].
    cbn [negb conv]. do 4 eexists. reflexivity.
Qed.

Definition one_findin (h pred params : Z) : outcome (Z * Z) :=
  pvFindIn bk_count bk_logcount Gen_Base.GetStartBucketIndex one_next b_find base_maxprobe b_wasfull bk_at h bks pred params.
Definition resI1 (h : Z) (r : option Z) : Z * Z := match r with Some b => (it1 b, b) | None => (0, h) end.

Theorem one_findin_refines h pred params :
  one_findin h pred params = match ofind t L key h with Ok r => Ok (resI1 h r) | Stuck => Stuck | Fuel => Fuel | Exn => Exn end.
Proof.
  pose proof Hheap as (Hbc & Hlc & Hwf & Hbf).
  unfold one_findin, pvFindIn, ofind. cbv zeta. rewrite Hbc, Hlc, !Hbf. unfold base_maxprobe.
  set (bc := wrapU 64 (Z.shiftl 1 L)). set (start := Gen_Base.GetStartBucketIndex h bc).
  destruct (Z.eqb_spec (obucket_find (t start) key h) 0).
  - cbn [Z.eqb negb].
    pose proof (one_loop bc params h pred (Gen_Base.GetMaxProbe L) (S (Z.to_nat (Gen_Base.GetMaxProbe L))) start 0 h 1) as X. revert X. unfold conv.
    destruct (ofind_loop (S (Z.to_nat (Gen_Base.GetMaxProbe L))) t bc start 1 (Gen_Base.GetMaxProbe L) key h) as [[b|]| | |]; intros X;
      [destruct X as (b0 & bi0 & it0 & pr0 & X)|destruct X as (b0 & bi0 & it0 & pr0 & X)|contradiction| |contradiction]; rewrite X; reflexivity.
  - destruct (Z.eqb_spec (it1 start) 0) as [E|E]; [destruct (it1_nz _ E)|]. reflexivity.
Qed.
End InOne.

(* ==== both generated functions composed: pvFind(key) calling pvFind(indexCode, *buckets, pred) on every generation ==== *)
Definition unwrapP (ic : Z) (o : outcome (Z * Z)) : Z * Z := match o with Ok r => r | _ => (0, ic) end.

(* walk (absolute generation index) vs the hand-written pfind_gens / find_gens (index relative to the remaining list) *)
Definition shiftg (k : nat) (r : outcome (option (nat * Z * Z))) : outcome (option (nat * Z * Z)) :=
  match r with Ok (Some (g, b, s)) => Ok (Some ((k + g)%nat, b, s)) | o => o end.

(* ---- LimP4 ---- *)
Section HSFindP4.
Variables (H : Z).
Variable hash : Z -> Z.
Variable it : nat -> Z -> Z -> Z.
Hypothesis it_nz : forall g b s, it g b s <> 0.
Variables (gptr : nat -> Z) (bk_count bk_logcount : Z -> Z) (b_find : Z -> Z -> Z -> Z -> Z) (b_wasfull : Z -> bool)
          (bk_at : Z -> Z -> Z) (buckets_next : Z -> Z).
Variable gens : list (ptable * Z).
Variable key : Z.

Definition tfP4 (h : Z) (g : ptable * Z) := pfind (fst g) (snd g) key h.
(* every generation's bucket array behaves as its model table *)
Definition p4_heaps_ok : Prop := forall i t L, nth_error gens i = Some (t, L) ->
  p4_heap_ok t L key (it i) (gptr i) bk_count bk_logcount b_find b_wasfull bk_at.
(* find_in of the generated pvFindKey := the generated pvFindIn *)
Definition p4_find_in (ic p pred : Z) : Z * Z := unwrapP ic (p4_findin p bk_count bk_logcount b_find b_wasfull bk_at ic pred 0).

Lemma pfind_gens_walk h : forall l k, walk _ tfP4 k h l = shiftg k (pfind_gens l key h).
Proof.
  induction l as [|[t L] r IH]; intros k; [reflexivity|]. cbn [pfind_gens walk]. unfold tfP4 at 1. cbn [fst snd].
  destruct (pfind t L key h) as [[[b s]|]| | |]; try reflexivity.
  - cbn [shiftg]. rewrite Nat.add_0_r. reflexivity.
  - rewrite IH. destruct (pfind_gens r key h) as [[[[g b] s]|]| | |]; try reflexivity. cbn [shiftg]. rewrite Nat.add_succ_r. reflexivity.
Qed.

Hypothesis Hheaps : p4_heaps_ok.
Hypothesis Hchain : chain_ok _ gens gptr buckets_next.

Lemma p4_find_in_ok : find_in_ok _ tfP4 it gens gptr p4_find_in.
Proof.
  intros i [t L] ic pred Hi. unfold p4_find_in. rewrite (p4_findin_refines t L key (it i) (it_nz i) _ _ _ _ _ _ (Hheaps i t L Hi)).
  unfold tfP4. cbn [fst snd]. destruct (pfind t L key ic) as [[[b s]|]| | |]; reflexivity.
Qed.

Theorem hsfind_p4_refines mCount ht pred : pgens_inv H hash gens -> gens <> [] -> (length gens <= 70)%nat -> mCount <> 0 ->
  pvFindKey false hash p4_find_in buckets_next mCount (gptr 0) key ht pred
  = Ok (resw it (hash key) (pfind_gens gens key (hash key))).
Proof.
  intros Hinv Hg Hl Hc.
  rewrite (pvFindKey_walk _ tfP4 it it_nz gens gptr hash p4_find_in buckets_next Hchain p4_find_in_ok); try assumption.
  - rewrite pfind_gens_walk. destruct (pfind_gens gens key (hash key)) as [[[[g b] s]|]| | |]; reflexivity.
  - intros h. unfold pgens_inv in Hinv. eapply Forall_impl; [|exact Hinv]. intros [t L] (HL & _). cbn [fst snd] in HL.
    destruct (pfind_total L t key h HL) as (r & Hr & _). exists r. exact Hr.
Qed.

(* the generated Find finds every key stored in any generation: a non-null iterator that names a slot holding the key, and the
   by-reference indexCode is that slot's bucket index *)
Theorem hsfind_p4_present mCount ht pred : pgens_inv H hash gens -> (length gens <= 70)%nat -> mCount <> 0 ->
  (exists g, In g gens /\ PPresent (snd g) (fst g) key) ->
  exists g b s, pvFindKey false hash p4_find_in buckets_next mCount (gptr 0) key ht pred = Ok (b, it g b s)
                /\ it g b s <> 0 /\ pgens_hit gens key (g, b, s).
Proof.
  intros Hinv Hl Hc Hex. assert (Hg : gens <> []) by (destruct Hex as (g & Hin & _); destruct gens; [destruct Hin|discriminate]).
  rewrite (hsfind_p4_refines mCount ht pred Hinv Hg Hl Hc).
  destruct (pfind_gens_present H hash key gens Hinv Hex) as ([[g b] s] & Hr & Hhit). rewrite Hr. cbn [resw].
  exists g, b, s. split; [reflexivity|]. split; [apply it_nz|exact Hhit].
Qed.
End HSFindP4.

(* ---- Open2N2 ---- *)
Section HSFindO2.
Variable hash : Z -> Z.
Variable it : nat -> Z -> Z -> Z.
Hypothesis it_nz : forall g b s, it g b s <> 0.
Variables (gptr : nat -> Z) (bk_count bk_logcount : Z -> Z) (b_find : Z -> Z -> Z -> Z -> Z) (b_maxprobe : Z -> Z -> Z) (b_wasfull : Z -> bool)
          (bk_at : Z -> Z -> Z) (buckets_next : Z -> Z).
Variable gens : list (table * Z).
Variable key : Z.

Definition tfO2 (h : Z) (g : table * Z) := find (fst g) (snd g) key h.
Definition o2_heaps_ok : Prop := forall i t L, nth_error gens i = Some (t, L) ->
  o2_heap_ok t L key (it i) (gptr i) bk_count bk_logcount b_find b_maxprobe b_wasfull bk_at.
Definition o2_find_in (ic p pred : Z) : Z * Z := unwrapP ic (o2_findin p bk_count bk_logcount b_find b_maxprobe b_wasfull bk_at ic pred 0).

Lemma find_gens_walk h : forall l k, walk _ tfO2 k h l = shiftg k (find_gens l key h).
Proof.
  induction l as [|[t L] r IH]; intros k; [reflexivity|]. cbn [find_gens walk]. unfold tfO2 at 1. cbn [fst snd].
  destruct (find t L key h) as [[[b s]|]| | |]; try reflexivity.
  - cbn [shiftg]. rewrite Nat.add_0_r. reflexivity.
  - rewrite IH. destruct (find_gens r key h) as [[[[g b] s]|]| | |]; try reflexivity. cbn [shiftg]. rewrite Nat.add_succ_r. reflexivity.
Qed.

Hypothesis Hheaps : o2_heaps_ok.
Hypothesis Hchain : chain_ok _ gens gptr buckets_next.

Lemma o2_find_in_ok : find_in_ok _ tfO2 it gens gptr o2_find_in.
Proof.
  intros i [t L] ic pred Hi. unfold o2_find_in. rewrite (o2_findin_refines t L key (it i) (it_nz i) _ _ _ _ _ _ _ (Hheaps i t L Hi)).
  unfold tfO2. cbn [fst snd]. destruct (find t L key ic) as [[[b s]|]| | |]; reflexivity.
Qed.

Theorem hsfind_o2_refines mCount ht pred : gens_inv hash gens -> gens <> [] -> (length gens <= 70)%nat -> mCount <> 0 ->
  pvFindKey false hash o2_find_in buckets_next mCount (gptr 0) key ht pred
  = Ok (resw it (hash key) (find_gens gens key (hash key))).
Proof.
  intros Hinv Hg Hl Hc.
  rewrite (pvFindKey_walk _ tfO2 it it_nz gens gptr hash o2_find_in buckets_next Hchain o2_find_in_ok); try assumption.
  - rewrite find_gens_walk. destruct (find_gens gens key (hash key)) as [[[[g b] s]|]| | |]; reflexivity.
  - intros h. unfold gens_inv in Hinv. eapply Forall_impl; [|exact Hinv]. intros [t L] (HL & Ht). cbn [fst snd] in HL, Ht.
    destruct (find_total hash L t key h Ht) as (r & Hr & _). exists r. exact Hr.
Qed.

Theorem hsfind_o2_present mCount ht pred : gens_inv hash gens -> (length gens <= 70)%nat -> mCount <> 0 ->
  (exists g, In g gens /\ Present (snd g) (fst g) key) ->
  exists g b s, pvFindKey false hash o2_find_in buckets_next mCount (gptr 0) key ht pred = Ok (b, it g b s)
                /\ it g b s <> 0 /\ gens_hit gens key (g, b, s).
Proof.
  intros Hinv Hl Hc Hex. assert (Hg : gens <> []) by (destruct Hex as (g & Hin & _); destruct gens; [destruct Hin|discriminate]).
  rewrite (hsfind_o2_refines mCount ht pred Hinv Hg Hl Hc).
  destruct (find_gens_present hash key gens Hinv Hex) as ([[g b] s] & Hr & Hhit). rewrite Hr. cbn [resw].
  exists g, b, s. split; [reflexivity|]. split; [apply it_nz|exact Hhit].
Qed.
End HSFindO2.

(* the hypotheses are satisfiable: the layout "generation i at pointer i+1, bucket j of it at pointer 2^32*(i+1)+j" with the model's
   own leaves as the methods (so the theorems above are not vacuous) -- for the generation chain *)
Lemma chain_ok_example (A : Type) (gens : list A) :
  chain_ok A gens (fun i => Z.of_nat i + 1) (fun p => if p <? Z.of_nat (length gens) then p + 1 else 0).
Proof.
  split; [intros; lia|]. split; intros i Hi.
  - destruct (Z.ltb_spec (Z.of_nat i + 1) (Z.of_nat (length gens))); lia.
  - destruct (Z.ltb_spec (Z.of_nat i + 1) (Z.of_nat (length gens))); lia.
Qed.

(* ... and for one bucket array (bucket pointer = bucket index) *)
Lemma p4_heap_ok_example t L key itb bks :
  p4_heap_ok t L key itb bks (fun _ => wrapU 64 (Z.shiftl 1 L)) (fun _ => L)
    (fun b _ _ h => match pbucket_find (t b) key h with Ok r => if r =? 0 then 0 else itb b (r - 1) | _ => 0 end)
    (fun b => was_full (t b)) (fun _ i => i).
Proof. repeat split. Qed.

Lemma o2_heap_ok_example t L key itb bks :
  o2_heap_ok t L key itb bks (fun _ => wrapU 64 (Z.shiftl 1 L)) (fun _ => L)
    (fun b _ _ h => match bucket_find (t b) key h with Ok r => if r =? 0 then 0 else itb b (r - 1) | _ => 0 end)
    (fun b _ => Gen_O2MP.GetMaxProbe (bst (t b))) (fun b => Gen_O2.WasFull (bst (t b)) (bsh (t b)) (bhp (t b))) (fun _ i => i).
Proof. repeat split. Qed.
