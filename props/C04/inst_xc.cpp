// instantiation TU for cxx2coq (C04): HashSet / TreeSet ::pvExtraCheck (b307610) -- the debug-only re-check after a committed insertion
#include "momo/HashSet.h"
#include "momo/TreeSet.h"
namespace momo { void c04_use_xc() { HashSet<int> a; a.Insert(1); TreeSet<int> b; b.Insert(1); } }
