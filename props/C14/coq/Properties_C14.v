(* Property C14 -- theorems only.  Each is closed by `exact <lemma>` and followed by Print Assumptions. *)
From Coq Require Import ZArith List Bool.
From C14 Require Import PropagationModel Model.
Import ListNotations.
Local Open Scope Z_scope.

(* For every stateful allocator type (all 8 POCCA/POCMA/POCS combinations, nothrow-move-assignable or not), every
   wrapper operation and every pair of allocator identities (equal or unequal) for which the operation is defined by
   the standard: the allocator the target ends up with, the allocator the source ends up with, and whether the
   elements are transferred one by one, as decided by the stdish wrapper code, equal the std rule table. *)
Theorem C14_propagation_table :
  forall tr op s t, is_empty tr = false -> std_defined tr op s t = true ->
    code_target_alloc tr op s t = std_target_alloc tr op s t /\
    code_source_alloc tr op s t = std_source_alloc tr op s t /\
    code_elementwise tr op s t = std_elementwise tr op s t.
Proof. exact propagation_table_stateful. Qed.
Print Assumptions C14_propagation_table.
