(* C17: theorems about the GENERATED RadixSorter<8>::pvSelectionSort (Gen_SelSort.v, regenerated from RadixSorter.h by
   props/C17/sel2coq.py on every run).  State: codes = the function's local std::array cache, items = ghost array
   "code of the item now at position k" (read by codeGetter, permuted by iterSwapper), (gpos,gcnt,gnum) = log of the
   groupFunc calls.  Main point: the cache stays COHERENT with the items through the selection loop (std::swap on the cache
   next to every iterSwapper call), so the run detection that reads the cache reports the true runs of equal codes. *)
From Coq Require Import ZArith Bool List Lia.
From MomoCommon Require Import GenPrelude.
From C17 Require Import SelPrims Gen_SelSort.
Local Open Scope Z_scope.

Section SelSort.
  Variable begin count : Z.
  Hypothesis Hcount : 0 < count <= 32.          (* selectionSortMaxCount of RadixSorter<8>: the size of the cache *)

  Definition coherent (codes items : Z -> Z) : Prop := forall k, 0 <= k < count -> codes k = items k.

  Lemma loop0_spec items : forall fuel i codes, 0 <= i <= count -> count - i + 1 <= Z.of_nat fuel ->
    (forall k, 0 <= k < i -> codes k = items k) ->
    exists codes' i', pvSelectionSort_loop0 fuel begin count items codes i = Ok (codes', i') /\ coherent codes' items.
  Proof.
    induction fuel as [|fuel IH]; intros i codes Hi Hf Hc; [simpl in Hf; lia|].
    rewrite Nat2Z.inj_succ in Hf. rewrite pvSelectionSort_loop0_eq.
    destruct (Z.ltb_spec i count).
    - cbv zeta. rewrite wrapU_small by lia. apply IH; try lia.
      intros k Hk. unfold upd. destruct (Z.eqb_spec k i) as [->|]; [reflexivity|apply Hc; lia].
    - exists codes, i. split; [reflexivity|]. intros k Hk. apply Hc. lia.
  Qed.

  Definition sorted_upto (items : Z -> Z) (n : Z) : Prop := forall a b, 0 <= a -> a <= b -> b < n -> items a <= items b.

  Lemma loop1_spec : forall fuel i codes items, 0 <= i <= count - 1 -> count - i + 1 <= Z.of_nat fuel ->
    coherent codes items -> sorted_upto items i ->
    (forall a b, 0 <= a < i -> i <= b < count -> items a <= items b) ->
    exists codes' i' items', pvSelectionSort_loop1 fuel begin count codes i items = Ok (codes', i', items') /\
      coherent codes' items' /\ sorted_upto items' count.
  Proof.
    induction fuel as [|fuel IH]; intros i codes items Hi Hf Hc Hs Hle; [simpl in Hf; lia|].
    rewrite Nat2Z.inj_succ in Hf. rewrite pvSelectionSort_loop1_eq. rewrite (wrapU_small 64 (count - 1)) by lia.
    destruct (Z.ltb_spec i (count - 1)) as [Hlt|Hge].
    2:{ exists codes, i, items. split; [reflexivity|]. split; [exact Hc|].
        intros a b Ha Hab Hb. destruct (Z.eq_dec b (count - 1)) as [->|]; [|apply Hs; lia].
        destruct (Z.eq_dec a (count - 1)) as [->|]; [lia|apply Hle; lia]. }
    cbv zeta.
    destruct (min_element_idx_spec codes (0 + i + 1) (0 + count)) as [Hm Hmin]; [lia|].
    set (m := min_element_idx codes (0 + i + 1) (0 + count)) in *.
    assert (Hmin' : forall x, i + 1 <= x < count -> items m <= items x).
    { intros x Hx. rewrite <- (Hc m), <- (Hc x) by lia. apply Hmin. lia. }
    rewrite (wrapU_small 64 (i + 1)) by lia.
    destruct (Z.ltb_spec (codes m) (codes i)) as [Hsw|Hns].
    - (* swap items and cache *)
      apply IH; try lia.
      + intros k Hk. rewrite !swapf_spec. rewrite (Hc i), (Hc m), (Hc k) by lia. reflexivity.
      + intros a b Ha Hab Hb. rewrite !swapf_spec.
        destruct (Z.eqb_spec a m); [lia|]. destruct (Z.eqb_spec b m); [lia|].
        destruct (Z.eqb_spec b i) as [->|].
        * destruct (Z.eqb_spec a i); [lia|]. apply Hle; lia.
        * destruct (Z.eqb_spec a i); [lia|]. apply Hs; lia.
      + intros a b Ha Hb. rewrite !swapf_spec. rewrite (Hc m), (Hc i) in Hsw by lia.
        destruct (Z.eqb_spec a m); [lia|].
        destruct (Z.eqb_spec a i) as [->|].
        * destruct (Z.eqb_spec b m); [lia|]. destruct (Z.eqb_spec b i); [lia|]. apply Hmin'. lia.
        * destruct (Z.eqb_spec b m); [apply Hle; lia|]. destruct (Z.eqb_spec b i); [lia|]. apply Hle; lia.
    - apply IH; try lia; auto.
      + intros a b Ha Hab Hb. destruct (Z.eq_dec b i) as [->|]; [|apply Hs; lia].
        destruct (Z.eq_dec a i) as [->|]; [lia|apply Hle; lia].
      + intros a b Ha Hb. destruct (Z.eq_dec a i) as [->|]; [|apply Hle; lia].
        rewrite (Hc m), (Hc i) in Hns by lia. specialize (Hmin' b ltac:(lia)). lia.
  Qed.

  (* the log of group calls g0 .. g1-1 describes consecutive, non-empty ranges of constant code, adjacent ones with
     different codes, starting at position 0 *)
  Definition log_ok (items gpos gcnt : Z -> Z) (g0 g1 : Z) : Prop :=
    (g0 < g1 -> gpos g0 = 0) /\
    (forall j, g0 <= j < g1 -> 0 < gcnt j /\ 0 <= gpos j /\ forall k, gpos j <= k < gpos j + gcnt j -> items k = items (gpos j)) /\
    (forall j, g0 <= j -> j + 1 < g1 -> gpos (j + 1) = gpos j + gcnt j /\ items (gpos j) <> items (gpos (j + 1))).

  Lemma loop2_spec codes items g0 : coherent codes items -> 0 <= g0 -> g0 + count < 2 ^ 63 ->
    forall fuel i prev gpos gcnt gnum, 0 <= prev -> prev < i -> i <= count -> count - i + 1 <= Z.of_nat fuel ->
      g0 <= gnum -> gnum - g0 <= prev ->
      log_ok items gpos gcnt g0 gnum ->
      (gnum = g0 -> prev = 0) ->
      (g0 < gnum -> gpos (gnum - 1) + gcnt (gnum - 1) = prev /\ items (gpos (gnum - 1)) <> items prev) ->
      (forall k, prev <= k < i -> items k = items prev) ->
      exists gcnt' gnum' gpos' i' prev', pvSelectionSort_loop2 fuel begin codes count gcnt gnum gpos i prev = Ok (gcnt', gnum', gpos', i', prev') /\
        g0 <= gnum' /\ gnum' - g0 <= prev' /\ 0 <= prev' < count /\ log_ok items gpos' gcnt' g0 gnum' /\
        (gnum' = g0 -> prev' = 0) /\
        (g0 < gnum' -> gpos' (gnum' - 1) + gcnt' (gnum' - 1) = prev' /\ items (gpos' (gnum' - 1)) <> items prev') /\
        (forall k, prev' <= k < count -> items k = items prev').
  Proof.
    intros Hc Hg0 Hgb. induction fuel as [|fuel IH]; intros i prev gpos gcnt gnum Hp Hpi Hic Hf Hgn Hgp Hlog Hfirst Hlast Hrun; [simpl in Hf; lia|].
    rewrite Nat2Z.inj_succ in Hf. rewrite pvSelectionSort_loop2_eq.
    destruct (Z.ltb_spec i count) as [Hlt|Hge].
    2:{ assert (i = count) by lia. subst i. exists gcnt, gnum, gpos, count, prev. split; [reflexivity|].
        split; [lia|]. split; [lia|]. split; [lia|]. split; [exact Hlog|]. split; [exact Hfirst|]. split; [exact Hlast|exact Hrun]. }
    rewrite (Hc i), (Hc prev) by lia.
    destruct (Z.eqb_spec (items i) (items prev)) as [Heq|Hne]; cbn [negb]; cbv zeta; rewrite (wrapU_small 64 (i + 1)) by lia.
    - apply IH; try lia; auto. intros k Hk. destruct (Z.eq_dec k i) as [->|]; [exact Heq|apply Hrun; lia].
    - rewrite (wrapU_small 64 (i - prev)), (wrapU_small 64 (gnum + 1)) by lia.
      destruct Hlog as (L1 & L2 & L3).
      apply IH; try lia.
      + (* log extended by the call (prev, i - prev) *)
        split; [|split].
        * intros _. unfold upd. destruct (Z.eqb_spec g0 gnum) as [E|N]; [apply Hfirst; lia|apply L1; lia].
        * intros j Hj. unfold upd. destruct (Z.eqb_spec j gnum) as [->|N].
          -- split; [lia|]. split; [lia|]. intros k Hk. apply Hrun. lia.
          -- apply L2. lia.
        * intros j Hj Hj1. unfold upd.
          destruct (Z.eqb_spec (j + 1) gnum) as [E|N].
          -- destruct (Z.eqb_spec j gnum); [lia|]. replace j with (gnum - 1) by lia. destruct (Hlast ltac:(lia)) as [A B]. split; [lia|exact B].
          -- destruct (Z.eqb_spec j gnum); [lia|]. apply L3; lia.
      + intros _. replace (gnum + 1 - 1) with gnum by lia. unfold upd. rewrite !Z.eqb_refl. split; [lia|]. intros X. apply Hne. symmetry. exact X.
      + intros k Hk. replace k with i by lia. reflexivity.
  Qed.

  (* RadixSorter<8>::pvSelectionSort, as generated from the source: for every initial cache contents, every item-code array
     and an empty group log it terminates (no assert), the cache is coherent with the items at the end, the item codes are
     non-decreasing, and the groupFunc calls are exactly the maximal runs of equal codes, in order, covering [0,count). *)
  Theorem gen_selection_sort_spec codes items gpos gcnt :
    exists codes' items' gpos' gcnt' gnum',
      pvSelectionSort codes items gpos gcnt 0 begin count = Ok (tt, codes', items', gpos', gcnt', gnum') /\
      coherent codes' items' /\ sorted_upto items' count /\ 0 < gnum' /\
      log_ok items' gpos' gcnt' 0 gnum' /\ gpos' (gnum' - 1) + gcnt' (gnum' - 1) = count.
  Proof.
    unfold pvSelectionSort. destruct (Z.gtb_spec count 0) as [_|]; [|lia]. cbv zeta.
    destruct (loop0_spec items (Z.to_nat 40) 0 codes) as (c0 & i0 & E0 & C0); try lia.
    all: try (intros k Hk; lia).
    unfold fuel_of_pvSelectionSort. rewrite E0.
    destruct (loop1_spec (Z.to_nat 40) 0 c0 items) as (c1 & i1 & it1 & E1 & C1 & S1); try lia; auto.
    all: try (intros a b Ha Hab Hb; lia). all: try (intros a b Ha; lia).
    rewrite E1.
    destruct (loop2_spec c1 it1 0 C1 ltac:(lia) ltac:(lia) (Z.to_nat 40) 1 0 gpos gcnt 0) as (gc & gn & gp & i2 & pv & E2 & G1 & G2 & G3 & G4 & G5 & G6 & G7); try lia.
    all: try (split; [lia|]; split; intros; lia).
    all: try (intros k Hk; replace k with 0 by lia; reflexivity).
    rewrite E2. rewrite (wrapU_small 64 (count - pv)), (wrapU_small 64 (gn + 1)) by lia.
    do 5 eexists. split; [reflexivity|]. split; [exact C1|]. split; [exact S1|]. split; [lia|].
    destruct G4 as (L1 & L2 & L3). replace (gn + 1 - 1) with gn by lia. split.
    - split; [|split].
      + intros _. unfold upd. destruct (Z.eqb_spec 0 gn) as [E|N]; [apply G5; lia|apply L1; lia].
      + intros j Hj. unfold upd. destruct (Z.eqb_spec j gn) as [->|N].
        * split; [lia|]. split; [lia|]. intros k Hk. apply G7. lia.
        * apply L2. lia.
      + intros j Hj Hj1. unfold upd.
        destruct (Z.eqb_spec (j + 1) gn) as [E|N].
        * destruct (Z.eqb_spec j gn); [lia|]. replace j with (gn - 1) by lia. destruct (G6 ltac:(lia)) as [A B]. split; [lia|exact B].
        * destruct (Z.eqb_spec j gn); [lia|]. apply L3; lia.
    - unfold upd. rewrite !Z.eqb_refl. lia.
  Qed.
End SelSort.
