(* Property C09 -- theorems only.  Each is closed by `exact <lemma>` and followed by Print Assumptions.
   Gen_UIntMath / Gen_MemPoolConst / Gen_MemPool are regenerated from /repo's headers by cxx2coq on every run;
   PoolLayout (rest of pvNewBuffer / pvNewBlock1, pvCheckParams), PoolLinks (buffer list surgery) and PoolModel are
   hand models that are run against the real code on every run. *)
From Coq Require Import ZArith List Bool.
From MomoCommon Require Import GenPrelude.
From C09 Require Gen_UIntMath Gen_MemPoolConst Gen_MemPool Gen_MemPoolData PoolLayout PoolLinks PoolArith PoolLinksProofs PoolModel PoolConc PoolConcProofs PoolInv PoolAddr PoolCompl PoolOne PoolU32Prims Gen_MemPoolUInt32 PoolU32 PoolU32List PoolBlkPrims Gen_MemPoolBlk Gen_MemPoolMerge PoolBlk PoolMergeGen PoolBlkRefine PoolBlkSim PoolDelSim Gen_MemPoolDel PoolDelGen Gen_MemPoolNewBuf PoolNewBufGen.
Import ListNotations.
Local Open Scope Z_scope.

(* UIntMath::Ceil(v, m) is the least multiple of m that is >= v whenever v + m does not overflow. *)
Theorem C09_ceil_spec : forall v m, 0 <= v -> 0 < m -> v + m < 2 ^ 64 ->
  exists k, Gen_UIntMath.Ceil v m = m * k /\ v <= m * k < v + m.
Proof. exact PoolArith.Ceil_spec. Qed.
Print Assumptions C09_ceil_spec.

(* params_corrected_ok: for every requested block size, every alignment 1..1024 (power of two or not) and every
   blockCount 1..127, the block size computed by MemPoolParams (CorrectBlockSize) passes all checks of pvCheckParams. *)
Theorem C09_params_corrected_ok : forall bs al C,
  1 <= C <= 127 -> 1 <= al <= 1024 -> 0 <= bs <= 2 ^ 48 ->
  PoolLayout.check_params C (Gen_MemPoolConst.CorrectBlockSize bs al C) al = true.
Proof. exact PoolArith.params_corrected_ok. Qed.
Print Assumptions C09_params_corrected_ok.

(* parameters accepted by pvCheckParams (blockCount >= 2) are `legal` as soon as the buffer size cannot overflow *)
Theorem C09_check_params_legal : forall C B A,
  PoolLayout.check_params C B A = true -> 2 <= C -> C * B + 4 * A + 32 < 2 ^ 63 -> PoolArith.legal C B A.
Proof. exact PoolArith.check_params_legal. Qed.
Print Assumptions C09_check_params_legal.

(* newbuffer_layout + blockindex_roundtrip.  For ALL legal block sizes, alignments 1..1024, blockCount 2..127 and EVERY
   address `begin` the memory manager may return (a multiple of min(16, lowest set bit of blockAlignment), the block not
   wrapping around 2^64): pvNewBuffer's address computation does not assert (beginOffset < 65536), and the blockCount
   blocks pvGetBlock(buffer, firstIndex + j) of the new buffer
     - have indexes that fit int8_t, are aligned to blockAlignment, lie inside [begin, begin + pvGetBufferSize()),
     - are pairwise disjoint, and disjoint from every byte the pool itself uses in the buffer (first-index byte,
       BufferBytes, prev/next pointers, begin offset), which also lie inside the memory obtained,
     - and pvGetBlockIndex recovers (firstIndex + j, buffer) from the address of every block; the first block is
       begin + beginOffset, so pvDeleteBuffer recovers `begin`. *)
Theorem C09_newbuffer_layout_and_blockindex_roundtrip : forall C B A begin,
  PoolArith.legal C B A -> PoolArith.begin_ok A (Gen_MemPool.pvGetBufferSize C B A) begin ->
  exists fb first buffer,
    PoolLayout.new_buffer_layout C B A begin = Ok (fb, fb - begin, first, buffer) /\
    fb - begin < 65536 /\ - (C - 1) <= first <= 0 /\
    Gen_MemPool.pvGetBlock B A buffer first = fb /\
    let size := Gen_MemPool.pvGetBufferSize C B A in
    (forall j, 0 <= j < C ->
       let b := PoolLayout.block_of B A buffer first j in
       -128 <= first + j <= 127 /\
       b mod A = 0 /\ begin <= b /\ b + B <= begin + size /\
       (forall j', j < j' < C -> b + B <= PoolLayout.block_of B A buffer first j') /\
       (forall p len, In (p, len) (PoolLayout.meta_ranges C B A buffer first) -> p + len <= b \/ b + B <= p) /\
       Gen_MemPool.pvGetBlockIndex C B A b = Ok (first + j, buffer)) /\
    (forall p len, In (p, len) (PoolLayout.meta_ranges C B A buffer first) -> begin <= p /\ p + len <= begin + size).
Proof. exact PoolArith.newbuffer_layout_thm. Qed.
Print Assumptions C09_newbuffer_layout_and_blockindex_roundtrip.

(* non-vacuity: the default parameters of a 24-byte block pool are legal *)
Theorem C09_legal_inhabited : PoolArith.legal 32 24 8.
Proof. exact PoolArith.legal_example. Qed.
Print Assumptions C09_legal_inhabited.

(* block1_layout (blockCount = 1, alignment above what the manager guarantees): pvNewBlock1 does not assert, the block
   is aligned, the block and its 2-byte offset field lie inside the pvGetBufferSize1() bytes obtained, and pvDeleteBlock1
   recovers the manager's address from the stored offset - for every alignment 1..1024 and every manager address. *)
Theorem C09_block1_layout : forall B A buffer,
  1 <= A <= 1024 -> 0 < B < 2 ^ 62 -> PoolArith.begin_ok A (Gen_MemPool.pvGetBufferSize1 B A) buffer -> buffer + A < 2 ^ 64 ->
  exists block,
    PoolLayout.new_block1_layout B A buffer = Ok (block, block + B, block - buffer) /\
    block mod A = 0 /\ buffer <= block /\
    block + B + PoolLayout.offset_width <= buffer + Gen_MemPool.pvGetBufferSize1 B A /\
    block - buffer < 65536 /\
    (forall ld, ld (block + B) = block - buffer -> Gen_MemPool.pvDeleteBlock1 ld B A block = (block - buffer, buffer)).
Proof. exact PoolArith.block1_layout_thm. Qed.
Print Assumptions C09_block1_layout.

(* C09_block1_dispatch_aligned: the three-way choice of Allocate / Deallocate for a single-block pool (addend 0 -> the manager
   block itself, else pvNewBlock1 / pvDeleteBlock1): for EVERY legal alignment 1..1024, power of two or not, and every manager
   address that is a multiple of maxAllocAlignment = 16, the returned block is a multiple of blockAlignment, lies inside the
   bytes requested from the manager, and Deallocate gives back exactly that manager block. *)
Theorem C09_block1_dispatch_aligned : forall B A begin,
  1 <= A <= 1024 -> 0 < B < 2 ^ 62 -> 0 < begin -> begin mod 16 = 0 -> begin + B + A + 2 < 2 ^ 64 ->
  exists block size,
    PoolLayout.alloc1 B A begin = Ok (block, size) /\
    block mod A = 0 /\ begin <= block /\ block + B <= begin + size /\
    (forall ld, ld (block + B) = block - begin -> PoolLayout.dealloc1 ld B A block = (begin, size)).
Proof. exact PoolArith.block1_dispatch_aligned. Qed.
Print Assumptions C09_block1_dispatch_aligned.

(* the choice mirrored in PoolLayout.alloc1/dealloc1 is exactly the machine-translated three-way dispatch of
   pvDeleteBlock(void* ) (regenerated from the header on every run; a changed dispatch condition breaks this proof or the
   translation itself) *)
Theorem C09_dispatch_is_generated : forall B A blk ld,
  (Gen_MemPool.pvDeleteBlock_dispatch 1 B A blk = 2 /\ PoolLayout.dealloc1 ld B A blk = (blk, Gen_MemPool.pvGetBufferSize0 B A)) \/
  (Gen_MemPool.pvDeleteBlock_dispatch 1 B A blk = 3 /\
   PoolLayout.dealloc1 ld B A blk = (snd (Gen_MemPool.pvDeleteBlock1 ld B A blk), Gen_MemPool.pvGetBufferSize1 B A)).
Proof. exact PoolArith.dispatch_single_block. Qed.
Print Assumptions C09_dispatch_is_generated.

(* the condition the code relies on: the manager block is used directly exactly for the alignments that divide 16 *)
Theorem C09_addend_zero_iff : forall A, 1 <= A <= 1024 ->
  (PoolArith.addend A = 0 <-> A = 1 \/ A = 2 \/ A = 4 \/ A = 8 \/ A = 16).
Proof. exact PoolArith.addend_zero_iff. Qed.
Print Assumptions C09_addend_zero_iff.

(* the one-byte offset pvNewBlock1 used before fix bf4257f fails its assertion for legal parameters (alignment 512,
   manager address 16): the theorem above is not vacuous and distinguishes the two versions. *)
Theorem C09_block1_onebyte_refuted :
  exists B A buffer, 1 <= A <= 1024 /\ 0 < B /\ 0 < buffer /\ buffer mod (PoolArith.gran A) = 0 /\
    PoolArith.pvNewBlock1_onebyte B A buffer = Stuck.
Proof. exact PoolArith.block1_onebyte_refuted. Qed.
Print Assumptions C09_block1_onebyte_refuted.

(* buffer list surgery (hand L1 model PoolLinks, corresponded with the real code): pointwise effect of one iteration of
   MergeFrom's loop as coded after fix 7f37c9f, for every heap: the moved buffer b ends up between the former predecessor
   of head1 and head1, and its former neighbours (prev b, head2) are linked to each other. *)
Theorem C09_merge_step_prev : forall h head1 head2 b x, head1 <> head2 ->
  PoolLinks.hprev (PoolLinks.merge_step h head1 head2 b) x =
    if x =? head1 then b else if x =? b then PoolLinks.hprev h head1
    else if x =? head2 then PoolLinks.hprev h b else PoolLinks.hprev h x.
Proof. exact PoolLinksProofs.merge_step_prev. Qed.
Print Assumptions C09_merge_step_prev.

Theorem C09_merge_step_next : forall h head1 head2 b x, head1 <> head2 ->
  PoolLinks.hnext (PoolLinks.merge_step h head1 head2 b) x =
    if negb (PoolLinks.hprev h head1 =? 0) && (x =? PoolLinks.hprev h head1) then b
    else if x =? b then head1
    else if negb (PoolLinks.hprev h b =? 0) && (x =? PoolLinks.hprev h b) then head2
    else PoolLinks.hnext h x.
Proof. exact PoolLinksProofs.merge_step_next. Qed.
Print Assumptions C09_merge_step_next.

(* dll_inv for MergeFrom: for ALL heaps and ALL buffer lists - if the destination pool's list L1 ++ head1 :: R1 and the
   source pool's list L2 ++ head2 :: R2 are well-formed null-terminated doubly linked lists of distinct non-null buffers
   (heads as shown) and share no buffer, then MergeFrom as coded terminates, keeps the destination head, nulls the source
   head, and leaves ONE well-formed doubly linked list containing every buffer of both pools exactly once, namely
   L1 ++ rev L2 ++ head1 :: R1 ++ head2 :: R2 (all full buffers before the head). *)
Theorem C09_mergefrom_dll_inv : forall h L1 R1 L2 R2 head1 head2,
  PoolLinksProofs.dll h (L1 ++ head1 :: R1) -> PoolLinksProofs.dll h (L2 ++ head2 :: R2) ->
  (forall x, In x (L1 ++ head1 :: R1) -> In x (L2 ++ head2 :: R2) -> False) ->
  exists h',
    PoolLinks.merge_from (S (length (L1 ++ head1 :: R1) + length (L2 ++ head2 :: R2))) h head1 head2 = Some (h', head1, 0) /\
    PoolLinksProofs.dll h' (L1 ++ rev L2 ++ head1 :: R1 ++ head2 :: R2).
Proof. exact PoolLinksProofs.merge_from_dll. Qed.
Print Assumptions C09_mergefrom_dll_inv.

(* dll_inv for pvMoveBufferToHead: for ALL heaps and lists - if the pool's buffer list is A ++ b :: B ++ head :: R (b a full
   buffer left of the head), the real sequence of pointer writes does not assert, makes b the head, and leaves the
   well-formed list A ++ B ++ b :: head :: R; links of buffers outside the list are untouched. *)
Theorem C09_movetohead_dll_inv : forall h A B R b head,
  PoolLinksProofs.dll h (A ++ b :: B ++ head :: R) ->
  exists h', PoolLinks.move_to_head h head b = Some (h', b) /\ PoolLinksProofs.dll h' (A ++ B ++ b :: head :: R) /\
    (forall x, ~ In x (A ++ b :: B ++ head :: R) -> PoolLinks.hprev h' x = PoolLinks.hprev h x /\ PoolLinks.hnext h' x = PoolLinks.hnext h x).
Proof. exact PoolLinksProofs.move_to_head_dll. Qed.
Print Assumptions C09_movetohead_dll_inv.

(* dll_inv for pvDeleteBuffer: any buffer b other than the head is unlinked, the rest stays one well-formed list *)
Theorem C09_deletebuffer_dll_inv : forall h A B b head,
  PoolLinksProofs.dll h (A ++ b :: B) -> head <> b ->
  exists h', PoolLinks.delete_buffer h head b = Some h' /\ PoolLinksProofs.dll h' (A ++ B) /\
    (forall x, ~ In x (A ++ b :: B) -> PoolLinks.hprev h' x = PoolLinks.hprev h x /\ PoolLinks.hnext h' x = PoolLinks.hnext h x).
Proof. exact PoolLinksProofs.delete_buffer_dll. Qed.
Print Assumptions C09_deletebuffer_dll_inv.

(* dll_inv for pvNewBuffer (a fresh buffer is a one-element list) and for the insertion in pvNewBlock (the new buffer is
   appended after the head, which is the last buffer at that point) *)
Theorem C09_newbuffer_dll_inv : forall h nb, nb <> 0 -> PoolLinksProofs.dll (PoolLinks.new_buffer h nb) [nb].
Proof. exact PoolLinksProofs.new_buffer_dll. Qed.
Print Assumptions C09_newbuffer_dll_inv.

Theorem C09_appendnewbuffer_dll_inv : forall h A head nb,
  PoolLinksProofs.dll h (A ++ [head]) -> nb <> 0 -> ~ In nb (A ++ [head]) ->
  PoolLinksProofs.dll (PoolLinks.append_new_buffer h head nb) (A ++ [head; nb]) /\
  (forall x, ~ In x (A ++ [head; nb]) ->
     PoolLinks.hprev (PoolLinks.append_new_buffer h head nb) x = PoolLinks.hprev h x /\
     PoolLinks.hnext (PoolLinks.append_new_buffer h head nb) x = PoolLinks.hnext h x).
Proof. exact PoolLinksProofs.append_new_buffer_dll. Qed.
Print Assumptions C09_appendnewbuffer_dll_inv.

Theorem C09_dll_inhabited :
  PoolLinksProofs.dll (PoolLinks.heap_of_lists [1; 2] [3; 4]) ([1] ++ 2 :: []) /\
  PoolLinksProofs.dll (PoolLinks.heap_of_lists [1; 2] [3; 4]) ([3] ++ 4 :: []) /\
  (forall x, In x ([1] ++ 2 :: []) -> In x ([3] ++ 4 :: []) -> False).
Proof. exact PoolLinksProofs.dll_example. Qed.
Print Assumptions C09_dll_inhabited.

(* the pre-fix MergeFrom (second Gallina definition merge_from_prefix) orphans a buffer: witness pool1 = [1], pool2 = [2;3]
   with head 3; after the merge the list reachable from the head is 1,3 and buffer 2 is lost. *)
Theorem C09_mergefrom_prefix_refuted :
  exists l1 head1 l2 head2 res b,
    PoolLinks.list_of 20 (PoolLinks.heap_of_lists l1 l2) head1 = Some l1 /\
    PoolLinks.list_of 20 (PoolLinks.heap_of_lists l1 l2) head2 = Some l2 /\
    PoolLinksProofs.merged_list PoolLinks.merge_loop_prefix l1 head1 l2 head2 = Some (res, head1) /\
    In b (l1 ++ l2) /\ ~ In b res.
Proof. exact PoolLinksProofs.merge_prefix_refuted. Qed.
Print Assumptions C09_mergefrom_prefix_refuted.

(* abstract pool model, every history of Allocate / Deallocate / DeallocateIf / DeallocateAll / MergeFrom on two pools and
   every choice of returned blocks: no block is live twice (in one pool or in both), a live block is never simultaneously
   free, and each pool's GetAllocateCount equals the number of its live blocks. *)
Theorem C09_model_no_block_twice_count_exact : forall ops,
  let w := PoolModel.run PoolModel.empty ops in
  NoDup (PoolModel.live (fst w) ++ PoolModel.live (snd w)) /\
  (forall b, In b (PoolModel.live (fst w) ++ PoolModel.live (snd w)) -> ~ In b (PoolModel.spare (fst w) ++ PoolModel.spare (snd w))) /\
  PoolModel.acount (fst w) = Z.of_nat (length (PoolModel.live (fst w))) /\
  PoolModel.acount (snd w) = Z.of_nat (length (PoolModel.live (snd w))).
Proof. exact PoolModel.no_block_twice. Qed.
Print Assumptions C09_model_no_block_twice_count_exact.

(* ... and the counter of a pool is 0 exactly when all of its blocks have been returned *)
Theorem C09_model_count_zero_iff_all_returned : forall ops p,
  let w := PoolModel.run PoolModel.empty ops in
  PoolModel.acount (PoolModel.get w p) = 0 <-> PoolModel.live (PoolModel.get w p) = [].
Proof. exact PoolModel.count_zero_iff_all_returned. Qed.
Print Assumptions C09_model_count_zero_iff_all_returned.

(* ===== concrete code-level model PoolConc (free chains, cache, buffer list; compared with the real pool's private state
   after every operation of every traced history) ===== *)

(* pvNewBuffer: the free chain of a new buffer enumerates all blockCount blocks 0..C-1 without repetition, freeBlockCount = C,
   and no other buffer's chain or count changes. *)
Theorem C09_chain_new_buffer : forall C w, 1 <= C ->
  let w' := fst (PoolConc.new_buffer C w) in let nb := snd (PoolConc.new_buffer C w) in
  nb = PoolConc.fresh w /\ PoolConc.chain_of w' nb = PoolConc.upto (Z.to_nat C) 0 /\ NoDup (PoolConc.chain_of w' nb) /\
  PoolConc.fc w' nb = C /\
  (forall b, b <> nb -> PoolConc.chain_of w' b = PoolConc.chain_of w b /\ PoolConc.fc w' b = PoolConc.fc w b).
Proof. exact PoolConcProofs.chain_new_buffer. Qed.
Print Assumptions C09_chain_new_buffer.

(* pvNewBlock 531-534 (take): the block handed out is the head of the buffer's chain and is removed from it - so it cannot be
   taken from the chain again while it is live; freeBlockCount stays the length of the chain; other chains untouched. *)
Theorem C09_chain_take : forall w b, 1 <= PoolConc.fc w b ->
  let w' := PoolConc.set_bytes w b (PoolConc.nx w b (PoolConc.fb w b)) (PoolConc.fc w b - 1) in
  PoolConc.chain_of w b = PoolConc.fb w b :: PoolConc.chain_of w' b /\
  (forall b', b' <> b -> PoolConc.chain_of w' b' = PoolConc.chain_of w b').
Proof. exact PoolConcProofs.chain_take. Qed.
Print Assumptions C09_chain_take.

(* pvDeleteBlock 549-553 (push): a block that is not in the chain becomes its new head in front of the unchanged old chain
   (no repetition is introduced, count + 1 = new length); other chains untouched. *)
Theorem C09_chain_push : forall w b j, 0 <= PoolConc.fc w b -> ~ In j (PoolConc.chain_of w b) ->
  let w' := PoolConc.set_bytes (PoolConc.set_nx w b j (PoolConc.fb w b)) b j (PoolConc.fc w b + 1) in
  PoolConc.chain_of w' b = j :: PoolConc.chain_of w b /\
  (forall b', b' <> b -> PoolConc.chain_of w' b' = PoolConc.chain_of w b').
Proof. exact PoolConcProofs.chain_push. Qed.
Print Assumptions C09_chain_push.

(* a freed block becomes available again: after the push it is the first free block of its buffer, which now has >= 1 free *)
Theorem C09_freed_block_available_again : forall w b j, 0 <= PoolConc.fc w b -> ~ In j (PoolConc.chain_of w b) ->
  let w' := PoolConc.set_bytes (PoolConc.set_nx w b j (PoolConc.fb w b)) b j (PoolConc.fc w b + 1) in
  PoolConc.fb w' b = j /\ 1 <= PoolConc.fc w' b.
Proof. exact PoolConcProofs.freed_block_available_again. Qed.
Print Assumptions C09_freed_block_available_again.

(* a buffer goes back to the memory manager only in a pvDeleteBlock whose push made freeBlockCount = blockCount ... *)
Theorem C09_buffer_returned_only_when_count_full : forall C w p bk x,
  In x (PoolConc.returned (PoolConc.pvDeleteBlock C w p bk)) ->
  In x (PoolConc.returned w) \/ (x = fst bk /\ PoolConc.fc w x + 1 = C).
Proof. exact PoolConcProofs.delete_returns_only_full. Qed.
Print Assumptions C09_buffer_returned_only_when_count_full.

(* ... and at that moment EVERY block of the buffer is in its free chain (chain without repetition, indexes in range):
   no block of the buffer can still be live. *)
Theorem C09_buffer_returned_all_blocks_free : forall C w b j,
  let w' := PoolConc.set_bytes (PoolConc.set_nx w b j (PoolConc.fb w b)) b j (PoolConc.fc w b + 1) in
  0 <= PoolConc.fc w b -> ~ In j (PoolConc.chain_of w b) -> NoDup (PoolConc.chain_of w b) ->
  (forall x, In x (PoolConc.chain_of w b) -> 0 <= x < C) -> 0 <= j < C ->
  PoolConc.fc w b + 1 = C -> forall k, 0 <= k < C -> In k (PoolConc.chain_of w' b).
Proof. exact PoolConcProofs.returned_buffer_all_free. Qed.
Print Assumptions C09_buffer_returned_all_blocks_free.

(* the cache is LIFO: with pvUseCache, a deallocated block is the very next block Allocate returns *)
Theorem C09_cache_lifo : forall C CF w p bk,
  let w1 := PoolConc.Deallocate C CF true w p bk in snd (PoolConc.Allocate C true w1 p) = bk.
Proof. exact PoolConcProofs.cache_lifo. Qed.
Print Assumptions C09_cache_lifo.

(* the cache is bounded by cachedFreeBlockCount after EVERY history of Allocate / Deallocate / DeallocateIf / DeallocateAll /
   MergeFrom on both pools (flushing goes through pvDeleteBlock: flush = fold of pvDeleteBlock over the cache, head first) *)
Theorem C09_cache_bounded_all_histories : forall C CF uc ops, 1 <= CF ->
  PoolConcProofs.bounded CF (PoolConcProofs.crun C CF uc ops).
Proof. exact PoolConcProofs.cache_bounded_all_histories. Qed.
Print Assumptions C09_cache_bounded_all_histories.

(* ===== the whole-history invariant of the concrete model (PoolInv.v): global part G (every chain duplicate-free and in
   range, returned ids < fresh) + per pool Pl (buffer lists duplicate-free, ids fresh and not returned, every buffer of lfree
   has a free block, every buffer of lfull has none, head null => no buffers, live ++ cache duplicate-free, every live/cached
   block in range, NOT in its buffer's chain and owned by this pool's buffers, allocCount = number of live blocks) + the two
   pools' buffers disjoint.  Jq q hole: seen from pool q, `hole` = the block in transit inside an operation. ===== *)
Theorem C09_inv_holds_initially : forall C, PoolInv.J C PoolConc.empty_world.
Proof. exact PoolInv.J_empty. Qed.
Print Assumptions C09_inv_holds_initially.

(* preservation by the counter/ghost steps and the cache steps (q = the pool operated on, the hole = the block in transit) *)
Theorem C09_inv_add_live : forall C q bk w, PoolInv.Jq C q (Some bk) w -> PoolInv.Jq C q None (PoolConc.add_live w q bk).
Proof. exact PoolInv.add_live_J. Qed.
Print Assumptions C09_inv_add_live.

Theorem C09_inv_remove_live : forall C q bk w, PoolInv.Jq C q None w -> In bk (PoolConc.live (PoolConc.getp w q)) ->
  PoolInv.Jq C q (Some bk) (PoolConc.remove_live w q bk).
Proof. exact PoolInv.remove_live_J. Qed.
Print Assumptions C09_inv_remove_live.

Theorem C09_inv_cache_push : forall C q bk w, PoolInv.Jq C q (Some bk) w ->
  PoolInv.Jq C q None (PoolConc.set_cache w q (bk :: PoolConc.cache (PoolConc.getp w q))).
Proof. exact PoolInv.cache_push_J. Qed.
Print Assumptions C09_inv_cache_push.

Theorem C09_inv_cache_pop : forall C q bk rest w, PoolInv.Jq C q None w -> PoolConc.cache (PoolConc.getp w q) = bk :: rest ->
  PoolInv.Jq C q (Some bk) (PoolConc.set_cache w q rest).
Proof. exact PoolInv.cache_pop_J. Qed.
Print Assumptions C09_inv_cache_pop.

(* in every state satisfying the invariant: the block pvNewBlock takes from the head buffer's chain, and the block Allocate
   pops from the cache, are not live (nor cached elsewhere) in either pool: no block is handed out twice *)
Theorem C09_inv_chain_block_not_live : forall C q w head rest,
  PoolInv.Jq C q None w -> PoolConc.lfree (PoolConc.getp w q) = head :: rest ->
  ~ In (head, PoolConc.fb w head) (PoolInv.lb (PoolConc.getp w q)) /\
  ~ In (head, PoolConc.fb w head) (PoolInv.lb (PoolConc.getp w (negb q))).
Proof. exact PoolInv.chain_block_not_live. Qed.
Print Assumptions C09_inv_chain_block_not_live.

Theorem C09_inv_cache_block_not_live : forall C q w bk rest,
  PoolInv.Jq C q None w -> PoolConc.cache (PoolConc.getp w q) = bk :: rest ->
  ~ In bk (PoolConc.live (PoolConc.getp w q)) /\ ~ In bk (PoolInv.lb (PoolConc.getp w (negb q))).
Proof. exact PoolInv.cache_block_not_live. Qed.
Print Assumptions C09_inv_cache_block_not_live.

(* in every state satisfying the invariant: a buffer whose freeBlockCount equals blockCount - the only situation in which
   pvDeleteBlock hands a buffer back (C09_buffer_returned_only_when_count_full) - has no live and no cached block *)
Theorem C09_inv_full_count_no_live : forall C q w b,
  PoolInv.Jq C q None w -> In b (PoolInv.own (PoolConc.getp w q)) -> PoolConc.fc w b = C ->
  forall bk, In bk (PoolInv.lb (PoolConc.getp w q)) \/ In bk (PoolInv.lb (PoolConc.getp w (negb q))) -> fst bk <> b.
Proof. exact PoolInv.full_count_no_live. Qed.
Print Assumptions C09_inv_full_count_no_live.

(* preservation by every mutating step of the model (each mirrors a group of source lines, see PoolConc.v) *)
Theorem C09_inv_attach_new : forall C, 1 <= C -> forall q w, PoolInv.Jq C q None w -> PoolInv.Jq C q None (PoolConc.attach_new C w q).
Proof. exact PoolInv.attach_new_J. Qed.
Print Assumptions C09_inv_attach_new.

Theorem C09_inv_pvNewBlock : forall C, 1 <= C -> forall q w, PoolInv.Jq C q None w ->
  PoolInv.Jq C q (Some (snd (PoolConc.pvNewBlock C w q))) (fst (PoolConc.pvNewBlock C w q)).
Proof. exact PoolInv.pvNewBlock_J. Qed.
Print Assumptions C09_inv_pvNewBlock.

Theorem C09_inv_pvDeleteBlock : forall C, 1 <= C -> forall q w bk, PoolInv.Jq C q (Some bk) w -> PoolInv.Jq C q None (PoolConc.pvDeleteBlock C w q bk).
Proof. exact PoolInv.pvDeleteBlock_J. Qed.
Print Assumptions C09_inv_pvDeleteBlock.

Theorem C09_inv_flush : forall C, 1 <= C -> forall q w, PoolInv.Jq C q None w -> PoolInv.Jq C q None (PoolConc.flush C w q).
Proof. exact PoolInv.flush_J. Qed.
Print Assumptions C09_inv_flush.

Theorem C09_inv_MergeFrom : forall C, 1 <= C -> forall uc d w,
  (uc = false -> PoolConc.cache (PoolConc.getp w (negb d)) = []) -> PoolInv.Jq C d None w -> PoolInv.Jq C d None (PoolConc.MergeFrom C uc w d).
Proof. exact PoolInv.MergeFrom_J. Qed.
Print Assumptions C09_inv_MergeFrom.

(* THE INVARIANT HOLDS AFTER EVERY HISTORY of Allocate / Deallocate (of a block that is live in that pool; other Deallocates
   are outside the pool's contract and ignored) / MergeFrom / DeallocateAll / Swap / move assignment on both pools, for every blockCount >= 1, cache size and
   pvUseCache value. *)
Theorem C09_inv_all_histories : forall C, 1 <= C -> forall CF uc ops,
  PoolInv.J C (PoolInv.grun C CF uc ops) /\ PoolInv.nocache uc (PoolInv.grun C CF uc ops).
Proof. exact PoolInv.J_all_histories. Qed.
Print Assumptions C09_inv_all_histories.

(* (a1) NO BLOCK IS EVER HANDED OUT TWICE: after every such history the block the next Allocate of either pool returns is live
   in neither pool. *)
Theorem C09_no_double_hand_out_all_histories : forall C, 1 <= C -> forall CF uc ops p,
  let w := PoolInv.grun C CF uc ops in let bk := snd (PoolConc.Allocate C uc w p) in
  ~ In bk (PoolConc.live (PoolConc.getp w p)) /\ ~ In bk (PoolConc.live (PoolConc.getp w (negb p))).
Proof. exact PoolInv.no_double_hand_out. Qed.
Print Assumptions C09_no_double_hand_out_all_histories.

(* (a2) A BUFFER IS NEVER RETURNED TO THE MEMORY MANAGER WHILE ONE OF ITS BLOCKS IS LIVE OR CACHED, and returned buffer ids are
   never reused: after every such history. *)
Theorem C09_never_returned_while_live_all_histories : forall C, 1 <= C -> forall CF uc ops b,
  let w := PoolInv.grun C CF uc ops in In b (PoolConc.returned w) ->
  b < PoolConc.fresh w /\
  forall p bk, In bk (PoolConc.live (PoolConc.getp w p) ++ PoolConc.cache (PoolConc.getp w p)) -> fst bk <> b.
Proof. exact PoolInv.never_returned_while_live. Qed.
Print Assumptions C09_never_returned_while_live_all_histories.

(* allocCount (GetAllocateCount) equals the number of live blocks and the live blocks are pairwise different, after every history *)
Theorem C09_count_and_distinct_all_histories : forall C, 1 <= C -> forall CF uc ops p,
  let w := PoolInv.grun C CF uc ops in
  PoolConc.acount (PoolConc.getp w p) = PoolConc.lenz (PoolConc.live (PoolConc.getp w p)) /\ NoDup (PoolConc.live (PoolConc.getp w p)).
Proof. exact PoolInv.count_and_distinct. Qed.
Print Assumptions C09_count_and_distinct_all_histories.

(* (d) the property's first sentence for the code-level model: after EVERY history, two different live blocks (same pool or
   different pools) occupy disjoint byte ranges, each aligned to blockAlignment and inside the manager block of its buffer,
   which has not been returned.  addr_of = pvGetBlock(buffer pointer, firstBlockIndex + relative index) with the pointer and
   first index pvNewBuffer computes from the manager address beg(buffer).  Assumes legal parameters, manager addresses the
   manager may return, and non-overlapping manager blocks for different not-yet-returned buffers. *)
Theorem C09_live_blocks_disjoint_aligned_inside_all_histories : forall C B A CF uc beg ops,
  PoolArith.legal C B A ->
  let size := Gen_MemPool.pvGetBufferSize C B A in
  let w := PoolInv.grun C CF uc ops in
  (forall b, PoolArith.begin_ok A size (beg b)) ->
  (forall b b', b <> b' -> ~ In b (PoolConc.returned w) -> ~ In b' (PoolConc.returned w) ->
     beg b + size <= beg b' \/ beg b' + size <= beg b) ->
  forall p p' bk bk', In bk (PoolConc.live (PoolConc.getp w p)) -> In bk' (PoolConc.live (PoolConc.getp w p')) -> bk <> bk' ->
  let a := PoolAddr.addr_of C B A beg bk in let a' := PoolAddr.addr_of C B A beg bk' in
  ~ In (fst bk) (PoolConc.returned w) /\
  a mod A = 0 /\ beg (fst bk) <= a /\ a + B <= beg (fst bk) + size /\ (a + B <= a' \/ a' + B <= a).
Proof. exact PoolAddr.live_blocks_disjoint_all_histories. Qed.
Print Assumptions C09_live_blocks_disjoint_aligned_inside_all_histories.

(* (3) END TO END, in the property's words.  After EVERY history of Allocate / Deallocate / MergeFrom on two pools: every block
   that is handed out (live) is aligned to blockAlignment, lies inside the memory block the manager gave for its buffer (which
   is still owned), overlaps no other live block of either pool and none of the pool's own bookkeeping bytes of any owned
   buffer, and GetAllocateCount of each pool equals the number of its live blocks. *)
Theorem C09_end_to_end : forall C B A CF uc beg ops,
  PoolArith.legal C B A ->
  let size := Gen_MemPool.pvGetBufferSize C B A in
  let w := PoolInv.grun C CF uc ops in
  (forall b, PoolArith.begin_ok A size (beg b)) ->
  (forall b b', b <> b' -> ~ In b (PoolConc.returned w) -> ~ In b' (PoolConc.returned w) ->
     beg b + size <= beg b' \/ beg b' + size <= beg b) ->
  (forall p, PoolConc.acount (PoolConc.getp w p) = PoolConc.lenz (PoolConc.live (PoolConc.getp w p))) /\
  forall p bk, In bk (PoolConc.live (PoolConc.getp w p)) ->
    let a := PoolAddr.addr_of C B A beg bk in
    a mod A = 0 /\ beg (fst bk) <= a /\ a + B <= beg (fst bk) + size /\ ~ In (fst bk) (PoolConc.returned w) /\
    (forall p' bk', In bk' (PoolConc.live (PoolConc.getp w p')) -> bk' <> bk ->
       let a' := PoolAddr.addr_of C B A beg bk' in a + B <= a' \/ a' + B <= a) /\
    (forall b' q len, ~ In b' (PoolConc.returned w) -> In (q, len) (PoolAddr.meta_of C B A beg b') -> q + len <= a \/ a + B <= q).
Proof. exact PoolAddr.end_to_end. Qed.
Print Assumptions C09_end_to_end.

(* (4) the signed 8-bit indexes never overflow for blockCount <= 127: every block index firstBlockIndex + j (hence every
   next-free index stored in a free block and BufferBytes.firstFreeBlockIndex), the ++blockIndex of pvNewBuffer's loop and
   firstBlockIndex + int8_t(i) of pvDeleteBlocks fit int8_t, never equal the terminator -128, and freeBlockCount <= blockCount
   fits too. *)
Theorem C09_index_width : forall C B A begin,
  PoolArith.legal C B A -> PoolArith.begin_ok A (Gen_MemPool.pvGetBufferSize C B A) begin ->
  exists fb first buffer,
    PoolLayout.new_buffer_layout C B A begin = Ok (fb, fb - begin, first, buffer) /\
    wrapS 8 C = C /\
    forall j, 0 <= j < C ->
      -127 <= first + j <= 126 /\ wrapS 8 (first + j) = first + j /\ first + j <> -128 /\
      wrapS 8 (first + j + 1) = first + j + 1 /\ wrapS 8 (first + wrapS 8 j) = first + j.
Proof. exact PoolAddr.index_width. Qed.
Print Assumptions C09_index_width.

(* DeallocateAll (also what the destructor runs for blockCount > 1) keeps the invariant ... *)
Theorem C09_inv_DeallocateAll : forall C q w, PoolInv.Jq C q None w -> PoolInv.Jq C q None (PoolConc.DeallocateAll w q).
Proof. exact PoolInv.DeallocateAll_J. Qed.
Print Assumptions C09_inv_DeallocateAll.

(* ... and returns everything (the property's last sentence): afterwards the pool owns no buffer, nothing is live or cached,
   its counter is 0, every buffer it owned is in the list of buffers returned to the manager, and the other pool is untouched.
   (Returned ids are never owned again and never reused: C09_never_returned_while_live_all_histories, C09_inv_all_histories.) *)
Theorem C09_deallocate_all_returns_everything : forall C q w,
  PoolInv.Jq C q None w -> PoolConc.lfree (PoolConc.getp w q) <> [] ->
  let w' := PoolConc.DeallocateAll w q in
  PoolInv.own (PoolConc.getp w' q) = [] /\ PoolConc.live (PoolConc.getp w' q) = [] /\ PoolConc.cache (PoolConc.getp w' q) = [] /\
  PoolConc.acount (PoolConc.getp w' q) = 0 /\
  (forall b, In b (PoolInv.own (PoolConc.getp w q)) -> In b (PoolConc.returned w')) /\
  PoolConc.getp w' (negb q) = PoolConc.getp w (negb q).
Proof. exact PoolInv.DeallocateAll_returns_everything. Qed.
Print Assumptions C09_deallocate_all_returns_everything.

(* after EVERY history (Allocate / Deallocate / MergeFrom / DeallocateAll): the list of buffers given back to the memory manager
   has no repetition - every buffer is returned at most once (and never while one of its blocks is live:
   C09_never_returned_while_live_all_histories; after DeallocateAll / the destructor every owned buffer is in that list:
   C09_deallocate_all_returns_everything).  Together: all memory is returned exactly once. *)
Theorem C09_every_buffer_returned_at_most_once : forall C, 1 <= C -> forall CF uc ops,
  NoDup (PoolConc.returned (PoolInv.grun C CF uc ops)).
Proof. exact PoolInv.returned_once. Qed.
Print Assumptions C09_every_buffer_returned_at_most_once.

(* Swap and move assignment (pool d = std::move(other), legal when d has no allocated block; the old state's destructor runs
   DeallocateAll) keep the invariant; they are part of the history alphabet of C09_inv_all_histories / C09_end_to_end. *)
Theorem C09_inv_Swap : forall C w, PoolInv.J C w -> PoolInv.J C (PoolConc.Swap w).
Proof. exact PoolInv.Swap_J. Qed.
Print Assumptions C09_inv_Swap.

Theorem C09_inv_MoveAssign : forall C w d, PoolInv.J C w -> PoolInv.J C (PoolConc.MoveAssign w d).
Proof. exact PoolInv.MoveAssign_J. Qed.
Print Assumptions C09_inv_MoveAssign.

(* THE INVARIANT EXTENDED BY THE COMPLETENESS CLAUSE (every block of an owned buffer is in its buffer's free chain, live, cached
   or the block in transit) holds after EVERY history over the FULL alphabet: Allocate, Deallocate (of live blocks), MergeFrom,
   DeallocateAll, Swap, move assignment AND DeallocateIf (with an arbitrary filter), on both pools. *)
Theorem C09_inv_all_histories_full : forall C, 1 <= C -> forall CF uc ops,
  PoolInv.J C (PoolCompl.frun C CF uc ops) /\ PoolCompl.Compl C false None (PoolCompl.frun C CF uc ops) /\
  PoolInv.nocache uc (PoolCompl.frun C CF uc ops).
Proof. exact PoolCompl.JC_all_histories. Qed.
Print Assumptions C09_inv_all_histories_full.

(* DeallocateIf / pvDeleteBlocks (682-706, 360-384) preserve the invariant and the completeness clause for every filter, and the
   blocks live afterwards were live before (nothing is invented). *)
Theorem C09_inv_DeallocateIf : forall C, 1 <= C -> forall uc p f w,
  (uc = false -> PoolConc.cache (PoolConc.getp w p) = []) -> PoolCompl.JC C p None w ->
  PoolCompl.JC C p None (PoolConc.DeallocateIf C uc w p f) /\
  (forall bk, In bk (PoolConc.live (PoolConc.getp (PoolConc.DeallocateIf C uc w p f) p)) -> In bk (PoolConc.live (PoolConc.getp w p))).
Proof. exact PoolCompl.DeallocateIf_JC. Qed.
Print Assumptions C09_inv_DeallocateIf.

(* C09_deallocate_if_frees_exactly_selected: in every state satisfying the invariant with completeness (hence after every
   history over the full alphabet, C09_inv_all_histories_full), DeallocateIf with an ARBITRARY filter f leaves live in that pool
   exactly the previously live blocks with f = false - every selected live block is freed, every other live block stays -,
   leaves the other pool's live blocks untouched, and the counter equals the new number of live blocks. *)
Theorem C09_deallocate_if_frees_exactly_selected : forall C, 1 <= C -> forall uc p f w,
  (uc = false -> PoolConc.cache (PoolConc.getp w p) = []) -> PoolCompl.JC C p None w ->
  let w' := PoolConc.DeallocateIf C uc w p f in
  (forall bk, In bk (PoolConc.live (PoolConc.getp w' p)) <-> In bk (PoolConc.live (PoolConc.getp w p)) /\ f bk = false) /\
  PoolConc.live (PoolConc.getp w' (negb p)) = PoolConc.live (PoolConc.getp w (negb p)) /\
  PoolConc.acount (PoolConc.getp w' p) = PoolConc.lenz (PoolConc.live (PoolConc.getp w' p)).
Proof. exact PoolCompl.DeallocateIf_exact. Qed.
Print Assumptions C09_deallocate_if_frees_exactly_selected.

(* blockCount = 1, address level: two different blocks of single-block pools (two manager allocations that do not overlap) are
   aligned, inside their manager blocks and disjoint, for every alignment 1..1024 and all 16-aligned manager addresses.  The
   history-level invariant of the single-block model PoolOne.v (Inv1) is stated but NOT proved. *)
Theorem C09_block1_addresses_partial : forall B A beg b b',
  1 <= A <= 1024 -> 0 < B < 2 ^ 62 ->
  (forall x, 0 < beg x /\ beg x mod 16 = 0 /\ beg x + B + A + 2 < 2 ^ 64) ->
  b <> b' ->
  (beg b + PoolOne.size1 B A beg b <= beg b' \/ beg b' + PoolOne.size1 B A beg b' <= beg b) ->
  PoolOne.addr1 B A beg b mod A = 0 /\ beg b <= PoolOne.addr1 B A beg b /\
  PoolOne.addr1 B A beg b + B <= beg b + PoolOne.size1 B A beg b /\
  (PoolOne.addr1 B A beg b + B <= PoolOne.addr1 B A beg b' \/ PoolOne.addr1 B A beg b' + B <= PoolOne.addr1 B A beg b).
Proof. exact PoolOne.one_block_addresses. Qed.
Print Assumptions C09_block1_addresses_partial.

(* (3') END TO END over the FULL alphabet - Allocate, Deallocate, MergeFrom, DeallocateAll, Swap, move assignment AND DeallocateIf
   (arbitrary filters): after every such history, every block that is handed out is aligned, inside the still-owned manager
   block of its buffer, disjoint from every other live block of either pool and from the bookkeeping bytes of every owned
   buffer, and GetAllocateCount = number of live blocks.  (C09_end_to_end is the same statement for the alphabet without
   DeallocateIf; both follow from the state-level lemma PoolAddr.end_to_end_state and the invariant.) *)
Theorem C09_end_to_end_full : forall C B A CF uc beg ops,
  PoolArith.legal C B A ->
  let size := Gen_MemPool.pvGetBufferSize C B A in
  let w := PoolCompl.frun C CF uc ops in
  (forall b, PoolArith.begin_ok A size (beg b)) ->
  (forall b b', b <> b' -> ~ In b (PoolConc.returned w) -> ~ In b' (PoolConc.returned w) ->
     beg b + size <= beg b' \/ beg b' + size <= beg b) ->
  (forall p, PoolConc.acount (PoolConc.getp w p) = PoolConc.lenz (PoolConc.live (PoolConc.getp w p))) /\
  forall p bk, In bk (PoolConc.live (PoolConc.getp w p)) ->
    let a := PoolAddr.addr_of C B A beg bk in
    a mod A = 0 /\ beg (fst bk) <= a /\ a + B <= beg (fst bk) + size /\ ~ In (fst bk) (PoolConc.returned w) /\
    (forall p' bk', In bk' (PoolConc.live (PoolConc.getp w p')) -> bk' <> bk ->
       let a' := PoolAddr.addr_of C B A beg bk' in a + B <= a' \/ a' + B <= a) /\
    (forall b' q len, ~ In b' (PoolConc.returned w) -> In (q, len) (PoolAddr.meta_of C B A beg b') -> q + len <= a \/ a + B <= q).
Proof. exact PoolAddr.end_to_end_full. Qed.
Print Assumptions C09_end_to_end_full.

(* every buffer is returned to the manager at most once - over the FULL alphabet (Allocate, Deallocate, MergeFrom, DeallocateAll,
   Swap, move assignment, DeallocateIf) *)
Theorem C09_every_buffer_returned_at_most_once_full : forall C, 1 <= C -> forall CF uc ops,
  NoDup (PoolConc.returned (PoolCompl.frun C CF uc ops)).
Proof. exact PoolCompl.returned_once_full. Qed.
Print Assumptions C09_every_buffer_returned_at_most_once_full.

(* after fix e4ec548: for EVERY block size accepted by pvCheckParams (any blockCount 1..127, alignment 1..1024) the buffer sizes
   pvGetBufferSize / pvGetBufferSize1 computed in size_t do not wrap: they equal their mathematical values, are < 2^64, and the
   multi-block buffer really holds blockCount blocks. *)
Theorem C09_check_params_no_wrap : forall C B A, PoolLayout.check_params C B A = true ->
  Gen_MemPool.pvGetBufferSize C B A =
    C * B + PoolArith.addend A + (2 + (B / A) mod 2) * A + (if 3 <=? A then 0 else 2) + 18 /\
  Gen_MemPool.pvGetBufferSize C B A < 2 ^ 64 /\ C * B <= Gen_MemPool.pvGetBufferSize C B A /\
  Gen_MemPool.pvGetBufferSize1 B A = B + PoolArith.addend A + 2 /\ Gen_MemPool.pvGetBufferSize1 B A < 2 ^ 64.
Proof. exact PoolArith.check_params_no_wrap. Qed.
Print Assumptions C09_check_params_no_wrap.

(* the check as coded BEFORE the fix accepted blockCount 127, alignment 1, blockSize (2^64-1)/127 although the buffer size
   wraps below blockCount*blockSize (defect found by this check; the pool then wrote outside its 21-byte buffer) *)
Theorem C09_check_params_prefix_refuted :
  exists C B A, PoolArith.check_params_prefix C B A = true /\ Gen_MemPool.pvGetBufferSize C B A < C * B.
Proof. exact PoolArith.check_params_prefix_refuted. Qed.
Print Assumptions C09_check_params_prefix_refuted.

(* MemPoolConst::GetBlockAlignment (GENERATED from the recursive constexpr function; fuel exhaustion would be the outcome Fuel):
   for a power-of-two maxAlignment 2^k and any block size it returns the largest power of two <= maxAlignment and <= max(blockSize,1) *)
Theorem C09_get_block_alignment_spec : forall bs k, 0 <= bs -> (k <= 63)%nat ->
  exists i, (i <= k)%nat /\ Gen_MemPoolConst.GetBlockAlignment bs (2 ^ Z.of_nat k) = Ok (2 ^ Z.of_nat i)
    /\ (2 ^ Z.of_nat i <= bs \/ i = O) /\ (i = k \/ bs < 2 ^ (Z.of_nat i + 1)).
Proof. exact PoolArith.get_block_alignment_spec. Qed.
Print Assumptions C09_get_block_alignment_spec.

(* MemPoolParams(blockSize) = MemPoolParams(blockSize, GetBlockAlignment(blockSize)) with the default maxAlignment 16: the
   alignment is a power of two <= 16 accepted by CheckBlockAlignment and the corrected parameters pass pvCheckParams *)
Theorem C09_default_alignment_params_ok : forall C bs, 1 <= C <= 127 -> 0 <= bs <= 2 ^ 48 ->
  exists a, Gen_MemPoolConst.GetBlockAlignment bs 16 = Ok a /\ (a = 1 \/ a = 2 \/ a = 4 \/ a = 8 \/ a = 16) /\ (a <= bs \/ a = 1)
    /\ Gen_MemPoolConst.CheckBlockAlignment a = true
    /\ PoolLayout.check_params C (Gen_MemPoolConst.CorrectBlockSize bs a C) a = true.
Proof. exact PoolArith.default_alignment_params_ok. Qed.
Print Assumptions C09_default_alignment_params_ok.

(* pvCheckParams GENERATED (MOMO_CHECKs under the default check mode + the length_error test): Ok exactly when the hand mirror
   check_params holds; failed MOMO_CHECK = Stuck, too large block size = Exn; and every size the GENERATED check accepts has
   non-wrapping buffer sizes (reverting e4ec548 breaks check_params_generated) *)
Theorem C09_check_params_generated : forall C B A,
  Gen_MemPool.pvCheckParams C B A = if PoolLayout.check_params C B A then Ok tt
    else if Gen_MemPoolConst.CheckBlockCount C && Gen_MemPoolConst.CheckBlockAlignment A && (0 <? B)
            && ((C =? 1) || (B mod A =? 0)) && ((C =? 1) || (2 <=? B / A)) then Exn else Stuck.
Proof. exact PoolArith.check_params_generated. Qed.
Print Assumptions C09_check_params_generated.

Theorem C09_check_params_generated_no_wrap : forall C B A, Gen_MemPool.pvCheckParams C B A = Ok tt ->
  Gen_MemPool.pvGetBufferSize C B A =
    C * B + PoolArith.addend A + (2 + (B / A) mod 2) * A + (if 3 <=? A then 0 else 2) + 18 /\
  Gen_MemPool.pvGetBufferSize C B A < 2 ^ 64 /\ C * B <= Gen_MemPool.pvGetBufferSize C B A /\
  Gen_MemPool.pvGetBufferSize1 B A = B + PoolArith.addend A + 2 /\ Gen_MemPool.pvGetBufferSize1 B A < 2 ^ 64.
Proof. exact PoolArith.check_params_generated_no_wrap. Qed.
Print Assumptions C09_check_params_generated_no_wrap.

(* pvNewBlock GENERATED, the manager request inside pvNewBuffer() as a step that may throw: a refused request leaves
   mFreeBufferHead and every BufferBytes / next / prev cell of every buffer exactly as they were *)
Theorem C09_newblock_refused_writes_nothing : forall fresh B A hd bf bcnt nx pv nfi,
  Gen_MemPoolBlk.pvNewBlock fresh B A hd bf bcnt nx pv nfi true =
    if PoolBlk.requests hd bcnt nx then Ok (None, hd, bf, bcnt, nx, pv)
    else Gen_MemPoolBlk.pvNewBlock fresh B A hd bf bcnt nx pv nfi false.
Proof. exact PoolBlk.newblock_refused_writes_nothing. Qed.
Print Assumptions C09_newblock_refused_writes_nothing.

Theorem C09_newblock_failure_atomic : forall fresh B A hd bf bcnt nx pv nfi r hd' bf' bcnt' nx' pv' fails,
  Gen_MemPoolBlk.pvNewBlock fresh B A hd bf bcnt nx pv nfi fails = Ok (r, hd', bf', bcnt', nx', pv') ->
  (r = None <-> fails = true /\ PoolBlk.requests hd bcnt nx = true) /\
  (r = None -> hd' = hd /\ bf' = bf /\ bcnt' = bcnt /\ nx' = nx /\ pv' = pv).
Proof. exact PoolBlk.newblock_failure_atomic. Qed.
Print Assumptions C09_newblock_failure_atomic.

(* the successful call as a function of the state: the block handed out and EXACTLY the cells written *)
Theorem C09_newblock_spec : forall fresh B A hd bf bcnt nx pv nfi,
  let hd' := if hd =? 0 then fresh else hd in
  let need := (bcnt hd' =? 1) && (nx hd' =? 0) in
  let nb := if need then fresh else nx hd' in
  let blk := Gen_MemPool.pvGetBlock B A hd' (bf hd') in
  Gen_MemPoolBlk.pvNewBlock fresh B A hd bf bcnt nx pv nfi false =
    Ok (Some blk, (if bcnt hd' - 1 =? 0 then nb else hd'), upd bf hd' (nfi blk), upd bcnt hd' (bcnt hd' - 1),
        (if need then upd nx hd' fresh else nx), (if need then upd pv fresh hd' else pv)).
Proof. exact PoolBlk.newblock_spec. Qed.
Print Assumptions C09_newblock_spec.

Theorem C09_newblock_frame : forall fresh B A hd bf bcnt nx pv nfi blk hd2 bf' bcnt' nx' pv',
  Gen_MemPoolBlk.pvNewBlock fresh B A hd bf bcnt nx pv nfi false = Ok (Some blk, hd2, bf', bcnt', nx', pv') ->
  let hd' := if hd =? 0 then fresh else hd in
  (forall b, b <> hd' -> bf' b = bf b /\ bcnt' b = bcnt b /\ nx' b = nx b) /\ (forall b, b <> fresh -> pv' b = pv b) /\
  bcnt' hd' = bcnt hd' - 1 /\ blk = Gen_MemPool.pvGetBlock B A hd' (bf hd') /\ bf' hd' = nfi blk.
Proof. exact PoolBlk.newblock_frame. Qed.
Print Assumptions C09_newblock_frame.

(* ONE-STEP REFINEMENT generated pvNewBlock -> hand model PoolConc.pvNewBlock (buffer addresses = the model's buffer ids): if the
   pointer-level state is related to the model world (head = first buffer of the free part, next pointers along it, BufferBytes =
   the model's, next-free index stored in each buffer's first free block = the model's) and the cells pvNewBuffer() writes are present
   at the fresh address, the GENERATED function hands out the block the model hands out, ends in the model's head, leaves the model's
   BufferBytes and list links, and asks the manager exactly when the model creates a buffer - so what the whole-history invariant
   says about PoolConc.pvNewBlock is said about the generated code *)
Theorem C09_newblock_refines_model : forall C B A, 2 <= C -> forall w p hd bf bcnt nx pv nfi,
  PoolBlkRefine.Rel B A w p hd bf bcnt nx nfi -> PoolBlkRefine.PreInit C B A w bf bcnt nx nfi ->
  let fresh := PoolConc.fresh w in
  let '(w', (b, i)) := PoolConc.pvNewBlock C w p in
  let requested := negb (PoolConc.fresh w' =? fresh) in
  exists hd2 bf' bcnt' nx' pv',
    Gen_MemPoolBlk.pvNewBlock fresh B A hd bf bcnt nx pv nfi false = Ok (Some (Gen_MemPool.pvGetBlock B A b i), hd2, bf', bcnt', nx', pv') /\
    PoolBlk.requests hd bcnt nx = requested /\
    hd2 = PoolConc.hd0 (PoolConc.lfree (PoolConc.getp w' p)) /\ PoolBlkRefine.linked nx' (PoolConc.lfree (PoolConc.getp w' p)) /\
    (forall c, c <> fresh \/ requested = true -> bf' c = PoolConc.fb w' c /\ bcnt' c = PoolConc.fc w' c).
Proof. exact PoolBlkRefine.newblock_refines. Qed.
Print Assumptions C09_newblock_refines_model.

(* the pvNewBlock refinement as an INDUCTIVE SIMULATION (PoolBlkSim.v): buffer id k of the model lives at address adr k (any injective
   map, adr 0 = 0); Sim = head, next pointers along the model's list, BufferBytes, the next-free index stored in EVERY block of every
   existing buffer = the model's, and the cells of every future buffer as pvNewBuffer() initialises them.  One generated step = one
   model step and Sim holds again; hence for every number n of allocations (pvNewBlock calls) on a pool with blockCount >= 2 the
   iterated GENERATED function hands out exactly the blocks the hand model hands out, in the same order *)
Theorem C09_newblock_simulation_step : forall C B A adr, 2 <= C -> adr 0 = 0 -> (forall a b, adr a = adr b -> a = b) ->
  forall w p hd bf bcnt nx pv nfi, PoolBlkSim.Sim C B A adr w p hd bf bcnt nx nfi -> PoolBlkSim.head_ok C w p ->
  let '(w', (b, i)) := PoolConc.pvNewBlock C w p in
  exists hd2 bf' bcnt' nx' pv',
    Gen_MemPoolBlk.pvNewBlock (adr (PoolConc.fresh w)) B A hd bf bcnt nx pv nfi false =
      Ok (Some (Gen_MemPool.pvGetBlock B A (adr b) i), hd2, bf', bcnt', nx', pv') /\
    PoolConc.fresh w' = (if PoolBlk.requests hd bcnt nx then PoolConc.fresh w + 1 else PoolConc.fresh w) /\
    PoolBlkSim.Sim C B A adr w' p hd2 bf' bcnt' nx' nfi.
Proof. exact PoolBlkSim.sim_step. Qed.
Print Assumptions C09_newblock_simulation_step.

Theorem C09_newblock_simulation_all_allocations : forall C B A adr, 2 <= C -> adr 0 = 0 -> (forall a b, adr a = adr b -> a = b) ->
  forall n w p hd bf bcnt nx pv nfi, PoolBlkSim.Sim C B A adr w p hd bf bcnt nx nfi -> PoolBlkSim.okalloc C n w p ->
  exists hd' bf' bcnt' nx' pv',
    PoolBlkSim.grun B A adr n (PoolConc.fresh w) hd bf bcnt nx pv nfi =
      Some (map (fun bk => Gen_MemPool.pvGetBlock B A (adr (fst bk)) (snd bk)) (fst (PoolBlkSim.mrun C n w p)), (hd', bf', bcnt', nx', pv')) /\
    PoolBlkSim.Sim C B A adr (snd (PoolBlkSim.mrun C n w p)) p hd' bf' bcnt' nx' nfi.
Proof. exact PoolBlkSim.sim_run. Qed.
Print Assumptions C09_newblock_simulation_all_allocations.

(* Sim holds for the empty pool when the future buffers' cells are pre-initialised *)
Theorem C09_newblock_simulation_initial : forall C B A adr, adr 0 = 0 -> forall p bf bcnt nx nfi,
  (forall k, 1 <= k -> bf (adr k) = 0 /\ bcnt (adr k) = C /\ nx (adr k) = 0 /\
                       forall j, 0 <= j < C -> nfi (Gen_MemPool.pvGetBlock B A (adr k) j) = PoolBlkSim.chainv C j) ->
  PoolBlkSim.Sim C B A adr PoolConc.empty_world p 0 bf bcnt nx nfi.
Proof. exact PoolBlkSim.sim_init. Qed.
Print Assumptions C09_newblock_simulation_initial.

(* Sim extended to Deallocate through the GENERATED pvDeleteBlock3 - PARTIAL: deallocations after which the buffer's free count is
   neither 1 nor blockCount (no pvMoveBufferToHead, no pvDeleteBuffer); block addresses of different (buffer, index) pairs distinct.
   One generated step = one PoolConc.pvDeleteBlock step and Sim holds again *)
Theorem C09_deleteblock_simulation_step_partial : forall C B A adr, (forall a b, adr a = adr b -> a = b) ->
  (forall b j b' j', 0 <= j < C -> 0 <= j' < C ->
     Gen_MemPool.pvGetBlock B A (adr b) j = Gen_MemPool.pvGetBlock B A (adr b') j' -> b = b' /\ j = j') ->
  forall w p hd bf bcnt nx pv nfi b j, PoolBlkSim.Sim C B A adr w p hd bf bcnt nx nfi ->
  0 < b < PoolConc.fresh w -> 0 <= j < C ->
  let c1 := PoolConc.fc w b + 1 in
  0 <= c1 < 2 ^ 63 -> c1 <> 1 -> c1 <> C ->
  exists bf' bcnt' nfi',
    Gen_MemPoolDel.pvDeleteBlock3 C B A hd 0 bf bcnt nx pv nfi (Gen_MemPool.pvGetBlock B A (adr b) j) (adr b) j =
      Ok (tt, hd, 0, bf', bcnt', nx, pv, nfi') /\
    PoolBlkSim.Sim C B A adr (PoolConc.pvDeleteBlock C w p (b, j)) p hd bf' bcnt' nx nfi'.
Proof. exact PoolDelSim.sim_del_push_only_partial. Qed.
Print Assumptions C09_deleteblock_simulation_step_partial.

(* Allocate / Deallocate scripts on one pool (cache off) whose deallocations are all of that kind (okrun, evaluated on the model run):
   the iterated GENERATED pvNewBlock / pvDeleteBlock3 complete normally, hand out exactly the model's blocks, and Sim holds at the end *)
Theorem C09_alloc_dealloc_simulation_partial : forall C B A adr, (forall a b, adr a = adr b -> a = b) ->
  (forall b j b' j', 0 <= j < C -> 0 <= j' < C ->
     Gen_MemPool.pvGetBlock B A (adr b) j = Gen_MemPool.pvGetBlock B A (adr b') j' -> b = b' /\ j = j') ->
  2 <= C -> adr 0 = 0 ->
  forall ops w p hd bf bcnt nx pv nfi, PoolBlkSim.Sim C B A adr w p hd bf bcnt nx nfi -> PoolDelSim.okrun C ops w p ->
  exists hd' bf' bcnt' nx' pv' nfi',
    PoolDelSim.grun2 C B A adr ops (PoolConc.fresh w) hd bf bcnt nx pv nfi =
      Some (map (fun bk => Gen_MemPool.pvGetBlock B A (adr (fst bk)) (snd bk)) (fst (PoolDelSim.mrun2 C ops w p)), (hd', bf', bcnt', nx', pv', nfi')) /\
    PoolBlkSim.Sim C B A adr (snd (PoolDelSim.mrun2 C ops w p)) p hd' bf' bcnt' nx' nfi'.
Proof. exact PoolDelSim.sim_run_alloc_dealloc_partial. Qed.
Print Assumptions C09_alloc_dealloc_simulation_partial.

(* NON-VACUITY of the simulation theorems: all their hypotheses (injective adr, adr 0 = 0, distinct block addresses for valid indexes,
   blockCount >= 2, Sim, head_ok) hold together for a concrete pool - blockCount 4, blockSize 8, alignment 8, buffer k at address 1024 k -
   in its initial state.  (The indexes in Sim and in the block-address hypothesis range over 0 <= j < blockCount; the versions of the
   previous two rounds quantified over all integers j, which no address map satisfies - corrected in this round.) *)
Theorem C09_simulation_hypotheses_satisfiable :
  exists C B A adr,
    (forall a b, adr a = adr b -> a = b) /\
    (forall b j b' j', 0 <= j < C -> 0 <= j' < C ->
       Gen_MemPool.pvGetBlock B A (adr b) j = Gen_MemPool.pvGetBlock B A (adr b') j' -> b = b' /\ j = j') /\
    2 <= C /\ adr 0 = 0 /\
    exists p bf bcnt nx nfi, PoolBlkSim.Sim C B A adr PoolConc.empty_world p 0 bf bcnt nx nfi /\ PoolBlkSim.head_ok C PoolConc.empty_world p.
Proof. exact PoolDelSim.sim_hypotheses_satisfiable. Qed.
Print Assumptions C09_simulation_hypotheses_satisfiable.

(* the hypotheses Rel / PreInit of the refinement theorem are satisfiable (initial world, cells of buffer 1 pre-initialised) *)
Theorem C09_newblock_refinement_hypotheses_satisfiable : forall C B A,
  exists w p hd bf bcnt nx nfi, PoolBlkRefine.Rel B A w p hd bf bcnt nx nfi /\ PoolBlkRefine.PreInit C B A w bf bcnt nx nfi.
Proof. exact PoolBlkRefine.rel_nonvacuous. Qed.
Print Assumptions C09_newblock_refinement_hypotheses_satisfiable.

Theorem C09_newblock_refusal_matches_model : forall C B A, 2 <= C -> forall w p hd bf bcnt nx pv nfi,
  PoolBlkRefine.Rel B A w p hd bf bcnt nx nfi -> PoolBlkRefine.PreInit C B A w bf bcnt nx nfi ->
  Gen_MemPoolBlk.pvNewBlock (PoolConc.fresh w) B A hd bf bcnt nx pv nfi true =
    if negb (PoolConc.fresh (fst (PoolConc.pvNewBlock C w p)) =? PoolConc.fresh w) then Ok (None, hd, bf, bcnt, nx, pv)
    else Gen_MemPoolBlk.pvNewBlock (PoolConc.fresh w) B A hd bf bcnt nx pv nfi false.
Proof. exact PoolBlkRefine.newblock_refusal_matches_model. Qed.
Print Assumptions C09_newblock_refusal_matches_model.

(* pvMoveBufferToHead / pvDeleteBuffer (list part) GENERATED = the hand list models (which carry the dll theorems); pvDeleteBlock(block,
   buffer, index) GENERATED (incl. the two calls) = a closed formula over them: nfi[block] := old first free index, BufferBytes of the
   buffer := (index, count+1), count 1 -> move to head, count = blockCount -> delete unless it is the head without successor *)
Theorem C09_generated_movetohead_is_model : forall B A head del bf bc nx pv nfi buffer,
  Gen_MemPoolDel.pvMoveBufferToHead B A head del bf bc nx pv nfi buffer =
    match PoolLinks.move_to_head (PoolLinks.mkHeap pv nx) head buffer with
    | Some (h, hd') => Ok (tt, hd', PoolLinks.hnext h, PoolLinks.hprev h) | None => Stuck end.
Proof. exact PoolDelGen.generated_movetohead_is_model. Qed.
Print Assumptions C09_generated_movetohead_is_model.

Theorem C09_generated_deletebuffer_is_model : forall B A head del bf bc nx pv nfi buffer,
  Gen_MemPoolDel.pvDeleteBuffer B A head del bf bc nx pv nfi buffer =
    match PoolLinks.delete_buffer (PoolLinks.mkHeap pv nx) head buffer with
    | Some h => Ok (tt, PoolLinks.hnext h, PoolLinks.hprev h) | None => Stuck end.
Proof. exact PoolDelGen.generated_deletebuffer_is_model. Qed.
Print Assumptions C09_generated_deletebuffer_is_model.

Theorem C09_generated_movetohead_dll_inv : forall B A del bf bc nx pv nfi L M R b head,
  PoolLinksProofs.dll (PoolLinks.mkHeap pv nx) (L ++ b :: M ++ head :: R) ->
  exists nx' pv', Gen_MemPoolDel.pvMoveBufferToHead B A head del bf bc nx pv nfi b = Ok (tt, b, nx', pv') /\
    PoolLinksProofs.dll (PoolLinks.mkHeap pv' nx') (L ++ M ++ b :: head :: R).
Proof. exact PoolDelGen.generated_movetohead_dll. Qed.
Print Assumptions C09_generated_movetohead_dll_inv.

Theorem C09_generated_deleteblock_is_model : forall C B A head bf bc nx pv nfi block buffer idx,
  Gen_MemPoolDel.pvDeleteBlock3 C B A head 0 bf bc nx pv nfi block buffer idx =
    match PoolDelGen.delblock_model C head bf bc (PoolLinks.mkHeap pv nx) nfi block buffer idx with
    | Some (hd, del, bf', bc', h, nfi') => Ok (tt, hd, del, bf', bc', PoolLinks.hnext h, PoolLinks.hprev h, nfi')
    | None => Stuck end.
Proof. exact PoolDelGen.generated_deleteblock_is_model. Qed.
Print Assumptions C09_generated_deleteblock_is_model.

(* pvNewBuffer GENERATED AS A WHOLE (address part, pvGetBlockIndex, first-block index, BufferBytes, prev/next, begin offset, the loop
   threading the free chain through the blocks): for all legal parameters and manager addresses it returns the buffer of the layout
   theorem, sets exactly that buffer's bookkeeping cells, stores in block j the index of block j+1 (the last one -128), and changes
   no other cell of any map *)
Theorem C09_generated_newbuffer_full : forall C B A, PoolArith.legal C B A -> forall bf bc nx pv nfi fbi bo begin,
  PoolArith.begin_ok A (Gen_MemPool.pvGetBufferSize C B A) begin ->
  exists fb first buffer nfi',
    PoolLayout.new_buffer_layout C B A begin = Ok (fb, fb - begin, first, buffer) /\
    Gen_MemPoolNewBuf.pvNewBuffer C B A bf bc nx pv nfi fbi bo begin =
      Ok (buffer, upd bf buffer first, upd bc buffer (wrapS 8 C), upd nx buffer 0, upd pv buffer 0, nfi',
          upd fbi buffer first, upd bo buffer (wrapU 16 (fb - begin))) /\
    (forall j, 0 <= j < C - 1 -> nfi' (PoolLayout.block_of B A buffer first j) = first + j + 1) /\
    nfi' (PoolLayout.block_of B A buffer first (C - 1)) = -128 /\
    (forall a, (forall j, 0 <= j < C -> a <> PoolLayout.block_of B A buffer first j) -> nfi' a = nfi a).
Proof. exact PoolNewBufGen.generated_newbuffer_full. Qed.
Print Assumptions C09_generated_newbuffer_full.

(* the list surgery of MergeFrom GENERATED (both loops) = the hand model PoolLinks.merge_from for every fuel and heap; hence the dll
   theorem is a theorem about the generated code (reverting 7f37c9f breaks generated_mergefrom_is_model) *)
Theorem C09_generated_mergefrom_is_model : forall fuel h1 h2 nx pv,
  Gen_MemPoolMerge.MergeFrom fuel h1 h2 nx pv =
    match PoolLinks.merge_from fuel (PoolLinks.mkHeap pv nx) h1 h2 with
    | Some (h, a, b) => Ok (tt, a, b, PoolLinks.hnext h, PoolLinks.hprev h) | None => Fuel end.
Proof. exact PoolMergeGen.generated_mergefrom_is_model. Qed.
Print Assumptions C09_generated_mergefrom_is_model.

Theorem C09_generated_mergefrom_dll_inv : forall nx pv L1 R1 L2 R2 head1 head2,
  PoolLinksProofs.dll (PoolLinks.mkHeap pv nx) (L1 ++ head1 :: R1) -> PoolLinksProofs.dll (PoolLinks.mkHeap pv nx) (L2 ++ head2 :: R2) ->
  (forall x, In x (L1 ++ head1 :: R1) -> In x (L2 ++ head2 :: R2) -> False) ->
  exists nx' pv',
    Gen_MemPoolMerge.MergeFrom (S (length (L1 ++ head1 :: R1) + length (L2 ++ head2 :: R2))) head1 head2 nx pv = Ok (tt, head1, 0, nx', pv') /\
    PoolLinksProofs.dll (PoolLinks.mkHeap pv' nx') (L1 ++ rev L2 ++ head1 :: R1 ++ head2 :: R2).
Proof. exact PoolMergeGen.generated_mergefrom_dll. Qed.
Print Assumptions C09_generated_mergefrom_dll_inv.

(* MemPool::Data::Swap (GENERATED): manager sub-object and allocCount of the two pools change places, whether or not the managers
   compare equal; hence "every buffer was obtained from its pool's manager" survives a Swap that also exchanges the buffer lists *)
Theorem C09_data_swap_exchanges_manager_and_count : forall m a dm da, Gen_MemPoolData.Swap m a dm da = (dm, da, m, a).
Proof. exact PoolArith.data_swap_spec. Qed.
Print Assumptions C09_data_swap_exchanges_manager_and_count.

Theorem C09_data_swap_keeps_buffer_owner : forall m a dm da l dl owner,
  PoolArith.owned_by m l owner -> PoolArith.owned_by dm dl owner ->
  let '(m', _, dm', _) := Gen_MemPoolData.Swap m a dm da in PoolArith.owned_by m' dl owner /\ PoolArith.owned_by dm' l owner.
Proof. exact PoolArith.data_swap_keeps_owner. Qed.
Print Assumptions C09_data_swap_keeps_buffer_owner.

(* exchanging the buffer lists without the managers breaks it as soon as the managers differ *)
Theorem C09_swap_without_managers_refuted :
  exists m dm l dl owner, PoolArith.owned_by m l owner /\ PoolArith.owned_by dm dl owner /\
    ~ (PoolArith.owned_by m dl owner /\ PoolArith.owned_by dm l owner).
Proof. exact PoolArith.swap_without_managers_refuted. Qed.
Print Assumptions C09_swap_without_managers_refuted.

(* internal::MemPoolUInt32 (32-bit handles), over the GENERATED GetRealPointer / pvGetBufferSize / pvNewBuffer:
   handle <-> (buffer, offset): different handles below n*blockCount denote disjoint blocks, each inside buffer h / blockCount *)
Theorem C09_u32_handles_disjoint : forall bc bs, 1 <= bc -> 4 <= bs -> bc * bs < 2 ^ 63 ->
  forall mB mN mem mH mM mA n h h',
  0 <= h < n * bc -> 0 <= h' < n * bc -> n * bc <= 4294967295 -> h <> h' ->
  (forall k k', 0 <= k < n -> 0 <= k' < n -> k <> k' -> mB k + bc * bs <= mB k' \/ mB k' + bc * bs <= mB k) ->
  exists a a', Gen_MemPoolUInt32.GetRealPointer bc mB mN mem mH mM bs mA h = Ok a /\
               Gen_MemPoolUInt32.GetRealPointer bc mB mN mem mH mM bs mA h' = Ok a' /\
               0 <= h / bc < n /\ mB (h / bc) <= a /\ a + bs <= mB (h / bc) + Gen_MemPoolUInt32.pvGetBufferSize bc mB mN mem mH mM bs mA /\
               (a + bs <= a' \/ a' + bs <= a).
Proof. exact PoolU32.handles_disjoint. Qed.
Print Assumptions C09_u32_handles_disjoint.

(* pvNewBuffer (GENERATED, incl. the stores of its loop): below the limit maxTotalBlockCount / blockCount the new buffer's handles
   mN*blockCount + i do not wrap in 32 bits and are never the null handle, mBlockHead becomes the first of them, the buffer is
   appended to mBuffers, block i holds the handle of block i+1 (the last one the null handle) and no other memory cell changes;
   at the limit it throws before changing anything *)
Theorem C09_u32_newbuffer_handles_and_refusal : forall bc bs, 1 <= bc -> 4 <= bs -> bc * bs < 2 ^ 63 ->
  forall mB mN mem mH mM mA buffer,
  0 <= mN -> mM * bc <= 4294967294 ->
  (mN < mM ->
     (exists mem', Gen_MemPoolUInt32.pvNewBuffer bc mB mN mem mH mM bs mA buffer = Ok (tt, upd mB mN buffer, mN + 1, mem', mN * bc) /\
        (forall j, 0 <= j < bc -> mem' (buffer + bs * j) = PoolU32.nextval bc mN j) /\
        (forall a, (forall j, 0 <= j < bc -> a <> buffer + bs * j) -> mem' a = mem a)) /\
     forall i, 0 <= i < bc -> 0 <= mN * bc + i < 4294967295 /\ wrapU 32 (mN * bc + i) = mN * bc + i) /\
  (mM <= mN -> Gen_MemPoolUInt32.pvNewBuffer bc mB mN mem mH mM bs mA buffer = Exn).
Proof. exact PoolU32.newbuffer_spec. Qed.
Print Assumptions C09_u32_newbuffer_handles_and_refusal.

(* MemPoolUInt32 free list (PoolU32List.v), over the GENERATED Allocate / Deallocate / DeallocateAll / pvNewBuffer / pvClear:
   every valid step (Allocate with a manager buffer disjoint from the owned ones, Deallocate of an allocated handle, DeallocateAll,
   a user write into an allocated block) is executed without Stuck / Fuel and preserves the free-list invariant *)
Theorem C09_u32_step_preserves_freelist_inv : forall bc bs M, 1 <= bc -> 4 <= bs -> bc * bs < 2 ^ 63 -> 0 <= M /\ M * bc <= 4294967294 ->
  forall s o, PoolU32List.Inv bc bs M s -> PoolU32List.valid bc bs s o ->
  exists s', PoolU32List.step bc bs M s o = Some s' /\ PoolU32List.Inv bc bs M s'.
Proof. exact PoolU32List.step_Inv. Qed.
Print Assumptions C09_u32_step_preserves_freelist_inv.

(* the free-list invariant holds in the state the constructor establishes (no buffer, null head, count 0) *)
Theorem C09_u32_freelist_inv_initial : forall bc bs M, 0 <= M /\ M * bc <= 4294967294 ->
  forall b m, PoolU32List.Inv bc bs M (PoolU32List.init b m).
Proof. exact PoolU32List.Inv_init. Qed.
Print Assumptions C09_u32_freelist_inv_initial.

Theorem C09_u32_freelist_inv_all_histories : forall bc bs M, 1 <= bc -> 4 <= bs -> bc * bs < 2 ^ 63 -> 0 <= M /\ M * bc <= 4294967294 ->
  forall b m os s, PoolU32List.runs bc bs M (PoolU32List.init b m) os s -> PoolU32List.Inv bc bs M s.
Proof. exact PoolU32List.Inv_all_histories. Qed.
Print Assumptions C09_u32_freelist_inv_all_histories.

Theorem C09_u32_never_stuck_all_histories : forall bc bs M, 1 <= bc -> 4 <= bs -> bc * bs < 2 ^ 63 -> 0 <= M /\ M * bc <= 4294967294 ->
  forall b m os s o, PoolU32List.runs bc bs M (PoolU32List.init b m) os s -> PoolU32List.valid bc bs s o ->
  PoolU32List.step bc bs M s o <> None.
Proof. exact PoolU32List.never_stuck. Qed.
Print Assumptions C09_u32_never_stuck_all_histories.

(* what the invariant says: the cells reachable from mBlockHead form a duplicate-free list of handles below bufferCount*blockCount,
   none of them allocated (allocated /\ free = {}), free + allocated = ALL bufferCount*blockCount handles, mAllocCount = |allocated| *)
Theorem C09_u32_free_list_sound : forall bc bs M s, PoolU32List.Inv bc bs M s ->
  exists fl, PoolU32List.flist bc bs (PoolU32List.mem s) (PoolU32List.B s) (PoolU32List.head s) fl /\ NoDup fl /\ NoDup (PoolU32List.alloc s) /\
    (forall h, In h fl -> ~ In h (PoolU32List.alloc s) /\ 0 <= h < PoolU32List.n s * bc /\ h <> PoolU32List.null) /\
    (forall h, In h (PoolU32List.alloc s) -> 0 <= h < PoolU32List.n s * bc) /\
    Z.of_nat (length fl) + Z.of_nat (length (PoolU32List.alloc s)) = PoolU32List.n s * bc /\
    PoolU32List.cnt s = Z.of_nat (length (PoolU32List.alloc s)).
Proof. exact PoolU32List.free_list_sound. Qed.
Print Assumptions C09_u32_free_list_sound.

(* Allocate is either refused with the state unchanged (limit reached, nothing free) or hands out a handle that is not allocated *)
Theorem C09_u32_no_double_hand_out : forall bc bs M, 1 <= bc -> 4 <= bs -> bc * bs < 2 ^ 63 -> 0 <= M /\ M * bc <= 4294967294 ->
  forall s nb s', PoolU32List.Inv bc bs M s -> PoolU32List.valid bc bs s (PoolU32List.OAlloc nb) ->
  PoolU32List.step bc bs M s (PoolU32List.OAlloc nb) = Some s' ->
  (s' = s /\ PoolU32List.head s = PoolU32List.null /\ PoolU32List.n s = M) \/
  (exists blk, PoolU32List.alloc s' = blk :: PoolU32List.alloc s /\ ~ In blk (PoolU32List.alloc s) /\
     0 <= blk < PoolU32List.n s' * bc /\ blk <> PoolU32List.null).
Proof. exact PoolU32List.alloc_fresh. Qed.
Print Assumptions C09_u32_no_double_hand_out.

(* blocks of different allocated handles: the generated GetRealPointer yields addresses >= mBlockSize apart, inside buffer h/blockCount *)
Theorem C09_u32_allocated_blocks_disjoint : forall bc bs M, 1 <= bc -> 4 <= bs -> bc * bs < 2 ^ 63 -> 0 <= M /\ M * bc <= 4294967294 ->
  forall s h h', PoolU32List.Inv bc bs M s -> In h (PoolU32List.alloc s) -> In h' (PoolU32List.alloc s) -> h <> h' ->
  Gen_MemPoolUInt32.GetRealPointer bc (PoolU32List.B s) (PoolU32List.n s) (PoolU32List.mem s) (PoolU32List.head s) M bs (PoolU32List.cnt s) h =
    Ok (PoolU32List.addr bc bs (PoolU32List.B s) h) /\
  0 <= h / bc < PoolU32List.n s /\ PoolU32List.B s (h / bc) <= PoolU32List.addr bc bs (PoolU32List.B s) h /\
  PoolU32List.addr bc bs (PoolU32List.B s) h + bs <= PoolU32List.B s (h / bc) + bc * bs /\
  (PoolU32List.addr bc bs (PoolU32List.B s) h + bs <= PoolU32List.addr bc bs (PoolU32List.B s) h' \/
   PoolU32List.addr bc bs (PoolU32List.B s) h' + bs <= PoolU32List.addr bc bs (PoolU32List.B s) h).
Proof. exact PoolU32List.allocated_blocks_disjoint. Qed.
Print Assumptions C09_u32_allocated_blocks_disjoint.
