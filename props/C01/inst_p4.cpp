// instantiation TU for cxx2coq (C01P): hash-bit packing / reconstruction of the buckets that store hash parts
#include "momo/HashSet.h"
#include "momo/details/HashBucketOpen2N2.h"
#include "momo/details/HashBucketLimP4.h"
#include "momo/details/HashBucketOne.h"
namespace momo { namespace internal {
typedef HashSetItemTraits<uint64_t, MemManagerDefault> C01PIT;
typedef BucketOpen2N2<C01PIT, 3, true> C01PO2;
typedef BucketLimP4<C01PIT, 4, MemPoolParams<>, true> C01PP4;
typedef BucketOne<C01PIT, 1> C01POne;
template class BucketOpen2N2<C01PIT, 3, true>;
template class BucketLimP4<C01PIT, 4, MemPoolParams<>, true>;
template class BucketOne<C01PIT, 1>;
// the three pointer-state packings (32 / 48 / 64 useful pointer bits -> hashCount 8 / 6 / 4)
template class BucketLimP4PtrState<uint64_t, 3, 32>;
template class BucketLimP4PtrState<uint64_t, 3, 48>;
template class BucketLimP4PtrState<uint64_t, 3, 64>;
struct C01PGetter { size_t operator()() const { return 0; } };
struct C01PCreator { void operator()(uint64_t*) const {} };
struct C01PReplacer { void operator()(uint64_t&, uint64_t&) const {} };
struct C01PPred { bool operator()(const uint64_t&) const { return true; } };
// one use of every member template so that clang instantiates the bodies
inline void c12_use(C01PO2& a, C01PO2::Params& pa, C01PP4& b, C01PP4::Params& pb, C01POne& c, C01POne::Params& pc)
{
	C01PGetter g; C01PCreator cr; C01PReplacer rp; C01PPred pr;
	a.template Find<true>(pa, pr, 0); b.template Find<true>(pb, pr, 0); c.template Find<true>(pc, pr, 0);
	auto ia = a.AddCrt(pa, cr, 0, 0, 0); a.GetHashCodePart(g, ia, 0, 0, 0); a.Remove(pa, ia, rp);
	auto ib = b.AddCrt(pb, cr, 0, 0, 0); b.GetHashCodePart(g, ib, 0, 0, 0); b.Remove(pb, ib, rp);
	auto ic = c.AddCrt(pc, cr, 0, 0, 0); c.GetHashCodePart(g, ic, 0, 0, 0); c.Remove(pc, ic, rp);
}
}}
