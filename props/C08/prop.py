"""C08 - hash multimap equals the abstract key -> value-list map.
tie: T-cor.  Hand-written executable Gallina (ArrayBucketModel, MultiMapModel, WrapperModel) is extracted to OCaml and
run against the real momo::HashMultiMap / stdish::unordered_multimap on the same op scripts; the harness also keeps an
independent std::map twin (and std::unordered_multimap for the wrapper) which is the oracle / search stage."""
import os, re

MS = [1, 2, 3, 4, 7, 15]
GEN = ['gen_growcap.json', 'gen_arraybucket.json', 'gen_arraybucket_cnt.json', 'gen_arraybucket_s.json', 'gen_hashmultimap.json', 'gen_versioncheck.json', 'gen_versioncheck_a.json', 'gen_wrap_eq.json', 'gen_wrap_erase.json', 'gen_ab_copy.json', 'gen_ab_ops.json', 'gen_pairiterator.json', 'gen_removeif.json', 'gen_heaparray.json']
BUCKETS = ['L.c', 'O8.c', 'O2.c', 'L.f', 'O8.f', 'O2.f']

# ----------------------------------------------------------------------------- generators
class Shadow:
    """generator-side shadow (only to aim the scripts: valid indices, sizes reached)"""
    def __init__(self):
        self.cur = {}; self.oth = {}

    def apply(self, tok):
        w = tok.split(','); c = w[0][0]; a = list(map(int, w[1:]))
        cur = self.cur
        if c == 'L':
            cur.clear()
            for q in range(0, min(len(a), 9) - 2, 3): cur.setdefault(a[q], []).append(a[q + 2])
        elif c == 'M': pass
        elif c == 'n': cur.setdefault(a[0], [])
        elif c == 'G':
            for q in range(0, len(a) - 2, 3): cur.setdefault(a[q], []).append(a[q + 2])
        elif c == 'a': cur.setdefault(a[0], []).append(a[2])
        elif c == 'A':
            if a[0] in cur: cur[a[0]].append(a[1])
        elif c == 'i': cur.setdefault(a[0], [])
        elif c in 'rR':
            if a[0] in cur and a[1] < len(cur[a[0]]):
                v = cur[a[0]]; v[a[1]] = v[-1]; v.pop()
        elif c == 'p':
            for k, v in cur.items():
                i = 0
                while i < len(v):
                    if (a[0] * k + a[1] * v[i]) % a[2] == a[3]: v[i] = v[-1]; v.pop()
                    else: i += 1
        elif c == 'v':
            if a[0] in cur: cur[a[0]] = []
        elif c in 'kK': cur.pop(a[0], None)
        elif c == 'c': cur.clear()
        elif c == 's': self.cur, self.oth = self.oth, self.cur
        elif c == 'y': self.oth = {k: list(v) for k, v in cur.items()}
        elif c == 'Y': self.cur = {k: list(v) for k, v in self.oth.items()}
        elif c == 'm': self.cur = self.oth; self.oth = {}


ENABLED = {}

def wants_string(b, M):
    """value type by parity (same rule as harness.cpp): *.c with odd M and *.f with even M hold std::string"""
    return b.endswith('c') == (M % 2 == 1)


def zero_tags(tok):
    """fast-hash configurations have int keys without identity: every tag field becomes 0"""
    w = tok.split(','); c = w[0][0]
    if c in 'ain' and len(w) >= 3: w[2] = '0'
    elif c == 't' and len(w) >= 3: w[2] = '0'
    elif c in 'GL':
        for q in range(2, len(w), 3): w[q] = '0'
    return ','.join(w)


def finish_case(r, ops, M=None, bucket=None, hm=None):
    M = M or r.choice(MS); b = bucket or r.choice(ENABLED[M])
    if b.endswith('f'): ops = [zero_tags(t) for t in ops]
    return 'mm %s %d %s %d %s' % (b, M, 's' if wants_string(b, M) else 'i', hm if hm is not None else r.choice([0, 0, 1, 2, 3, 4]), ' '.join(ops))


def gen_growshrink(r, M, big):
    """one or two keys: walk through every pool, the heap array growth and the shrink chain, down to a value-less key"""
    ops = []; sh = Shadow(); nv = [100]
    inj = r.chance(1, 2)        # this script injects allocation / key-relocation failures
    def add(tok):
        if inj and tok[0] in 'aArRKy' and (len(tok) == 1 or tok[1] == ',') and r.chance(1, 2): tok = tok[0] + '!' + tok[1:]
        ops.append(tok); sh.apply(tok)
    def val():
        nv[0] += 1
        return nv[0] if r.chance(9, 10) else r.range(100, nv[0])
    k = r.range(0, 5)
    n = r.choice([M, M + 1, 2 * M, 2 * M + 1, 4 * M + 1, 16, 17, 33, 40]) if not big else big
    for j in range(n):
        add('a,%d,%d,%d' % (k, j, val()) if r.chance(1, 2) else ('A,%d,%d' % (k, val()) if k in sh.cur else 'a,%d,%d,%d' % (k, j, val())))
        if r.chance(1, 12): add('a,%d,%d,%d' % (k + 1, 7, val()))
        if r.chance(1, 25) and k in sh.cur: add('M,%d,%d' % (k, r.choice([0, len(sh.cur[k]), r.below(len(sh.cur[k]) + 1)])))
    if r.chance(1, 3): add(r.choice(['y', 'y,1', 'y,2']));
    if r.chance(1, 4): add(r.choice(['s', 's,1']))
    if r.chance(1, 4) and k not in sh.cur: add(r.choice(['Y', 'm', 'm,1', 'm,2', 'm,3', 's']))
    mode = r.below(4)
    while k in sh.cur and sh.cur[k]:
        L = len(sh.cur[k])
        i = 0 if mode == 0 else (L - 1 if mode == 1 else r.below(L))
        add('%s,%d,%d' % (r.choice('rR'), k, i))
        if r.chance(1, 15): add('A,%d,%d' % (k, val()))
    if k in sh.cur:
        add(r.choice(['A,%d,%d' % (k, val()), 'i,%d,5' % k, 't,%d,77' % k, 'v,%d' % k, 'p,1,1,2,0', 'M,%d,0' % k]))
        add(r.choice(['k,%d' % k, 'K,%d' % k, 'c', 'y', 'a,%d,9,%d' % (k, val()), 'm,2', 'm,3']))
    return ops


def gen_random(r, nkeys, nops, wide):
    ops = []; sh = Shadow(); nv = [0]
    inj = r.chance(1, 3)
    def val():
        nv[0] += 1
        return nv[0] if r.chance(5, 6) else r.range(0, nv[0])
    for _ in range(nops):
        cur = sh.cur
        present = list(cur.keys())
        nonempty = [k for k in present if cur[k]]
        t = r.below(104)
        k = r.below(nkeys)
        if t < 3: tok = 'n,%d,%d' % (k, r.below(50))
        elif t < 6: tok = 'G,' + ','.join('%d,%d,%d' % (r.below(nkeys), r.below(50), val()) for _ in range(r.range(1, 4)))
        elif t < 34: tok = 'a,%d,%d,%d' % (k, r.below(50), val())
        elif t < 44: tok = 'A,%d,%d' % ((r.choice(present) if present and r.chance(9, 10) else k), val())
        elif t < 49: tok = 'i,%d,%d' % (k, r.below(50))
        elif t < 69:
            if nonempty and r.chance(19, 20):
                kk = r.choice(nonempty); L = len(cur[kk])
                i = r.choice([0, L - 1, r.below(L), r.below(L)])
            else: kk = k; i = r.below(3)
            tok = '%s,%d,%d' % (r.choice('rR'), kk, i)
        elif t < 75:
            m = r.range(1, 5); tok = 'p,%d,%d,%d,%d' % (r.below(3), r.range(0, 3), m, r.below(m))
        elif t < 79: tok = 'v,%d' % (r.choice(present) if present and r.chance(4, 5) else k)
        elif t < 85: tok = '%s,%d' % (r.choice('kK'), (r.choice(present) if present and r.chance(4, 5) else k))
        elif t < 88: tok = 't,%d,%d' % ((r.choice(present) if present else k), r.below(50))
        elif t < 89: tok = 'c'
        elif t < 93: tok = r.choice(['s', 's,1'])
        elif t < 96: tok = r.choice(['y', 'y,1', 'y,2'])
        elif t < 98: tok = r.choice(['Y', 'Y,1'])
        elif t < 100: tok = r.choice(['m', 'm,1', 'm,2', 'm,3'])
        elif t < 101:
            tok = 'L' + ''.join(',%d,%d,%d' % (r.below(nkeys), r.below(50), val()) for _ in range(r.range(0, 3)))
        else:
            if present:
                kk = r.choice(present); L = len(cur[kk]); tok = 'M,%d,%d' % (kk, r.choice([0, L, r.below(L + 1)]))
            else: tok = 'M,%d,0' % k
        if inj and tok[0] in 'aArRKy' and (len(tok) == 1 or tok[1] == ',') and r.chance(1, 3): tok = tok[0] + '!' + tok[1:]
        ops.append(tok); sh.apply(tok)
    return ops


def gen_cases(ctx, scale):
    r = ctx.rng
    cases = []
    for M in MS: ENABLED[M] = enabled(ctx, M)
    only = [int(x) for x in os.environ.get('VERIF_C08_MS', '').split(',') if x]
    # aimed: every M x configuration (value type by parity): pool walk / heap growth / shrink chain
    for M in MS:
        for b in ENABLED[M]:
            for rep in range((12 if scale == 1 else 6) * scale):
                cases.append(finish_case(r, gen_growshrink(r, M, 0), M, b))
        # long arrays: GrowCapacity bands (<= 64 doubling, +64 below 150, +cap/50*23 above) and the whole shrink chain
        for big in ([70, 200] if scale == 1 else [65, 70, 130, 200, 300, 520]):
            cases.append(finish_case(r, gen_growshrink(r, M, big), M))
    cases.append(finish_case(r, gen_growshrink(r, 3, 520), 3, 'O8.f'))
    cases.append(finish_case(r, gen_growshrink(r, 15, 520), 15, 'L.f'))
    # many keys: the key table grows several times (every bucket class), pool buffers fill up; no Clear / re-initialisation
    for i in range(12 * scale):
        ops = []; nv = 0; nk = r.choice([70, 140, 300, 600]); live = []
        for j in range(nk):
            k = r.below(2 * nk); nv += 1
            ops.append(r.choice(['a,%d,%d,%d' % (k, j % 50, nv), 'a,%d,%d,%d' % (k, j % 50, nv), 'i,%d,%d' % (k, j % 50), 'n,%d,%d' % (k, j % 50),
                                 'G,%d,1,%d,%d,2,%d' % (k, nv, r.below(2 * nk), nv + 1)]))
            live.append(k)
            if r.chance(1, 6): ops.append('A,%d,%d' % (r.choice(live), nv))
            if r.chance(1, 8): ops.append(r.choice(['K,%d', 'k,%d', 'v,%d', 'K!,%d']) % r.choice(live))
            if r.chance(1, 40): ops.append(r.choice(['y', 'y,2', 's', 'p,1,1,3,0', 'M,%d,0' % r.choice(live)]))
            if r.chance(1, 10) and r.chance(1, 2): ops[-1] = ops[-1].replace('a,', 'a!,', 1) if ops[-1].startswith('a,') else ops[-1]
        cases.append(finish_case(r, ops))
    # random histories: few keys with many values, and many keys (hash table growth, collisions, pool buffers)
    for i in range(1500 * scale):
        shape = r.below(16)
        if shape < 4: nkeys, nops = r.range(1, 3), r.range(30, 90)
        elif shape < 8: nkeys, nops = r.range(3, 8), r.range(30, 80)
        elif shape < 11: nkeys, nops = r.range(20, 60), r.range(40, 100)
        elif shape < 15: nkeys, nops = r.range(1, 6), r.range(5, 25)
        else: nkeys, nops = r.range(200, 400), r.range(300, 600)      # several growths of every bucket type
        cases.append(finish_case(r, gen_random(r, nkeys, nops, shape >= 8)))
    if only: cases = [c for c in cases if int(c.split()[2]) in only]
    return cases


# ----------------------------------------------------------------------------- the property predicate on impl output
REC = re.compile(r'n=(\d+) kc=(\d+) v=\d+ ((?:\{[^}]*\})*) T=((?:\([^)]*\))*)')

def check_dump(d):
    m = REC.fullmatch(d.strip())
    if not m: return 'unparsable dump %r' % d[:80]
    n, kc = int(m.group(1)), int(m.group(2))
    ents = re.findall(r'\{(-?\d+):(-?\d+):([^:]*):([^}]*)\}', m.group(3))
    pairs = []; tot = 0; keys = set()
    for k, t, rep, vs in ents:
        vals = [int(x) for x in vs.split(',')] if vs else []
        tot += len(vals)
        if int(k) in keys: return 'duplicate key %s' % k
        keys.add(int(k))
        pairs += [(int(k), v) for v in vals]
        if rep == 'N':
            if vals: return 'null array with values'
        elif rep[0] == 'F':
            st, pool, cnt = map(int, rep[1:].split('.'))
            if not (cnt == len(vals) and 1 <= cnt <= pool and st == pool * 16 + cnt): return 'fast repr %s vs %d values' % (rep, len(vals))
        elif rep[0] == 'H':
            cap, cnt = map(int, rep[1:].split('.'))
            if not (cnt == len(vals) and 1 <= cnt <= cap): return 'heap repr %s vs %d values' % (rep, len(vals))
        else: return 'unknown repr %s' % rep
    if tot != n: return 'GetCount %d != sum of per-key counts %d' % (n, tot)
    if kc != len(ents): return 'GetKeyCount %d != number of keys %d' % (kc, len(ents))
    tr = [(int(a), int(b)) for a, b in re.findall(r'\((-?\d+),(-?\d+)\)', m.group(4))]
    if tr != pairs: return 'pair traversal != per-key value arrays'
    return None


def oracle(ctx, cases, impl_lines):
    bad = []
    for c, out in zip(cases, impl_lines):
        if 'ORACLE-FAIL' in out:
            bad.append((c, out[-400:], 'twin oracle: ' + out[out.index('ORACLE-FAIL'):][:200])); continue
        if c.startswith('mm '):
            why = None
            for rec in out.split('|'):
                parts = rec.split(';')
                for d in parts[1:]:
                    why = check_dump(d)
                    if why: break
                if why: break
            if why: bad.append((c, out[-400:], why)); continue
            if ':H' in out and ':N:}' in out: ctx.nontrivial.add(c)
        elif c.split()[0] in ('gc', 'ms', 'gp', 'fi', 'ab2', 'hm', 'hx'):
            pass      # translator validation only: decided by the correspondence with the generated Gallina
        elif c.startswith('um '):
            if 'eqT' in out or 'er' in out: ctx.nontrivial.add(c)
    return bad


# quick tier: every TU (one per maxFastCount) instantiates 2-3 of the 6 configurations (compile time); each configuration is
# built for an even and at least one odd M, i.e. with both value types.  thorough: all 6 per M.
QUICK_SETS = {1: ['O8.c', 'L.f'], 2: ['L.c', 'O8.f', 'O2.c'], 3: ['L.c', 'O8.f'], 4: ['O8.c', 'L.f', 'O2.f'],
              7: ['O2.c', 'O8.c'], 15: ['O2.f', 'L.f']}
SAN_MS = [2, 4]          # M=2: L.c, O8.f, O2.c   M=4: O8.c, L.f, O2.f -- all six configurations under ASan+UBSan
MAC = {'L.c': 'EN_LC', 'O8.c': 'EN_O8C', 'O2.c': 'EN_O2C', 'L.f': 'EN_LF', 'O8.f': 'EN_O8F', 'O2.f': 'EN_O2F'}

def enabled(ctx, M):
    return QUICK_SETS[M] if ctx.quick() else BUCKETS      # thorough: the remaining configurations come from the harness_c<M> TUs

EXPECT_CFG = {   # substrings that the harness' description of the instantiated classes must contain
    'L.c':  ['bucket=momo::internal::BucketLimP4 ', 'lastarg=, true>', 'fasthash=0', 'cv=00', 'realloc=1', 'poolblocks=32 '],
    'O8.c': ['bucket=momo::internal::BucketOpen2N2 ', 'lastarg=, true>', 'fasthash=0', 'cv=00', 'realloc=1'],   # Open8 falls back for slow-hash keys
    'O2.c': ['bucket=momo::internal::BucketOpen2N2 ', 'lastarg=, true>', 'fasthash=0', 'cv=11', 'realloc=0'],
    'L.f':  ['bucket=momo::internal::BucketLimP4 ', 'lastarg=, false>', 'fasthash=1', 'cv=11', 'realloc=1', 'poolblocks=3 ', 'cached=1'],
    'O8.f': ['bucket=momo::internal::BucketOpen8 ', 'fasthash=1', 'cv=00', 'realloc=1'],
    'O2.f': ['bucket=momo::internal::BucketOpen2N2 ', 'lastarg=, false>', 'fasthash=1', 'cv=00', 'realloc=0', 'poolblocks=5 ', 'cached=0'],
}

def config_audit(ctx, exes):
    """the INTENDED classes are really instantiated: ask the binary serving each (M, configuration) to describe it"""
    bad = []; seen = {}
    for key, h in sorted((k, v) for k, v in exes.items() if isinstance(k, tuple)):
        M, b = key
        path = os.path.join(ctx.build, 'cfg.cases'); open(path, 'w').write('cfg %s %d %s 0\n' % (b, M, 's' if wants_string(b, M) else 'i'))
        rc, out, err = ctx.run_lines([h], path)
        l = out[0] if out else '<missing>'
        want = EXPECT_CFG[b] + ['M=%d ' % M, 'trivreloc=%d' % (0 if wants_string(b, M) else 1)]
        miss = [w for w in want if w not in l + ' ']
        if miss: bad.append('%s M=%d: %s lacks %s' % (b, M, l, miss))
        seen['%s/M%d' % (b, M)] = l + (' [sanitized]' if h.endswith('.san') else '')
    ctx.coverage['instantiated_configurations'] = seen
    ctx.stage('config-audit', not bad, '\n'.join(bad))
    ctx.tie_obligations.append({'name': 'intended bucket / manager / settings classes instantiated (%d configurations)' % len(seen), 'ok': not bad})


ENT = re.compile(r'\{(-?\d+):(-?\d+):([^:]*):([^}]*)\}')

def measure(dist, case, out):
    """measured (not planned) coverage of one HashMultiMap case, from the implementation's output"""
    w = case.split()
    cfgk = '%s/M%s/%s' % (w[1], w[2], w[3])
    dist['cases_per_configuration'][cfgk] = dist['cases_per_configuration'].get(cfgk, 0) + 1
    if w[1].endswith('c'): dist['cases_per_hash_function'][w[4]] = dist['cases_per_hash_function'].get(w[4], 0) + 1
    ev = dist['events']
    prev = None; maxlen = 0; maxkeys = 0; maxcap = 0
    toks = w[5:]
    for tok, rec in zip(toks, out.split('|')):
        parts = rec.split(';')
        if len(parts) < 2: continue
        cur = {}
        for k, t, rep, vs in ENT.findall(parts[1].split(' T=')[0]):
            n = (vs.count(',') + 1) if vs else 0
            cur[k] = (rep, n)
            maxlen = max(maxlen, n)
            if rep.startswith('H'): maxcap = max(maxcap, int(rep[1:].split('.')[0]))
        maxkeys = max(maxkeys, len(cur))
        if prev is not None and tok[0] in 'aAGrRpvn':
            for k, (rep, n) in cur.items():
                if k not in prev: continue
                prep, pn = prev[k]
                if prep == rep: continue
                a, b = prep[0], rep[0]
                if a == 'N' and b == 'F': ev['null->pool'] += 1
                elif a == 'F' and b == 'F':
                    if prep.split('.')[1] != rep.split('.')[1]: ev['pool->next pool'] += 1
                elif a == 'F' and b == 'H': ev['pool->heap'] += 1
                elif a == 'H' and b == 'H':
                    c0, c1 = int(prep[1:].split('.')[0]), int(rep[1:].split('.')[0])
                    if c1 > c0: ev['heap grow'] += 1; ev['heap grow beyond 64'] += (c0 >= 64); ev['heap grow beyond 150'] += (c0 >= 150)
                    elif c1 < c0: ev['heap shrink'] += 1
                    elif n < pn and pn > 2 and pn <= c0 // 4: ev['heap shrink failed (swallowed)'] += 1
                elif b == 'N' and a == 'F': ev['pool->null (value-less key)'] += 1
                elif b == 'N' and a == 'H': ev['heap->null (value-less key)'] += 1
        if 'skip' == parts[0]: ev['op skipped (precondition)'] += 1
        if any(n == 0 for rep, n in cur.values()): ev['records with a value-less key'] += 1
        prev = cur
    def bucket(x, edges, names):
        for e, nm in zip(edges, names):
            if x <= e: return nm
        return names[-1]
    kb = bucket(maxlen, [0, 1, 5, 15, 40, 150], ['0', '1', '2-5', '6-15', '16-40', '41-150', '>150'])
    dist['cases_by_max_values_per_key'][kb] = dist['cases_by_max_values_per_key'].get(kb, 0) + 1
    nb = bucket(maxkeys, [1, 8, 32, 64, 128], ['<=1', '2-8', '9-32', '33-64', '65-128', '>128'])
    dist['cases_by_max_key_count'][nb] = dist['cases_by_max_key_count'].get(nb, 0) + 1
    cb = bucket(maxcap, [0, 64, 149], ['no heap array', 'cap<=64', 'cap 65-149', 'cap>=150'])
    dist['cases_by_max_heap_capacity'][cb] = dist['cases_by_max_heap_capacity'].get(cb, 0) + 1


def new_dist():
    return {'cases_per_configuration': {}, 'cases_per_hash_function': {}, 'cases_by_max_values_per_key': {}, 'cases_by_max_key_count': {},
            'cases_by_max_heap_capacity': {},
            'events': {k: 0 for k in ['null->pool', 'pool->next pool', 'pool->heap', 'heap grow', 'heap grow beyond 64', 'heap grow beyond 150',
                                      'heap shrink', 'heap shrink failed (swallowed)', 'pool->null (value-less key)', 'heap->null (value-less key)',
                                      'op skipped (precondition)', 'records with a value-less key']}}


def M_of(case):
    w = case.split()
    return int(w[2]) if w[0] == 'mm' else 0


def _src_hash(ctx, src, flags):
    """hash of everything the harness binary depends on: harness source, private_access.h, every momo header, flags"""
    import hashlib
    h = hashlib.sha256()
    h.update(open(os.path.join(ctx.pdir, src), 'rb').read())
    h.update(open(os.path.join(ctx.root, 'harness', 'private_access.h'), 'rb').read())
    h.update(open(os.path.join(ctx.root, 'harness', 'kit.h'), 'rb').read())
    h.update(repr(flags).encode()); h.update(ctx.tier.encode())
    inc = os.path.join(ctx.repo, 'include')
    for dp, dn, fn in sorted(os.walk(inc)):
        dn.sort()
        for f in sorted(fn):
            fp = os.path.join(dp, f)
            h.update(os.path.relpath(fp, inc).encode()); h.update(open(fp, 'rb').read())
    return h.hexdigest()[:14]


def build(ctx):
    """build (or reuse: the binary name carries the hash of all its inputs, incl. every header of the repo in use).
    returns {(M, configuration): exe, 0: wrapper exe}.  Every tier builds, per maxFastCount M, a TU with the QUICK_SETS[M]
    configurations (sanitized in the thorough tier); the thorough tier adds a second, unsanitized TU per M with the
    remaining configurations, so that all 36 (M, configuration) pairs run there."""
    import concurrent.futures as cf
    quick = ctx.quick()
    only = [int(x) for x in os.environ.get('VERIF_C08_MS', '').split(',') if x]      # restrict to some M (mutant re-runs on a loaded machine)
    jobs = []                                 # (src, exe, flags, sanitize, [(M, cfg)...] or 0)
    for M in MS:
        if only and M not in only: continue
        san = (not quick) and M in SAN_MS     # thorough: ASan+UBSan for M in SAN_MS (together they contain all 6 configurations)
        jobs.append(('harness.cpp', 'harness_m%d' % M, ['-DHM_LIST=X(%d)' % M, '-DEN_SUBSET'] + ['-D' + MAC[x] for x in QUICK_SETS[M]] + (['-g1'] if san else ['-g0']),
                     san, [(M, x) for x in QUICK_SETS[M]]))      # -g0/-g1: full debug info doubles the compile time of these TUs
        if not quick:
            rest = [x for x in BUCKETS if x not in QUICK_SETS[M]]
            jobs.append(('harness.cpp', 'harness_c%d' % M, ['-DHM_LIST=X(%d)' % M, '-DEN_SUBSET'] + ['-D' + MAC[x] for x in rest] + ['-g0', '-O0'],
                         False, [(M, x) for x in rest]))      # -O0: these unsanitized complement TUs only have to compile fast
    jobs.append(('harness_um.cpp', 'harness_um', ['-g0'] if quick else ['-g1'], not quick, 0))
    jobs.append(('harness_gen.cpp', 'harness_gen', ['-g0'], False, 'gen'))
    paths = {}; todo = []
    for src, exe, fl, san, serves in jobs:
        name = '%s_%s' % (exe, _src_hash(ctx, src, fl))
        path = os.path.join(ctx.build, name + ('.san' if san else ''))
        if os.path.exists(path) and os.environ.get('VERIF_NO_CACHE') != '1': paths[exe] = path
        else: todo.append((src, exe, name, fl, san))
    if todo:
        with cf.ThreadPoolExecutor(max_workers=8 if quick else 5) as ex:      # sanitized TUs need ~2 GB each
            futs = {ex.submit(ctx.cxx, src, name, fl, san, 2400): exe for (src, exe, name, fl, san) in todo}
            for fu in cf.as_completed(futs): paths[futs[fu]] = fu.result()
    if os.environ.get('VERIF_REPO') is None:      # drop stale binaries (same TU, same sanitizer setting, other hash)
        for src, exe, fl, san, serves in jobs:
            cur = os.path.basename(paths.get(exe) or '')
            for f in os.listdir(ctx.build):
                if f.startswith(exe + '_') and f != cur and f.endswith('.san') == san and os.path.isfile(os.path.join(ctx.build, f)):
                    try: os.remove(os.path.join(ctx.build, f))
                    except OSError: pass
    ctx.coverage['harness_cache'] = {'rebuilt': [t[2] for t in todo], 'reused': len(jobs) - len(todo)}
    out = {}; missing = []
    for src, exe, fl, san, serves in jobs:
        if paths.get(exe) is None: missing.append(exe); continue
        if serves == 0 or serves == 'gen': out[serves] = paths[exe]
        else:
            for key in serves: out[key] = paths[exe]
    if missing:
        ctx.stage('build-harness', False, 'harness %s does not build:\n%s' % (missing, getattr(ctx, 'last_cxx_error', '')))
    return out


def cfg_of(case):
    w = case.split()
    return (int(w[2]), w[1]) if w[0] == 'mm' else 0


def replay(ctx, rp):
    case = rp.get('case')
    if not case:
        print('replay has no concrete case (no-failing-input-found): broken stages were', list(rp.get('broken', {}).keys())); return 1
    h = build(ctx).get(cfg_of(case))
    if h is None:
        print('harness does not build'); return 2
    path = os.path.join(ctx.build, 'replay.cases'); open(path, 'w').write(case + '\n')
    rc, lines, err = ctx.run_lines([h], path)
    print('case:', case, '\nimplementation:', lines[0] if lines else err[-500:])
    bad = oracle(ctx, [case], lines) if rc == 0 and lines else [(case, err, 'harness crashed')]
    model = None
    if ctx.prove() and ctx.extract():
        rc2, l2, e2 = ctx.run_lines([ctx.model_exe], path)
        model = l2[0] if l2 else None
        print('model:         ', model)
    if bad or (model is not None and lines and model != lines[0]):
        print('VIOLATION property=C08 replay=%s' % ctx.replay); return 1
    print('property holds on this case'); return 0


def run(ctx):
    """a run against a private copy (VERIF_REPO: mutants, seeds) must not disturb the records of the real tree: the previous
    evidence/C08.json is restored afterwards and the replays it wrote are moved to build/C08/mutant-replays/"""
    if os.environ.get('VERIF_REPO') is None:
        return run_checked(ctx)
    import shutil, glob
    ev = os.path.join(ctx.root, 'evidence', ctx.id + '.json')
    saved = open(ev).read() if os.path.exists(ev) else None
    before = set(glob.glob(os.path.join(ctx.root, 'replays', ctx.id + '-*.json')))
    rc = run_checked(ctx)
    if saved is not None: open(ev, 'w').write(saved)
    elif os.path.exists(ev): os.remove(ev)
    dst = os.path.join(ctx.build, 'mutant-replays'); os.makedirs(dst, exist_ok=True)
    for f in set(glob.glob(os.path.join(ctx.root, 'replays', ctx.id + '-*.json'))) - before:
        shutil.move(f, os.path.join(dst, os.path.basename(f)))
    print('(VERIF_REPO run: evidence/%s.json restored; replays moved to %s)' % (ctx.id, dst), flush=True)
    return rc


def run_checked(ctx):
    scale = 1 if ctx.quick() else 4
    ctx.trusted += ['hand-written Gallina models (ArrayBucketModel.v, MultiMapModel.v, WrapperModel.v) mirror the C++ by reading; '
                    'bound to the code only by the differential run of their extracted OCaml against the real containers on every check',
                    'extraction: ExtrOcamlBasic only (no Extract Constant), OCaml 4.13.1, zarith for decimal I/O only',
                    'g++ 12 -std=c++17, harness reaches private members (ArrayBucket::mPtr state, nested HashMap) via #define private public',
                    'independent oracle: std::map<int,{tag,std::vector}> twin / std::unordered_multimap inside the harness + dump predicate in prop.py']
    ctx.assumptions += ['no allocation failure and no throwing key/value operations (exception paths of RemoveKey/Add belong to C04)',
                        'capacities stay far below SIZE_MAX (GrowCapacity overflow not modelled)',
                        'the hash function and equality are consistent (equal ids hash equally); keys are (id, tag) compared by id',
                        'calls violating a documented precondition (absent key iterator, value index out of range) are not made',
                        'the order of keys in GetKeyBounds / traversal is the hash table order and is not modelled (outputs are grouped by key)']
    # the C++ builds do not depend on the proofs: run them while Coq (and coqchk in the thorough tier) is busy
    import threading
    res = {}
    def _bg():
        try: res['exes'] = build(ctx)
        except Exception as e: res['err'] = repr(e)
    th = threading.Thread(target=_bg); th.start()
    ctx.regen(GEN)        # Gen_*.v from /repo's current headers (a translation failure removes the file: proofs cannot stay green)
    ctx.prove()
    th.join()
    if 'exes' not in res:
        ctx.stage('build-harness', False, 'build thread failed: %s' % res.get('err'))
        return ctx.finish(rule=RULE)
    exes = res['exes']
    config_audit(ctx, exes)
    cases = gen_cases(ctx, scale)
    um_cases = gen_um_cases(ctx, scale) if exes.get(0) else []
    # the executable models are extracted even when a PROOF broke (make -k still builds the model .vo files): the
    # correspondence is what turns a broken refinement lemma into a concrete failing input.  Two drivers: the hand models
    # (driver.ml) and the generated functions (driver_gen.ml) -- a generated function that changes shape only breaks the latter.
    have_model = bool(ctx.extract())
    model_exe = getattr(ctx, 'model_exe', None) if have_model else None
    ext1 = dict(ctx.stages.get('extract', {}))
    have_gen = bool(ctx.extract(driver='driver_gen.ml', exe='gen_driver'))
    gen_exe = ctx.model_exe if have_gen else None
    ctx.stages['extract-gen'] = ctx.stages.pop('extract'); ctx.stages['extract'] = ext1
    ctx.model_exe = model_exe
    if any(not s['ok'] for s in ctx.stages.values()):
        ctx.log('a stage broke: searching the implementation for a failing input with the thorough generator')
        cases = cases + gen_cases(ctx, 4)
    byexe = {}
    for c in cases:
        h = exes.get(cfg_of(c))
        if h is not None: byexe.setdefault(h, []).append(c)
    kc = gen_kernel_cases(ctx)
    groups = sorted(byexe.items()) + [(exes.get(0), um_cases), (exes.get('gen'), [c for c in kc if c.startswith('ab2')]),
                                      ('GEN', [c for c in kc if not c.startswith('ab2')]),
                                      ('HXH', [c for c in kc if c.startswith('hx')])]
    total_bad = []; injected_total = [0, 0, 0, 0, 0, 0]; dist = new_dist()
    for h, cs in groups:
        drv, has = model_exe, have_model
        isgen = (h == 'GEN')
        ishx = (h == 'HXH')
        if ishx: h = exes.get('gen')
        if isgen: h = exes.get('gen'); drv, has = gen_exe, have_gen
        if h is None or not cs: continue
        M = 0 if h in (exes.get(0), exes.get('gen')) else 1
        name = 'generated-kernels' if isgen else 'version-check-hand-model' if ishx else 'two-buckets' if h == exes.get('gen') else 'wrapper' if not M else 'mm-' + re.sub(r'^harness_([mc]\d+)_.*$', r'\1', os.path.basename(h))
        impl_lines = None
        if has:
            mism, (rc1, e1, rc2, e2) = ctx.correspond(name, cs, [h], [drv])
            ctx.tie_obligations.append({'name': 'extracted model == real C++ (%s) on %d op scripts' % (name, len(cs)), 'ok': not mism and rc1 == 0 and rc2 == 0})
            for (i, c, a, b) in mism[:2]:
                # first differing record
                ra, rb = a.split('|'), b.split('|')
                j = next((x for x in range(min(len(ra), len(rb))) if ra[x] != rb[x]), min(len(ra), len(rb)))
                ctx.violation('model and implementation disagree at op %d' % j,
                              {'case': c, 'op_index': j, 'impl': ra[j] if j < len(ra) else '<missing>', 'model': rb[j] if j < len(rb) else '<missing>',
                               'cmd': 'echo "%s" | %s' % (c, h)}, found_input=True)
        path = os.path.join(ctx.build, name + '.oracle.cases')
        open(path, 'w').write('\n'.join(cs) + '\n')
        rc, lines, err = ctx.run_lines([h], path)
        mi = re.search(r'injected=(\d+) add_throw=(\d+) shrink_swallowed=(\d+) removekey_rollback=(\d+) copy_throw=(\d+) growth_failure_swallowed=(\d+)', err or '')
        if mi:
            for q in range(6): injected_total[q] += int(mi.group(q + 1))
        if M and rc == 0 and len(lines) == len(cs):
            for c, o in zip(cs, lines): measure(dist, c, o)
        if not has: ctx.evaluations += len(cs)
        bad = oracle(ctx, cs, lines) if rc == 0 and len(lines) == len(cs) else [(cs[min(len(lines), len(cs) - 1)], err[-400:], 'harness crashed (rc=%d) after %d cases' % (rc, len(lines)))]
        total_bad += bad
    # ---- generated wrapper functions over primitive tables evaluated on the REAL containers (two phases: harness, then driver)
    if exes.get(0) and have_gen:
        ug = ['ug' + c[2:] for c in um_cases[::3]]
        path = os.path.join(ctx.build, 'ug.cases'); open(path, 'w').write('\n'.join(ug) + '\n')
        rc, lines, err = ctx.run_lines([exes[0]], path)
        good = rc == 0 and len(lines) == len(ug) and all(' ||| ' in l for l in lines)
        mism = []
        if good:
            tabs = ['ugt ' + l.split(' ||| ')[0] for l in lines]; want = [l.split(' ||| ')[1] for l in lines]
            path2 = os.path.join(ctx.build, 'ugt.cases'); open(path2, 'w').write('\n'.join(tabs) + '\n')
            rc2, got, err2 = ctx.run_lines([gen_exe], path2)
            good = rc2 == 0 and len(got) == len(want)
            mism = [(c, w, g) for c, w, g in zip(ug, want, got + ['<missing>'] * len(want)) if w != g]
            ctx.evaluations += len(ug); ctx.traces_validated += len(ug) - len(mism)
            ctx.coverage['generated_wrapper_direct'] = {'cases': len(ug), 'erase_ranges': sum(w.count(' rg ') for w in want), 'throws': sum(w.count('throw') for w in want),
                                                         'eq_true': sum(1 for w in want if w.startswith('eq 1'))}
        ctx.stage('corr:generated-wrapper-direct', good and not mism, (err[-300:] if not good else '') + (('first: %r real=%r generated=%r' % mism[0]) if mism else ''))
        ctx.tie_obligations.append({'name': 'generated operator== / erase(first,last) over primitives evaluated on the real containers == real result (%d cases)' % len(ug), 'ok': good and not mism})
        for (c, w, g) in mism[:2]:
            ctx.violation('generated wrapper function and real function disagree', {'case': c, 'real': w[:400], 'generated': g[:400]}, found_input=True)
    # ---- generated pvMove against the real pvMove on real key tables (two phases, like the wrapper functions)
    if exes.get('gen') and have_gen:
        r = ctx.rng; pm = []
        for i in range(150 if ctx.quick() else 600):
            ops = []; nk = r.choice([1, 2, 3, 5, 9, 20])
            for _ in range(r.range(1, 40)):
                k = r.below(nk)
                ops.append(('a,%d,%d' % (k, r.below(99))) if r.chance(3, 4) else ('v,%d' % k))
            pm.append('pm ' + ' '.join(ops))
        path = os.path.join(ctx.build, 'pm.cases'); open(path, 'w').write('\n'.join(pm) + '\n')
        rc, lines, err = ctx.run_lines([exes['gen']], path)
        good = rc == 0 and len(lines) == len(pm) and all(' |||' in l for l in lines)
        mism = []
        if good:
            tabs = ['pmt ' + l.split(' |||')[0] for l in lines]; want = [l.split(' |||')[1] for l in lines]
            path2 = os.path.join(ctx.build, 'pmt.cases'); open(path2, 'w').write('\n'.join(tabs) + '\n')
            rc2, got, err2 = ctx.run_lines([gen_exe], path2)
            good = rc2 == 0 and len(got) == len(want)
            mism = [(c, w, g) for c, w, g in zip(pm, want, got + ['<missing>'] * len(want)) if w.strip() != g.strip()]
            ctx.evaluations += len(pm); ctx.traces_validated += len(pm) - len(mism)
            ctx.coverage['generated_pvmove_direct'] = {'cases': len(pm), 'iterator_positions': sum(w.count('>') for w in want),
                                                        'moved_to_end': sum(w.count('>end') for w in want), 'tables_with_valueless_keys': sum(1 for l in lines if ' 0' in l.split(' |||')[0])}
        ctx.stage('corr:generated-pvmove-direct', good and not mism, (err[-300:] if not good else '') + (('first: %r real=%r generated=%r' % mism[0]) if mism else ''))
        ctx.tie_obligations.append({'name': 'generated pvMove over the real key table == real pvMove (%d tables)' % len(pm), 'ok': good and not mism})
        for (c, w, g) in mism[:2]:
            ctx.violation('generated pvMove and real pvMove disagree', {'case': c, 'real': w[:400], 'generated': g[:400]}, found_input=True)
    ctx.stage('oracle', not total_bad, total_bad[0][2] if total_bad else '')
    for (c, out, why) in total_bad[:3]:
        ctx.violation(why, {'case': c, 'impl_output_tail': out, 'cmd': 'echo "%s" | %s' % (c, exes.get(cfg_of(c)))}, found_input=True)
    allc = cases + um_cases
    for c in allc[::max(1, len(allc) // 6)][:6]:
        ctx.add_sample(c[:300])
    oph = {}
    for c in cases:
        for tok in c.split()[5:]:
            kk = tok.split(',')[0]; oph[kk] = oph.get(kk, 0) + 1
    uph = {}; ucfg = {}
    for c in um_cases:
        w = c.split(); ucfg['%s/M%s' % (w[1], w[2])] = ucfg.get('%s/M%s' % (w[1], w[2]), 0) + 1
        for tok in w[5:]: uph[tok[0]] = uph.get(tok[0], 0) + 1
    dist.update({'wrapper_op_histogram': uph, 'wrapper_cases_per_configuration': ucfg})
    ctx.coverage['injected_failures_fired'] = dict(zip(['total', 'add_threw_bad_alloc', 'shrink_failure_swallowed', 'removekey_rolled_back', 'copy_threw_bad_alloc', 'table_growth_failure_swallowed_by_HashSet'], injected_total))
    ctx.coverage['input_distribution'] = {'mm_cases': len(cases), 'wrapper_cases': len(um_cases), 'mm_op_histogram': oph, 'measured': dist,
                                          'configs': 'configurations %s (see harness.cpp) x maxFastCount %s; value type by parity of M; 5 hash functions for the *.c keys' % (BUCKETS, MS)}
    return ctx.finish(rule=RULE)


UM_CFG = [('L', 7), ('O8', 2), ('O2', 1)]

def gen_kernel_cases(ctx):
    """translator validation of the cxx2coq-generated kernels against the real functions: boundary grid + random"""
    r = ctx.rng; cases = []
    edge = sorted(set([0, 1, 2, 3, 4, 5, 63, 64, 65, 100, 128, 149, 150, 151, 192, 199, 200, 250, 1000] +
                      [2 ** k + d for k in range(3, 64) for d in (-1, 0, 1)] + [2 ** 64 - 1, 2 ** 64 - 2, 2 ** 64 - 65]))
    for c in edge:
        for mn in (c + 1, c, c + 2, 2 * c + 1, c + 65, c // 50 * 23 + c, c // 50 * 23 + c + 1):
            if 0 <= mn < 2 ** 64: cases.append('gc %d %d' % (c, mn))
    for c in range(0, 400): cases.append('gc %d %d' % (c, c + 1))
    for _ in range(400):
        c = r.below(2 ** r.range(1, 64)); cases.append('gc %d %d' % (c, min(2 ** 64 - 1, c + 1 + r.below(2 ** r.range(0, 20)))))
    for p_ in list(range(0, 17)) + [255, 256, 2 ** 32, 2 ** 60 + 1, 2 ** 64 - 1]:
        for c in list(range(0, 17)) + [31, 255, 256, 2 ** 64 - 1]: cases.append('ms %d %d' % (p_, c))
    for st in range(256): cases.append('gp %d' % st)
    for n in list(range(0, 10)) + [2 ** 64 - 1]:
        cases.append('fi 7 %d' % n); cases.append('fi 2 %d' % n)
    # HashMultiMap members with generated count / version / returned-position arithmetic, on a real container
    for i in range(200 if ctx.quick() else 1000):
        ops = []; lens = {}; nv = 0
        for _ in range(r.range(3, 60)):
            t = r.below(100); k = r.below(r.choice([1, 2, 4, 9]))
            if t < 50: nv += 1; ops.append('a,%d,%d' % (k, nv)); lens[k] = lens.get(k, 0) + 1
            elif t < 82:
                L = lens.get(k, 0); i = r.choice([0, max(L - 1, 0), r.below(L + 1)])
                ops.append('r,%d,%d' % (k, i))
                if k in lens and i < L: lens[k] = L - 1
            elif t < 88:
                ops.append('v,%d' % k)
                if k in lens: lens[k] = 0
            elif t < 94: ops.append('K,%d' % k); lens.pop(k, None)
            elif t < 97: ops.append('c'); lens = {}
            else: ops.append('D')
        cases.append('hm ' + ' '.join(ops))
        # the same script with iterator version checks in exception mode: remember an iterator, use it after other calls
        ops2 = []
        for t_ in ops:
            ops2.append(t_)
            if r.chance(1, 4): ops2.append('I,%d,%d' % (r.below(4), r.below(3)))
            if r.chance(1, 3): ops2.append('U')
            if r.chance(1, 6): ops2.append(r.choice(['C', 'C,0', 'C,1', 'E,0', 'E,1']))
        cases.append('hx ' + ' '.join(ops2))
    # two real ArrayBucket objects, every member that writes mPtr (frame machine ab2_step)
    for i in range(300 if ctx.quick() else 1500):
        M = r.choice([1, 2, 7, 15]); ops = []; la = lb = 0; nv = 0
        for _ in range(r.range(5, 80)):
            t = r.below(100); s_ = r.choice('fs'); L = la if s_ == 'f' else lb
            if t < 45: nv += 1; ops.append('+%s,%d' % (s_, nv)); L += 1
            elif t < 65: ops.append('-%s,%d' % (s_, r.choice([0, max(L - 1, 0), r.below(L + 1)])))
            elif t < 72: ops.append('b' + s_)
            elif t < 76: ops.append(r.choice('xc') + s_)
            elif t < 84: ops.append('w')
            elif t < 90: ops.append('m' + s_)
            elif t < 95: ops.append('a' + s_)
            else: ops.append('y' + s_)
            # lengths are only needed to aim the indices: recompute lazily from the ops is overkill; keep rough bounds
            if t < 45:
                if s_ == 'f': la = L
                else: lb = L
            elif t < 72 and L > 0:
                if s_ == 'f': la = L - 1
                else: lb = L - 1
            elif t < 76:
                if s_ == 'f': la = 0
                else: lb = 0
            elif t < 84: la, lb = lb, la
            elif t < 90:
                if s_ == 'f': lb = la; la = 0
                else: la = lb; lb = 0
            elif t < 95: pass
            else:
                if s_ == 'f': lb = la
                else: la = lb
        cases.append('ab2 %d %s' % (M, ' '.join(ops)))
    return cases


def gen_um_cases(ctx, scale):
    r = ctx.rng
    cases = []
    for ci in range(700 * scale):
        b, M = r.choice(UM_CFG)
        K = r.choice([2, 3, 4, 8])
        wide = r.chance(1, 6)
        ident = r.chance(1, 3)      # keys with identity: equivalent keys that are not ==
        cur = {}; oth = {}; ops = []; nv = 0
        for _ in range(r.range(8, 45)):
            t = r.below(100)
            k = r.below(K if not wide else 30)
            keys = [x for x in cur if cur[x]]
            kk = r.choice(keys) if keys and r.chance(5, 6) else k
            if t < 38:
                nv += 1; v = nv if r.chance(3, 4) else r.range(0, nv)
                tok = ('i,%d,%d' % (k, v)) if not ident or r.chance(1, 2) else ('j,%d,%d,%d' % (k, r.below(3), v))
                cur.setdefault(k, []).append(v)
            elif t < 44: tok = 'e,%d' % kk; cur.pop(kk, None)
            elif t < 54:
                L = len(cur.get(kk, [])); i = r.below(L) if L else 0
                tok = 'x,%d,%d' % (kk, i)
                if L: cur[kk].pop()     # only the count matters for aiming
            elif t < 60: tok = 'q,%d' % kk; cur.pop(kk, None)
            elif t < 70:
                L = len(cur.get(kk, []))
                if L == 0: tok = 'g,%d,0,1' % kk
                else:
                    sh = r.below(4)
                    if sh == 0: i, j = 0, L
                    elif sh == 1: i = r.below(L); j = i + 1
                    else: i = r.below(L); j = r.range(i + 1, L)
                    tok = 'g,%d,%d,%d' % (kk, i, j)
                    if i == 0 and j == L: cur.pop(kk)
                    elif j == i + 1: cur[kk].pop()
            elif t < 72: tok = 'w'; cur = {}
            elif t < 82:
                m = r.range(1, 4); a, bb, rr = r.below(3), r.range(0, 2), r.below(m)
                tok = 'f,%d,%d,%d,%d' % (a, bb, m, rr)
                cur = {x: [v for v in vs if (a * x + bb * v) % m != rr] for x, vs in cur.items()}
            elif t < 83: tok = 'c'; cur = {}
            elif t < 84:
                kind = r.below(3)
                if kind == 0:
                    ps = [(r.below(K), r.below(9)) for _ in range(r.range(0, 3))]
                    tok = 'n' + ''.join(',%d,%d' % p for p in ps)
                    for kq, vq in ps: cur.setdefault(kq, []).append(vq)
                    if not ps: tok = 'h,%d,%d' % (k, 3); cur.setdefault(k, []).append(3)
                elif kind == 1: tok = 'h,%d,%d' % (k, r.below(9)); cur.setdefault(k, []).append(0)
                else:
                    if r.chance(1, 2): tok = r.choice(['m', 'm,1']); cur = oth; oth = {}
                    else:
                        ps = [(r.below(K), r.below(9)) for _ in range(r.range(0, 2))]
                        tok = 'l' + ''.join(',%d,%d' % q for q in ps); cur = {}
                        for kq, vq in ps: cur.setdefault(kq, []).append(vq)
            elif t < 92: tok = 'y'; oth = {x: list(v) for x, v in cur.items()}
            elif t < 95: tok = 'Y'; cur = {x: list(v) for x, v in oth.items()}
            else: tok = r.choice(['s', 's,1']); cur, oth = oth, cur
            ops.append(tok)
            # after erase_if / erase leaving different shapes, compare with a copy made earlier: do it often
            if r.chance(1, 10): ops.append('y'); oth = {x: list(v) for x, v in cur.items()}
        cases.append('um %s %d %d %d %s' % (b, M, r.choice([0, 0, 1, 2, 3, 4]), K, ' '.join(ops)))
    # aimed: erase_if leaving value-less keys on one side, then ==
    for ci in range(60 * scale):
        b, M = r.choice(UM_CFG)
        n1, n2 = r.range(1, 5), r.range(1, 5)
        ops = ['i,0,%d' % (2 * i) for i in range(n1)] + ['i,1,%d' % (2 * i + 1) for i in range(n2)]
        r.shuffle(ops)
        ops += ['y', 'f,0,1,2,1', 's', 'e,1', 's'] + (['i,1,1', 'e,1'] if r.chance(1, 2) else []) + ['f,0,1,2,0', 's', 'e,0', 'i,0,0', 's', 'i,0,0']
        cases.append('um %s %d %d 3 %s' % (b, M, r.choice([0, 1, 3]), ' '.join(ops)))
    # aimed: same (class, value) pairs but different key identities -> != ; identity kept by later inserts
    for ci in range(30 * scale):
        b, M = r.choice(UM_CFG)
        t1, t2 = r.below(3), r.below(3)
        vals = [r.below(6) for _ in range(r.range(1, 4))]
        ops = ['j,0,%d,%d' % (t1, v) for v in vals] + ['s'] + ['j,0,%d,%d' % (t2, v) for v in vals] + ['s', 'j,1,0,9', 's', 'j,1,0,9', 's']
        ops += ['e,0', 'j,0,%d,%d' % (t2, vals[0])] + ['i,0,%d' % v for v in vals[1:]] + ['f,0,1,1,0', 'j,0,%d,7' % r.below(3), 's', 'c', 'j,0,%d,7' % r.below(3)]
        cases.append('um %s %d %d 3 %s' % (b, M, r.choice([0, 1, 3]), ' '.join(ops)))
    return cases


RULE = ('cases = aimed pool-walk/heap-growth/shrink-chain scripts for every maxFastCount in {1,2,3,4,7,15} x bucket {LimP4,Open8,Open2N2} x '
        '{int64,std::string} + random histories of all operations (1..60 keys, up to ~200 values per key, 5 hash functions incl. constant) '
        'incl. copy/move/swap + wrapper scripts; distinct = distinct case line; non-trivial = a HashMultiMap history in which a heap value '
        'array and a value-less key both occur, or a wrapper script exercising == / erase-range')
