"""C15 static pass: for every public member function of the version-keeping momo containers, is a version bump
(mCrew.IncVersion() / ++<version member>) reachable in its body or in the member functions it calls?
Built from the clang JSON AST of props/C15/inst.cpp (one run per class) with tools/cxx2coq.py's dump_ast/load_objs.
The result is written as Gallina (Gen_VersionTable.v) and checked against the model's classification in Coq."""
import os, re, sys
import cxx2coq

# class -> (define for inst.cpp, AST filter)
CLASSES = [('HashSet', 'INST_HASHSET'), ('TreeSet', 'INST_TREESET'), ('HashMap', 'INST_HASHMAP'),
           ('TreeMap', 'INST_TREEMAP'), ('HashMultiMap', 'INST_HASHMULTIMAP')]
# version cells: tag -> how a bump of it looks in the AST
OWN_CALLS = {'IncVersion': 'version'}                                  # mCrew.IncVersion()
OWN_INCS = {'GetValueVersion': 'valueVersion', 'GetChangeVersion': 'changeVersion', 'GetRemoveVersion': 'removeVersion'}


QUERY_TEMPLATES = ('Find', 'ContainsKey', 'GetLowerBound', 'GetUpperBound', 'GetKeyCount')


def walk(n):
    if isinstance(n, dict):
        yield n
        for c in n.get('inner', []) or []:
            yield from walk(c)


def strip_targs(t, cls):
    """momo::Cls<balanced...>  ->  Cls"""
    key = 'momo::' + cls + '<'
    while True:
        i = t.find(key)
        if i < 0:
            return t
        j = i + len(key); d = 1
        while j < len(t) and d > 0:
            d += {'<': 1, '>': -1}.get(t[j], 0); j += 1
        t = t[:i] + cls + t[j:]


def norm_type(t, cls):
    t = strip_targs(t, cls)
    t = t.replace(cls + '::', '')
    t = t.replace('momo::internal::', '').replace('momo::', '').replace('std::', '')
    return re.sub(r'\s+', ' ', t).strip()


def params_of(m, cls):
    qt = m.get('type', {}).get('qualType', '')
    mm = re.search(r'\((.*)\)\s*(const)?', qt)
    ps = norm_type(mm.group(1), cls) if mm else ''
    ps = re.sub(r'\(lambda at [^)]*\)', 'lambda', ps)
    return ps, bool(re.search(r'\)\s*const\b', qt))


def bodies(decl):
    """[(method node with body)] for a CXXMethodDecl or the instantiations of a FunctionTemplateDecl"""
    if decl['kind'] in ('CXXMethodDecl', 'CXXConstructorDecl', 'CXXDestructorDecl'):
        return [decl] if any(y.get('kind') == 'CompoundStmt' for y in decl.get('inner', [])) else []
    out = []
    for y in decl.get('inner', []):
        if y.get('kind') == 'CXXMethodDecl' and any(z.get('kind') == 'CompoundStmt' for z in y.get('inner', [])) \
                and any(z.get('kind') == 'TemplateArgument' for z in y.get('inner', [])):
            out.append(y)
    return out


def class_of_type(t):
    s = (t or {}).get('desugaredQualType') or (t or {}).get('qualType') or ''
    m = re.search(r'momo::(?:internal::)?(\w+)<', s)
    if m:
        return m.group(1)
    m = re.search(r'(\w+)\s*[&*]*$', s)
    return m.group(1) if m else ''


def analyse(cls, define, repo, prev):
    """prev: {(class, name): (all_tags:set, any_tags:set)} of already analysed classes (for nested containers)"""
    cfg = {'tu': os.path.join(os.path.dirname(os.path.abspath(__file__)), 'inst.cpp'), 'filter': cls, 'class': cls,
           'defines': [define], 'includes': [os.path.join(repo, 'include')]}
    objs = cxx2coq.load_objs(cxx2coq.dump_ast(cfg, repo))
    spec = cxx2coq.find_spec(objs, cfg)
    # member function bodies by decl id
    body = {}          # id -> node
    entries = []       # (access, name, params, is_const, [ids])
    acc = 'private'
    for m in spec.get('inner', []):
        k = m.get('kind')
        if k == 'AccessSpecDecl':
            acc = m.get('access', acc); continue
        if k not in ('CXXMethodDecl', 'FunctionTemplateDecl'):
            continue
        bs = bodies(m)
        for b in bs:
            body[b['id']] = b
        if k == 'FunctionTemplateDecl':
            pat = next((y for y in m.get('inner', []) if y.get('kind') == 'CXXMethodDecl'), None)
            ps, cst = params_of(pat, cls) if pat else ('', False)
            entries.append((acc, m.get('name'), '<T>' + ps, cst, [b['id'] for b in bs], not bs))
        else:
            ps, cst = params_of(m, cls)
            if m.get('isImplicit') or m.get('explicitlyDeleted'):
                continue
            entries.append((acc, m.get('name'), ps, cst, [b['id'] for b in bs], not bs))
    # SetExtractedItem(Set& set, ConstIterator iter) / MapExtractedPair(Map&, iter) call set.Remove(iter, *this)
    extract_targets = set()
    for (acc_, name_, ps_, cst_, ids_, un_) in entries:
        if name_ == 'Remove' and 'Extracted' in ps_:
            extract_targets |= set(ids_)
    # direct facts per body
    own = {}; calls = {}; cross = {}
    for i, b in body.items():
        o = set(); c = set(); x = set()
        for n in walk(b):
            if n.get('kind') == 'MemberExpr':
                nm = n.get('name'); ref = n.get('referencedMemberDecl')
                if nm in OWN_CALLS:
                    o.add(OWN_CALLS[nm])
                if ref in body:
                    c.add(ref)
                elif n.get('type', {}).get('qualType') == '<bound member function type>':
                    base = (n.get('inner') or [{}])[0]
                    bc = class_of_type(base.get('type'))
                    if (bc, nm) in prev:
                        x.add((bc, nm))
            elif n.get('kind') in ('CXXConstructExpr', 'CXXTemporaryObjectExpr') and re.search(r'Extracted(Item|Pair)', n.get('type', {}).get('qualType', '')) \
                    and len(n.get('inner') or []) == 2:
                c |= extract_targets
            elif n.get('kind') == 'UnaryOperator' and n.get('opcode') == '++':
                for q in walk(n):
                    if q.get('kind') == 'MemberExpr' and q.get('name') in OWN_INCS:
                        o.add(OWN_INCS[q['name']])
                    if q.get('kind') == 'MemberExpr' and re.search(r'[vV]ersion$', q.get('name') or '') and \
                            q.get('type', {}).get('qualType') != '<bound member function type>':
                        o.add(q['name'])
        own[i] = o; calls[i] = c; cross[i] = x
    # may-reach closure inside the class
    reach_all = {}; reach_any = {}
    for i in body:
        seen = set(); st = [i]; ta = set(); tn = set()
        while st:
            j = st.pop()
            if j in seen: continue
            seen.add(j)
            ta |= own[j]; tn |= own[j]
            for (bc, nm) in cross[j]:
                a, n2 = prev[(bc, nm)]
                ta |= {bc + '.' + t for t in a}; tn |= {bc + '.' + t for t in n2}
            st.extend(calls[j])
        reach_all[i] = ta; reach_any[i] = tn
    rows = []
    byname = {}
    for (acc, name, ps, cst, ids, uninst) in entries:
        if ids:
            ta = set.intersection(*[reach_all[i] for i in ids]); tn = set.union(*[reach_any[i] for i in ids])
        else:
            ta = set(); tn = set()
        if ids:
            a0, n0 = byname.get(name, (None, set()))
            byname[name] = (ta if a0 is None else (a0 & ta), n0 | tn)
        if uninst and name in QUERY_TEMPLATES:
            continue          # heterogeneous-lookup overloads (need a transparent traits class): same body as the non-template overload
        if acc == 'public' and not name.startswith('operator=') and name != 'operator==' and name != cls:
            rows.append({'class': cls, 'method': '%s(%s)%s' % (name, ps, ' const' if cst else ''), 'const': cst,
                         'all': sorted(ta), 'any': sorted(tn), 'uninstantiated': uninst})
    for name, (a, n) in byname.items():
        prev[(cls, name)] = (a or set(), n)
    return rows


def build(repo, classes=None):
    prev = {}; rows = []
    for cls, define in CLASSES:
        if classes and cls not in classes:
            continue
        rows += analyse(cls, define, repo, prev)
    return rows


def to_coq(rows):
    def sl(l): return '[' + '; '.join('"%s"' % x for x in l) + ']'
    out = ['(* GENERATED by props/C15/vtable.py from the clang AST of /repo/include/momo (do not edit).',
           '   (class, public method, version cells certainly bumped on some path = reachable in every instantiation,',
           '    version cells bumped in some instantiation) *)',
           'From Coq Require Import String List.', 'Import ListNotations.', 'Open Scope string_scope.',
           'Definition version_table : list (string * string * list string * list string) := [']
    body = []
    for r in rows:
        body.append('  ("%s", "%s", %s, %s)' % (r['class'], r['method'].replace('"', "'"), sl(r['all']), sl(r['any'])))
    out.append(';\n'.join(body))
    out.append('].')
    return '\n'.join(out) + '\n'


if __name__ == '__main__':
    rows = build(os.environ.get('VERIF_REPO', '/repo'), sys.argv[1:] or None)
    for r in rows:
        print('%-12s %-70s all=%s any=%s%s' % (r['class'], r['method'], r['all'], r['any'], '  UNINSTANTIATED' if r['uninstantiated'] else ''))
