(* C03 -- proofs about Effects2.v (crews / node params, row-building constructors). Same Hoare logic as EffectsProofs.v. *)
From Coq Require Import ZArith Bool List Lia.
From C03 Require Import Effects EffectsProofs Effects2.
Import ListNotations.
Local Open Scope Z_scope.

(* ------------------------------------------------------------------ block lists in allocation order (newest first) *)
Fixpoint dlist (bs : list (Z * (Z * Z))) (nb : Z) : Prop :=
  match bs with
  | [] => True
  | (b, _) :: r => b < nb /\ dlist r b
  end.

Lemma dlist_mono bs : forall nb nb', nb <= nb' -> dlist bs nb -> dlist bs nb'.
Proof. destruct bs as [|[b p] r]; simpl; intros; [exact I|]. destruct H0. split; [lia|assumption]. Qed.

Lemma dlist_fresh bs : forall nb, dlist bs nb -> fresh bs nb.
Proof.
  induction bs as [|[b p] r IH]; intros nb H b' p' Hin; [destruct Hin|].
  destruct H as [Hb Hr]. destruct Hin as [E|Hin]; [inversion E; subst; exact Hb|].
  specialize (IH b Hr b' p' Hin). lia.
Qed.

Lemma dlist_cons bs nb p : dlist bs nb -> dlist ((nb, p) :: bs) (nb + 1).
Proof. intros. simpl. split; [lia|assumption]. Qed.

Lemma remove_head b p bs nb : dlist ((b, p) :: bs) nb -> remove_blk b ((b, p) :: bs) = bs.
Proof.
  intros [_ Hr]. simpl. rewrite Z.eqb_refl. simpl. apply (remove_blk_fresh bs b b); [apply dlist_fresh; exact Hr|lia].
Qed.

Lemma remove_mid b p l2 : forall l1 nb,
  dlist (l1 ++ (b, p) :: l2) nb -> remove_blk b (l1 ++ (b, p) :: l2) = l1 ++ l2 /\ dlist (l1 ++ l2) nb.
Proof.
  induction l1 as [|[x q] l1 IH]; intros nb H.
  - simpl app. split; [apply (remove_head b p l2 nb H)|]. destruct H as [Hb Hr]. apply (dlist_mono l2 b nb); [lia|exact Hr].
  - simpl in H. destruct H as [Hx Hr]. destruct (IH x Hr) as [E D].
    assert (b < x). { apply (dlist_fresh _ x Hr b p). apply in_or_app. right. left. reflexivity. }
    simpl. destruct (Z.eqb_spec x b); [lia|]. simpl. split; [f_equal; exact E|]. split; [exact Hx|exact D].
Qed.

Lemma find_blk_in l : forall b p, In (b, p) l -> exists q, find_blk b l = Some q.
Proof.
  induction l as [|[x q] l IH]; intros b p Hin; [destruct Hin|]. simpl.
  destruct (Z.eqb_spec x b); [eexists; reflexivity|]. destruct Hin as [E|Hin]; [inversion E; congruence|].
  apply (IH b p Hin).
Qed.

Lemma dlist_app_r l1 : forall l2 nb, dlist (l1 ++ l2) nb -> dlist l2 nb.
Proof.
  induction l1 as [|[x q] l1 IH]; intros l2 nb H; [exact H|]. simpl in H. destruct H as [Hx Hr].
  apply (dlist_mono l2 x nb); [lia|]. apply IH. exact Hr.
Qed.

(* ================================================================== crews and node params *)
Section CrewProofs.
Variables mgr crewsz parsz nodesz : Z.

Definition nblks (ns : list Z) : list (Z * (Z * Z)) := map (fun n => (n, (mgr, nodesz))) ns.
(* the blocks a set owns, newest first: nodes, node params, crew *)
Definition fp (c : cset) : list (Z * (Z * Z)) :=
  nblks (c_nodes c) ++
  match c_params c with Some (p, _) => [(p, (mgr, parsz))] | None => [] end ++
  match c_crew c with Some cr => [(cr, (mgr, crewsz))] | None => [] end.

(* representation invariant of a (non moved-from) set living on top of the blocks [rest]:
   its params' pools point into ITS OWN crew *)
Definition cs_wf (c : cset) (rest : list (Z * (Z * Z))) (s : rstate) (f : loc -> bool) (nb : Z) : Prop :=
  st_is s f (fp c ++ rest) nb /\ dlist (fp c ++ rest) nb /\
  (exists cr, c_crew c = Some cr /\
              match c_params c with Some (_, via) => via = cr | None => c_nodes c = [] end).

Lemma touch_in b s f bs nb p :
  st_is s f bs nb -> In (b, p) bs -> post (p_touch_blk b) s (fun _ s' => st_is s' f bs nb) (fun _ => False).
Proof. intros H Hin. destruct (find_blk_in bs b p Hin) as [q Hq]. apply (p_touch_post b s f bs nb q H Hq). Qed.

Lemma cs_create_post s f bs nb :
  st_is s f bs nb -> dlist bs nb ->
  post (cs_create mgr crewsz) s (fun c s' => c = mkC (Some nb) None [] /\ cs_wf c bs s' f (nb + 1)) (fun s' => st_is s' f bs nb).
Proof.
  intros H D. unfold cs_create. apply post_bind.
  eapply post_conseq; [apply (p_alloc_post mgr crewsz s f bs nb H)| |first [solve [auto] | intros ? []]].
  intros crew s1 [E H1]. subst crew. apply post_ret. split; [reflexivity|].
  split; [exact H1|]. split; [apply dlist_cons; exact D|]. exists nb. split; reflexivity.
Qed.

Lemma via_alloc_post via sz s f bs nb p :
  st_is s f bs nb -> In (via, p) bs ->
  post (via_alloc mgr via sz) s (fun b s' => b = nb /\ st_is s' f ((nb, (mgr, sz)) :: bs) (nb + 1)) (fun s' => st_is s' f bs nb).
Proof.
  intros H Hin. unfold via_alloc. apply post_bind.
  eapply post_conseq; [apply (touch_in via s f bs nb p H Hin)| |first [solve [auto] | intros ? []]].
  intros u s1 H1. apply (p_alloc_post mgr sz s1 f bs nb H1).
Qed.

Lemma crew_in_fp c rest cr : c_crew c = Some cr -> In (cr, (mgr, crewsz)) (fp c ++ rest).
Proof.
  intros E. unfold fp. rewrite E. apply in_or_app. left. apply in_or_app. right. apply in_or_app. right. left. reflexivity.
Qed.

Lemma cs_add_nodes_spec via : forall n c rest s f nb p,
  cs_wf c rest s f nb -> c_crew c = Some via -> c_params c = Some (p, via) ->
  match cs_add_nodes mgr nodesz via n c s with
  | ((_, Stuck), _) => False
  | ((c', _), s') => exists nb', nb <= nb' /\ cs_wf c' rest s' f nb' /\ c_crew c' = Some via
  end.
Proof.
  induction n as [|n IH]; intros c rest s f nb p W Ec Ep; simpl.
  - exists nb. split; [lia|]. split; assumption.
  - destruct W as (H & D & Wf).
    pose proof (via_alloc_post via nodesz s f _ nb _ H (crew_in_fp c rest via Ec)) as P. unfold post in P.
    destruct (via_alloc mgr via nodesz s) as [[node| |] s1]; [| |contradiction].
    + destruct P as [En H1]. subst node.
      assert (W1 : cs_wf (mkC (c_crew c) (c_params c) (nb :: c_nodes c)) rest s1 f (nb + 1)).
      { split; [exact H1|]. split; [apply (dlist_cons _ nb (mgr, nodesz)); exact D|].
        exists via. split; [exact Ec|]. cbn [c_params]. rewrite Ep. reflexivity. }
      specialize (IH _ rest s1 f (nb + 1) p W1 Ec Ep).
      destruct (cs_add_nodes mgr nodesz via n _ s1) as [[c' o] s2].
      destruct o; try contradiction; destruct IH as (nb' & Hle & W' & Ec'); exists nb'; (split; [lia|]); split; assumption.
    + exists nb. split; [lia|]. split; [|exact Ec]. split; [exact P|]. split; assumption.
Qed.

Lemma cs_fill_spec n c rest s f nb :
  cs_wf c rest s f nb ->
  match cs_fill mgr parsz nodesz n c s with
  | ((_, Stuck), _) => False
  | ((c', _), s') => exists nb', nb <= nb' /\ cs_wf c' rest s' f nb' /\ c_crew c' = c_crew c
  end.
Proof.
  intros W. pose proof W as (H & D & (cr & Ec & Wp)). unfold cs_fill. destruct n as [|n].
  - exists nb. split; [lia|]. split; [exact W|reflexivity].
  - rewrite Ec. destruct (c_params c) as [[p via]|] eqn:Ep.
    + subst via.
      pose proof (cs_add_nodes_spec cr (S n) c rest s f nb p W Ec Ep) as A.
      destruct (cs_add_nodes mgr nodesz cr (S n) c s) as [[c' o] s'].
      destruct o; try contradiction; destruct A as (nb' & Hle & W' & Ec'); exists nb'; (split; [lia|]); (split; [exact W'|congruence]).
    + pose proof (via_alloc_post cr parsz s f _ nb _ H (crew_in_fp c rest cr Ec)) as P. unfold post in P.
      destruct (via_alloc mgr cr parsz s) as [[pp| |] s1]; [| |contradiction].
      * destruct P as [En H1]. subst pp.
        assert (W1 : cs_wf (mkC (Some cr) (Some (nb, cr)) (c_nodes c)) rest s1 f (nb + 1)).
        { unfold cs_wf, fp in *. cbn [c_crew c_params c_nodes]. rewrite Ec, Ep, Wp in *. simpl app in *.
          split; [exact H1|]. split; [apply (dlist_cons _ nb (mgr, parsz)); exact D|].
          exists cr. split; reflexivity. }
        pose proof (cs_add_nodes_spec cr (S n) _ rest s1 f (nb + 1) nb W1 eq_refl eq_refl) as A.
        destruct (cs_add_nodes mgr nodesz cr (S n) _ s1) as [[c' o] s'].
        destruct o; try contradiction; destruct A as (nb' & Hle & W' & Ec'); exists nb'; (split; [lia|]);
          (split; [exact W'|exact Ec']).
      * exists nb. split; [lia|]. split; [|exact Ec]. split; [exact P|]. split; [exact D|]. exists cr. rewrite Ep. split; assumption.
Qed.

Lemma cs_free_nodes_post via : forall ns tail s f nb q,
  st_is s f (nblks ns ++ tail) nb -> dlist (nblks ns ++ tail) nb -> In (via, q) tail ->
  post (cs_free_nodes mgr nodesz via ns) s (fun _ s' => st_is s' f tail nb /\ dlist tail nb) (fun _ => False).
Proof.
  induction ns as [|n ns IH]; intros tail s f nb q H D Hin; simpl.
  - apply post_ret. split; assumption.
  - apply post_bind. unfold via_dealloc. apply post_bind.
    eapply post_conseq; [apply (touch_in via s f _ nb q H)| |first [solve [auto] | intros ? []]].
    { right. apply in_or_app. right. exact Hin. }
    intros u1 s1 H1.
    eapply post_conseq; [apply (p_dealloc_post mgr n nodesz s1 _ _ _ H1)| |first [solve [auto] | intros ? []]].
    { simpl. rewrite Z.eqb_refl. reflexivity. }
    intros u2 s2 H2. change (nblks (n :: ns) ++ tail) with ((n, (mgr, nodesz)) :: nblks ns ++ tail) in *.
    rewrite (remove_head n (mgr, nodesz) _ nb D) in H2.
    apply (IH tail s2 f nb q H2); [|exact Hin]. destruct D as [Hn Dr]. apply (dlist_mono _ n nb); [lia|exact Dr].
Qed.

Lemma cs_destroy_post c rest s f nb :
  cs_wf c rest s f nb ->
  post (cs_destroy mgr crewsz parsz nodesz c) s (fun _ s' => st_is s' f rest nb /\ dlist rest nb) (fun _ => False).
Proof.
  intros (H & D & (cr & Ec & Wp)). unfold cs_destroy. rewrite Ec. unfold fp in H, D. rewrite Ec in H, D.
  apply post_bind. destruct (c_params c) as [[p via]|] eqn:Ep.
  - subst via. apply post_bind.
    eapply post_conseq;
      [apply (cs_free_nodes_post cr (c_nodes c) ([(p, (mgr, parsz))] ++ [(cr, (mgr, crewsz))] ++ rest) s f nb (mgr, crewsz))| |first [solve [auto] | intros ? []]].
    + rewrite <- !app_assoc in H. exact H.
    + rewrite <- !app_assoc in D. exact D.
    + right. left. reflexivity.
    + intros u1 s1 [H1 D1]. simpl app in H1, D1. apply post_bind.
      eapply post_conseq; [apply (touch_in cr s1 f _ nb (mgr, crewsz) H1)| |first [solve [auto] | intros ? []]]. { right. left. reflexivity. }
      intros u2 s2 H2. unfold via_dealloc. apply post_bind.
      eapply post_conseq; [apply (touch_in cr s2 f _ nb (mgr, crewsz) H2)| |first [solve [auto] | intros ? []]]. { right. left. reflexivity. }
      intros u3 s3 H3.
      eapply post_conseq; [apply (p_dealloc_post mgr p parsz s3 _ _ _ H3)| |first [solve [auto] | intros ? []]].
      { simpl. rewrite Z.eqb_refl. reflexivity. }
      intros u4 s4 H4. rewrite (remove_head p (mgr, parsz) _ nb D1) in H4.
      destruct D1 as [Hp D2].
      eapply post_conseq; [apply (p_dealloc_post mgr cr crewsz s4 _ _ _ H4)| |first [solve [auto] | intros ? []]].
      { simpl. rewrite Z.eqb_refl. reflexivity. }
      intros u5 s5 H5. assert (D2' : dlist ((cr, (mgr, crewsz)) :: rest) nb) by (apply (dlist_mono _ p nb); [lia|exact D2]).
      rewrite (remove_head cr (mgr, crewsz) rest nb D2') in H5. split; [exact H5|].
      destruct D2' as [Hc D3]. apply (dlist_mono _ cr nb); [lia|exact D3].
  - rewrite Wp in H, D. simpl app in H, D. apply post_ret.
    eapply post_conseq; [apply (p_dealloc_post mgr cr crewsz s _ _ _ H)| |first [solve [auto] | intros ? []]].
    { simpl. rewrite Z.eqb_refl. reflexivity. }
    intros u5 s5 H5. rewrite (remove_head cr (mgr, crewsz) rest nb D) in H5. split; [exact H5|].
    destruct D as [Hc D3]. apply (dlist_mono _ cr nb); [lia|exact D3].
Qed.

(* a set that owns only its crew, buried under newer blocks [top]: its destructor removes exactly that one block *)
Lemma cs_destroy_bare_post cr top rest s f nb :
  st_is s f (top ++ (cr, (mgr, crewsz)) :: rest) nb -> dlist (top ++ (cr, (mgr, crewsz)) :: rest) nb ->
  post (cs_destroy mgr crewsz parsz nodesz (mkC (Some cr) None [])) s
       (fun _ s' => st_is s' f (top ++ rest) nb /\ dlist (top ++ rest) nb) (fun _ => False).
Proof.
  intros H D. unfold cs_destroy. cbn [c_crew c_params]. apply post_bind. apply post_ret.
  destruct (find_blk_in (top ++ (cr, (mgr, crewsz)) :: rest) cr (mgr, crewsz)) as [q Hq].
  { apply in_or_app. right. left. reflexivity. }
  destruct (remove_mid cr (mgr, crewsz) rest top nb D) as [E D'].
  assert (q = (mgr, crewsz)).
  { clear -Hq D. revert nb D Hq. induction top as [|[x y] top IH]; intros nb D Hq.
    - simpl in Hq. rewrite Z.eqb_refl in Hq. congruence.
    - simpl in D, Hq. destruct D as [Hx Dr].
      assert (cr < x). { apply (dlist_fresh _ x Dr cr (mgr, crewsz)). apply in_or_app. right. left. reflexivity. }
      destruct (Z.eqb_spec x cr); [lia|]. apply (IH x Dr Hq). }
  subst q.
  eapply post_conseq; [apply (p_dealloc_post mgr cr crewsz s _ _ _ H Hq)| |first [solve [auto] | intros ? []]].
  intros u s' H'. rewrite E in H'. split; assumption.
Qed.

(* ---- the c7fda03 situation, for every schedule and every k, m: the params travel with the crew they point to, every
   block is released exactly once through a live manager, and the blocks are exactly those before *)
Theorem merge_scn_post k m s f bs :
  st_is s f bs (nextb s) -> dlist bs (nextb s) ->
  post (merge_scn mgr crewsz parsz nodesz true k m) s
       (fun _ s' => st_is s' f bs (nextb s')) (fun s' => st_is s' f bs (nextb s')).
Proof.
  intros H D. unfold merge_scn, post.
  pose proof (cs_create_post s f bs _ H D) as P1. unfold post in P1.
  destruct (cs_create mgr crewsz s) as [[dst| |] s1]; [| |contradiction].
  2:{ destruct P1 as (A & B & C). rewrite C. repeat split; auto. }
  destruct P1 as [Ed W1]. set (nb := nextb s) in *.
  (* everything that happens while dst is alive ends in a state where some well-formed dst' sits on bs *)
  assert (Fin : forall dst' s5 nb5, cs_wf dst' bs s5 f nb5 ->
            match cs_destroy mgr crewsz parsz nodesz dst' s5 with
            | (Val _, s6) => st_is s6 f bs (nextb s6)
            | (Exc, s6) => st_is s6 f bs (nextb s6)
            | (Stuck, _) => False
            end).
  { intros dst' s5 nb5 W. pose proof (cs_destroy_post dst' bs s5 f nb5 W) as P. unfold post in P.
    destruct (cs_destroy mgr crewsz parsz nodesz dst' s5) as [[u| |] s6]; try contradiction.
    destruct P as [(A & B & C) _]. rewrite C. repeat split; auto. }
  assert (Body :
    match (match cs_create mgr crewsz s1 with
        | (Val src, s2) =>
            let '((src1, o1), s3) := cs_fill mgr parsz nodesz k src s2 in
            let '(src2, dst2) := match o1, c_nodes src1 with
                                 | Val _, _ :: _ => cs_merge_to_empty true src1 dst
                                 | _, _ => (src1, dst)
                                 end in
            match o1 with
            | Stuck => ((dst2, Stuck), s3)
            | _ => match cs_destroy mgr crewsz parsz nodesz src2 s3 with
                   | (Val _, s4) => match o1 with
                                    | Val _ => cs_fill mgr parsz nodesz m dst2 s4
                                    | _ => ((dst2, o1), s4)
                                    end
                   | (_, s4) => ((dst2, Stuck), s4)
                   end
            end
        | (Exc, s2) => ((dst, Exc), s2)
        | (Stuck, s2) => ((dst, Stuck), s2)
        end) with
    | ((_, Stuck), _) => False
    | ((dst', _), s5) => exists nb5, cs_wf dst' bs s5 f nb5
    end).
  { pose proof W1 as (H1 & D1 & _).
    pose proof (cs_create_post s1 f (fp dst ++ bs) (nb + 1) H1 D1) as P2. unfold post in P2.
    destruct (cs_create mgr crewsz s1) as [[src| |] s2]; [| |contradiction].
    2:{ exists (nb + 1). split; [exact P2|]. destruct W1 as (_ & ? & ?). split; assumption. }
    destruct P2 as [Es W2].
    pose proof (cs_fill_spec k src (fp dst ++ bs) s2 f _ W2) as F1.
    destruct (cs_fill mgr parsz nodesz k src s2) as [[src1 o1] s3].
    assert (Hfp : fp dst = [(nb, (mgr, crewsz))]) by (subst dst; reflexivity).
    destruct o1 as [u1| |]; [| |contradiction].
    - destruct F1 as (nb3 & Hle3 & W3 & Ec3).
      destruct (c_nodes src1) as [|n0 ns0] eqn:En.
      + (* the source stayed empty: no merge *)
        pose proof (cs_destroy_post src1 (fp dst ++ bs) s3 f nb3 W3) as P. unfold post in P.
        destruct (cs_destroy mgr crewsz parsz nodesz src1 s3) as [[u| |] s4]; try contradiction.
        destruct P as [H4 D4].
        assert (W4 : cs_wf dst bs s4 f nb3).
        { split; [exact H4|]. split; [exact D4|]. destruct W1 as (_ & _ & ?). assumption. }
        pose proof (cs_fill_spec m dst bs s4 f nb3 W4) as F2.
        destruct (cs_fill mgr parsz nodesz m dst s4) as [[dst3 o3] s5].
        destruct o3; try contradiction; destruct F2 as (nb5 & _ & W5 & _); exists nb5; exact W5.
      + (* merge: with the fix the whole content, crew included, is swapped *)
        cbn [cs_merge_to_empty]. pose proof W3 as (H3 & D3 & Wf3).
        rewrite Hfp in H3, D3.
        pose proof (cs_destroy_bare_post nb (fp src1) bs s3 f nb3 H3 D3) as P. unfold post in P. subst dst.
        destruct (cs_destroy mgr crewsz parsz nodesz {| c_crew := Some nb; c_params := None; c_nodes := [] |} s3)
          as [[u| |] s4]; try contradiction.
        destruct P as [H4 D4].
        assert (W4 : cs_wf src1 bs s4 f nb3) by (split; [exact H4|split; [exact D4|exact Wf3]]).
        pose proof (cs_fill_spec m src1 bs s4 f nb3 W4) as F2.
        destruct (cs_fill mgr parsz nodesz m src1 s4) as [[dst3 o3] s5].
        destruct o3; try contradiction; destruct F2 as (nb5 & _ & W5 & _); exists nb5; exact W5.
    - (* filling the source threw: no merge, ~src *)
      destruct F1 as (nb3 & Hle3 & W3 & Ec3).
      assert (Esel : (let '(src2, dst2) := match c_nodes src1 with | [] => (src1, dst) | _ :: _ => (src1, dst) end in
                      (src2, dst2)) = (src1, dst)) by (destruct (c_nodes src1); reflexivity).
      destruct (c_nodes src1); cbv beta iota;
        (pose proof (cs_destroy_post src1 (fp dst ++ bs) s3 f nb3 W3) as P; unfold post in P;
         destruct (cs_destroy mgr crewsz parsz nodesz src1 s3) as [[u| |] s4]; try contradiction;
         destruct P as [H4 D4]; exists nb3; split; [exact H4|]; split; [exact D4|]; destruct W1 as (_ & _ & ?); assumption). }
  destruct (match cs_create mgr crewsz s1 with | (Val src, s2) => _ | (Exc, s2) => _ | (Stuck, s2) => _ end) as [[dst' o] s5].
  destruct o as [u| |]; try contradiction; destruct Body as [nb5 W5];
    specialize (Fin dst' s5 nb5 W5); destruct (cs_destroy mgr crewsz parsz nodesz dst' s5) as [[u'| |] s6];
    try contradiction; exact Fin.
Qed.

(* move construction: the crew is released once, by the new owner; the moved-from set releases nothing *)
Theorem move_scn_post k s f bs :
  st_is s f bs (nextb s) -> dlist bs (nextb s) ->
  post (move_scn mgr crewsz parsz nodesz k) s
       (fun _ s' => st_is s' f bs (nextb s')) (fun s' => st_is s' f bs (nextb s')).
Proof.
  intros H D. unfold move_scn, post.
  pose proof (cs_create_post s f bs _ H D) as P1. unfold post in P1.
  destruct (cs_create mgr crewsz s) as [[a| |] s1]; [| |contradiction].
  2:{ destruct P1 as (A & B & C). rewrite C. repeat split; auto. }
  destruct P1 as [Ea W1].
  pose proof (cs_fill_spec k a bs s1 f _ W1) as F1.
  destruct (cs_fill mgr parsz nodesz k a s1) as [[a1 o1] s2].
  destruct o1 as [u1| |]; [| |contradiction]; destruct F1 as (nb2 & _ & W2 & _).
  - cbn [cs_move]. unfold bind at 1. unfold cs_destroy at 2. cbn [c_crew].
    pose proof (cs_destroy_post a1 bs s2 f nb2 W2) as P. unfold post in P.
    destruct (cs_destroy mgr crewsz parsz nodesz a1 s2) as [[u| |] s3]; try contradiction.
    unfold ret. destruct P as [(A & B & C) _]. rewrite C. repeat split; auto.
  - pose proof (cs_destroy_post a1 bs s2 f nb2 W2) as P. unfold post in P.
    destruct (cs_destroy mgr crewsz parsz nodesz a1 s2) as [[u| |] s3]; try contradiction.
    destruct P as [(A & B & C) _]. rewrite C. repeat split; auto.
Qed.

End CrewProofs.

(* the shape BEFORE c7fda03: one node in the source, merge into the empty destination, ~source frees the crew the
   destination's params point into; the destination's destructor then goes through a dead manager: Stuck *)
Theorem merge_params_without_crew_refuted :
  exists (k m : nat) (sch : list bool),
    is_stuck (merge_scn 1 24 168 450 false k m (init_state (-1) 0 sch)) = true /\
    is_stuck (merge_scn 1 24 168 450 true k m (init_state (-1) 0 sch)) = false.
Proof. exists 1%nat, 1%nat, []. split; vm_compute; reflexivity. Qed.

(* ================================================================== row-building constructors *)
Section RowsProofs.
Variables mgr rsz crewsz : Z.
Variable colsf : Z -> nat.
Variable haskey : bool.
Variable linkfail : bool.
Variable stride : Z.
Hypothesis Hstride : 0 <= stride.

Definition rblks (rows : list (Z * nat)) : list (Z * (Z * Z)) := map (fun rw => (fst rw, (mgr, rsz))) rows.
Definition in_rows (rows : list (Z * nat)) (l : loc) : bool := existsb (fun rw => inrng (fst rw) 0 (snd rw) l) rows.

(* the fixed part of the world: untouched cells f (false on every region >= nb0), blocks bs, endless source rows sr / keys kr *)
Variable f : loc -> bool.
Variable bs : list (Z * (Z * Z)).
Variables nb0 sr kr : Z.
Hypothesis Hcl : forall l, nb0 <= fst l -> f l = false.
Hypothesis Hsr : forall x, 0 <= x -> f (sr, x) = true.
Hypothesis Hkr : forall x, 0 <= x -> f (kr, x) = true.

Definition rows_inv (rows : list (Z * nat)) (s : rstate) (nb : Z) : Prop :=
  st_is s (fun l => in_rows rows l || f l) (rblks rows ++ bs) nb /\ dlist (rblks rows ++ bs) nb /\
  Forall (fun rw => nb0 <= fst rw) rows /\ nb0 <= nb.

Lemma in_rows_other rows l : (forall rw, In rw rows -> fst rw <> fst l) -> in_rows rows l = false.
Proof.
  induction rows as [|r rows IH]; intros Hn; [reflexivity|]. simpl.
  rewrite (inrng_other_region (fst r) 0 (snd r) l) by (intros E; apply (Hn r (or_introl eq_refl)); congruence).
  apply IH. intros r' Hin. apply Hn. right. exact Hin.
Qed.

Lemma rows_below rows s nb : rows_inv rows s nb -> forall rw, In rw rows -> fst rw < nb.
Proof.
  intros (_ & D & _) rw Hin. apply (dlist_fresh _ nb D (fst rw) (mgr, rsz)). apply in_or_app. left.
  unfold rblks. apply in_map_iff. exists rw. split; [reflexivity|exact Hin].
Qed.

(* a region that is not one of the rows and not below nb0 is untouched *)
Lemma region_clear rows s nb l : rows_inv rows s nb -> nb <= fst l -> in_rows rows l || f l = false.
Proof.
  intros I Hl. pose proof I as (_ & _ & _ & Hn). rewrite (Hcl l) by lia. rewrite orb_false_r.
  apply in_rows_other. intros rw Hin. pose proof (rows_below rows s nb I rw Hin). lia.
Qed.

Lemma import_row_post cols sb s f' bs' nb :
  st_is s f' bs' nb -> dlist bs' nb -> (forall l, fst l = nb -> f' l = false) ->
  (forall k, 0 <= k < Z.of_nat cols -> f' (sr, sb + 0 + k) = true) ->
  post (import_row mgr rsz cols sr sb) s
       (fun row s' => row = nb /\ st_is s' (fun l => inrng nb 0 cols l || f' l) ((nb, (mgr, rsz)) :: bs') (nb + 1))
       (fun s' => exists nb', nb <= nb' /\ st_is s' f' bs' nb').
Proof.
  intros H D Hc Hs. unfold import_row, post.
  pose proof (p_alloc_post mgr rsz s f' bs' nb H) as P. unfold post in P.
  destruct (p_alloc mgr rsz s) as [[row| |] s1]; [| |contradiction].
  2:{ exists nb. split; [lia|exact P]. }
  destruct P as [En H1]. subst row.
  assert (Hr : forall k, 0 <= k < Z.of_nat cols -> f' (sr, sb + 0 + k) = true /\ f' (nb, 0 + 0 + k) = false).
  { intros k Hk. split; [apply Hs; assumption|]. apply Hc. reflexivity. }
  pose proof (om_copy_loop_post sr sb nb 0 cols 0 s1 f' _ _ H1 Hr) as L.
  destruct (om_copy_loop sr sb nb 0 0 cols s1) as [[idx o] s2].
  destruct o as [u| |]; [| |contradiction].
  - destruct L as [_ S2]. split; [reflexivity|exact S2].
  - destruct L as [Hi S2]. rewrite Z.add_0_l, Z.sub_0_r in S2.
    fold (post (catch_rethrow (@throw Z) (om_destroy_n nb 0 (Z.to_nat idx) ;;; p_dealloc mgr nb rsz)) s2
           (fun row s' => row = nb /\ st_is s' (fun l => inrng nb 0 cols l || f' l) ((nb, (mgr, rsz)) :: bs') (nb + 1))
           (fun s' => exists nb', nb <= nb' /\ st_is s' f' bs' nb')).
    apply post_catch. apply post_throw. apply post_bind.
    eapply post_conseq; [apply (om_destroy_n_post nb (Z.to_nat idx) 0 s2 _ _ _ S2)| |intros ? []].
    + intros k Hk. cbv beta. rewrite (inrng_in nb 0 (Z.to_nat idx) k Hk). reflexivity.
    + intros u1 s3 H3.
      eapply post_conseq; [apply (p_dealloc_post mgr nb rsz s3 _ _ _ H3)| |intros ? []].
      * simpl. rewrite Z.eqb_refl. reflexivity.
      * intros u2 s4 H4. exists (nb + 1). split; [lia|].
        rewrite (remove_head nb (mgr, rsz) bs' (nb + 1) (dlist_cons bs' nb (mgr, rsz) D)) in H4.
        eapply st_is_ext; [|exact H4]. apply undo_dst. intros k Hk. apply Hc. reflexivity.
Qed.

(* dropping a row that occupies [m] cells *)
Lemma drop_post m (dropper : Z -> M unit) row s f' bs' nb :
  (dropper row = (p_touch_blk row ;;; om_destroy_n row 0 m ;;; p_dealloc mgr row rsz)) ->
  st_is s (fun l => inrng row 0 m l || f' l) ((row, (mgr, rsz)) :: bs') nb -> dlist ((row, (mgr, rsz)) :: bs') nb ->
  (forall l, fst l = row -> f' l = false) ->
  post (dropper row) s (fun _ s' => st_is s' f' bs' nb) (fun _ => False).
Proof.
  intros Ed H D Hc. rewrite Ed. apply post_bind.
  eapply post_conseq; [apply (p_touch_post row s _ _ _ (mgr, rsz) H)| |auto].
  { simpl. rewrite Z.eqb_refl. reflexivity. }
  intros u1 s1 H1. apply post_bind.
  eapply post_conseq; [apply (om_destroy_n_post row m 0 s1 _ _ _ H1)| |auto].
  { intros k Hk. cbv beta. rewrite (inrng_in row 0 m k Hk). reflexivity. }
  intros u2 s2 H2.
  eapply post_conseq; [apply (p_dealloc_post mgr row rsz s2 _ _ _ H2)| |auto].
  { simpl. rewrite Z.eqb_refl. reflexivity. }
  intros u3 s3 H3. rewrite (remove_head row (mgr, rsz) bs' nb D) in H3.
  eapply st_is_ext; [|exact H3]. apply undo_dst. intros k Hk. apply Hc. reflexivity.
Qed.

Lemma link_row_post cols row i s f' bs' nb :
  0 <= i -> st_is s (fun l => inrng row 0 cols l || f' l) bs' nb ->
  (forall l, fst l = row -> f' l = false) -> f' (kr, i) = true ->
  post (link_row haskey linkfail cols row kr i) s
       (fun _ s' => st_is s' (fun l => inrng row 0 (cols + keyw haskey) l || f' l) bs' nb)
       (fun s' => st_is s' (fun l => inrng row 0 cols l || f' l) bs' nb).
Proof.
  intros Hi H Hc Hk. unfold link_row, keyw. apply post_bind.
  assert (F : post (if linkfail then fallible else ret tt) s
                (fun _ s' => st_is s' (fun l => inrng row 0 cols l || f' l) bs' nb)
                (fun s' => st_is s' (fun l => inrng row 0 cols l || f' l) bs' nb)).
  { destruct linkfail; [apply (fallible_post s _ _ _ H)|apply post_ret; exact H]. }
  eapply post_conseq; [exact F| |auto].
  intros u1 s1 H1. destruct haskey.
  - eapply post_conseq; [apply (p_copy_post (row, Z.of_nat cols) (kr, i) s1 _ _ _ H1)| |auto].
    + cbv beta. rewrite Hk. apply orb_true_r.
    + cbv beta. rewrite (Hc (row, Z.of_nat cols) eq_refl), orb_false_r.
      destruct (inrng_spec row 0 cols (row, Z.of_nat cols)) as [[_ Eb]|]; [simpl in Eb; lia|reflexivity].
    + intros u2 s2 H2. eapply st_is_ext; [|exact H2]. intros l. cbv beta.
      replace (cols + 1)%nat with (S cols) by lia.
      pose proof (inrng_snoc row 0 cols l) as E. rewrite Z.add_0_l in E. rewrite E.
      destruct (loc_eqb l (row, Z.of_nat cols)), (inrng row 0 cols l), (f' l); reflexivity.
  - apply post_ret. replace (cols + 0)%nat with cols by lia. exact H1.
Qed.

Lemma fill_loop_spec : forall n i rows s nb,
  0 <= i -> rows_inv rows s nb ->
  match fill_loop mgr rsz colsf haskey linkfail stride sr kr i n rows s with
  | ((_, Stuck), _) => False
  | ((rows', _), s') => exists nb', rows_inv rows' s' nb'
  end.
Proof.
  induction n as [|n IH]; intros i rows s nb Hi I; simpl.
  - exists nb. exact I.
  - pose proof I as (H & D & Hge & Hn).
    assert (Hc : forall l, fst l = nb -> in_rows rows l || f l = false).
    { intros l El. apply (region_clear rows s nb l I). lia. }
    assert (Hs : forall k, 0 <= k < Z.of_nat (colsf i) -> in_rows rows (sr, i * stride + 0 + k) || f (sr, i * stride + 0 + k) = true).
    { intros k Hk. rewrite Hsr by nia. apply orb_true_r. }
    pose proof (import_row_post (colsf i) (i * stride) s _ _ nb H D Hc Hs) as P. unfold post in P.
    destruct (import_row mgr rsz (colsf i) sr (i * stride) s) as [[row| |] s1]; [| |contradiction].
    2:{ destruct P as (nb' & Hle & H'). exists nb'. split; [exact H'|]. split; [apply (dlist_mono _ nb nb'); [lia|exact D]|].
        split; [exact Hge|lia]. }
    destruct P as [Er H1]. subst row.
    assert (D1 : dlist ((nb, (mgr, rsz)) :: rblks rows ++ bs) (nb + 1)) by (apply dlist_cons; exact D).
    assert (L : post (catch_rethrow (link_row haskey linkfail (colsf i) nb kr i) (drop_unlinked mgr rsz (colsf i) nb)) s1
                  (fun _ s' => st_is s' (fun l => inrng nb 0 (colsf i + keyw haskey) l || (in_rows rows l || f l))
                                     ((nb, (mgr, rsz)) :: rblks rows ++ bs) (nb + 1))
                  (fun s' => st_is s' (fun l => in_rows rows l || f l) (rblks rows ++ bs) (nb + 1))).
    { apply post_catch.
      eapply post_conseq; [apply (link_row_post (colsf i) nb i s1 _ _ _ Hi H1 Hc)| |].
      - rewrite Hkr by lia. apply orb_true_r.
      - auto.
      - intros s2 H2. eapply post_conseq; [apply (drop_post (colsf i) (drop_unlinked mgr rsz (colsf i)) nb s2 _ _ _ eq_refl H2 D1 Hc)|auto|intros ? []]. }
    unfold post in L.
    destruct (catch_rethrow (link_row haskey linkfail (colsf i) nb kr i) (drop_unlinked mgr rsz (colsf i) nb) s1) as [[u| |] s2]; [| |contradiction].
    + assert (I2 : rows_inv ((nb, (colsf i + keyw haskey)%nat) :: rows) s2 (nb + 1)).
      { split; [|split; [exact D1|split; [constructor; [simpl; lia|exact Hge]|lia]]].
        eapply st_is_ext; [|exact L]. intros l. simpl. apply orb_assoc. }
      apply (IH (i + 1) ((nb, (colsf i + keyw haskey)%nat) :: rows) s2 (nb + 1)); [lia|exact I2].
    + exists (nb + 1). split; [exact L|]. split; [apply (dlist_mono _ nb (nb + 1)); [lia|exact D]|]. split; [exact Hge|lia].
Qed.

Lemma drop_rows_post : forall rows s nb,
  rows_inv rows s nb ->
  post (drop_rows mgr rsz rows) s (fun _ s' => rows_inv [] s' nb) (fun _ => False).
Proof.
  induction rows as [|[r w] rows IH]; intros s nb I; simpl.
  - apply post_ret. exact I.
  - pose proof I as (H & D & Hge & Hn). apply post_bind.
    assert (Hr : nb0 <= r) by (inversion Hge; assumption).
    assert (Dr : dlist (rblks rows ++ bs) r) by (destruct D as [_ ?]; assumption).
    assert (Hc : forall l, fst l = r -> in_rows rows l || f l = false).
    { intros l El. rewrite (Hcl l) by lia. rewrite orb_false_r. apply in_rows_other. intros r' Hin.
      assert (fst r' < r). { apply (dlist_fresh _ r Dr (fst r') (mgr, rsz)). apply in_or_app. left. unfold rblks.
                             apply in_map_iff. exists r'. split; [reflexivity|exact Hin]. }
      lia. }
    assert (H' : st_is s (fun l => inrng r 0 w l || (in_rows rows l || f l)) ((r, (mgr, rsz)) :: rblks rows ++ bs) nb).
    { eapply st_is_ext; [|exact H]. intros l. simpl. symmetry. apply orb_assoc. }
    eapply post_conseq; [apply (drop_post w (fun b => p_touch_blk b ;;; om_destroy_n b 0 w ;;; p_dealloc mgr b rsz) r s _ _ _ eq_refl H' D Hc)| |auto].
    intros u s1 H1. apply (IH s1 nb). split; [exact H1|]. split; [apply (dlist_mono _ r nb); [destruct D as [Hb _]; simpl in Hb; lia|exact Dr]|].
    split; [inversion Hge; assumption|exact Hn].
Qed.

Lemma rows_inv_nil s nb : st_is s f bs nb -> dlist bs nb -> nb0 <= nb -> rows_inv [] s nb.
Proof. intros H D Hn. split; [exact H|]. split; [exact D|]. split; [constructor|exact Hn]. Qed.

(* pvFill (as fixed in 91ea186) + ~DataTable: every schedule, every row count: never Stuck, rows released exactly once *)
Lemma dt_body_post n s nb :
  rows_inv [] s nb ->
  post (dt_body mgr rsz colsf haskey linkfail stride true sr kr n) s (fun _ s' => exists nb', st_is s' f bs nb') (fun s' => exists nb', st_is s' f bs nb').
Proof.
  intros I. unfold dt_body, post.
  pose proof (fill_loop_spec n 0 [] s nb (Z.le_refl 0) I) as F.
  destruct (fill_loop mgr rsz colsf haskey linkfail stride sr kr 0 n [] s) as [[rows o] s1].
  destruct o as [u| |]; [| |contradiction]; destruct F as [nb1 I1].
  - pose proof (drop_rows_post rows s1 nb1 I1) as Dp. unfold post in Dp.
    destruct (drop_rows mgr rsz rows s1) as [[u'| |] s3]; try contradiction.
    exists nb1. destruct Dp as (A & _). exact A.
  - pose proof (drop_rows_post rows s1 nb1 I1) as Dp. unfold post in Dp.
    destruct (drop_rows mgr rsz rows s1) as [[u'| |] s2]; try contradiction.
    simpl. exists nb1. destruct Dp as (A & _). exact A.
Qed.

(* HashMultiMap body + catch + (guarded) destructor part, the value crew being the newest block of the base *)
Lemma hmm_body_post n s nb vcrew bs1 :
  bs = (vcrew, (mgr, crewsz)) :: bs1 -> rows_inv [] s nb ->
  post (hmm_body mgr rsz crewsz colsf haskey linkfail stride true vcrew sr kr n) s
       (fun _ s' => exists nb', st_is s' f bs1 nb') (fun s' => exists nb', st_is s' f bs1 nb').
Proof.
  intros Eb I. unfold hmm_body, post.
  pose proof (fill_loop_spec n 0 [] s nb (Z.le_refl 0) I) as F.
  destruct (fill_loop mgr rsz colsf haskey linkfail stride sr kr 0 n [] s) as [[rows o] s1].
  assert (Rel : forall s1' nb1, rows_inv rows s1' nb1 ->
            post (drop_rows mgr rsz rows ;;; p_dealloc mgr vcrew crewsz) s1'
                 (fun _ s' => st_is s' f bs1 nb1) (fun _ => False)).
  { intros s1' nb1 I1. apply post_bind.
    eapply post_conseq; [apply (drop_rows_post rows s1' nb1 I1)| |auto].
    intros u s2 (A & Dd & _). simpl app in A, Dd. rewrite Eb in A, Dd.
    eapply post_conseq; [apply (p_dealloc_post mgr vcrew crewsz s2 _ _ _ A)| |auto].
    - simpl. rewrite Z.eqb_refl. reflexivity.
    - intros u2 s3 H3. rewrite (remove_head vcrew (mgr, crewsz) bs1 nb1 Dd) in H3. exact H3. }
  destruct o as [u| |]; [| |contradiction]; destruct F as [nb1 I1].
  - specialize (Rel s1 nb1 I1). unfold post in Rel.
    destruct ((drop_rows mgr rsz rows;;; p_dealloc mgr vcrew crewsz) s1) as [[u'| |] s3]; try contradiction.
    exists nb1. exact Rel.
  - specialize (Rel s1 nb1 I1). unfold post in Rel.
    destruct ((drop_rows mgr rsz rows;;; p_dealloc mgr vcrew crewsz) s1) as [[u'| |] s2]; try contradiction.
    simpl. exists nb1. exact Rel.
Qed.

End RowsProofs.

Lemma post_finally {A} (m : M A) (h : M unit) s (Qv : A -> rstate -> Prop) (Qe : rstate -> Prop) :
  post m s (fun a s1 => post h s1 (fun _ s2 => Qv a s2) Qe) (fun s1 => post h s1 (fun _ s2 => Qe s2) Qe) ->
  post (finally m h) s Qv Qe.
Proof.
  unfold post, finally. destruct (m s) as [[a| |] s1]; auto; destruct (h s1) as [[u| |] s2]; auto.
Qed.

Section RowCtors.
Variables mgr rsz crewsz : Z.
Variable colsf : Z -> nat.
Variable haskey : bool.
Variable linkfail : bool.
Variable stride : Z.
Hypothesis Hstride : 0 <= stride.

(* a world whose regions at and above the next block id are untouched and that has endless source rows / keys *)
Definition rows_world (s : rstate) (f : loc -> bool) (bs : list (Z * (Z * Z))) (sr kr : Z) : Prop :=
  st_is s f bs (nextb s) /\ dlist bs (nextb s) /\ (forall l, nextb s <= fst l -> f l = false) /\
  (forall x, 0 <= x -> f (sr, x) = true) /\ (forall x, 0 <= x -> f (kr, x) = true).

(* DataTable(const DataTable&) as fixed in 91ea186: crew, pvFill, catch block, destructor: for every schedule and every
   number of rows the machine is never Stuck and ends exactly where it started *)
Theorem dt_copy_then_destroy_post sr kr n s f bs :
  rows_world s f bs sr kr ->
  post (dt_copy_then_destroy mgr rsz crewsz colsf haskey linkfail stride true sr kr n) s
       (fun _ s' => st_is s' f bs (nextb s')) (fun s' => st_is s' f bs (nextb s')).
Proof.
  intros (H & D & Hcl & Hsr & Hkr). unfold dt_copy_then_destroy. set (nb := nextb s) in *. apply post_bind.
  eapply post_conseq; [apply (p_alloc_post mgr crewsz s f bs nb H)| |].
  2:{ intros s' (A & B & C). rewrite C. repeat split; auto. }
  intros crew s0 [Ec S0]. subst crew.
  assert (D0 : dlist ((nb, (mgr, crewsz)) :: bs) (nb + 1)) by (apply dlist_cons; exact D).
  assert (Rel : forall s2 nb2, st_is s2 f ((nb, (mgr, crewsz)) :: bs) nb2 ->
            post (p_dealloc mgr nb crewsz) s2 (fun _ s3 => st_is s3 f bs (nextb s3)) (fun s3 => st_is s3 f bs (nextb s3))).
  { intros s2 nb2 H2. eapply post_conseq; [apply (p_dealloc_post mgr nb crewsz s2 _ _ _ H2)| |intros ? []].
    - simpl. rewrite Z.eqb_refl. reflexivity.
    - intros u s3 H3. rewrite (remove_head nb (mgr, crewsz) bs (nb + 1) D0) in H3.
      destruct H3 as (A & B & C). rewrite C. repeat split; auto. }
  apply post_finally.
  assert (Hcl' : forall l, nb + 1 <= fst l -> f l = false) by (intros l Hl; apply Hcl; lia).
  eapply post_conseq;
    [apply (dt_body_post mgr rsz colsf haskey linkfail stride Hstride f ((nb, (mgr, crewsz)) :: bs) (nb + 1) sr kr Hcl' Hsr Hkr n s0 (nb + 1));
     apply rows_inv_nil; [exact S0|exact D0|lia]| |].
  - intros u s2 [nb2 H2]. apply (Rel s2 nb2 H2).
  - intros s2 [nb2 H2]. apply (Rel s2 nb2 H2).
Qed.

(* HashMultiMap(const HashMultiMap&, MemManager) as fixed in 84c9298 and HashMultiMap(initializer_list): both crews, the rows,
   the catch block { pvClearValueArrays(); mValueCrew.Destroy(); } and the destructor with its IsNull guard *)
Theorem hmm_ctor_then_destroy_post sr kr n s f bs :
  rows_world s f bs sr kr ->
  post (hmm_ctor_then_destroy mgr rsz crewsz colsf haskey linkfail stride true sr kr n) s
       (fun _ s' => st_is s' f bs (nextb s')) (fun s' => st_is s' f bs (nextb s')).
Proof.
  intros (H & D & Hcl & Hsr & Hkr). unfold hmm_ctor_then_destroy. set (nb := nextb s) in *. apply post_bind.
  eapply post_conseq; [apply (p_alloc_post mgr crewsz s f bs nb H)| |].
  2:{ intros s' (A & B & C). rewrite C. repeat split; auto. }
  intros crew s0 [Ec S0]. subst crew.
  assert (D0 : dlist ((nb, (mgr, crewsz)) :: bs) (nb + 1)) by (apply dlist_cons; exact D).
  assert (Rel : forall s2 nb2, st_is s2 f ((nb, (mgr, crewsz)) :: bs) nb2 ->
            post (p_dealloc mgr nb crewsz) s2 (fun _ s3 => st_is s3 f bs (nextb s3)) (fun s3 => st_is s3 f bs (nextb s3))).
  { intros s2 nb2 H2. eapply post_conseq; [apply (p_dealloc_post mgr nb crewsz s2 _ _ _ H2)| |intros ? []].
    - simpl. rewrite Z.eqb_refl. reflexivity.
    - intros u s3 H3. rewrite (remove_head nb (mgr, crewsz) bs (nb + 1) D0) in H3.
      destruct H3 as (A & B & C). rewrite C. repeat split; auto. }
  apply post_finally. apply post_bind.
  eapply post_conseq; [apply (p_alloc_post mgr crewsz s0 f _ (nb + 1) S0)| |].
  2:{ intros s' H'. apply (Rel s' _ H'). }
  intros vcrew s1 [Ev S1]. subst vcrew.
  assert (D1 : dlist ((nb + 1, (mgr, crewsz)) :: (nb, (mgr, crewsz)) :: bs) (nb + 1 + 1)) by (apply dlist_cons; exact D0).
  assert (Hcl' : forall l, nb + 1 + 1 <= fst l -> f l = false) by (intros l Hl; apply Hcl; lia).
  eapply post_conseq;
    [apply (hmm_body_post mgr rsz crewsz colsf haskey linkfail stride Hstride f ((nb + 1, (mgr, crewsz)) :: (nb, (mgr, crewsz)) :: bs) (nb + 1 + 1) sr kr Hcl' Hsr Hkr n s1 (nb + 1 + 1) (nb + 1) _ eq_refl);
     apply rows_inv_nil; [exact S1|exact D1|lia]| |].
  - intros u s2 [nb2 H2]. apply (Rel s2 nb2 H2).
  - intros s2 [nb2 H2]. apply (Rel s2 nb2 H2).
Qed.

End RowCtors.

(* concrete world for the closed forms and the refutations: region -1 = endless source rows, region -2 = endless keys *)
Definition rows_init (sch : list bool) : rstate :=
  mkR (fun l => if (Z.eqb (fst l) (-1) || Z.eqb (fst l) (-2)) && Z.leb 0 (snd l) then Live (snd l) else Raw) [] sch 0 [].
Definition rows_init_occ (l : loc) : bool := (Z.eqb (fst l) (-1) || Z.eqb (fst l) (-2)) && Z.leb 0 (snd l).

Lemma rows_init_world sch : rows_world (rows_init sch) rows_init_occ [] (-1) (-2).
Proof.
  split; [|split; [exact I|split; [|split]]].
  - split; [|split; reflexivity]. intros l. unfold occf, rows_init, rows_init_occ. cbn [cells].
    destruct ((Z.eqb (fst l) (-1) || Z.eqb (fst l) (-2)) && Z.leb 0 (snd l)); reflexivity.
  - intros l Hl. cbn [nextb rows_init] in Hl. unfold rows_init_occ.
    destruct (Z.eqb_spec (fst l) (-1)); [lia|]. destruct (Z.eqb_spec (fst l) (-2)); [lia|]. reflexivity.
  - intros x Hx. unfold rows_init_occ. cbn [fst snd]. destruct (Z.leb_spec 0 x); [reflexivity|lia].
  - intros x Hx. unfold rows_init_occ. cbn [fst snd]. destruct (Z.leb_spec 0 x); [reflexivity|lia].
Qed.

Definition back_to_start (s' : rstate) : Prop := blocks s' = [] /\ forall l, occ (cells s' l) = rows_init_occ l.

Theorem dt_copy_any_schedule mgr rsz crewsz colsf stride n sch :
  0 <= stride ->
  post (dt_copy_then_destroy mgr rsz crewsz colsf false true stride true (-1) (-2) n) (rows_init sch)
       (fun _ s' => back_to_start s') (fun s' => back_to_start s').
Proof.
  intros Hst. eapply post_conseq; [apply (dt_copy_then_destroy_post mgr rsz crewsz colsf false true stride Hst (-1) (-2) n _ _ _ (rows_init_world sch))| |].
  - intros u s' (A & B & _). split; [exact B|exact A].
  - intros s' (A & B & _). split; [exact B|exact A].
Qed.

Theorem hmm_ctor_any_schedule mgr rsz crewsz colsf stride n sch :
  0 <= stride ->
  post (hmm_ctor_then_destroy mgr rsz crewsz colsf true true stride true (-1) (-2) n) (rows_init sch)
       (fun _ s' => back_to_start s') (fun s' => back_to_start s').
Proof.
  intros Hst. eapply post_conseq; [apply (hmm_ctor_then_destroy_post mgr rsz crewsz colsf true true stride Hst (-1) (-2) n _ _ _ (rows_init_world sch))| |].
  - intros u s' (A & B & _). split; [exact B|exact A].
  - intros s' (A & B & _). split; [exact B|exact A].
Qed.

(* the shapes the fixes removed / the guard prevents: 2 rows built, the 3rd fails -> the destructor releases the rows again *)
Theorem dt_fill_double_destroy_refuted :
  exists (n : nat) (sch : list bool),
    is_stuck (dt_copy_then_destroy 1 40 24 (fun _ => 2%nat) false true 2 false (-1) (-2) n (rows_init sch)) = true /\
    is_stuck (dt_copy_then_destroy 1 40 24 (fun _ => 2%nat) false true 2 true (-1) (-2) n (rows_init sch)) = false.
Proof. exists 3%nat, [false; false; false; false; false; false; false; false; false; true]. split; vm_compute; reflexivity. Qed.

Theorem hmm_dtor_without_guard_refuted :
  exists (n : nat) (sch : list bool),
    is_stuck (hmm_ctor_then_destroy 1 40 24 (fun i => Z.to_nat (1 + i)) true true 8 false (-1) (-2) n (rows_init sch)) = true /\
    is_stuck (hmm_ctor_then_destroy 1 40 24 (fun i => Z.to_nat (1 + i)) true true 8 true (-1) (-2) n (rows_init sch)) = false.
Proof. exists 3%nat, [false; false; false; false; false; false; false; false; false; false; true]. split; vm_compute; reflexivity. Qed.

(* ================================================================== MemPool buffers across MergeFrom *)
Section PoolProofs.
Variables mgr bufsz : Z.

Definition pblks (p : list Z) : list (Z * (Z * Z)) := map (fun b => (b, (mgr, bufsz))) p.

Lemma pool_grow_spec : forall n p rest s f nb,
  st_is s f (pblks p ++ rest) nb -> dlist (pblks p ++ rest) nb ->
  match pool_grow mgr bufsz n p s with
  | ((_, Stuck), _) => False
  | ((p', _), s') => exists nb', st_is s' f (pblks p' ++ rest) nb' /\ dlist (pblks p' ++ rest) nb'
  end.
Proof.
  induction n as [|n IH]; intros p rest s f nb H D; simpl.
  - exists nb. split; assumption.
  - pose proof (p_alloc_post mgr bufsz s f _ nb H) as P. unfold post in P.
    destruct (p_alloc mgr bufsz s) as [[b| |] s1]; [| |contradiction].
    + destruct P as [Eb H1]. subst b.
      apply (IH (nb :: p) rest s1 f (nb + 1)); [exact H1|]. apply (dlist_cons _ nb (mgr, bufsz)). exact D.
    + exists nb. split; assumption.
Qed.

Lemma pool_free_all_post : forall p rest s f nb,
  st_is s f (pblks p ++ rest) nb -> dlist (pblks p ++ rest) nb ->
  post (pool_free_all mgr bufsz p) s (fun _ s' => st_is s' f rest nb /\ dlist rest nb) (fun _ => False).
Proof.
  induction p as [|b p IH]; intros rest s f nb H D; simpl.
  - apply post_ret. split; assumption.
  - apply post_bind.
    eapply post_conseq; [apply (p_dealloc_post mgr b bufsz s _ _ _ H)| |auto].
    { simpl. rewrite Z.eqb_refl. reflexivity. }
    intros u s1 H1. change (pblks (b :: p) ++ rest) with ((b, (mgr, bufsz)) :: pblks p ++ rest) in *.
    rewrite (remove_head b (mgr, bufsz) _ nb D) in H1.
    apply (IH rest s1 f nb H1). destruct D as [Hb Dr]. apply (dlist_mono _ b nb); [lia|exact Dr].
Qed.

(* every buffer is returned exactly once by whichever pool ends up owning it: for every schedule and every a, b the two
   pools, merged (as after 7f37c9f) or not, give back exactly the buffers they took *)
Theorem pools_scn_post a b s f bs :
  st_is s f bs (nextb s) -> dlist bs (nextb s) ->
  post (pools_scn mgr bufsz true a b) s (fun _ s' => st_is s' f bs (nextb s')) (fun s' => st_is s' f bs (nextb s')).
Proof.
  intros H D. unfold pools_scn, post.
  assert (Fr : forall l o s2 nb2, o <> Stuck -> st_is s2 f (pblks l ++ bs) nb2 -> dlist (pblks l ++ bs) nb2 ->
            match free_then mgr bufsz l o s2 with
            | (Stuck, _) => False
            | (_, s3) => st_is s3 f bs (nextb s3)
            end).
  { intros l o s2 nb2 Ho H2 D2. unfold free_then.
    pose proof (pool_free_all_post l bs s2 f nb2 H2 D2) as P. unfold post in P.
    destruct (pool_free_all mgr bufsz l s2) as [[u| |] s3]; try contradiction.
    destruct P as [(A & B & C) _]. destruct o; try congruence; rewrite C; repeat split; auto. }
  pose proof (pool_grow_spec a [] bs s f _ H D) as G1.
  destruct (pool_grow mgr bufsz a [] s) as [[pa o1] s1].
  destruct o1 as [u1| |]; [| |contradiction]; destruct G1 as (nb1 & H1 & D1).
  - pose proof (pool_grow_spec b [] (pblks pa ++ bs) s1 f nb1 H1 D1) as G2.
    destruct (pool_grow mgr bufsz b [] s1) as [[pb o2] s2].
    destruct o2 as [u2| |]; [| |contradiction]; destruct G2 as (nb2 & H2 & D2);
      rewrite app_assoc in H2, D2; unfold pblks in H2, D2; rewrite <- map_app in H2, D2.
    + cbn [pool_merge]. rewrite app_nil_l.
      pose proof (Fr (pb ++ pa) (Val tt) s2 nb2 ltac:(discriminate) H2 D2) as F.
      destruct (free_then mgr bufsz (pb ++ pa) (Val tt) s2) as [[u3| |] s3]; try contradiction; exact F.
    + pose proof (Fr (pb ++ pa) Exc s2 nb2 ltac:(discriminate) H2 D2) as F.
      destruct (free_then mgr bufsz (pb ++ pa) Exc s2) as [[u3| |] s3]; try contradiction; exact F.
  - pose proof (Fr pa Exc s1 nb1 ltac:(discriminate) H1 D1) as F.
    destruct (free_then mgr bufsz pa Exc s1) as [[u3| |] s3]; try contradiction; exact F.
Qed.

End PoolProofs.

(* the list surgery before 7f37c9f orphans the source's full buffers: they are never returned (a leak, not a Stuck) *)
Theorem pools_merge_orphans_refuted :
  exists (a b : nat) (sch : list bool),
    (let '(_, s') := pools_scn 1 114 false a b (init_state (-1) 0 sch) in blocks s' <> []) /\
    (let '(_, s') := pools_scn 1 114 true a b (init_state (-1) 0 sch) in blocks s' = []).
Proof. exists 2%nat, 3%nat, []. split; vm_compute; [discriminate|reflexivity]. Qed.
