(* C06 - all call sequences: the wrapper models refine the specs along every history *)
From Coq Require Import List ZArith Bool Lia Arith Permutation.
From C06 Require Import Spec SpecProofs WrapOrdered WrapEq.
Import ListNotations.

(* ---------- ordered containers ---------- *)
Inductive oop :=
| OIns (x : elem) | OInsHint (h : nat) (x : elem) | OEraseKey (k : Z) | OEraseAt (i : nat) | OEraseRange (i j : nat) | OClear.

Definition out := (nat * bool)%type.

(* what the stdish wrapper does (ismap: map_base::pvFind/pvInsert; otherwise set::pvCheckHint + nested calls) *)
Definition wrap_step (ismap multi : bool) (l : list elem) (o : oop) : out * list elem :=
  match o with
  | OIns x => let '(i, b, l') := (if ismap then map_insert multi x l else nested_insert multi x l) in ((i, b), l')
  | OInsHint h x =>
      let h' := Nat.min h (length l) in
      let '(i, b, l') := (if ismap then map_insert_hint multi l h' x else set_insert_hint multi l h' x) in ((i, b), l')
  | OEraseKey k => let (n, l') := ord_erase_key k l in ((n, true), l')
  | OEraseAt i => if i <? length l then ((i, true), erase_range i (S i) l) else ((i, false), l)
  | OEraseRange i j => if (i <=? j) && (j <=? length l) then ((i, true), erase_range i j l) else ((i, false), l)
  | OClear => ((0, true), [])
  end.
(* what the std contract says *)
Definition spec_step (multi : bool) (l : list elem) (o : oop) : out * list elem :=
  match o with
  | OIns x => let '(i, b, l') := ord_insert multi x l in ((i, b), l')
  | OInsHint h x => let '(i, b, l') := ord_insert_hint multi (Nat.min h (length l)) x l in ((i, b), l')
  | OEraseKey k => let (n, l') := ord_erase_key k l in ((n, true), l')
  | OEraseAt i => if i <? length l then ((i, true), erase_range i (S i) l) else ((i, false), l)
  | OEraseRange i j => if (i <=? j) && (j <=? length l) then ((i, true), erase_range i j l) else ((i, false), l)
  | OClear => ((0, true), [])
  end.
Fixpoint run (step : list elem -> oop -> out * list elem) (l : list elem) (ops : list oop) : list out * list elem :=
  match ops with
  | [] => ([], l)
  | o :: t => let (r, l') := step l o in let (rs, lf) := run step l' t in (r :: rs, lf)
  end.

Lemma spec_step_sorted multi l o : sorted multi l -> sorted multi (snd (spec_step multi l o)).
Proof.
  intros Hs. destruct o; simpl.
  - pose proof (ord_insert_spec multi x l Hs) as H. destruct (ord_insert multi x l) as [[i b] l']. simpl. tauto.
  - pose proof (ord_insert_hint_sorted multi (Nat.min h (length l)) x l Hs (Nat.le_min_r _ _)) as H.
    destruct (ord_insert_hint multi (Nat.min h (length l)) x l) as [[i b] l']. simpl in *. auto.
  - apply sorted_erase; auto. apply lb_le_ub.
  - destruct (i <? length l); simpl; auto. apply sorted_erase; auto.
  - destruct ((i <=? j) && (j <=? length l)) eqn:E; simpl; auto.
    apply andb_true_iff in E. destruct E as [E _]. apply Nat.leb_le in E. apply sorted_erase; auto.
  - exact I.
Qed.

Lemma wrap_step_refines ismap multi l o : sorted multi l -> wrap_step ismap multi l o = spec_step multi l o.
Proof.
  intros Hs. destruct o; simpl; auto.
  - destruct ismap; [rewrite map_insert_refines by auto|unfold nested_insert]; reflexivity.
  - destruct ismap; [rewrite map_hint_refines|rewrite set_hint_refines]; auto using Nat.le_min_r.
Qed.

Theorem ordered_history_refines ismap multi ops :
  run (wrap_step ismap multi) [] ops = run (spec_step multi) [] ops /\
  sorted multi (snd (run (spec_step multi) [] ops)).
Proof.
  assert (G : forall l, sorted multi l ->
    run (wrap_step ismap multi) l ops = run (spec_step multi) l ops /\ sorted multi (snd (run (spec_step multi) l ops))).
  { induction ops as [|o t IH]; intros l Hs; simpl; auto.
    rewrite wrap_step_refines by auto.
    pose proof (spec_step_sorted multi l o Hs) as Hs'.
    destruct (spec_step multi l o) as [r l']. simpl in Hs'.
    destruct (IH l' Hs') as [E S]. rewrite E. destruct (run (spec_step multi) l' t) as [rs lf]. simpl in *. auto. }
  apply G. exact I.
Qed.

(* ---------- unordered_multimap: every reachable nested state has each key once, so == is exact ---------- *)
Inductive mop := MIns (k v : Z) | MEraseKey (k : Z) | MEraseIf (m r : Z) | MErasePair (k v : Z) | MClear.
Definition mm_step (s : mmstate) (o : mop) : mmstate :=
  match o with
  | MIns k v => mm_insert k v s
  | MEraseKey k => mm_erase_key k s
  | MEraseIf m r => mm_erase_if (fun k => (k mod m =? r)%Z) s
  | MErasePair k v => mm_erase_pair k v s
  | MClear => []
  end.
Definition mm_run (ops : list mop) : mmstate := fold_left mm_step ops [].

Lemma keys_flat_map (f : Z * list Z -> mmstate) s :
  (forall kv, f kv = [] \/ exists vs, f kv = [(fst kv, vs)]) ->
  (forall k, In k (map fst (flat_map f s)) -> In k (map fst s)) /\
  (NoDup (map fst s) -> NoDup (map fst (flat_map f s))).
Proof.
  intros Hf. induction s as [|kv t [IH1 IH2]]; simpl.
  - split; auto.
  - destruct (Hf kv) as [E|[vs E]]; rewrite E; simpl.
    + split; [intros k H; right; auto|intros ND; inversion ND; auto].
    + split; [intros k [H|H]; auto|].
      intros ND; inversion ND as [|? ? Hn Hd]; subst. constructor; auto.
Qed.
Lemma mm_erase_key_flat k s : mm_erase_key k s = flat_map (fun kv => if negb (fst kv =? k)%Z then [kv] else []) s.
Proof. unfold mm_erase_key. induction s as [|kv t IH]; simpl; auto. destruct (negb (fst kv =? k)%Z); simpl; rewrite IH; auto. Qed.

Lemma mm_step_nodup s o : NoDup (map fst s) -> NoDup (map fst (mm_step s o)).
Proof.
  intros ND. destruct o; simpl.
  - apply mm_insert_keys_nodup; auto.
  - rewrite mm_erase_key_flat. apply keys_flat_map; auto.
    intros kv. destruct (negb (fst kv =? k)%Z); [right; exists (snd kv); destruct kv; reflexivity|left; reflexivity].
  - rewrite mm_erase_if_keys; auto.
  - unfold mm_erase_pair. apply keys_flat_map; auto.
    intros kv. destruct (Z.eqb_spec (fst kv) k).
    + destruct (existsb (Z.eqb v) (snd kv)).
      * destruct (length (snd kv) =? 1); [left; reflexivity|right; subst k; eexists; reflexivity].
      * right; exists (snd kv); destruct kv; reflexivity.
    + right; exists (snd kv); destruct kv; reflexivity.
  - constructor.
Qed.
Lemma mm_run_nodup ops : NoDup (map fst (mm_run ops)).
Proof.
  unfold mm_run. assert (G : forall s, NoDup (map fst s) -> NoDup (map fst (fold_left mm_step ops s))).
  { induction ops as [|o t IH]; simpl; auto. intros s ND. apply IH, mm_step_nodup; auto. }
  apply G. constructor.
Qed.

Theorem mm_eq_all_histories ops1 ops2 :
  mm_eq (mm_run ops1) (mm_run ops2) = true <-> Permutation (mm_pairs (mm_run ops1)) (mm_pairs (mm_run ops2)).
Proof. apply mm_eq_iff_pairs_permutation; apply mm_run_nodup. Qed.

(* the nested operations mean what the L0 multimap spec says, on the multiset of pairs *)
Lemma mm_erase_key_pairs k s : mm_pairs (mm_erase_key k s) = filter (fun e => negb (key e =? k)%Z) (mm_pairs s).
Proof.
  induction s as [|[k0 vs] t IH]; simpl; auto. rewrite filter_app, <- IH.
  destruct (Z.eqb_spec k0 k); simpl; f_equal.
  - unfold kv_pairs; simpl. induction vs; simpl; auto. unfold key; simpl. destruct (Z.eqb_spec k0 k); try congruence. simpl. auto.
  - unfold kv_pairs; simpl. induction vs; simpl; auto. unfold key; simpl. destruct (Z.eqb_spec k0 k); try congruence. simpl. f_equal; auto.
Qed.
Theorem mm_step_abstraction s o :
  match o with
  | MIns k v => Permutation (mm_pairs (mm_step s o)) (snd (u_insert true (k, v) (mm_pairs s)))
  | MEraseKey k => mm_pairs (mm_step s o) = snd (u_erase_key k (mm_pairs s))
  | MEraseIf m r => mm_pairs (mm_step s o) = filter (fun e => negb (fst e mod m =? r)%Z) (mm_pairs s)
  | MErasePair k v => NoDup (map fst s) -> In (k, v) (mm_pairs s) -> Permutation (mm_pairs s) ((k, v) :: mm_pairs (mm_step s o))
  | MClear => mm_pairs (mm_step s o) = []
  end.
Proof.
  destruct o; simpl; auto; try (apply mm_erase_pair_pairs).
  - eapply perm_trans; [apply mm_insert_pairs|]. apply Permutation_cons_append.
  - apply mm_erase_key_pairs.
  - apply mm_erase_if_pairs.
Qed.
