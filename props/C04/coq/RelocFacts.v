(* C04 -- ObjectManager::pvRelocateExec(.., std::false_type) (ObjectManager.h:516-535; the element is not nothrow relocatable) AT THE FACTS READ OFF THE
   CURRENT HEADERS (Gen_C04Facts.relocexec_*, regenerated each run by astfacts04.py):
       size_t index = 0;
       try { srcIter = srcBegin; dstIter = dstBegin; for (; index < count; ++index, ++srcIter, ++dstIter) Copy(memManager, item at srcIter, address of item at dstIter); exec(); }
       catch (...) { Destroy(memManager, dstBegin, index); throw; }
       Destroy(memManager, srcBegin, count);
   The statement order of body / try block / loop is pinned by equalities; the HANDLER is interpreted into the hand model: relocate_exec_at h is
   ObjMgr.relocate_exec with the handler chosen by `handler_of <generated catch list>`.  The general strong-guarantee theorem (every count, executor,
   schedule) is stated for relocate_exec_at (handler_of Gen_C04Facts.relocexec_catch): removing the Destroy from the handler (mutant M3) makes
   handler_of return HRethrowOnly and the theorem false -- the prove stage breaks.  (The copy loop itself stays the hand model's copy_from, tied by
   micro-correspondence `relcreate` / `copyexec`.) *)
From Coq Require Import List Arith Bool String Lia.
From C04 Require Import Effects ObjMgr GenPrimsC04.
From C04 Require Gen_C04Facts.
Import ListNotations.
Local Open Scope string_scope.

Fixpoint strs_eqb (a b : list string) : bool :=
  match a, b with
  | [], [] => true
  | x :: a', y :: b' => String.eqb x y && strs_eqb a' b'
  | _, _ => false
  end.

Inductive handler := HDestroyCopied | HRethrowOnly | HOther.
(* catch (...) { Destroy(memManager, dstBegin, index); throw; }  -- exactly the copies made so far, [dstBegin, dstBegin + index), then rethrow *)
Definition handler_of (c : list cstmt) : handler :=
  match c with
  | [SCallArgs f args; SRethrow] =>
      if String.eqb f "Destroy" && strs_eqb args ["memManager"; "dstBegin"; "index"] then HDestroyCopied else HOther
  | [SRethrow] => HRethrowOnly
  | _ => HOther
  end.

Definition body_expected : list cstmt := [SDecl "index" "?IntegerLiteral"; STry; SCallArgs "Destroy" ["memManager"; "srcBegin"; "count"]].
Definition try_expected : list cstmt := [SDecl "srcIter" "srcBegin"; SDecl "dstIter" "dstBegin"; SLoop; SCall "operator()"].
Definition loop_expected : list cstmt :=
  [SCallArgs "<" ["index"; "count"]; SCallArgs "++" ["index"; "srcIter"; "dstIter"]; SCallArgs "Copy" ["memManager"; "srcIter"; "addressof()"]].
Local Close Scope string_scope.

Definition relocate_exec_at (h : handler) (c : cat) (src dst : nat -> loc) (count : nat) (exec : M unit) : M unit :=
  if nothrow c then
    exec ;; relocate_from c src dst 0 count
  else
    setr rIndex 0 ;;
    try_catch (copy_from src dst 0 count ;; exec)
              (match h with
               | HDestroyCopied => idx <- getr rIndex ;; destroy_from dst 0 idx ;; throw
               | HRethrowOnly => throw
               | HOther => stuck
               end) ;;
    destroy_from src 0 count.

Lemma relocate_exec_at_destroy : forall c src dst n e, relocate_exec_at HDestroyCopied c src dst n e = relocate_exec c src dst n e.
Proof. reflexivity. Qed.

Lemma handler_at_current_headers : handler_of Gen_C04Facts.relocexec_catch = HDestroyCopied.
Proof. vm_compute. reflexivity. Qed.

Theorem relocate_exec_at_generated :
  Gen_C04Facts.relocexec_body = body_expected /\ Gen_C04Facts.relocexec_try = try_expected /\ Gen_C04Facts.relocexec_loop = loop_expected /\
  forall (src dst : nat -> loc) (n : nat) (exec : M unit) (fp : loc -> Prop) (P : heap -> Prop) (R : heap -> heap -> Prop),
    exec_spec exec fp P R -> (forall j, j < n -> ~ fp (src j) /\ ~ fp (dst j)) ->
    forall c s, range_pre src dst n (hp s) -> P (hp s) ->
      wp (relocate_exec_at (handler_of Gen_C04Facts.relocexec_catch) c src dst n exec) s
         (fun _ s' => moved_range src dst n fp (hp s) (hp s') /\ R (hp s) (hp s'))
         (fun s' => unchanged (hp s) (hp s')).
Proof.
  split; [reflexivity|]. split; [reflexivity|]. split; [reflexivity|].
  intros src dst n exec fp P R He Hfp c s Hpre HP. rewrite handler_at_current_headers, relocate_exec_at_destroy.
  apply relocate_exec_spec with (P := P); assumption.
Qed.

(* ---- final round: the WHOLE false_type overload interpreted from the facts (not only the handler) --------------------------------------------
   relocexec_loop  -> the copy loop: exactly `for (; index < count; ++index, ++srcIter, ++dstIter) Copy(memManager, item at srcIter, address of item
                      at dstIter)` is the model's copy_from src dst 0 count (index = register rIndex, advanced after every completed copy); anything
                      else is not interpreted (None)
   relocexec_try   -> after the two iterator declarations, the ORDER of loop and executor call: a list of items run in sequence
   relocexec_body  -> `index = 0`, the try statement, and whether the final Destroy(memManager, srcBegin, count) is there
   relocexec_catch -> the handler (handler_of above)
   interp_relocexec puts them together; at the current headers it IS ObjMgr.relocate_exec's branch (interp_at_current_headers), so the general
   strong-guarantee theorem holds for the interpreted function; moving the executor call before the loop, dropping the final Destroy, changing the
   loop's increments or the handler changes the interpretation and breaks the theorem. *)
Local Open Scope string_scope.
Definition cstmt_is_decl (s : cstmt) (v how : string) : bool :=
  match s with SDecl v' how' => String.eqb v v' && String.eqb how how' | _ => false end.
Definition cstmt_is_call (s : cstmt) (f : string) (args : list string) : bool :=
  match s with SCallArgs f' args' => String.eqb f f' && strs_eqb args args' | _ => false end.

Definition loop_is_copy_all (l : list cstmt) : bool :=
  match l with
  | [c; i; b] => cstmt_is_call c "<" ["index"; "count"] && cstmt_is_call i "++" ["index"; "srcIter"; "dstIter"] &&
                 cstmt_is_call b "Copy" ["memManager"; "srcIter"; "addressof()"]
  | _ => false
  end.

Inductive titem := TLoop | TExec.
Fixpoint items_of (l : list cstmt) : option (list titem) :=
  match l with
  | [] => Some []
  | SLoop :: r => option_map (cons TLoop) (items_of r)
  | SCall f :: r => if String.eqb f "operator()" then option_map (cons TExec) (items_of r) else None
  | _ => None
  end.
Definition try_items (t : list cstmt) : option (list titem) :=
  match t with
  | d1 :: d2 :: r => if cstmt_is_decl d1 "srcIter" "srcBegin" && cstmt_is_decl d2 "dstIter" "dstBegin" then items_of r else None
  | _ => None
  end.
(* Some true: index = 0; try ..; Destroy(memManager, srcBegin, count)     Some false: the final Destroy is missing *)
Definition final_of (b : list cstmt) : option bool :=
  match b with
  | [d; STry; f] => if cstmt_is_decl d "index" "?IntegerLiteral" && cstmt_is_call f "Destroy" ["memManager"; "srcBegin"; "count"] then Some true else None
  | [d; STry] => if cstmt_is_decl d "index" "?IntegerLiteral" then Some false else None
  | _ => None
  end.
Local Close Scope string_scope.

Section Interp.
Variables (src dst : nat -> loc) (count : nat) (exec : M unit).
Definition run_item (i : titem) : M unit := match i with TLoop => copy_from src dst 0 count | TExec => exec end.
Fixpoint run_items (l : list titem) : M unit :=
  match l with [] => ret tt | [i] => run_item i | i :: r => run_item i ;; run_items r end.
Definition handler_m (h : handler) : M unit :=
  match h with HDestroyCopied => idx <- getr rIndex ;; destroy_from dst 0 idx ;; throw | HRethrowOnly => throw | HOther => stuck end.
Definition interp_relocexec (body tr lp ca : list cstmt) : M unit :=
  match final_of body, try_items tr, loop_is_copy_all lp with
  | Some fin, Some items, true =>
      setr rIndex 0 ;; try_catch (run_items items) (handler_m (handler_of ca)) ;; (if fin then destroy_from src 0 count else ret tt)
  | _, _, _ => stuck
  end.
End Interp.

(* both overloads: the nothrow one stays the hand model's, the other is the interpretation of the generated facts *)
Definition relocate_exec_interp (c : cat) (src dst : nat -> loc) (count : nat) (exec : M unit) : M unit :=
  if nothrow c then exec ;; relocate_from c src dst 0 count
  else interp_relocexec src dst count exec Gen_C04Facts.relocexec_body Gen_C04Facts.relocexec_try Gen_C04Facts.relocexec_loop Gen_C04Facts.relocexec_catch.

Lemma interp_at_current_headers : forall c src dst n e, relocate_exec_interp c src dst n e = relocate_exec c src dst n e.
Proof. intros c src dst n e. unfold relocate_exec_interp, relocate_exec. destruct (nothrow c); [reflexivity|]. vm_compute. reflexivity. Qed.

Theorem relocate_exec_interp_strong :
  forall (src dst : nat -> loc) (n : nat) (exec : M unit) (fp : loc -> Prop) (P : heap -> Prop) (R : heap -> heap -> Prop),
    exec_spec exec fp P R -> (forall j, j < n -> ~ fp (src j) /\ ~ fp (dst j)) ->
    forall c s, range_pre src dst n (hp s) -> P (hp s) ->
      wp (relocate_exec_interp c src dst n exec) s
         (fun _ s' => moved_range src dst n fp (hp s) (hp s') /\ R (hp s) (hp s'))
         (fun s' => unchanged (hp s) (hp s')).
Proof.
  intros src dst n exec fp P R He Hfp c s Hpre HP. rewrite interp_at_current_headers. apply relocate_exec_spec with (P := P); assumption.
Qed.

(* a handler that only rethrows (mutant M3) leaks: 2 copy-only items, the second copy throws; the first copy stays alive in the destination *)
Definition rx_heap : heap :=
  mkH (fun l => if (fst l =? 0) && (snd l <? 2) then Live (10 + snd l) else Raw) (fun b => b <? 2) (fun _ => 2) 2 (fun _ => 0).
Lemma relocate_exec_rethrow_only_refuted :
  exists s', relocate_exec_at HRethrowOnly CPY (fun j => (0, j)) (fun j => (1, j)) 2 (ret tt) (mkS rx_heap [false; true] []) = (Exn, s') /\
             mem (hp s') (1, 0) = Live 10.
Proof. eexists. split; [vm_compute; reflexivity|reflexivity]. Qed.
Lemma relocate_exec_destroying_handler_same_run :
  exists s', relocate_exec_at HDestroyCopied CPY (fun j => (0, j)) (fun j => (1, j)) 2 (ret tt) (mkS rx_heap [false; true] []) = (Exn, s') /\
             mem (hp s') (1, 0) = Raw /\ mem (hp s') (0, 0) = Live 10 /\ mem (hp s') (0, 1) = Live 11.
Proof. eexists. split; [vm_compute; reflexivity|repeat split; reflexivity]. Qed.

(* the other interpretable shapes are NOT strongly safe (same 2-item copy-only source; the executor is a fallible allocation standing for the item creator): executor BEFORE the loop -- when a copy then throws, the handler destroys the copies
   but what the executor created stays; final Destroy missing -- on success the sources stay alive (duplicated items) *)
Local Open Scope string_scope.
Definition try_exec_first : list cstmt := [SDecl "srcIter" "srcBegin"; SDecl "dstIter" "dstBegin"; SCall "operator()"; SLoop].
Local Close Scope string_scope.
Lemma interp_exec_first_refuted :
  exists s', interp_relocexec (fun j => (0, j)) (fun j => (1, j)) 2 (b <- alloc 1 ;; ret tt) body_expected try_exec_first loop_expected
               [SCallArgs "Destroy"%string ["memManager"; "dstBegin"; "index"]%string; SRethrow] (mkS rx_heap [false; false; true] []) = (Exn, s') /\
             alive (hp s') 2 = true.
Proof. eexists. split; [vm_compute; reflexivity|reflexivity]. Qed.
Lemma interp_no_final_destroy_refuted :
  exists s', interp_relocexec (fun j => (0, j)) (fun j => (1, j)) 2 (ret tt) [SDecl "index"%string "?IntegerLiteral"%string; STry] try_expected loop_expected
               [SCallArgs "Destroy"%string ["memManager"; "dstBegin"; "index"]%string; SRethrow] (mkS rx_heap [false; false] []) = (Ok tt, s') /\
             mem (hp s') (0, 0) = Live 10 /\ mem (hp s') (1, 0) = Live 10.
Proof. eexists. split; [vm_compute; reflexivity|split; reflexivity]. Qed.
