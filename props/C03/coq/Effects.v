(* C03 -- L2 resource machine (executable; extracted and compared with the real code trace by trace).

   State: cells (every place an element object can live: Raw | Live v | Moved v), live blocks with manager and
   size, and a failure schedule consumed by every fallible primitive (allocation, element copy, executor).
   Outcomes: Val (normal return), Exc (a C++ exception is propagating), Stuck (a primitive was applied to a cell
   or block in the wrong state: double destroy, construction over a live element, use of a dead element,
   double free, free with a wrong size/manager, access to a freed block).  The theorems in EffectsProofs.v show
   Stuck unreachable and characterise the final resource state for EVERY schedule.

   The mechanism models mirror the source line by line:
     ObjectManager.h  Relocate / pvRelocate (both tags) / RelocateCreate / RelocateExec / pvRelocateExec (both tags) /
                      MoveExec / pvMoveExec (both tags) / CopyExec / Destroy(range)
     Array.h          Data::Reset (316-342), pvDeallocate, pvDestroy, the items-creators of pvGrow/Shrink and
                      pvAddBackGrow(ItemCreator)   [internalCapacity = 0]
     HashSet.h        HashSetBuckets::Create / Destroy, HashSet(const HashSet&, MemManager) with its catch block,
                      pvDestroy, ~HashSet      (as after fix 806b9fe; [fixed = false] is the shape before it)
     TreeSet.h        TreeSet(const TreeSet&, MemManager) with its catch block, pvCopy (leaf), pvDestroy, ~TreeSet *)
From Coq Require Import ZArith Bool List Lia.
Import ListNotations.
Local Open Scope Z_scope.

Inductive cell : Type := Raw | Live (v : Z) | Moved (v : Z).
Definition loc : Type := (Z * Z)%type.      (* (region, index); region = block id for heap storage, negative otherwise *)
Definition loc_eqb (a b : loc) : bool := Z.eqb (fst a) (fst b) && Z.eqb (snd a) (snd b).

(* trace of the model = what the instrumented real code logs *)
Inductive tev : Type :=
| TCopy (dst src : loc)       (* copy construction *)
| TMove (dst src : loc)       (* move construction (nothrow) *)
| TDestroy (l : loc)
| TAlloc (b size : Z)
| TDealloc (b size : Z)
| TFail                       (* an injected failure fired *)
| TVia (m : Z).               (* the memory manager / allocator the following TAlloc / TDealloc goes through *)

Record rstate : Type := mkR {
  cells : loc -> cell;
  blocks : list (Z * (Z * Z));       (* live blocks: id, (manager, size) *)
  sched : list bool;                 (* true = the next fallible primitive fails *)
  nextb : Z;                         (* next fresh block id *)
  trace : list tev                   (* newest first *)
}.

Inductive outcome (A : Type) : Type := Val (a : A) | Exc | Stuck.
Arguments Val {A} a. Arguments Exc {A}. Arguments Stuck {A}.

Definition M (A : Type) : Type := rstate -> outcome A * rstate.
Definition ret {A} (a : A) : M A := fun s => (Val a, s).
Definition bind {A B} (m : M A) (f : A -> M B) : M B :=
  fun s => match m s with
           | (Val a, s1) => f a s1
           | (Exc, s1) => (Exc, s1)
           | (Stuck, s1) => (Stuck, s1)
           end.
Definition throw {A} : M A := fun s => (Exc, s).
(* try { m } catch (...) { h; throw; } *)
Definition catch_rethrow {A} (m : M A) (h : M unit) : M A :=
  fun s => match m s with
           | (Exc, s1) => match h s1 with
                          | (Stuck, s2) => (Stuck, s2)
                          | (_, s2) => (Exc, s2)
                          end
           | r => r
           end.
Notation "x <- m ;; f" := (bind m (fun x => f)) (at level 61, m at next level, right associativity).
Notation "m ;;; f" := (bind m (fun _ => f)) (at level 61, right associativity).

Definition occ (c : cell) : bool := match c with Raw => false | _ => true end.
Definition cval (c : cell) : Z := match c with Raw => 0 | Live v | Moved v => v end.

Definition set_cell (s : rstate) (l : loc) (c : cell) : rstate :=
  mkR (fun l' => if loc_eqb l' l then c else cells s l') (blocks s) (sched s) (nextb s) (trace s).
Definition log (s : rstate) (e : tev) : rstate :=
  mkR (cells s) (blocks s) (sched s) (nextb s) (e :: trace s).

(* ------------------------------------------------------------------ primitives *)
Definition fallible : M unit := fun s =>
  match sched s with
  | true :: r => (Exc, mkR (cells s) (blocks s) r (nextb s) (TFail :: trace s))
  | false :: r => (Val tt, mkR (cells s) (blocks s) r (nextb s) (trace s))
  | [] => (Val tt, s)
  end.

(* ::new(dst) Object(src)  -- may throw before anything is constructed *)
Definition p_copy (dst src : loc) : M unit := fun s =>
  match cells s src, cells s dst with
  | Raw, _ => (Stuck, s)                       (* use of a dead element *)
  | _, Raw => match fallible s with
              | (Val _, s1) => (Val tt, log (set_cell s1 dst (Live (cval (cells s src)))) (TCopy dst src))
              | (o, s1) => (o, s1)
              end
  | _, _ => (Stuck, s)                         (* construction over a live element *)
  end.

(* ::new(dst) Object(std::move(src)) for a nothrow-move element: never throws, leaves src moved-from (still to be destroyed) *)
Definition p_move_nt (dst src : loc) : M unit := fun s =>
  match cells s src, cells s dst with
  | Raw, _ => (Stuck, s)
  | _, Raw => let v := cval (cells s src) in
              (Val tt, log (set_cell (set_cell s dst (Live v)) src (Moved v)) (TMove dst src))
  | _, _ => (Stuck, s)
  end.

Definition p_destroy (l : loc) : M unit := fun s =>
  match cells s l with
  | Raw => (Stuck, s)                          (* double destroy / destroy of an unconstructed element *)
  | _ => (Val tt, log (set_cell s l Raw) (TDestroy l))
  end.

Fixpoint find_blk (b : Z) (bs : list (Z * (Z * Z))) : option (Z * Z) :=
  match bs with
  | [] => None
  | (b', p) :: r => if Z.eqb b' b then Some p else find_blk b r
  end.
Definition remove_blk (b : Z) (bs : list (Z * (Z * Z))) : list (Z * (Z * Z)) :=
  filter (fun x => negb (Z.eqb (fst x) b)) bs.

Definition p_alloc (mgr size : Z) : M Z := fun s =>
  match fallible s with
  | (Val _, s1) => let b := nextb s1 in
                   (Val b, mkR (cells s1) ((b, (mgr, size)) :: blocks s1) (sched s1) (b + 1) (TAlloc b size :: TVia mgr :: trace s1))
  | (Exc, s1) => (Exc, s1)
  | (Stuck, s1) => (Stuck, s1)
  end.

Definition p_dealloc (mgr b size : Z) : M unit := fun s =>
  match find_blk b (blocks s) with
  | Some (m, sz) => if Z.eqb m mgr && Z.eqb sz size
                    then (Val tt, mkR (cells s) (remove_blk b (blocks s)) (sched s) (nextb s) (TDealloc b size :: TVia mgr :: trace s))
                    else (Stuck, s)            (* wrong size / unequal manager *)
  | None => (Stuck, s)                         (* double free *)
  end.

(* reading the header of a block (bucket states, node header): the block must be live *)
Definition p_touch_blk (b : Z) : M unit := fun s =>
  match find_blk b (blocks s) with Some _ => (Val tt, s) | None => (Stuck, s) end.

(* ------------------------------------------------------------------ categories *)
(* NTM: nothrow move constructor (isNothrowRelocatable = isNothrowMoveConstructible = true)
   CPO: copy constructor only   (both false; "moving" is copying and may throw) *)
Inductive cat : Type := NTM | CPO.
Definition nothrow_reloc (c : cat) : bool := match c with NTM => true | CPO => false end.

Section Mechanisms.
Variable c : cat.

(* ObjectManager::Move = Creator<Object&&>(src)(dst) *)
Definition om_move (dst src : loc) : M unit :=
  match c with NTM => p_move_nt dst src | CPO => p_copy dst src end.
Definition om_copy (dst src : loc) : M unit := p_copy dst src.

(* ObjectRelocator::Relocate, non-trivial branch (ObjectManager.h:110-115): move-construct, destroy the source *)
Definition om_relocate1 (src dst : loc) : M unit :=
  om_move dst src ;;; p_destroy src.

(* ObjectManager::Destroy(begin, count) (312-320) *)
Fixpoint om_destroy_n (r base : Z) (n : nat) : M unit :=
  match n with
  | O => ret tt
  | S n' => p_destroy (r, base) ;;; om_destroy_n r (base + 1) n'
  end.

(* pvRelocate(..., true_type) (486-494) *)
Fixpoint om_relocate_nt (sr sb dr db : Z) (n : nat) : M unit :=
  match n with
  | O => ret tt
  | S n' => om_relocate1 (sr, sb) (dr, db) ;;; om_relocate_nt sr (sb + 1) dr (db + 1) n'
  end.

(* the executor argument of RelocateExec / MoveExec / CopyExec *)
Inductive exec : Type :=
| ExecNop                       (* a callback that may throw and touches no element *)
| ExecCopy (dst src : loc)      (* Creator<const Item&>(src)(dst) *)
| ExecMove (dst src : loc).     (* Creator<Item&&>(src)(dst) *)
Definition run_exec (e : exec) : M unit :=
  match e with
  | ExecNop => fallible
  | ExecCopy d s => om_copy d s
  | ExecMove d s => om_move d s
  end.

(* the copy loop of pvRelocateExec(..., false_type) (520-527); the value of the local [index] survives a throw *)
Fixpoint om_copy_loop (sr sb dr db : Z) (index : Z) (n : nat) (s : rstate) : (Z * outcome unit) * rstate :=
  match n with
  | O => ((index, Val tt), s)
  | S n' => match om_copy (dr, db + index) (sr, sb + index) s with
            | (Val _, s1) => om_copy_loop sr sb dr db (index + 1) n' s1
            | (o, s1) => ((index, o), s1)
            end
  end.

(* pvRelocateExec(..., false_type) (516-535) *)
Definition om_relocate_exec_f (sr sb dr db : Z) (count : nat) (e : exec) : M unit := fun s =>
  let '((index, o), s1) := om_copy_loop sr sb dr db 0 count s in
  let handler := om_destroy_n dr db (Z.to_nat index) in          (* catch (...) { Destroy(dstBegin, index); throw; } *)
  match o with
  | Val _ => match run_exec e s1 with
             | (Val _, s2) => om_destroy_n sr sb count s2          (* Destroy(srcBegin, count) *)
             | (Exc, s2) => catch_rethrow throw handler s2
             | (Stuck, s2) => (Stuck, s2)
             end
  | Exc => catch_rethrow throw handler s1
  | Stuck => (Stuck, s1)
  end.

(* Relocate(srcBegin, dstBegin, count) (350-357) and RelocateExec (368-376) with their tag dispatch.
   pvRelocate(..., false_type) (496-506) calls RelocateCreate on the tail with a move-creator for the head. *)
Definition om_relocate_exec (sr sb dr db : Z) (count : nat) (e : exec) : M unit :=
  if nothrow_reloc c
  then run_exec e ;;; om_relocate_nt sr sb dr db count              (* pvRelocateExec(..., true_type) (508-514) *)
  else om_relocate_exec_f sr sb dr db count e.

Definition om_relocate (sr sb dr db : Z) (count : nat) : M unit :=
  if nothrow_reloc c
  then om_relocate_nt sr sb dr db count
  else match count with
       | O => ret tt
       | S n' => om_relocate_exec sr (sb + 1) dr (db + 1) n' (ExecMove (dr, db) (sr, sb)) ;;;
                 p_destroy (sr, sb)
       end.

(* RelocateCreate (359-366): exec = objectCreator(newObject) *)
Definition om_relocate_create (sr sb dr db : Z) (count : nat) (new_dst new_src : loc) : M unit :=
  om_relocate_exec sr sb dr db count (ExecCopy new_dst new_src).

(* MoveExec / pvMoveExec (283-289, 392-415) *)
Definition om_move_exec (dst src : loc) (e : exec) : M unit :=
  if nothrow_reloc c       (* isNothrowMoveConstructible: same flag for both categories *)
  then run_exec e ;;; om_move dst src
  else om_move dst src ;;; catch_rethrow (run_exec e) (p_destroy dst).

(* CopyExec (291-305) *)
Definition om_copy_exec (dst src : loc) (e : exec) : M unit :=
  om_copy dst src ;;; catch_rethrow (run_exec e) (p_destroy dst).

(* ------------------------------------------------------------------ Array<Item, MemManager>::Data, internalCapacity = 0 *)
Record adata : Type := mkA { a_items : Z; a_count : nat; a_cap : nat }.
Variable mgr : Z.       (* identity of the container's memory manager *)
Variable isz : Z.       (* sizeof(Item) *)

(* pvDeallocate (410-414) *)
Definition data_deallocate (d : adata) : M unit :=
  match a_cap d with
  | O => ret tt
  | _ => p_dealloc mgr (a_items d) (Z.of_nat (a_cap d) * isz)
  end.

(* Data::Reset (316-342); capacity > internalCapacity = 0 takes the first branch, capacity = 0 the
   non-internal pvReset (483-492: count == 0, pvDeallocate, pvInit) *)
Definition data_reset (d : adata) (capacity count : nat) (creator : Z -> M unit) : M adata :=
  match capacity with
  | O => data_deallocate d ;;; ret (mkA (-1) O O)
  | _ => items <- p_alloc mgr (Z.of_nat capacity * isz) ;;
         catch_rethrow (creator items) (p_dealloc mgr items (Z.of_nat capacity * isz)) ;;;
         data_deallocate d ;;;
         ret (mkA items count capacity)
  end.

(* pvGrow / Shrink: itemsCreator = Relocate(GetItems(), newItems, count) (1006-1008, 769-771) *)
Definition array_regrow (d : adata) (capacity : nat) : M adata :=
  data_reset d capacity (a_count d) (fun items => om_relocate (a_items d) 0 items 0 (a_count d)).

(* pvAddBackGrow(ItemCreator) (1020-1032): RelocateCreate(GetItems(), newItems, initCount, itemCreator, newItems + initCount) *)
Definition array_addback_grow (d : adata) (capacity : nat) (arg : loc) : M adata :=
  data_reset d capacity (S (a_count d))
    (fun items => om_relocate_create (a_items d) 0 items 0 (a_count d) (items, Z.of_nat (a_count d)) arg).

(* pvAddBackGrow(const Item&, true_type) (1065-1083), the path taken by nothrow-relocatable items: build the new item
   in a stack buffer, grow, relocate the buffer to the end *)
Definition array_addback_grow_nt (d : adata) (capacity : nat) (arg tmp : loc) : M adata :=
  om_copy tmp arg ;;;
  d' <- catch_rethrow (array_regrow d capacity) (om_destroy_n (fst tmp) (snd tmp) 1) ;;
  om_relocate (fst tmp) (snd tmp) (a_items d') (Z.of_nat (a_count d)) 1 ;;;
  ret (mkA (a_items d') (S (a_count d)) (a_cap d')).

(* pvAddBackGrow(const Item&) tag dispatch (1059-1063, 1085-1088) *)
Definition array_addback (d : adata) (capacity : nat) (arg tmp : loc) : M adata :=
  if nothrow_reloc c then array_addback_grow_nt d capacity arg tmp else array_addback_grow d capacity arg.

(* Data::pvDestroy (404-408) = ~Array *)
Definition array_destroy (d : adata) : M unit :=
  om_destroy_n (a_items d) 0 (a_count d) ;;; data_deallocate d.

(* an operation followed by the destruction of the array, whether the operation threw or not *)
Definition array_op_then_destroy (d : adata) (op : M adata) : M unit := fun s =>
  match op s with
  | (Val d', s1) => array_destroy d' s1
  | (Exc, s1) => match array_destroy d s1 with (Val _, s2) => (Exc, s2) | r => r end
  | (Stuck, s1) => (Stuck, s1)
  end.

(* ------------------------------------------------------------------ HashSet copy constructor *)
Record hset : Type := mkH { h_buckets : option (Z * Z); h_fill : nat }.   (* mBuckets -> (buffer block, params block); items in the buckets *)
Variable bufsz parsz crewsz : Z.

(* HashSetBuckets::Create (51-78) with bucketParams == nullptr *)
Definition buckets_create : M (Z * Z) :=
  buf <- p_alloc mgr bufsz ;;
  par <- catch_rethrow (p_alloc mgr parsz) (p_dealloc mgr buf bufsz) ;;
  ret (buf, par).

(* HashSet::pvDestroy() (987-999) + pvClear + HashSetBuckets::Destroy(memManager, true) (80-96) *)
Definition hs_pv_destroy (h : hset) : M unit :=
  match h_buckets h with
  | None => ret tt                                     (* if (buckets == nullptr) return; *)
  | Some (buf, par) =>
      p_touch_blk buf ;;;                              (* reads bucket states *)
      om_destroy_n buf 0 (h_fill h) ;;;                (* pvClear *)
      p_dealloc mgr par parsz ;;;
      p_dealloc mgr buf bufsz
  end.

(* HashSet(const HashSet&, MemManager) (583-614).  Returns the object's fields together with the outcome: when the
   body throws, the DELEGATED-TO constructor has completed, so ~HashSet runs on these fields.
   [fixed = true] is the source after commit 806b9fe (mBuckets = nullptr in the catch block). *)
Definition hs_copy_ctor (fixed : bool) (sr : Z) (n : nat) (s : rstate) : (hset * outcome unit) * rstate :=
  match n with
  | O => ((mkH None O, Val tt), s)                                    (* if (mCount == 0) return; *)
  | _ =>
    match buckets_create s with
    | (Val (buf, par), s1) =>
        let '((index, o), s2) := om_copy_loop sr 0 buf 0 0 n s1 in     (* pvAddNogrow(Creator<const Item&>) per item *)
        match o with
        | Val _ => ((mkH (Some (buf, par)) n, Val tt), s2)
        | Exc =>                                                         (* catch (...) { pvDestroy(); mBuckets = nullptr; throw; } *)
            match hs_pv_destroy (mkH (Some (buf, par)) (Z.to_nat index)) s2 with
            | (Stuck, s3) => ((mkH (Some (buf, par)) O, Stuck), s3)
            | (_, s3) => ((mkH (if fixed then None else Some (buf, par)) O, Exc), s3)
            end
        | Stuck => ((mkH (Some (buf, par)) O, Stuck), s2)
        end
    | (Exc, s1) => ((mkH None O, Exc), s1)
    | (Stuck, s1) => ((mkH None O, Stuck), s1)
    end
  end.

(* the whole life of the copy: the delegated-to constructor (allocates the crew: traits + version + manager; a throw
   there means there is no object and no destructor), the body, then - whether the body threw or not - ~HashSet
   (pvDestroy) followed by the crew's destructor *)
Definition hs_copy_then_destroy (fixed : bool) (sr : Z) (n : nat) : M unit := fun s =>
  match p_alloc mgr crewsz s with
  | (Val crew, s0) =>
      match hs_copy_ctor fixed sr n s0 with
      | ((h, Stuck), s1) => (Stuck, s1)
      | ((h, o), s1) => match (hs_pv_destroy h ;;; p_dealloc mgr crew crewsz) s1 with
                        | (Val _, s2) => (o, s2)
                        | (o', s2) => (o', s2)
                        end
      end
  | (Exc, s0) => (Exc, s0)
  | (Stuck, s0) => (Stuck, s0)
  end.

(* ------------------------------------------------------------------ TreeSet copy constructor (root is a leaf) *)
Record tset : Type := mkT { t_root : option Z; t_params : option Z; t_fill : nat }.
Variable nodesz tparsz : Z.

(* pvCopy (1031-1062) for a leaf *)
Definition ts_pv_copy_leaf (sr : Z) (n : nat) : M Z := fun s =>
  match p_alloc mgr nodesz s with                                      (* Node::Create *)
  | (Val node, s1) =>
      let '((index, o), s2) := om_copy_loop sr 0 node 0 0 n s1 in
      match o with
      | Val _ => (Val node, s2)
      | Exc => catch_rethrow throw
                 (om_destroy_n node 0 (Z.to_nat index) ;;; p_dealloc mgr node nodesz) s2
      | Stuck => (Stuck, s2)
      end
  | (Exc, s1) => (Exc, s1)
  | (Stuck, s1) => (Stuck, s1)
  end.

(* TreeSet::pvDestroy() (1006-1015) *)
Definition ts_pv_destroy (t : tset) : M unit :=
  match t_root t with
  | Some node => p_touch_blk node ;;; om_destroy_n node 0 (t_fill t) ;;; p_dealloc mgr node nodesz
  | None => ret tt
  end ;;;
  match t_params t with
  | Some par => p_dealloc mgr par tparsz
  | None => ret tt
  end.

(* TreeSet(const TreeSet&, MemManager) (553-573) *)
Definition ts_copy_ctor (fixed : bool) (sr : Z) (n : nat) (s : rstate) : (tset * outcome unit) * rstate :=
  match n with
  | O => ((mkT None None O, Val tt), s)
  | _ =>
    match p_alloc mgr tparsz s with                                     (* mNodeParams = pvCreateNodeParams(); *)
    | (Val par, s1) =>
        match ts_pv_copy_leaf sr n s1 with
        | (Val node, s2) => ((mkT (Some node) (Some par) n, Val tt), s2)
        | (Exc, s2) =>                                                   (* catch: pvDestroy(); mRootNode = mNodeParams = nullptr; throw; *)
            match ts_pv_destroy (mkT None (Some par) O) s2 with
            | (Stuck, s3) => ((mkT None (Some par) O, Stuck), s3)
            | (_, s3) => ((mkT None (if fixed then None else Some par) O, Exc), s3)
            end
        | (Stuck, s2) => ((mkT None (Some par) O, Stuck), s2)
        end
    | (Exc, s1) => ((mkT None None O, Exc), s1)
    | (Stuck, s1) => ((mkT None None O, Stuck), s1)
    end
  end.

Definition ts_copy_then_destroy (fixed : bool) (sr : Z) (n : nat) : M unit := fun s =>
  match p_alloc mgr crewsz s with
  | (Val crew, s0) =>
      match ts_copy_ctor fixed sr n s0 with
      | ((t, Stuck), s1) => (Stuck, s1)
      | ((t, o), s1) => match (ts_pv_destroy t ;;; p_dealloc mgr crew crewsz) s1 with
                        | (Val _, s2) => (o, s2)
                        | (o', s2) => (o', s2)
                        end
      end
  | (Exc, s0) => (Exc, s0)
  | (Stuck, s0) => (Stuck, s0)
  end.

End Mechanisms.

(* ------------------------------------------------------------------ initial states for the driver / examples *)
(* source items live in region [sr] (negative), values 100, 101, ... *)
Definition init_cells (sr : Z) (n : Z) : loc -> cell :=
  fun l => if Z.eqb (fst l) sr && Z.leb 0 (snd l) && Z.ltb (snd l) n then Live (100 + snd l) else Raw.
Definition init_state (sr : Z) (n : Z) (sch : list bool) : rstate :=
  mkR (init_cells sr n) [] sch 0 [].
