(* C15 -- theorems about the REAL guard expressions, translated by tools/cxx2coq.py from /repo's current headers on every run
   (Gen_VersionKeeper, Gen_ArrayIndexIterator, Gen_ArrayShifter, Gen_ArrayGuards, Gen_MultiMapGuards, Gen_SelectionGuards,
   Gen_TableGuards, Gen_TreeIterator; exception mode: Settings::checkMode = 2, MOMO_CHECK = assertion obligation + throw).
   Every guard is the PREFIX of its function up to and including the MOMO_CHECKs: `Exn` = std::invalid_argument (or the length
   exceptions of Insert) is thrown before the first write of the function, `Ok` = the function goes on, `Stuck` never happens in
   exception mode.  Arithmetic is the real size_t / ptrdiff_t arithmetic (wrapU 64 / wrapS 64). *)
From Coq Require Import ZArith Bool List Lia.
From MomoCommon Require Import GenPrelude.
From C15 Require Import Gen_VersionKeeper Gen_ArrayIndexIterator Gen_ArrayShifter Gen_ArrayGuards Gen_MultiMapGuards
  Gen_SelectionGuards Gen_TableGuards Gen_TreeIterator Gen_SegmentedArrayGuards Gen_DataRawIterator Gen_MultiHashIterator Version VersionProofs Arr MultiMap.
Local Open Scope Z_scope.
(* robustness: a regenerated term that makes a tactic run away fails the proof (prove BROKEN) instead of hanging the build *)
Set Default Timeout 300.

Definition U64 (x : Z) : Prop := 0 <= x < 2 ^ 64.
Lemma wrapU_sub_small c i : U64 c -> 0 <= i <= c -> wrapU 64 (c - i) = c - i.
Proof. unfold U64. intros. apply wrapU_small. lia. Qed.

(* ---------- ArrayShifter::Remove / DataSelection::Remove(index, count)  (fix bcbf078) ---------- *)
(* the guard accepts EXACTLY the ranges inside the array: no (index, count) whose mathematical sum exceeds the size passes,
   whatever the 64-bit values are (the pre-fix `index + count <= size` did not have this property) *)
Lemma remove_guard_exact cnt index count :
  U64 cnt -> U64 index -> U64 count ->
  Remove_guard cnt index count = if index + count <=? cnt then Ok cnt else Exn.
Proof.
  intros Hc Hi Hn. unfold Remove_guard, Gen_ArrayShifter.checkMode. simpl.
  destruct (Z.leb_spec index cnt) as [L|L]; simpl.
  - rewrite (wrapU_sub_small cnt index Hc) by (unfold U64 in *; lia).
    destruct (Z.leb_spec count (cnt - index)), (Z.leb_spec (index + count) cnt); simpl; try lia; reflexivity.
  - destruct (Z.leb_spec (index + count) cnt); [unfold U64 in *; lia|reflexivity].
Qed.
Lemma selection_remove_guard_exact cnt index count :
  U64 cnt -> U64 index -> U64 count ->
  SelRemove_guard cnt index count = if index + count <=? cnt then Ok tt else Exn.
Proof.
  intros Hc Hi Hn. unfold SelRemove_guard, Gen_SelectionGuards.checkMode. simpl.
  destruct (Z.leb_spec index cnt) as [L|L]; simpl.
  - rewrite (wrapU_sub_small cnt index Hc) by (unfold U64 in *; lia).
    destruct (Z.leb_spec count (cnt - index)), (Z.leb_spec (index + count) cnt); simpl; try lia; reflexivity.
  - destruct (Z.leb_spec (index + count) cnt); [unfold U64 in *; lia|reflexivity].
Qed.
(* same code: the selection's guard is the shifter's guard *)
Lemma selection_remove_same_guard cnt index count :
  SelRemove_guard cnt index count = match Remove_guard cnt index count with Ok _ => Ok tt | Stuck => Stuck | Fuel => Fuel | Exn => Exn end.
Proof.
  unfold SelRemove_guard, Remove_guard, Gen_SelectionGuards.checkMode, Gen_ArrayShifter.checkMode. cbv zeta. simpl.
  destruct (index <=? cnt), (count <=? wrapU 64 (cnt - index)); reflexivity.
Qed.

(* ---------- Array::Insert(index, count, item)  (fix c5d1be1) and InsertNogrow ---------- *)
Lemma insertn_guard_exact cnt index count :
  U64 cnt -> U64 count ->
  InsertN_guard cnt index count = if cnt + count <=? 2 ^ 64 - 1 then Ok (cnt + count) else Exn.
Proof.
  intros Hc Hn. unfold InsertN_guard, Gen_ArrayGuards.maxSize, U64 in *. cbv zeta.
  rewrite (wrapU_small 64 (18446744073709551615 - cnt)) by lia.
  destruct (Z.gtb_spec count (18446744073709551615 - cnt)), (Z.leb_spec (cnt + count) (2 ^ 64 - 1)); try lia; try reflexivity.
  rewrite wrapU_small by lia. reflexivity.
Qed.
Lemma insert_index_guard_exact cnt index count :
  InsertNogrow_guard cnt index count = if index <=? cnt then Ok cnt else Exn.
Proof. unfold InsertNogrow_guard, Gen_ArrayShifter.checkMode. simpl. destruct (index <=? cnt); reflexivity. Qed.

(* ---------- plain index guards: operator[], RemoveBack, table row numbers, selection index, multimap value index ---------- *)
Lemma index_guard_exact cnt i : Index_guard cnt i = if i <? cnt then Ok tt else Exn.
Proof. unfold Index_guard, Gen_ArrayGuards.checkMode. simpl. destruct (i <? cnt); reflexivity. Qed.
Lemma removeback_guard_exact cnt n : RemoveBack_guard cnt n = if n <=? cnt then Ok tt else Exn.
Proof. unfold RemoveBack_guard, Gen_ArrayGuards.checkMode. simpl. destruct (n <=? cnt); reflexivity. Qed.
(* HashMultiMap::Remove(keyIter, valueIndex): valueIndex = count is REJECTED (the seeded `<=` variant breaks this lemma) *)
Lemma mm_remove_value_index_guard_exact cnt i : RemoveKI_guard cnt i = if i <? cnt then Ok tt else Exn.
Proof. unfold RemoveKI_guard, Gen_MultiMapGuards.checkMode. simpl. destruct (i <? cnt); reflexivity. Qed.
Lemma table_guards_exact cnt i :
  Row_guard cnt i = (if i <? cnt then Ok tt else Exn) /\ TryUpdateNum_guard cnt i = (if i <? cnt then Ok tt else Exn) /\
  TryInsert_guard cnt i = (if i <=? cnt then Ok tt else Exn) /\ SelIndex_guard cnt i = (if i <? cnt then Ok tt else Exn).
Proof.
  unfold Row_guard, TryUpdateNum_guard, TryInsert_guard, SelIndex_guard, Gen_TableGuards.checkMode, Gen_SelectionGuards.checkMode.
  simpl. destruct (i <? cnt), (i <=? cnt); repeat split.
Qed.
(* same code: all "index < count" guards are one expression *)
Lemma index_guards_same_code cnt i :
  Index_guard cnt i = Row_guard cnt i /\ Row_guard cnt i = TryUpdateNum_guard cnt i /\ Row_guard cnt i = SelIndex_guard cnt i /\
  Row_guard cnt i = RemoveKI_guard cnt i.
Proof. repeat split; reflexivity. Qed.

(* ---------- ArrayIndexIterator ---------- *)
(* operator+= (since e44962b: `size_t newIndex = mIndex + static_cast<size_t>(diff)`, a modular 64-bit sum, no signed addition):
   for an iterator inside its array (0 <= index <= count < 2^63) and ANY ptrdiff_t diff -- no assumption on the size of index + diff --
   it is accepted exactly when the mathematical index + diff stays in [0, count] (every wrapped value is rejected), and then stores it *)
Lemma mod64_eq x y q : 0 <= y < 2 ^ 64 -> x = 2 ^ 64 * q + y -> x mod 2 ^ 64 = y.
Proof. intros Hy E. symmetry. apply (Z.mod_unique x (2 ^ 64) q y); [left; exact Hy|exact E]. Qed.
Lemma wrapU_add_signed i d :
  0 <= i < 2 ^ 63 -> - 2 ^ 63 <= d < 2 ^ 63 ->
  wrapU 64 (i + wrapU 64 d) = if 0 <=? i + d then i + d else i + d + 2 ^ 64.
Proof.
  intros Hi Hd. unfold wrapU.
  assert (D : d mod 2 ^ 64 = if 0 <=? d then d else d + 2 ^ 64).
  { destruct (Z.leb_spec 0 d); [apply (mod64_eq d d 0); lia|apply (mod64_eq d (d + 2 ^ 64) (-1)); lia]. }
  rewrite D.
  destruct (Z.leb_spec 0 (i + d)) as [P|P]; destruct (Z.leb_spec 0 d) as [Q|Q].
  - apply (mod64_eq _ _ 0); lia.
  - apply (mod64_eq _ _ 1); lia.
  - lia.
  - apply (mod64_eq _ _ 0); lia.
Qed.
Lemma arrit_advance_exact (count_of : Z -> Z) mArray mIndex diff :
  mArray <> 0 -> 0 <= mIndex <= count_of mArray -> count_of mArray < 2 ^ 63 -> - 2 ^ 63 <= diff < 2 ^ 63 ->
  op_add_assign count_of mArray mIndex diff =
    if (0 <=? mIndex + diff) && (mIndex + diff <=? count_of mArray) then Ok (tt, mIndex + diff) else Exn.
Proof.
  intros NZ Hi Hc Hd. unfold op_add_assign, Gen_ArrayIndexIterator.checkMode. cbv zeta.
  rewrite (wrapU_add_signed mIndex diff) by lia.
  change (negb (2 =? 1)) with true. change (2 =? 2) with true. cbn [orb].
  destruct (Z.eqb_spec mArray 0); [congruence|]. cbn [negb].
  destruct (Z.leb_spec 0 (mIndex + diff)) as [P|P]; cbn [andb].
  - destruct (Z.leb_spec (mIndex + diff) (count_of mArray)); reflexivity.
  - destruct (Z.leb_spec (mIndex + diff + 2 ^ 64) (count_of mArray)); [lia|reflexivity].
Qed.
(* the default-constructed iterator only tolerates += 0 *)
Lemma arrit_advance_null (count_of : Z -> Z) mIndex diff :
  op_add_assign count_of 0 mIndex diff = if diff =? 0 then Ok (tt, wrapU 64 (mIndex + wrapU 64 diff)) else Exn.
Proof.
  unfold op_add_assign, Gen_ArrayIndexIterator.checkMode. cbv zeta.
  change (negb (2 =? 1)) with true. change (2 =? 2) with true. change (0 =? 0) with true. cbn [orb negb].
  destruct (diff =? 0); reflexivity.
Qed.
(* FRAME: operator+= is the only member that writes mIndex; whenever it writes, the new index is inside [0, count] *)
Lemma arrit_advance_preserves_range (count_of : Z -> Z) mArray mIndex diff i' :
  mArray <> 0 -> op_add_assign count_of mArray mIndex diff = Ok (tt, i') -> 0 <= i' <= count_of mArray.
Proof.
  intros NZ. unfold op_add_assign, Gen_ArrayIndexIterator.checkMode. cbv zeta.
  change (negb (2 =? 1)) with true. change (2 =? 2) with true. cbn [orb].
  destruct (Z.eqb_spec mArray 0); [congruence|]. cbn [negb].
  destruct (Z.leb_spec (wrapU 64 (mIndex + wrapU 64 diff)) (count_of mArray)) as [L|L]; cbn [negb]; intros HH; inversion HH; subst.
  split; [|assumption]. unfold wrapU. apply Z.mod_pos_bound. lia.
Qed.
(* operator-> / operator*  (fix 813fdb2): accepted iff the iterator is attached and its index is below the count *)
Lemma arrit_deref_exact (count_of : Z -> Z) mArray mIndex :
  op_arrow count_of mArray mIndex = if negb (mArray =? 0) && (mIndex <? count_of mArray) then Ok tt else Exn.
Proof. unfold op_arrow, Gen_ArrayIndexIterator.checkMode. simpl. destruct (mArray =? 0), (mIndex <? count_of mArray); reflexivity. Qed.
(* refinement: the hand model's AAdvance / ADeref (Arr.v) are these functions for an iterator of this array *)
Lemma arr_model_advance_is_generated s slot d :
  aid (ahs s slot) = Some 0%nat -> 0 <= aidx (ahs s slot) <= cnt s -> cnt s < 2 ^ 63 -> - 2 ^ 63 <= d < 2 ^ 63 ->
  match op_add_assign (fun _ => cnt s) 1 (aidx (ahs s slot)) d with
  | Ok (_, i') => astep s (AAdvance slot d) = (aset s slot (mkAH (Some 0%nat) i'), AAcc None)
  | Exn => astep s (AAdvance slot d) = (s, ARej)
  | _ => False
  end.
Proof.
  intros A Hi Hc Hd. rewrite (arrit_advance_exact (fun _ => cnt s) 1) by (auto; lia).
  cbn [astep]; cbv zeta. rewrite A.
  destruct ((0 <=? aidx (ahs s slot) + d) && (aidx (ahs s slot) + d <=? cnt s)); reflexivity.
Qed.
Lemma arr_model_deref_is_generated s slot :
  aid (ahs s slot) = Some 0%nat -> 0 <= aidx (ahs s slot) ->
  match op_arrow (fun _ => cnt s) 1 (aidx (ahs s slot)) with
  | Ok _ => snd (astep s (ADeref slot)) <> ARej
  | Exn => astep s (ADeref slot) = (s, ARej)
  | _ => False
  end.
Proof.
  intros A Hi. rewrite arrit_deref_exact. cbn [astep]; cbv zeta. rewrite A. simpl.
  destruct (Z.leb_spec 0 (aidx (ahs s slot))); [|lia]. simpl.
  destruct (aidx (ahs s slot) <? cnt s); simpl; [discriminate|reflexivity].
Qed.

(* ---------- TreeSetConstIterator::operator++ / operator->  (fix ed8da09) ---------- *)
(* whatever ++ or -> accepts has a node and an index BELOW that node's count -- for leaf and internal nodes alike *)
Lemma tree_inc_guard_exact (node_count : Z -> Z) mNode idx :
  Inc_guard node_count mNode idx = if negb (mNode =? 0) && (idx <? node_count mNode) then Ok tt else Exn.
Proof. unfold Inc_guard, Gen_TreeIterator.checkMode. simpl. destruct (mNode =? 0), (idx <? node_count mNode); reflexivity. Qed.
Lemma tree_inc_arrow_same_code : Inc_guard = Arrow_guard.
Proof. reflexivity. Qed.

(* ---------- VersionKeeper::Check() / Check(version, allowEmpty) = the hand model's chk_self / chk_cont ---------- *)
(* abstraction: the version cell of crew cr lives at address cr + 1; memory holds the current versions *)
Definition addr (cr : nat) : Z := Z.of_nat cr + 1.
Definition ptr_of (h : handle) : Z := match hcrew h with Some cr => addr cr | None => 0 end.
Definition mem_of (s : state) (a : Z) : Z :=
  match ver_of_crew s (Z.to_nat (a - 1)) with Some v => Z.of_nat v | None => -1 end.
Lemma mem_of_addr s cr : mem_of s (addr cr) = match ver_of_crew s cr with Some v => Z.of_nat v | None => -1 end.
Proof. unfold mem_of, addr. replace (Z.to_nat (Z.of_nat cr + 1 - 1)) with cr by lia. reflexivity. Qed.

Lemma keeper_check_self_is_model s h :
  Check_self (mem_of s) (ptr_of h) (Z.of_nat (hsnap h)) = if chk_self s h then Ok tt else Exn.
Proof.
  unfold Check_self, Gen_VersionKeeper.checkMode, chk_self, ptr_of. simpl.
  destruct (hcrew h) as [cr|]; simpl; [|reflexivity].
  rewrite mem_of_addr. destruct (Z.eqb_spec (addr cr) 0) as [E|E]; [unfold addr in E; lia|]. simpl.
  destruct (ver_of_crew s cr) as [v|].
  - destruct (Nat.eqb_spec v (hsnap h)); [subst; rewrite Z.eqb_refl; reflexivity|].
    destruct (Z.eqb_spec (Z.of_nat v) (Z.of_nat (hsnap h))); [lia|reflexivity].
  - destruct (Z.eqb_spec (-1) (Z.of_nat (hsnap h))); [lia|reflexivity].
Qed.
Lemma keeper_check_cont_is_model s c h allowEmpty :
  Inv s ->
  Check_cont (mem_of s) (ptr_of h) (Z.of_nat (hsnap h)) (addr (crew (getc s c))) allowEmpty =
    if chk_cont (getc s c) h allowEmpty then Ok tt else Exn.
Proof.
  intros I. unfold Check_cont, Gen_VersionKeeper.checkMode, chk_cont, ptr_of. simpl.
  destruct (Z.eqb_spec (addr (crew (getc s c))) 0) as [E|E]; [unfold addr in E; lia|]. simpl.
  rewrite mem_of_addr, (ver_of_crew_getc s c I).
  destruct (hcrew h) as [cr|]; simpl.
  - destruct (Z.eqb_spec (addr cr) 0) as [E0|E0]; [unfold addr in E0; lia|]. rewrite andb_false_r.
    destruct (Nat.eqb_spec cr (crew (getc s c))) as [Ec|Ec]; simpl.
    + subst cr. rewrite Z.eqb_refl. simpl.
      destruct (Nat.eqb_spec (hsnap h) (ver (getc s c))) as [Ev|Ev]; [rewrite Ev, Z.eqb_refl; reflexivity|].
      destruct (Z.eqb_spec (Z.of_nat (hsnap h)) (Z.of_nat (ver (getc s c)))); [lia|reflexivity].
    + destruct (Z.eqb_spec (addr cr) (addr (crew (getc s c)))) as [Ea|Ea]; [unfold addr in Ea; lia|]. reflexivity.
  - destruct allowEmpty; simpl; [reflexivity|].
    destruct (addr (crew (getc s c))) eqn:EA; [congruence|reflexivity|reflexivity].
Qed.
(* FRAME: Check never writes (no state component in its result) and never asserts in exception mode *)
Lemma keeper_checks_never_stuck (mem : Z -> Z) p snap q allowEmpty :
  Check_self mem p snap <> Stuck /\ (q <> 0 -> Check_cont mem p snap q allowEmpty <> Stuck).
Proof.
  unfold Check_self, Check_cont, Gen_VersionKeeper.checkMode. simpl. split.
  - destruct (negb (p =? 0) && (mem p =? snap)); discriminate.
  - intros Q. destruct (Z.eqb_spec q 0); [congruence|]. simpl.
    destruct (allowEmpty && (p =? 0)); [discriminate|]. destruct ((p =? q) && (snap =? mem q)); discriminate.
Qed.

(* ---------- SegmentedArray's own guards ---------- *)
Lemma segmented_guards_exact mCount x :
  SegIndex_guard mCount x = (if x <? mCount then Ok tt else Exn) /\
  SegRemoveBack_guard mCount x = (if x <=? mCount then Ok tt else Exn) /\
  (U64 mCount -> U64 x -> forall index, SegInsertN_guard mCount index x = if mCount + x <=? 2 ^ 64 - 1 then Ok tt else Exn).
Proof.
  split; [|split].
  - unfold SegIndex_guard, Gen_SegmentedArrayGuards.checkMode. destruct (x <? mCount); reflexivity.
  - unfold SegRemoveBack_guard, Gen_SegmentedArrayGuards.checkMode. destruct (x <=? mCount); reflexivity.
  - intros Hc Hx index. unfold SegInsertN_guard, Gen_SegmentedArrayGuards.maxSize, U64 in *.
    rewrite (wrapU_small 64 (18446744073709551615 - mCount)) by lia.
    destruct (Z.gtb_spec x (18446744073709551615 - mCount)), (Z.leb_spec (mCount + x) (2 ^ 64 - 1)); try lia; reflexivity.
Qed.
Lemma segmented_same_code c i : SegIndex_guard c i = Index_guard c i /\ SegRemoveBack_guard c i = RemoveBack_guard c i.
Proof. split; reflexivity. Qed.

(* ---------- DataRawIterator::operator+= / operator-> (the iterators of a DataSelection; e44962b also fixed this sum) ---------- *)
Lemma rawit_advance_exact (count_of : Z -> Z) idx diff raws :
  raws <> 0 -> 0 <= idx <= count_of raws -> count_of raws < 2 ^ 63 -> - 2 ^ 63 <= diff < 2 ^ 63 ->
  raw_add_assign idx count_of diff raws = if (0 <=? idx + diff) && (idx + diff <=? count_of raws) then Ok (idx + diff) else Exn.
Proof.
  intros NZ Hi Hc Hd. unfold raw_add_assign, Gen_DataRawIterator.checkMode. cbv zeta.
  rewrite (wrapU_add_signed idx diff) by lia.
  change (negb (2 =? 1)) with true. change (2 =? 2) with true. cbn [orb].
  destruct (Z.eqb_spec raws 0); [congruence|]. cbn [negb].
  destruct (Z.leb_spec 0 (idx + diff)) as [P|P]; cbn [andb].
  - destruct (Z.leb_spec (idx + diff) (count_of raws)); reflexivity.
  - destruct (Z.leb_spec (idx + diff + 2 ^ 64) (count_of raws)); [lia|reflexivity].
Qed.
(* same code as ArrayIndexIterator::operator+= (its guard is re-evaluated by the base-class operator+= right after) *)
Lemma rawit_advance_same_code (count_of : Z -> Z) idx diff raws :
  raw_add_assign idx count_of diff raws =
    match op_add_assign count_of raws idx diff with Ok (_, i) => Ok i | Stuck => Stuck | Fuel => Fuel | Exn => Exn end.
Proof.
  unfold raw_add_assign, op_add_assign, Gen_DataRawIterator.checkMode, Gen_ArrayIndexIterator.checkMode. cbv zeta.
  change (negb (2 =? 1)) with true. change (2 =? 2) with true. cbn [orb].
  destruct (negb (raws =? 0)); [destruct (wrapU 64 (idx + wrapU 64 diff) <=? count_of raws)|destruct (diff =? 0)]; reflexivity.
Qed.
Lemma rawit_deref_exact (count_of : Z -> Z) idx raws :
  raw_arrow idx count_of raws = if negb (raws =? 0) && (idx <? count_of raws) then Ok tt else Exn.
Proof.
  unfold raw_arrow, Gen_DataRawIterator.checkMode. cbv zeta. change (negb (2 =? 1)) with true. change (2 =? 2) with true. cbn [orb].
  destruct (raws =? 0), (idx <? count_of raws); reflexivity.
Qed.

(* ---------- DataRawMultiHashIterator::operator+= / operator-> (DataIndexes.h: the iterators of FindByMultiHash bounds) ----------
   whole bodies (the VersionKeeper::Check() call in front is the function proved above).  mRaw0 = first raw (null for empty bounds),
   mRawBegin = the value array of the remaining raws (null when the bounds hold at most one raw), mRawIndex : ptrdiff_t.
   mRawCount = the count of the bounds (added by the fix of the defect reported in grow round 4). *)
Lemma wrapS_add_signed i d :
  0 <= i < 2 ^ 63 -> - 2 ^ 63 <= d < 2 ^ 63 ->
  let r := wrapS 64 (wrapU 64 (wrapU 64 i + wrapU 64 d)) in
  (0 <= i + d < 2 ^ 63 -> r = i + d) /\ (~ 0 <= i + d < 2 ^ 63 -> r < 0).
Proof.
  intros Hi Hd. cbv zeta. rewrite (wrapU_small 64 i) by lia. rewrite (wrapU_add_signed i d Hi Hd).
  unfold wrapS. cbv zeta. change (64 - 1) with 63.
  destruct (Z.leb_spec 0 (i + d)) as [P|P].
  - rewrite (Z.mod_small (i + d) (2 ^ 64)) by lia. destruct (Z.ltb_spec (i + d) (2 ^ 63)); split; intros; lia.
  - rewrite (Z.mod_small (i + d + 2 ^ 64) (2 ^ 64)) by lia. destruct (Z.ltb_spec (i + d + 2 ^ 64) (2 ^ 63)); split; intros; lia.
Qed.
Definition mh_accepts (r0 rb i cnt d : Z) : bool :=
  negb (r0 =? 0) && (0 <=? i + d) && (i + d <? 2 ^ 63) && (negb (rb =? 0) || (i + d <=? 1)) && (i + d <=? cnt).
Lemma mh_advance_exact r0 rb i cnt d :
  0 <= i < 2 ^ 63 -> - 2 ^ 63 <= d < 2 ^ 63 ->
  mh_add_assign r0 rb i cnt d =
    if d =? 0 then Ok (tt, i) else if mh_accepts r0 rb i cnt d then Ok (tt, i + d) else Exn.
Proof.
  intros Hi Hd. unfold mh_add_assign, mh_accepts, Gen_MultiHashIterator.checkMode. cbv zeta.
  change (negb (2 =? 1)) with true. change (2 =? 2) with true. cbn [orb].
  destruct (d =? 0); cbn [negb]; [reflexivity|].
  destruct (r0 =? 0); cbn [negb andb]; [reflexivity|].
  destruct (wrapS_add_signed i d Hi Hd) as [A B]. cbv zeta in A, B.
  destruct (Z.leb_spec 0 (i + d)) as [P|P]; destruct (Z.ltb_spec (i + d) (2 ^ 63)) as [Q|Q]; cbn [andb].
  - rewrite (A (conj P Q)). destruct (Z.geb_spec (i + d) 0); [|lia]. cbn [negb].
    rewrite (wrapU_small 64 (i + d)) by lia.
    destruct (negb (rb =? 0) || (i + d <=? 1)); cbn [negb andb]; [|reflexivity].
    destruct (i + d <=? cnt); reflexivity.
  - assert (N : wrapS 64 (wrapU 64 (wrapU 64 i + wrapU 64 d)) < 0) by (apply B; lia).
    destruct (Z.geb_spec (wrapS 64 (wrapU 64 (wrapU 64 i + wrapU 64 d))) 0); [lia|reflexivity].
  - assert (N : wrapS 64 (wrapU 64 (wrapU 64 i + wrapU 64 d)) < 0) by (apply B; lia).
    destruct (Z.geb_spec (wrapS 64 (wrapU 64 (wrapU 64 i + wrapU 64 d))) 0); [lia|reflexivity].
  - lia.
Qed.
(* the accepted set in one line: a real move is accepted EXACTLY when the iterator is attached and the new index is inside [0, count]
   (for bounds as DataRawMultiHashBounds builds them: no value array iff count <= 1) *)
Lemma mh_advance_within_count r0 rb i cnt d :
  0 <= i <= cnt -> - 2 ^ 63 <= d < 2 ^ 63 -> d <> 0 -> 0 <= cnt < 2 ^ 63 -> (rb = 0 <-> cnt <= 1) -> (r0 = 0 <-> cnt = 0) ->
  mh_add_assign r0 rb i cnt d = if (0 <=? i + d) && (i + d <=? cnt) then Ok (tt, i + d) else Exn.
Proof.
  intros Hi Hd Hn Hc Hb H0. rewrite (mh_advance_exact r0 rb i cnt d) by lia. unfold mh_accepts.
  destruct (Z.eqb_spec d 0); [lia|].
  destruct (Z.eqb_spec r0 0) as [E|E]; destruct (Z.eqb_spec rb 0) as [F|F];
    destruct (Z.leb_spec 0 (i + d)); destruct (Z.ltb_spec (i + d) (2 ^ 63)); destruct (Z.leb_spec (i + d) 1);
    destruct (Z.leb_spec (i + d) cnt); cbn [negb andb orb]; try reflexivity; exfalso; lia.
Qed.
(* frame: the only write is the new index; it stays inside [0, count]; a detached iterator moves nowhere *)
Lemma mh_advance_frame r0 rb i cnt d j :
  0 <= i < 2 ^ 63 -> - 2 ^ 63 <= d < 2 ^ 63 -> mh_add_assign r0 rb i cnt d = Ok (tt, j) ->
  j = i + d /\ 0 <= j /\ (d <> 0 -> r0 <> 0 /\ j <= cnt) /\ (rb = 0 -> d <> 0 -> j <= 1).
Proof.
  intros Hi Hd. rewrite (mh_advance_exact r0 rb i cnt d Hi Hd). unfold mh_accepts.
  destruct (Z.eqb_spec d 0) as [E|E]; [intro EQ; inversion EQ; subst; repeat split; try lia; intros; congruence|].
  destruct (Z.eqb_spec r0 0); cbn [negb andb]; [discriminate|].
  destruct (Z.leb_spec 0 (i + d)); cbn [andb]; [|discriminate].
  destruct (Z.ltb_spec (i + d) (2 ^ 63)); cbn [andb]; [|discriminate].
  destruct (Z.leb_spec (i + d) cnt); [|rewrite Bool.andb_false_r; discriminate]. rewrite Bool.andb_true_r.
  destruct (Z.eqb_spec rb 0); cbn [negb orb].
  - destruct (Z.leb_spec (i + d) 1); [|discriminate]. intro EQ; inversion EQ; subst. repeat split; try lia; intros; congruence.
  - intro EQ; inversion EQ; subst. repeat split; try lia; intros; congruence.
Qed.
Lemma mh_deref_exact r0 rb i cnt :
  0 <= i < 2 ^ 63 ->
  mh_arrow r0 rb i cnt = if (i <? cnt) && (if i >? 0 then negb (rb =? 0) else negb (r0 =? 0)) then Ok tt else Exn.
Proof.
  intros Hi. unfold mh_arrow, Gen_MultiHashIterator.checkMode. change (negb (2 =? 1)) with true. change (2 =? 2) with true. cbn [orb].
  rewrite (wrapU_small 64 i) by lia.
  destruct (i <? cnt); cbn [negb andb]; [|reflexivity].
  destruct (i >? 0); [destruct (rb =? 0)|destruct (r0 =? 0)]; reflexivity.
Qed.
(* the end iterator and every index past it are rejected by operator-> and cannot be produced by operator+= (the defect reported in
   grow round 4: before the fix neither function looked at the count) *)
Lemma mh_end_rejected r0 rb i cnt : 0 <= i < 2 ^ 63 -> cnt <= i -> mh_arrow r0 rb i cnt = Exn.
Proof. intros Hi H. rewrite (mh_deref_exact r0 rb i cnt Hi). destruct (Z.ltb_spec i cnt); [lia|reflexivity]. Qed.
Lemma mh_past_end_unreachable r0 rb i cnt d :
  0 <= i < 2 ^ 63 -> - 2 ^ 63 <= d < 2 ^ 63 -> d <> 0 -> cnt < i + d -> mh_add_assign r0 rb i cnt d = Exn.
Proof.
  intros Hi Hd Hn H. rewrite (mh_advance_exact r0 rb i cnt d Hi Hd). unfold mh_accepts.
  destruct (Z.eqb_spec d 0); [lia|]. destruct (Z.leb_spec (i + d) cnt); [lia|]. rewrite Bool.andb_false_r. reflexivity.
Qed.

(* ---------- HashMultiMap::pvMakeIterator(keyIter, valueIndex) = MakeIterator (final round) ----------
   the prefix after the empty-iterator shortcut: CheckKeyIterator(keyIter) (skipped: it is VersionKeeper::Check(version, allowEmpty), proved
   above) and MOMO_CHECK(valueIndex <= keyIter->GetCount()): index = count (the end of the key's values) is ACCEPTED, count + 1 is not *)
Lemma mm_make_iterator_guard_exact cnt i : MakeIt_guard cnt i = if i <=? cnt then Ok tt else Exn.
Proof.
  unfold MakeIt_guard, Gen_MultiMapGuards.checkMode. change (negb (2 =? 1)) with true. change (2 =? 2) with true. cbn [orb].
  destruct (i <=? cnt); reflexivity.
Qed.
(* refinement: on a current key iterator that points to a key (the only case that reaches the check) the hand model MultiMap.v decides
   MakeIterator exactly as the generated guard does on the key's value count *)
Lemma mm_model_makeit_is_generated s sk idx slot k vs :
  (forall z, kp (mhs s sk) <> KGap z \/ idx <> O) -> kp (mhs s sk) <> KUnk ->
  kcont s (mhs s sk) true = true -> kderef s (mhs s sk) = Some (Some (k, vs)) ->
  snd (mstep s (MMakeIt sk idx slot)) =
    match MakeIt_guard (Z.of_nat (length vs)) (Z.of_nat idx) with Ok _ => MAcc None | _ => MRej end.
Proof.
  intros G U C D. rewrite mm_make_iterator_guard_exact. cbn [mstep]; cbv zeta.
  assert (E : (Z.of_nat idx <=? Z.of_nat (length vs)) = Nat.leb idx (length vs)).
  { destruct (Z.leb_spec (Z.of_nat idx) (Z.of_nat (length vs))), (Nat.leb_spec idx (length vs)); try reflexivity; lia. }
  rewrite E.
  destruct (kp (mhs s sk)) as [z|z|] eqn:P; [| |congruence].
  - rewrite C, D. destruct idx; destruct (Nat.leb _ (length vs)); reflexivity.
  - destruct idx as [|n]; [destruct (G z) as [H|H]; congruence|]. rewrite C, D. destruct (Nat.leb (S n) (length vs)); reflexivity.
Qed.

