(* C09: pvMoveBufferToHead, pvDeleteBuffer (list part) and pvDeleteBlock(Byte*, Byte*, int8_t) GENERATED (Gen_MemPoolDel.v, the same
   address-keyed maps as Gen_MemPoolBlk; `deleted` is a ghost scalar recording the argument of the pvDeleteBuffer call, which is
   also executed).  The two list functions ARE the hand models PoolLinks.move_to_head / delete_buffer (which carry the dll theorems);
   pvDeleteBlock is a closed formula over them. *)
From Coq Require Import ZArith List Bool Lia.
From MomoCommon Require Import GenPrelude.
From C09 Require PoolBlkPrims Gen_MemPoolDel PoolLinks PoolLinksProofs.
Import ListNotations.
Local Open Scope Z_scope.

Theorem generated_movetohead_is_model B A head del bf bc nx pv nfi buffer :
  Gen_MemPoolDel.pvMoveBufferToHead B A head del bf bc nx pv nfi buffer =
    match PoolLinks.move_to_head (PoolLinks.mkHeap pv nx) head buffer with
    | Some (h, hd') => Ok (tt, hd', PoolLinks.hnext h, PoolLinks.hprev h) | None => Stuck end.
Proof.
  unfold Gen_MemPoolDel.pvMoveBufferToHead, PoolLinks.move_to_head, PoolLinks.set_next, PoolLinks.set_prev, PoolBlkPrims.store_ptr.
  cbn [PoolLinks.hprev PoolLinks.hnext]. cbv zeta.
  destruct (pv head =? 0); [reflexivity|]. cbn [negb]. cbv iota.
  destruct (buffer =? pv head); [reflexivity|]. cbn [negb]. cbv iota.
  destruct (nx buffer =? 0); [reflexivity|]. cbn [negb]. cbv iota.
  destruct (negb (pv buffer =? 0)); reflexivity.
Qed.

Theorem generated_deletebuffer_is_model B A head del bf bc nx pv nfi buffer :
  Gen_MemPoolDel.pvDeleteBuffer B A head del bf bc nx pv nfi buffer =
    match PoolLinks.delete_buffer (PoolLinks.mkHeap pv nx) head buffer with
    | Some h => Ok (tt, PoolLinks.hnext h, PoolLinks.hprev h) | None => Stuck end.
Proof.
  unfold Gen_MemPoolDel.pvDeleteBuffer, PoolLinks.delete_buffer, PoolLinks.set_next, PoolLinks.set_prev, PoolBlkPrims.store_ptr.
  cbn [PoolLinks.hprev PoolLinks.hnext]. cbv zeta.
  destruct (buffer =? head); [reflexivity|]. cbn [negb]. cbv iota.
  destruct (negb (pv buffer =? 0)); destruct (negb (nx buffer =? 0)); reflexivity.
Qed.

(* the dll theorems on the GENERATED functions *)
Theorem generated_movetohead_dll B A del bf bc nx pv nfi L M R b head :
  PoolLinksProofs.dll (PoolLinks.mkHeap pv nx) (L ++ b :: M ++ head :: R) ->
  exists nx' pv', Gen_MemPoolDel.pvMoveBufferToHead B A head del bf bc nx pv nfi b = Ok (tt, b, nx', pv') /\
    PoolLinksProofs.dll (PoolLinks.mkHeap pv' nx') (L ++ M ++ b :: head :: R).
Proof.
  intros D. destruct (PoolLinksProofs.move_to_head_dll _ L M R b head D) as (h' & E & D' & _).
  exists (PoolLinks.hnext h'), (PoolLinks.hprev h'). rewrite generated_movetohead_is_model, E. split; [reflexivity|]. destruct h'; exact D'.
Qed.

(* pvDeleteBlock(block, buffer, blockIndex): the block becomes the first of its buffer's free chain (its cell gets the old first
   index), the count goes up; count 1 -> the buffer moves in front of the head; count = blockCount -> the buffer is deleted unless it
   is the head without a successor (the head then moves on).  Written cells: nfi at `block`, BufferBytes of `buffer`, links. *)
Definition delblock_model (C head : Z) (bf bc : Z -> Z) (h : PoolLinks.heap) (nfi : Z -> Z) (block buffer idx : Z)
  : option (Z * Z * (Z -> Z) * (Z -> Z) * PoolLinks.heap * (Z -> Z)) :=     (* head, deleted buffer or 0, bbFirst, bbCount, heap, nfi *)
  let c1 := bc buffer + 1 in
  let nfi' := upd nfi block (bf buffer) in let bf' := upd bf buffer idx in let bc' := upd bc buffer c1 in
  match (if wrapU 64 c1 =? 1 then PoolLinks.move_to_head h head buffer else Some (h, head)) with
  | None => None
  | Some (h1, head1) =>
    if wrapU 64 c1 =? C then
      let nextBuffer := PoolLinks.hnext h1 buffer in
      let del := if buffer =? head1 then negb (nextBuffer =? 0) else true in
      let head2 := if (buffer =? head1) && del then nextBuffer else head1 in
      if del then match PoolLinks.delete_buffer h1 head2 buffer with
                  | Some h2 => Some (head2, buffer, bf', bc', h2, nfi') | None => None end
      else Some (head2, 0, bf', bc', h1, nfi')
    else Some (head1, 0, bf', bc', h1, nfi')
  end.

Theorem generated_deleteblock_is_model C B A head bf bc nx pv nfi block buffer idx :
  Gen_MemPoolDel.pvDeleteBlock3 C B A head 0 bf bc nx pv nfi block buffer idx =
    match delblock_model C head bf bc (PoolLinks.mkHeap pv nx) nfi block buffer idx with
    | Some (hd, del, bf', bc', h, nfi') => Ok (tt, hd, del, bf', bc', PoolLinks.hnext h, PoolLinks.hprev h, nfi')
    | None => Stuck end.
Proof.
  unfold Gen_MemPoolDel.pvDeleteBlock3, delblock_model, PoolBlkPrims.set_first, PoolBlkPrims.set_count, PoolBlkPrims.bb_pack, PoolBlkPrims.store_ptr.
  cbn [fst snd]. cbv zeta.
  destruct (wrapU 64 (bc buffer + 1) =? 1).
  - rewrite generated_movetohead_is_model. destruct (PoolLinks.move_to_head (PoolLinks.mkHeap pv nx) head buffer) as [[h1 head1]|]; [|reflexivity].
    destruct (wrapU 64 (bc buffer + 1) =? C); [|reflexivity].
    destruct h1 as [p1 n1]. cbn [PoolLinks.hnext PoolLinks.hprev].
    destruct (buffer =? head1); cbn [andb].
    + destruct (negb (n1 buffer =? 0)); [|reflexivity]. rewrite generated_deletebuffer_is_model.
      destruct (PoolLinks.delete_buffer (PoolLinks.mkHeap p1 n1) (n1 buffer) buffer); reflexivity.
    + rewrite generated_deletebuffer_is_model. destruct (PoolLinks.delete_buffer (PoolLinks.mkHeap p1 n1) head1 buffer); reflexivity.
  - destruct (wrapU 64 (bc buffer + 1) =? C); [|reflexivity].
    destruct (buffer =? head); cbn [andb PoolLinks.hnext PoolLinks.hprev].
    + destruct (negb (nx buffer =? 0)); [|reflexivity]. rewrite generated_deletebuffer_is_model.
      destruct (PoolLinks.delete_buffer (PoolLinks.mkHeap pv nx) (nx buffer) buffer); reflexivity.
    + rewrite generated_deletebuffer_is_model. destruct (PoolLinks.delete_buffer (PoolLinks.mkHeap pv nx) head buffer); reflexivity.
Qed.
