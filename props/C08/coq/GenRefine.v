(* C08 -- the arithmetic kernels of the value-array representation, REGENERATED from the headers by cxx2coq on every
   run (Gen_*.v), connected to the hand model: every byte-level / capacity function the hand model uses is proved equal
   to the generated translation of the real function, so a change of the real function breaks a proof here. *)
From Coq Require Import ZArith List Lia Bool.
From MomoCommon Require Import GenPrelude.
From C08 Require Gen_GrowCapacity Gen_ArrayBucket Gen_ArrayBucket_cnt Gen_ArrayBucket_s.
From C08 Require Gen_HashMultiMap Gen_VersionCheck Gen_VersionCheck_a.
From C08 Require Import ArrayBucketModel MultiMapModel VersionModel.
Local Open Scope Z_scope.

Lemma wrapU8_wrap8 x : wrapU 8 x = wrap8 x.
Proof. reflexivity. Qed.

(* ---- ArraySettings<>::GrowCapacity (Array.h:160-177), growCause = add (0), linear = false *)
Definition gen_grow (cap mn : Z) : outcome Z := Gen_GrowCapacity.GrowCapacity true cap mn 0 false.

Lemma band_range cap : 0 <= cap <= 2 ^ 62 ->
  0 <= cap * 2 < 2 ^ 64 /\ 0 <= cap + 64 < 2 ^ 64 /\ 0 <= cap / 50 * 23 < 2 ^ 64 /\ 0 <= cap + cap / 50 * 23 < 2 ^ 64.
Proof.
  intros H. assert (0 <= cap / 50 <= cap) by (split; [apply Z.div_pos; lia|apply Z.div_le_upper_bound; lia]).
  assert (2 ^ 64 = 4 * 2 ^ 62) by reflexivity. assert (0 < 2 ^ 62) by reflexivity.
  assert (cap / 50 * 23 <= cap). { pose proof (Z.div_mod cap 50 ltac:(lia)). pose proof (Z.mod_pos_bound cap 50 ltac:(lia)). lia. }
  lia.
Qed.

(* the generated function IS the hand model's grow_capacity (no size_t overflow below 2^62), for either value of the
   template constant growOnReserve, and never fails its MOMO_ASSERT(capacity < minNewCapacity) in AddBackCrt's use *)
Theorem gen_grow_capacity_refines (gor : bool) cap mn : 0 <= cap < mn -> mn <= 2 ^ 62 ->
  Gen_GrowCapacity.GrowCapacity gor cap mn 0 false = Ok (grow_capacity cap mn).
Proof.
  intros H1 H2. unfold Gen_GrowCapacity.GrowCapacity, grow_capacity.
  destruct (Z.ltb_spec cap mn); [|lia]. simpl andb. cbv iota.
  destruct (band_range cap ltac:(lia)) as (A & B & C & D).
  rewrite (wrapU_small 64 (cap * 2)) by exact A.
  rewrite (wrapU_small 64 (cap + 64)) by exact B.
  rewrite (wrapU_small 64 (cap / 50 * 23)) by exact C.
  rewrite (wrapU_small 64 (cap + cap / 50 * 23)) by exact D.
  simpl orb.
  destruct (Z.leb_spec cap 2); [destruct (Z.ltb_spec 4 mn); reflexivity|].
  destruct (Z.leb_spec cap 64); [destruct (Z.ltb_spec (cap * 2) mn); reflexivity|].
  destruct (Z.ltb_spec cap 150); [destruct (Z.ltb_spec (cap + 64) mn); reflexivity|].
  destruct (Z.ltb_spec (cap + cap / 50 * 23) mn); reflexivity.
Qed.

(* spec of the generated function itself: the new capacity holds the requested count and really grows *)
Theorem gen_grow_capacity_spec (gor : bool) cap mn : 0 <= cap < mn -> mn <= 2 ^ 62 ->
  exists c, Gen_GrowCapacity.GrowCapacity gor cap mn 0 false = Ok c /\ mn <= c /\ cap < c.
Proof.
  intros H1 H2. exists (grow_capacity cap mn). split; [apply gen_grow_capacity_refines; auto|].
  split; [apply grow_capacity_ge|apply grow_capacity_gt; lia].
Qed.

(* ---- ArrayBucket state byte: pvMakeState / pvGetMemPoolIndex / pvGetFastCount / pvGetFastMemPoolIndex (375-396) *)
Theorem gen_make_state_refines p c : 0 <= p < 2 ^ 59 ->
  Gen_ArrayBucket.pvMakeState p c = make_state p c.
Proof.
  intros H. unfold Gen_ArrayBucket.pvMakeState, make_state. rewrite wrapU8_wrap8. f_equal. f_equal.
  apply wrapU_small. rewrite Z.shiftl_mul_pow2 by lia. change (2 ^ 4) with 16. change (2 ^ 64) with (32 * 2 ^ 59). lia.
Qed.

Theorem gen_mem_pool_index_refines (load : Z -> Z) ptr : ptr <> 0 ->
  Gen_ArrayBucket.pvGetMemPoolIndex load ptr = Ok (pool_of (load ptr)).
Proof. intros H. unfold Gen_ArrayBucket.pvGetMemPoolIndex. destruct (Z.eqb_spec ptr 0); [contradiction|reflexivity]. Qed.

Theorem gen_fast_count_refines (load : Z -> Z) ptr : 0 < pool_of (load ptr) ->
  Gen_ArrayBucket_cnt.pvGetFastCount load (fun q => pool_of (load q)) ptr = Ok (fcount_of (load ptr)).
Proof. intros H. unfold Gen_ArrayBucket_cnt.pvGetFastCount. destruct (Z.gtb_spec (pool_of (load ptr)) 0); [reflexivity|lia]. Qed.

(* pvGetFastMemPoolIndex(count) = count, asserting 0 < count <= maxFastCount: exactly the tests of the hand model *)
Theorem gen_fast_mem_pool_index (M count : Z) :
  Gen_ArrayBucket.pvGetFastMemPoolIndex M count = if (0 <? count) && (count <=? M) then Ok count else Stuck.
Proof. reflexivity. Qed.

(* the hand model's null -> pool 1 step and "next pool" step use exactly these generated functions *)
Theorem add_back_null_via_generated M : 0 < M ->
  add_back M RNull =
  match Gen_ArrayBucket.pvGetFastMemPoolIndex M 1 with
  | Ok idx => RFast (Gen_ArrayBucket.pvMakeState idx 1)
  | _ => RStuck
  end.
Proof.
  intros HM. rewrite gen_fast_mem_pool_index. simpl add_back.
  destruct (Z.leb_spec 1 M); [|lia]. simpl. rewrite gen_make_state_refines by (change (2 ^ 59) with 576460752303423488; lia).
  reflexivity.
Qed.

Theorem copy_repr_via_generated M n : 0 < n <= M -> M < 16 ->
  copy_repr M n =
  match Gen_ArrayBucket.pvGetFastMemPoolIndex M n with
  | Ok idx => RFast (Gen_ArrayBucket.pvMakeState idx n)
  | _ => RStuck
  end.
Proof.
  intros Hn HM. rewrite gen_fast_mem_pool_index. unfold copy_repr.
  destruct (Z.eqb_spec n 0); [lia|]. destruct (Z.leb_spec n M); [|lia]. destruct (Z.ltb_spec 0 n); [|lia]. simpl.
  rewrite gen_make_state_refines by (change (2 ^ 59) with 576460752303423488; lia). reflexivity.
Qed.

(* ---- same code: the instantiation ArrayBucket<string values, maxFastCount 2, MemPoolParams<3,1>> translates to the very
   same Gallina as ArrayBucket<int64 values, 7, MemPoolParams<>> (maxFastCount is symbolic in both) *)
Theorem same_code_array_bucket_instantiations :
  Gen_ArrayBucket_s.pvMakeState = Gen_ArrayBucket.pvMakeState /\
  Gen_ArrayBucket_s.pvGetFastMemPoolIndex = Gen_ArrayBucket.pvGetFastMemPoolIndex /\
  Gen_ArrayBucket_s.pvGetMemPoolIndex = Gen_ArrayBucket.pvGetMemPoolIndex.
Proof. repeat split; reflexivity. Qed.

(* ================================================================ HashMultiMap: mValueCount / valueVersion / returned position *)
(* Gen_HashMultiMap.v = pvAddValue (1233-1240), Remove(ConstIterator) (1059-1074), pvRemoveValues (1242-1248), Clear (872-881)
   translated with the calls into the value array / nested map skipped: what remains is exactly their arithmetic on
   mValueCount and the version counter, and the arguments (valueIndex, move) of the pvMakeIterator that Remove returns. *)
Definition no_wrap (x : Z) : Prop := 0 <= x < 2 ^ 63.

(* Remove(iter): count - 1, version + 1, and the returned iterator is pvMakeIterator(key, THE SAME valueIndex, move = TRUE):
   it is moved on to the next pair when the hole was the key's last value (C08_remove_returns_rest_of_traversal then says
   where that is) -- this is the statement the seeded change `move = keyEmptied` violates *)
Theorem gen_remove_iter cnt ver ri rm idx : no_wrap (cnt - 1) -> no_wrap ver ->
  Gen_HashMultiMap.Remove_iter cnt ver ri rm idx = (cnt - 1, ver + 1, idx, true).
Proof.
  intros [A1 A2] [B1 B2]. unfold Gen_HashMultiMap.Remove_iter.
  rewrite !wrapU_small by (change (2 ^ 64) with (2 * 2 ^ 63); lia). reflexivity.
Qed.

Theorem gen_add_value cnt ver ri rm : no_wrap cnt -> no_wrap ver ->
  Gen_HashMultiMap.pvAddValue cnt ver ri rm = (cnt + 1, ver + 1).
Proof.
  intros [A1 A2] [B1 B2]. unfold Gen_HashMultiMap.pvAddValue.
  rewrite !wrapU_small by (change (2 ^ 64) with (2 * 2 ^ 63); lia). reflexivity.
Qed.

Theorem gen_remove_values cnt ver ri rm count : 0 <= count <= cnt -> no_wrap cnt -> no_wrap ver ->
  Gen_HashMultiMap.pvRemoveValues cnt ver ri rm count = (cnt - count, ver + 1).
Proof.
  intros H [A1 A2] [B1 B2]. unfold Gen_HashMultiMap.pvRemoveValues.
  rewrite !wrapU_small by (change (2 ^ 64) with (2 * 2 ^ 63); lia). reflexivity.
Qed.

Theorem gen_clear (null : bool) cnt ver ri rm : no_wrap ver ->
  Gen_HashMultiMap.Clear null cnt ver ri rm = if null then (cnt, ver) else (0, ver + 1).
Proof.
  intros [B1 B2]. unfold Gen_HashMultiMap.Clear. destruct null; simpl; [reflexivity|].
  rewrite wrapU_small by (change (2 ^ 64) with (2 * 2 ^ 63); lia). reflexivity.
Qed.

(* the hand model's count / version bookkeeping IS the generated code, operation by operation (c = a live container) *)
Theorem model_counts_via_generated M (c : vmm) : vlive c = true -> no_wrap (snd (fst c)) -> no_wrap (vver c) -> Inv M (fst c) ->
  let m := fst c in
  (forall k t v, (snd (fst (vstep1 M c (OAdd k t v))), vver (vstep1 M c (OAdd k t v))) =
                 Gen_HashMultiMap.pvAddValue (snd m) (vver c) 0 false) /\
  (forall k i e, find k (fst m) = Some e -> (i < length (evals e))%nat ->
     (snd (fst (vstep1 M c (ORemove k i))), vver (vstep1 M c (ORemove k i)), Z.of_nat i, true) =
     Gen_HashMultiMap.Remove_iter (snd m) (vver c) 0 false (Z.of_nat i)) /\
  (forall k e, find k (fst m) = Some e ->
     (snd (fst (vstep1 M c (ORemoveValues k))), vver (vstep1 M c (ORemoveValues k))) =
     Gen_HashMultiMap.pvRemoveValues (snd m) (vver c) 0 false (elen e) /\
     (snd (fst (vstep1 M c (ORemoveKey k))), vver (vstep1 M c (ORemoveKey k))) =
     Gen_HashMultiMap.pvRemoveValues (snd m) (vver c) 0 false (elen e)) /\
  (snd (fst (vstep1 M c OClear)), vver (vstep1 M c OClear)) = Gen_HashMultiMap.Clear false (snd m) (vver c) 0 false.
Proof.
  intros L NC NV HI m. destruct c as [[es n] [ver live]]. unfold vlive in L. simpl in L. subst live. unfold vver in *. simpl in *.
  destruct HI as (ND & CN & AB). simpl in CN.
  split; [|split; [|split]].
  - intros k t v. rewrite gen_add_value by auto. unfold vstep1, vlive, vver. simpl. unfold add1. simpl.
    destruct (find k es); reflexivity.
  - intros k i e F Hi.
    assert (1 <= n).
    { subst n. clear - F Hi. induction es as [|a r IH]; simpl in *; [discriminate|].
      pose proof (sumlen_nonneg r). destruct (ekey a =? k).
      - inversion F; subst. unfold elen. lia.
      - specialize (IH F). unfold elen. lia. }
    rewrite gen_remove_iter by (unfold no_wrap in *; try lia; auto).
    unfold vstep1, vlive, vver. simpl. rewrite F. destruct (Nat.ltb_spec i (length (evals e))); [|lia]. reflexivity.
  - intros k e F.
    assert (0 <= elen e <= n).
    { subst n. clear - F. induction es as [|a r IH]; simpl in *; [discriminate|].
      pose proof (sumlen_nonneg r). destruct (ekey a =? k).
      - inversion F; subst. unfold elen. lia.
      - specialize (IH F). unfold elen in *. lia. }
    rewrite gen_remove_values by auto. unfold vstep1, vlive, vver. simpl. rewrite F. simpl. auto.
  - rewrite gen_clear by auto. reflexivity.
Qed.

(* a moved-from container: the generated Clear with a null crew changes nothing, as vstep1 on the dead state *)
Theorem dead_clear_via_generated cnt ver : no_wrap ver ->
  Gen_HashMultiMap.Clear true cnt ver 0 false = (cnt, ver).
Proof. intros H. rewrite gen_clear by auto. reflexivity. Qed.

(* ================================================================ the version CHECK inside iterators *)
(* VersionKeeper<Settings, true>::Check() (what HashMultiMapIterator::operator++ / operator-> / Remove call first), generated
   for checkMode = exception (Gen_VersionCheck) and = assertion (Gen_VersionCheck_a): it passes iff the iterator has a
   counter address and the counter still holds the value stored in the iterator *)
Theorem gen_version_check (mem : Z -> Z) ptr ver :
  Gen_VersionCheck.Check_self mem ptr ver = (if negb (ptr =? 0) && (mem ptr =? ver) then Ok tt else Exn) /\
  Gen_VersionCheck_a.Check_self mem ptr ver = (if negb (ptr =? 0) && (mem ptr =? ver) then Ok tt else Stuck).
Proof.
  unfold Gen_VersionCheck.Check_self, Gen_VersionCheck_a.Check_self, Gen_VersionCheck.checkMode, Gen_VersionCheck_a.checkMode.
  simpl. destruct (negb (ptr =? 0) && (mem ptr =? ver)); split; reflexivity.
Qed.

(* an iterator made on container c (it stores vver c) that passes the generated check after a call o: the call did not touch
   any value array -- every present key keeps exactly its array and the pair traversal is the same, so the iterator still
   designates the same pair *)
Theorem checked_iterator_designates_same_pair M (c : vmm) (o : op) (mem : Z -> Z) ptr :
  vlive c = true -> NoDup (keys (fst (fst c))) -> mem ptr = vver (vstep1 M c o) ->
  Gen_VersionCheck.Check_self mem ptr (vver c) = Ok tt ->
  (forall k e, find k (fst (fst c)) = Some e ->
     exists e', find k (fst (fst (vstep1 M c o))) = Some e' /\ earr e' = earr e) /\
  all_pairs (fst (fst (vstep1 M c o))) = all_pairs (fst (fst c)).
Proof.
  intros L ND HM HC. destruct (gen_version_check mem ptr (vver c)) as [E _]. rewrite E in HC.
  destruct (negb (ptr =? 0) && (mem ptr =? vver c)) eqn:B; [|discriminate].
  apply andb_true_iff in B. destruct B as [_ B]. apply Z.eqb_eq in B.
  unfold vstep1 in *. rewrite L in *. unfold vver in *. simpl in *.
  assert (ver_delta M (fst c) o = 0) as D by lia.
  destruct (version_guards_values M (fst c) o ND D) as (A1 & _ & A3). split; auto.
Qed.

(* the container-side check CheckIterator -> VersionKeeper::Check(const size_t* version, bool allowEmpty): a default-constructed
   (empty) iterator is accepted iff allowEmpty; otherwise the iterator must point at THIS container's counter and hold its value *)
Theorem gen_version_check_cont (mem : Z -> Z) ptr ver version (allowEmpty : bool) : version <> 0 ->
  Gen_VersionCheck.Check_cont mem ptr ver version allowEmpty =
  if allowEmpty && (ptr =? 0) then Ok tt
  else if (ptr =? version) && (ver =? mem version) then Ok tt else Exn.
Proof.
  intros H. unfold Gen_VersionCheck.Check_cont, Gen_VersionCheck.checkMode.
  destruct (Z.eqb_spec version 0); [contradiction|]. simpl.
  destruct (allowEmpty && (ptr =? 0)); [reflexivity|].
  destruct ((ptr =? version) && (ver =? mem version)); reflexivity.
Qed.
