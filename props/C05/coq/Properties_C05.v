(* Property C05 -- theorems only.  Each is closed by `exact <lemma>` and followed by Print Assumptions.
   ArrayShift.v / ArrayModel.v are hand-written executable models of ArrayUtility.h / Array.h (tied to the real
   code by running the extracted OCaml against momo on the same scripts, every run); Gen_Grow.v is regenerated
   from Array.h by cxx2coq on every run.
   In all statements: V = element type, self_move v = what `x = std::move(x)` leaves in x, after_move v = what a
   move leaves in its source (None = moved-from); `= Ok ...` means no failed MOMO_CHECK/MOMO_ASSERT, no read of a
   moved-from or unconstructed slot, no construction over a live object;  arr_of l r = an array whose elements
   are exactly l (all Live) followed by r unconstructed slots. *)
From Coq Require Import List Arith ZArith Bool.
From MomoCommon Require GenPrelude.
From C05 Require Import ArrayShift.
From C05 Require ShiftProofs FilterProofs GrowProofs Gen_Grow ArrayModel ArrayProofs.
Import ListNotations.

(* ArrayShifter::InsertNogrow(array, index, count, const Item& item): for EVERY length, index, count (including 0),
   free capacity r >= count, element type behaviour (self_move, after_move), and item that is a temporary or an
   element in front of the insertion point (all that Array::Insert ever passes): the result is exactly the list
   insertion, every slot below the new count is Live, nothing was self-move-assigned or read after being moved. *)
Theorem C05_insert_refines :
  forall (V : Type) (self_move after_move : V -> option V) (l : list V) (r index count : nat) (x : arg V) (d : V),
    index <= length l -> count <= r -> ShiftProofs.arg_ok V index x ->
    insert_nogrow_copies V self_move after_move true (arr_of l r) index count x =
      Ok (arr_of (firstn index l ++ repeat (ShiftProofs.arg_val V l d x) count ++ skipn index l) (r - count)).
Proof. exact ShiftProofs.insert_copies_refines. Qed.
Print Assumptions C05_insert_refines.

(* the forward-iterator overload InsertNogrow(array, index, begin, count), same quantification *)
Theorem C05_insert_range_refines :
  forall (V : Type) (self_move after_move : V -> option V) (l : list V) (r index : nat) (xs : list (arg V)) (d : V),
    index <= length l -> length xs <= r -> Forall (ShiftProofs.arg_ok V index) xs ->
    insert_nogrow_range V self_move after_move true (arr_of l r) index xs =
      Ok (arr_of (firstn index l ++ map (ShiftProofs.arg_val V l d) xs ++ skipn index l) (r - length xs)).
Proof. exact ShiftProofs.insert_range_refines. Qed.
Print Assumptions C05_insert_range_refines.

(* ArrayShifter::Remove(array, index, count): exactly the list erase, for all lengths/indexes/counts incl. 0 *)
Theorem C05_remove_refines :
  forall (V : Type) (self_move after_move : V -> option V) (l : list V) (r index count : nat),
    index + count <= length l ->
    remove_range V self_move after_move true (arr_of l r) index count =
      Ok (arr_of (firstn index l ++ skipn (index + count) l) (r + count)).
Proof. exact ShiftProofs.remove_refines. Qed.
Print Assumptions C05_remove_refines.

(* ArrayShifter::Remove(array, itemFilter) = List.filter of the complement, for every list, predicate and element
   behaviour; the returned count is the number of removed items (the compaction never self-move-assigns: the write
   position stays strictly behind the read position) *)
Theorem C05_remove_filter_refines :
  forall (V : Type) (self_move after_move : V -> option V) (p : V -> bool) (l : list V) (r : nat),
    remove_filter V self_move after_move p (arr_of l r) =
      Ok (arr_of (filter (FilterProofs.keep V p) l) (r + (length l - length (filter (FilterProofs.keep V p) l))),
          length l - length (filter (FilterProofs.keep V p) l)).
Proof. exact FilterProofs.remove_filter_refines. Qed.
Print Assumptions C05_remove_filter_refines.

(* InsertNogrow(array, index, Item&&) with a temporary (the InsertCrt / ArrayItemHandler path) *)
Theorem C05_insert_rvalue_temp_refines :
  forall (V : Type) (self_move after_move : V -> option V) (l : list V) (r index : nat) (v : V),
    index <= length l -> 1 <= r ->
    insert_nogrow_rvalue V self_move after_move true (arr_of l r) index (ArgVal v) =
      Ok (arr_of (firstn index l ++ [v] ++ skipn index l) (r - 1)).
Proof. exact FilterProofs.insert_rvalue_temp_refines. Qed.
Print Assumptions C05_insert_rvalue_temp_refines.

(* empty ranges change nothing at all -- for ANY array state (even one containing moved-from elements) *)
Theorem C05_insert_count0_is_identity :
  forall (V : Type) (self_move after_move : V -> option V) (src : source V) (s : arr V) (index : nat),
    index <= cnt s -> cnt s <= cap s -> insert_nogrow_gen V self_move after_move true src s index 0 = Ok s.
Proof. exact ShiftProofs.insert_count0_is_identity. Qed.
Print Assumptions C05_insert_count0_is_identity.

Theorem C05_remove_count0_is_identity :
  forall (V : Type) (self_move after_move : V -> option V) (s : arr V) (index : nat),
    index <= cnt s -> remove_range V self_move after_move true s index 0 = Ok s.
Proof. exact ShiftProofs.remove_count0_is_identity. Qed.
Print Assumptions C05_remove_count0_is_identity.

(* non-vacuity + the mutant: the code shape BEFORE fix 62f9657 (same definition, early return removed) violates the
   statements above on [1;2;3], index 1, count 0 for a self-move-hostile element type *)
Theorem C05_insert_count0_refuted :
  exists (l : list nat) (index : nat), index <= length l /\
    insert_nogrow_copies nat (fun _ => None) (fun _ => None) false (arr_of l 2) index 0 (ArgVal 7) <> Ok (arr_of l 2) /\
    insert_nogrow_copies nat (fun _ => None) (fun _ => None) true (arr_of l 2) index 0 (ArgVal 7) = Ok (arr_of l 2).
Proof. exact ShiftProofs.insert_count0_refuted. Qed.
Print Assumptions C05_insert_count0_refuted.

Theorem C05_remove_count0_refuted :
  exists (l : list nat) (index : nat), index <= length l /\
    remove_range nat (fun _ => None) (fun _ => None) false (arr_of l 0) index 0 <> Ok (arr_of l 0) /\
    remove_range nat (fun _ => None) (fun _ => None) true (arr_of l 0) index 0 = Ok (arr_of l 0).
Proof. exact ShiftProofs.remove_count0_refuted. Qed.
Print Assumptions C05_remove_count0_refuted.

(* ArraySettings::GrowCapacity (GENERATED from Array.h): for every capacity < requested < 2^64, either cause, both
   modes and both growOnReserve settings the assertion holds and the result is >= the requested capacity *)
Theorem C05_grow_capacity_ge :
  forall (growOnReserve : bool) (capacity minNew cause : Z) (linear : bool),
    (0 <= capacity < minNew)%Z -> (minNew < 2 ^ 64)%Z ->
    exists r, Gen_Grow.GrowCapacity growOnReserve capacity minNew cause linear = GenPrelude.Ok r /\ (minNew <= r < 2 ^ 64)%Z.
Proof. exact GrowProofs.grow_capacity_ge. Qed.
Print Assumptions C05_grow_capacity_ge.

(* Array::Insert(index, count, item) (Array.h): `item` may refer to ANY element of the array (or be a temporary), the
   capacity may or may not suffice: the aliasing test pvIndexOf + the ArrayItemHandler temporary made BEFORE growth
   make the result exactly the list insertion; it allocates iff the free capacity r is smaller than count. *)
Theorem C05_array_insert_refines :
  forall (V : Type) (self_move after_move : V -> option V) (growOnReserve : bool)
         (l : list V) (r al index count : nat) (x : arg V) (d : V),
    index <= length l -> ArrayProofs.arg_in V (length l) x -> ArrayProofs.fits (length l + count) ->
    exists r', ArrayModel.array_insert V self_move after_move growOnReserve (ArrayModel.mkArray V (arr_of l r) al) index count x =
        Ok (ArrayModel.mkArray V (arr_of (firstn index l ++ repeat (ShiftProofs.arg_val V l d x) count ++ skipn index l) r')
                    (if r <? count then S al else al)) /\
      (count <= r -> r' = r - count) /\ length l + r <= length l + count + r'.
Proof. exact ArrayProofs.array_insert_refines. Qed.
Print Assumptions C05_array_insert_refines.

(* Array::AddBack(const Item&) with item aliasing any element, through all pvAddBackGrow code paths *)
Theorem C05_array_add_back_refines :
  forall (V : Type) (growOnReserve nothrowReloc : bool) (l : list V) (r al : nat) (x : arg V) (d : V),
    ArrayProofs.arg_in V (length l) x -> ArrayProofs.fits (length l + 1) ->
    exists r', ArrayModel.array_add_back V growOnReserve nothrowReloc (ArrayModel.mkArray V (arr_of l r) al) x =
        Ok (ArrayModel.mkArray V (arr_of (l ++ [ShiftProofs.arg_val V l d x]) r') (if r =? 0 then S al else al)) /\
      (0 < r -> r' = r - 1) /\ length l + r <= length l + 1 + r'.
Proof. exact ArrayProofs.array_add_back_refines. Qed.
Print Assumptions C05_array_add_back_refines.

(* every history of AddBack / Insert(n copies) / Insert(range) / Remove / Reserve -- value arguments aliasing any element,
   empty ranges anywhere -- whose list-level preconditions hold (`bounded`: also all lengths <= B < 2^64) runs without
   any error in the model and ends in exactly the list-level result; the capacity never decreases; if B is within the
   initial capacity nothing is allocated *)
Theorem C05_history_refines :
  forall (V : Type) (self_move after_move : V -> option V) (ic : nat) (growOnReserve nothrowMove nothrowReloc canRealloc : bool)
         (os : list (ArrayModel.op V)) (l : list V) (r al : nat) (d : V) (B : nat),
    ArrayProofs.bounded V l d os B -> ArrayProofs.fits B ->
    exists l' r' al', ArrayProofs.spec_ops V l d os = Some l' /\
      ArrayProofs.run_ops V self_move after_move ic growOnReserve nothrowMove nothrowReloc canRealloc
        (ArrayModel.mkArray V (arr_of l r) al) os = Ok (ArrayModel.mkArray V (arr_of l' r') al') /\
      length l + r <= length l' + r' /\
      (B <= length l + r -> al' = al /\ length l' + r' = length l + r).
Proof. exact ArrayProofs.history_refines. Qed.
Print Assumptions C05_history_refines.

(* after Reserve(n), growing the size up to n (by any such history) performs no allocation *)
Theorem C05_reserve_then_grow_no_alloc :
  forall (V : Type) (self_move after_move : V -> option V) (ic : nat) (growOnReserve nothrowMove nothrowReloc canRealloc : bool)
         (l : list V) (r al n : nat) (d : V) (os : list (ArrayModel.op V)),
    ArrayProofs.fits n -> length l <= n -> ArrayProofs.bounded V l d os n ->
    exists r1 al1 l' r',
      ArrayModel.array_reserve V growOnReserve (ArrayModel.mkArray V (arr_of l r) al) n = Ok (ArrayModel.mkArray V (arr_of l r1) al1) /\
      n <= length l + r1 /\
      ArrayProofs.spec_ops V l d os = Some l' /\
      ArrayProofs.run_ops V self_move after_move ic growOnReserve nothrowMove nothrowReloc canRealloc
        (ArrayModel.mkArray V (arr_of l r1) al1) os = Ok (ArrayModel.mkArray V (arr_of l' r') al1) /\
      length l' + r' = length l + r1.
Proof. exact ArrayProofs.reserve_then_grow_no_alloc. Qed.
Print Assumptions C05_reserve_then_grow_no_alloc.

Theorem C05_history_nonvacuous :
  ArrayProofs.bounded nat [1;2;3] 0 [ArrayModel.OAddBack nat (ArgRef 0); ArrayModel.OInsert nat 1 2 (ArgRef 3); ArrayModel.ORemove nat 0 0;
       ArrayModel.OInsert nat 2 0 (ArgRef 1); ArrayModel.OReserve nat 9; ArrayModel.OInsertRange nat 6 [7;8]; ArrayModel.ORemove nat 1 3] 10
  /\ ArrayProofs.spec_ops nat [1;2;3] 0 [ArrayModel.OAddBack nat (ArgRef 0); ArrayModel.OInsert nat 1 2 (ArgRef 3); ArrayModel.ORemove nat 0 0;
       ArrayModel.OInsert nat 2 0 (ArgRef 1); ArrayModel.OReserve nat 9; ArrayModel.OInsertRange nat 6 [7;8]; ArrayModel.ORemove nat 1 3] = Some [1;3;1;7;8].
Proof. exact ArrayProofs.bounded_example. Qed.
Print Assumptions C05_history_nonvacuous.
