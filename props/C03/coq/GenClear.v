(* C03 -- HashSet / TreeSet pvDestroy and Clear TRANSLATED by tools/cxx2coq.py (Gen_HashSetC03.v, Gen_TreeSetC03.v; configurations
   copied from C14: every call that releases something - Buckets::Destroy, node Destroy, pool Deallocate, IncVersion - is an
   `assert_call` that is Stuck when `crew_null`; here crew_null is used as a PROBE: a result that does not depend on it proves that
   no releasing call is executed).

   These are the leaves behind the pointer states of GenTie.v (PNull: pvDestroy releases nothing; "destroy, then null the fields"
   makes the destructor of a delegating constructor harmless) and behind "Clear with shrink leaves nothing to release". *)
From Coq Require Import ZArith Bool List String.
From MomoCommon Require Import GenPrelude.
From C03 Require Import GenPrimsC03 Gen_C03Facts GenTie Gen_HashSetC03 Gen_TreeSetC03.
Import ListNotations.
Local Open Scope Z_scope.

(* pvDestroy on null pointers executes no releasing call at all (Ok even with the probe armed) *)
Theorem gen_hashset_pvdestroy_null_releases_nothing (probe : bool) (nextb cnt cap : Z) :
  Gen_HashSetC03.pvDestroy probe cnt cap 0 = Ok tt.
Proof. reflexivity. Qed.
Theorem gen_treeset_pvdestroy_null_releases_nothing (probe : bool) (cnt : Z) :
  Gen_TreeSetC03.pvDestroy probe cnt 0 0 = Ok tt.
Proof. reflexivity. Qed.

(* ... and on a non-null pointer it does execute one (the probe makes it Stuck): pvDestroy releases iff the pointer is set *)
Theorem gen_hashset_pvdestroy_releases_iff_set (cnt cap b : Z) :
  b <> 0 -> Gen_HashSetC03.pvDestroy true cnt cap b = Stuck.
Proof. intros H. unfold Gen_HashSetC03.pvDestroy, Gen_HashSetC03.pvDestroyB. rewrite (proj2 (Z.eqb_neq b 0) H). reflexivity. Qed.
Theorem gen_treeset_pvdestroy_releases_iff_set (cnt r p : Z) :
  r <> 0 \/ p <> 0 -> Gen_TreeSetC03.pvDestroy true cnt r p = Stuck.
Proof.
  intros H. unfold Gen_TreeSetC03.pvDestroy.
  destruct (Z.eqb_spec r 0) as [Er|Er]; destruct (Z.eqb_spec p 0) as [Ep|Ep]; cbn [negb]; try reflexivity.
  destruct H; contradiction.
Qed.

(* Clear(true) / TreeSet::Clear: whatever was there, afterwards every owning field is null (and, if there was anything, count and
   capacity are 0): a following pvDestroy - the destructor - releases nothing *)
Theorem gen_hashset_clear_shrink_then_destroy (nextb cnt cap b : Z) :
  match Gen_HashSetC03.Clear false nextb cnt cap b true with
  | Ok (_, cnt', cap', b') => b' = 0 /\ (b <> 0 -> cnt' = 0 /\ cap' = 0) /\ Gen_HashSetC03.pvDestroy true cnt' cap' b' = Ok tt
  | _ => False
  end.
Proof.
  unfold Gen_HashSetC03.Clear. destruct (Z.eqb_spec b 0) as [E|E].
  - subst b. split; [reflexivity|]. split; [intros H; contradiction|reflexivity].
  - unfold Gen_HashSetC03.pvDestroy, Gen_HashSetC03.pvDestroyB. rewrite (proj2 (Z.eqb_neq b 0) E).
    split; [reflexivity|]. split; [intros _; split; reflexivity|reflexivity].
Qed.

Theorem gen_treeset_clear_then_destroy (cnt r p : Z) :
  match Gen_TreeSetC03.Clear false cnt r p with
  | Ok (_, cnt', r', p') => r' = 0 /\ p' = 0 /\ Gen_TreeSetC03.pvDestroy true cnt' r' p' = Ok tt
  | _ => False
  end.
Proof.
  unfold Gen_TreeSetC03.Clear, Gen_TreeSetC03.pvDestroy.
  destruct (Z.eqb_spec r 0) as [Er|Er]; destruct (Z.eqb_spec p 0) as [Ep|Ep]; subst; cbn [andb negb];
    repeat split; try reflexivity.
Qed.

(* Clear(false) keeps the bucket array: the pointer stays, the count goes to 0 *)
Theorem gen_hashset_clear_noshrink_keeps_buckets (nextb cnt cap b : Z) :
  match Gen_HashSetC03.Clear false nextb cnt cap b false with
  | Ok (_, cnt', cap', b') => b' = b /\ cap' = cap /\ (b <> 0 -> cnt' = 0)
  | _ => False
  end.
Proof.
  unfold Gen_HashSetC03.Clear. destruct (Z.eqb_spec b 0) as [E|E].
  - subst b. repeat split; try reflexivity. intros H; contradiction.
  - unfold Gen_HashSetC03.pvDestroyB. destruct (Z.eqb nextb 0); repeat split; reflexivity.
Qed.

(* link to the pointer states of GenTie.v: a field is PNull iff the translated pvDestroy releases nothing for it, PValid iff it does;
   "SCall pvDestroy; SNull field" is therefore what makes the second pvDestroy of a delegating constructor a no-op *)
Definition pst_of (b : Z) : pst := if Z.eqb b 0 then PNull else PValid.
Theorem pointer_state_refines_generated_pvdestroy (cnt cap b : Z) :
  match pst_of b with
  | PNull => Gen_HashSetC03.pvDestroy true cnt cap b = Ok tt
  | _ => Gen_HashSetC03.pvDestroy true cnt cap b = Stuck
  end /\
  (destroy_all [("mBuckets"%string, pst_of b)] = Some [("mBuckets"%string, match pst_of b with PValid => PDangling | x => x end)]).
Proof.
  unfold pst_of. destruct (Z.eqb_spec b 0) as [E|E].
  - subst b. split; reflexivity.
  - split; [apply gen_hashset_pvdestroy_releases_iff_set; exact E|reflexivity].
Qed.
