(* C06 - the logic momo::stdish::set/multiset/map/multimap ADD on top of the nested TreeSet/TreeMap:
   hint validation.  The nested container is taken as what C02 proves it to be: a sorted sequence with
   Insert = stable insertion at upper_bound (find-or-insert for unique keys), Add(iter, x) = insertion exactly
   at iter, GetLowerBound/GetUpperBound = lower_bound/upper_bound; this reading is re-validated against the real
   code by the correspondence stage on every run. *)
From Coq Require Import List ZArith Bool Lia Arith.
From C06 Require Import Spec SpecProofs.
Import ListNotations.

Definition keyat (l : list elem) (i : nat) : Z := key (nth i l dflt).
Definition nested_insert := ord_insert.                                   (* TreeSet::Insert *)
Definition nested_add_at (i : nat) (x : elem) (l : list elem) : nat * bool * list elem :=
  (i, true, insert_at i x l).                                             (* TreeSet::Add(iter, item) *)

(* set.h:609-627.  pvIsOrdered(k1,k2) = multiKey ? !less(k2,k1) : less(k1,k2)  ==  Spec.ordered *)
Definition set_check_hint (multi : bool) (l : list elem) (h : nat) (k : Z) : bool * nat :=
  if negb (h =? 0) && negb (ordered multi (keyat l (h - 1)) k) then (false, h)
  else if negb (h =? length l) && negb (ordered multi k (keyat l h)) then
    (if multi then (true, lower_bound k l) else (false, h))
  else (true, h).

(* set.h: insert(hint, value) / emplace_hint / insert(hint, node) *)
Definition set_insert_hint (multi : bool) (l : list elem) (h : nat) (x : elem) : nat * bool * list elem :=
  let (ok, h') := set_check_hint multi l h (key x) in
  if ok then nested_add_at h' x l else nested_insert multi x l.

(* map.h:681-718: pvFind(nullptr, key) and pvFind(hint, key) return (position, may-insert) *)
Definition map_find_null (multi : bool) (l : list elem) (k : Z) : nat * bool :=
  let i := upper_bound k l in
  if negb multi && negb (i =? 0) && negb (keyat l (i - 1) <? k)%Z then (i - 1, false) else (i, true).
Definition map_find_hint (multi : bool) (l : list elem) (h : nat) (k : Z) : nat * bool :=
  if negb (h =? 0) && negb (ordered multi (keyat l (h - 1)) k) then map_find_null multi l k
  else if negb (h =? length l) && negb (ordered multi k (keyat l h)) then
    (if multi then (lower_bound k l, true) else map_find_null multi l k)
  else (h, true).
(* map.h:720-786 pvInsert: AddCrt at the found position, or return the found element *)
Definition map_insert_with (f : nat * bool) (x : elem) (l : list elem) : nat * bool * list elem :=
  let (i, b) := f in if b then (i, true, insert_at i x l) else (i, false, l).
Definition map_insert (multi : bool) (x : elem) (l : list elem) := map_insert_with (map_find_null multi l (key x)) x l.
Definition map_insert_hint (multi : bool) (l : list elem) (h : nat) (x : elem) :=
  map_insert_with (map_find_hint multi l h (key x)) x l.

(* ---------------- proofs ---------------- *)
Ltac facts_at l K i :=
  pose proof (lb_before K l i); pose proof (ub_before K l i);
  pose proof (fun Hs => lb_after K l i Hs); pose proof (fun Hs => ub_after K l i Hs).

Lemma ordered_true_false a b : ordered true a b = false <-> (b < a)%Z.
Proof. unfold ordered. destruct (Z.ltb_spec b a); simpl; split; intros; try lia; try discriminate. Qed.
Lemma ordered_false_false a b : ordered false a b = false <-> (b <= a)%Z.
Proof. unfold ordered. destruct (Z.ltb_spec a b); simpl; split; intros; try lia; try discriminate. Qed.

Ltac ord_props := repeat match goal with
  | H : ordered true _ _ = true |- _ => apply ordered_multi in H
  | H : ordered false _ _ = true |- _ => apply ordered_uniq in H
  | H : ordered true _ _ = false |- _ => apply ordered_true_false in H
  | H : ordered false _ _ = false |- _ => apply ordered_false_false in H
  end.

Lemma map_insert_refines multi x l : sorted multi l -> map_insert multi x l = ord_insert multi x l.
Proof.
  intros Hs. unfold map_insert, map_find_null, map_insert_with, ord_insert.
  pose proof (lb_le_ub (key x) l). pose proof (ub_le_len (key x) l).
  destruct multi; simpl; auto.
  pose proof (uniq_ub_le (key x) l Hs). pose proof (sorted_weaken _ Hs) as Hw.
  facts_at l (key x) (upper_bound (key x) l - 1). fold (keyat l (upper_bound (key x) l - 1)) in *.
  destruct (Nat.eqb_spec (upper_bound (key x) l) 0); simpl.
  - destruct (Nat.ltb_spec (lower_bound (key x) l) (upper_bound (key x) l)); try lia.
    replace (lower_bound (key x) l) with (upper_bound (key x) l) by lia. reflexivity.
  - destruct (Z.ltb_spec (keyat l (upper_bound (key x) l - 1)) (key x)); simpl.
    + destruct (Nat.ltb_spec (lower_bound (key x) l) (upper_bound (key x) l)).
      * specialize (H4 Hw ltac:(lia) ltac:(lia)). lia.
      * replace (lower_bound (key x) l) with (upper_bound (key x) l) by lia. reflexivity.
    + destruct (Nat.ltb_spec (lower_bound (key x) l) (upper_bound (key x) l)).
      * replace (upper_bound (key x) l - 1) with (lower_bound (key x) l) by lia. reflexivity.
      * specialize (H2 ltac:(lia)). lia.
Qed.

Lemma set_hint_refines multi l h x : sorted multi l -> h <= length l ->
  set_insert_hint multi l h x = ord_insert_hint multi h x l.
Proof.
  intros Hs Hh. unfold set_insert_hint, set_check_hint, nested_add_at, nested_insert, ord_insert_hint.
  pose proof (lb_le_ub (key x) l). pose proof (ub_le_len (key x) l).
  assert (Hw : sorted true l) by (destruct multi; auto using sorted_weaken).
  facts_at l (key x) (h - 1). facts_at l (key x) h. fold (keyat l (h - 1)) in *. fold (keyat l h) in *.
  destruct (Nat.eqb_spec h 0) as [E0|E0]; simpl;
  [|destruct (ordered multi (keyat l (h - 1)) (key x)) eqn:O1; simpl];
  (destruct (Nat.eqb_spec h (length l)) as [E1|E1]; simpl;
   [|destruct (ordered multi (key x) (keyat l h)) eqn:O2; simpl]);
  destruct multi; simpl; ord_props; auto;
  unfold ord_insert, clamp;
  repeat match goal with |- context [?a <? ?b] => destruct (Nat.ltb_spec a b) end;
  repeat match goal with
  | H : sorted true l -> _ |- _ => specialize (H Hw)
  end;
  try reflexivity; try (exfalso; lia);
  try (replace (lower_bound (key x) l) with h by lia; reflexivity);
  try (replace (upper_bound (key x) l) with h by lia; reflexivity).
Qed.

Lemma map_hint_refines multi l h x : sorted multi l -> h <= length l ->
  map_insert_hint multi l h x = ord_insert_hint multi h x l.
Proof.
  intros Hs Hh. rewrite <- set_hint_refines by auto.
  unfold map_insert_hint, map_find_hint, set_insert_hint, set_check_hint, nested_add_at, nested_insert.
  pose proof (map_insert_refines multi x l Hs) as MI. unfold map_insert in MI.
  destruct (negb (h =? 0) && negb (ordered multi (keyat l (h - 1)) (key x))); auto.
  destruct (negb (h =? length l) && negb (ordered multi (key x) (keyat l h))); auto.
  destruct multi; auto.
Qed.

(* the result is always a sorted sequence again *)
Lemma ord_insert_hint_sorted multi h x l : sorted multi l -> h <= length l ->
  sorted multi (snd (ord_insert_hint multi h x l)).
Proof.
  intros Hs Hh. destruct multi.
  - pose proof (multi_insert_hint_spec h x l Hs Hh) as M. destruct (ord_insert_hint true h x l) as [[i b] l']. simpl. tauto.
  - unfold ord_insert_hint. pose proof (ord_insert_spec false x l Hs) as M.
    destruct (ord_insert false x l) as [[i b] l']. simpl. tauto.
Qed.
