(* C09 (b): hand L1 model of the buffer doubly-linked-list surgery of momo::MemPool on an abstract
   prev/next heap.  Buffers are non-zero Z identifiers, 0 is nullptr.  Every function mirrors the source
   statement by statement (MemPool.h line numbers in the comments); pvGetPrevBuffer/pvGetNextBuffer are
   hprev/hnext, pvSetPrevBuffer/pvSetNextBuffer are set_prev/set_next.  Executable; extracted and run
   against the real code (ocaml/driver.ml: fabmg/fabmv/fabdel/mg cases). *)
From Coq Require Import ZArith List Bool Lia.
From MomoCommon Require Import GenPrelude.
Import ListNotations.
Local Open Scope Z_scope.

Record heap := mkHeap { hprev : Z -> Z; hnext : Z -> Z }.
Definition set_prev (h : heap) (b v : Z) : heap := mkHeap (upd (hprev h) b v) (hnext h).
Definition set_next (h : heap) (b v : Z) : heap := mkHeap (hprev h) (upd (hnext h) b v).

(* ---- MergeFrom, the loop of lines 406-423 (current source, after fix 7f37c9f) ---- *)
Definition merge_step (h : heap) (head1 head2 buffer : Z) : heap :=
  let prevBuffer := hprev h buffer in                                   (* 411 *)
  let nextBuffer := head2 in                                            (* 412 *)
  let h := if negb (prevBuffer =? 0) then set_next h prevBuffer nextBuffer else h in   (* 413-414 *)
  let h := set_prev h nextBuffer prevBuffer in                          (* 415 *)
  let prevBuffer := hprev h head1 in                                    (* 416 *)
  let nextBuffer := head1 in                                            (* 417 *)
  let h := set_prev h buffer prevBuffer in                              (* 418 *)
  let h := set_next h buffer nextBuffer in                              (* 419 *)
  let h := if negb (prevBuffer =? 0) then set_next h prevBuffer buffer else h in       (* 420-421 *)
  set_prev h nextBuffer buffer.                                         (* 422 *)

Fixpoint merge_loop (fuel : nat) (h : heap) (head1 head2 : Z) : option heap :=
  match fuel with
  | O => None
  | S f => let buffer := hprev h head2 in                               (* 408 *)
           if buffer =? 0 then Some h                                   (* 409-410 *)
           else merge_loop f (merge_step h head1 head2 buffer) head1 head2
  end.

(* ---- the same loop as it was BEFORE the fix (lines 420-422 linked the neighbours to each other) ---- *)
Definition merge_step_prefix (h : heap) (head1 head2 buffer : Z) : heap :=
  let prevBuffer := hprev h buffer in
  let nextBuffer := head2 in
  let h := if negb (prevBuffer =? 0) then set_next h prevBuffer nextBuffer else h in
  let h := set_prev h nextBuffer prevBuffer in
  let prevBuffer := hprev h head1 in
  let nextBuffer := head1 in
  let h := set_prev h buffer prevBuffer in
  let h := set_next h buffer nextBuffer in
  let h := if negb (prevBuffer =? 0) then set_next h prevBuffer nextBuffer else h in   (* pre-fix *)
  set_prev h nextBuffer prevBuffer.                                                    (* pre-fix *)

Fixpoint merge_loop_prefix (fuel : nat) (h : heap) (head1 head2 : Z) : option heap :=
  match fuel with
  | O => None
  | S f => let buffer := hprev h head2 in
           if buffer =? 0 then Some h
           else merge_loop_prefix f (merge_step_prefix h head1 head2 buffer) head1 head2
  end.

(* lines 424-431: walk to the last buffer of the destination list *)
Fixpoint last_loop (fuel : nat) (h : heap) (buffer : Z) : option Z :=
  match fuel with
  | O => None
  | S f => let nextBuffer := hnext h buffer in                          (* 427 *)
           if nextBuffer =? 0 then Some buffer else last_loop f h nextBuffer
  end.

(* MergeFrom lines 398-434 on (heap, this->mFreeBufferHead, memPool.mFreeBufferHead) *)
Definition merge_gen (loop : nat -> heap -> Z -> Z -> option heap) (fuel : nat) (h : heap) (head1 head2 : Z)
  : option (heap * Z * Z) :=
  if head2 =? 0 then Some (h, head1, head2)                             (* 398-399 *)
  else if head1 =? 0 then Some (h, head2, 0)                            (* 400-405 *)
  else match loop fuel h head1 head2 with
       | None => None
       | Some h =>
         match last_loop fuel h head1 with
         | None => None
         | Some buffer =>
           let h := set_next h buffer head2 in                          (* 432 *)
           let h := set_prev h head2 buffer in                          (* 433 *)
           Some (h, head1, 0)                                           (* 434 *)
         end
       end.
Definition merge_from := merge_gen merge_loop.
Definition merge_from_prefix := merge_gen merge_loop_prefix.

(* ---- pvMoveBufferToHead (654-672); None = a MOMO_ASSERT fails ---- *)
Definition move_to_head (h : heap) (head buffer : Z) : option (heap * Z) :=
  let headPrevBuffer := hprev h head in                                 (* 656 *)
  if headPrevBuffer =? 0 then None                                      (* 657 *)
  else if negb (buffer =? headPrevBuffer) then                          (* 658 *)
    let prevBuffer := hprev h buffer in                                 (* 660 *)
    let nextBuffer := hnext h buffer in                                 (* 661 *)
    if nextBuffer =? 0 then None                                        (* 662 *)
    else
      let h := set_prev h nextBuffer prevBuffer in                      (* 663 *)
      let h := if negb (prevBuffer =? 0) then set_next h prevBuffer nextBuffer else h in  (* 664-665 *)
      let h := set_prev h buffer headPrevBuffer in                      (* 666 *)
      let h := set_next h buffer head in                                (* 667 *)
      let h := set_prev h head buffer in                                (* 668 *)
      let h := set_next h headPrevBuffer buffer in                      (* 669 *)
      Some (h, buffer)                                                  (* 671 *)
  else Some (h, buffer).

(* ---- pvDeleteBuffer (640-648), the list part; None = MOMO_ASSERT(buffer != mFreeBufferHead) fails ---- *)
Definition delete_buffer (h : heap) (head buffer : Z) : option heap :=
  if buffer =? head then None                                           (* 642 *)
  else
    let prevBuffer := hprev h buffer in                                 (* 643 *)
    let nextBuffer := hnext h buffer in                                 (* 644 *)
    let h := if negb (prevBuffer =? 0) then set_next h prevBuffer nextBuffer else h in   (* 645-646 *)
    let h := if negb (nextBuffer =? 0) then set_prev h nextBuffer prevBuffer else h in   (* 647-648 *)
    Some h.

(* ---- pvNewBuffer's list part (627-628) and the insertion in pvNewBlock (527-529) ---- *)
Definition new_buffer (h : heap) (nb : Z) : heap := set_next (set_prev h nb 0) nb 0.
Definition append_new_buffer (h : heap) (head nb : Z) : heap :=
  let h := new_buffer h nb in                                           (* 527 *)
  let h := set_next h head nb in                                        (* 528 *)
  set_prev h nb head.                                                   (* 529 *)

(* ---- executable helpers for the tie: heap of a list, list of a heap ---- *)
Definition hd0 (l : list Z) : Z := match l with [] => 0 | a :: _ => a end.
Fixpoint memb (x : Z) (l : list Z) : bool := match l with [] => false | a :: t => (x =? a) || memb x t end.
Fixpoint succ_of (l : list Z) (x : Z) : Z :=
  match l with [] => 0 | a :: t => if a =? x then hd0 t else succ_of t x end.
Fixpoint pred_aux (p : Z) (l : list Z) (x : Z) : Z :=
  match l with [] => 0 | a :: t => if a =? x then p else pred_aux a t x end.
Definition heap_of_lists (l1 l2 : list Z) : heap :=
  mkHeap (fun x => if memb x l1 then pred_aux 0 l1 x else pred_aux 0 l2 x)
         (fun x => if memb x l1 then succ_of l1 x else succ_of l2 x).

Fixpoint leftmost (fuel : nat) (h : heap) (x : Z) : option Z :=
  match fuel with O => None | S f => let p := hprev h x in if p =? 0 then Some x else
    if hnext h p =? x then leftmost f h p else None end.
Fixpoint walk (fuel : nat) (h : heap) (p x : Z) : option (list Z) :=
  match fuel with O => None | S f =>
    if x =? 0 then Some [] else if hprev h x =? p then
      match walk f h x (hnext h x) with Some l => Some (x :: l) | None => None end else None end.
(* the list a pool's head denotes: None = not a well-formed doubly linked list (within fuel) *)
Definition list_of (fuel : nat) (h : heap) (head : Z) : option (list Z) :=
  if head =? 0 then Some [] else
  match leftmost fuel h head with Some x => walk fuel h 0 x | None => None end.
