#include "momo/HashMultiMap.h"
namespace momo {
template class HashMultiMap<int, int64_t>;
}
