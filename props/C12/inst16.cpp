// instantiation TU for cxx2coq (C12): BucketLimP4 for a 16-byte item (sizeof(Item) > alignment => minMemPoolIndex = 1),
// the configuration of the audit round's K16 / std::string keys
#include "momo/HashSet.h"
#include "momo/details/HashBucketLimP4.h"
namespace momo { namespace internal {
struct C12K16 { uint64_t a; uint64_t b; };
typedef HashSetItemTraits<C12K16, MemManagerDefault> C12IT16;
typedef BucketLimP4<C12IT16, 4, MemPoolParams<>, true> C12P416;
template class BucketLimP4<C12IT16, 4, MemPoolParams<>, true>;
struct C12Creator16 { void operator()(C12K16*) const {} };
struct C12Replacer16 { void operator()(C12K16&, C12K16&) const {} };
inline void c12_use16(C12P416& b, C12P416::Params& pb)
{
	C12Creator16 cr; C12Replacer16 rp;
	auto ib = b.AddCrt(pb, cr, 0, 0, 0); b.Remove(pb, ib, rp);
}
}}
