(* C04 -- HashSet / TreeSet ::pvExtraCheck as GENERATED from the current headers (Gen_XCheckH.v, Gen_XCheckT.v; configuration after props/C10's
   gen_extracheck_*.json: `try { .. } catch (...) { .. }` that does not rethrow = "try_catch_swallow", the section variable functor_throws_ says
   whether a user functor throws inside the block).  b307610: with momo's default extraCheckMode = assertion the insertion is already COMMITTED
   when MOMO_EXTRA_CHECK(pvExtraCheck(pos)) runs; the pre-fix handler answered `false`, the assertion aborted the process.  In the resource
   machine an abort is Stuck: an operation followed by the extra check behaves exactly like the operation alone iff the check answers true. *)
From Coq Require Import ZArith Bool List.
From MomoCommon Require Import GenPrelude.
From C04 Require Import Effects.
From C04 Require Gen_XCheckH Gen_XCheckT.

(* MOMO_EXTRA_CHECK(b) *)
Definition momo_extra_check (b : bool) : M unit := if b then ret tt else stuck.
Definition with_extra_check {A} (m : M A) (check : bool) : M A := r <- m ;; momo_extra_check check ;; ret r.

Lemma with_extra_check_true : forall A (m : M A) s, with_extra_check m true s = m s.
Proof. intros A m s. unfold with_extra_check, momo_extra_check, bind, ret. destruct (m s) as [[a| |] s']; reflexivity. Qed.
Lemma with_extra_check_false_aborts : forall A (m : M A) s a s', m s = (Effects.Ok a, s') -> with_extra_check m false s = (Effects.Stuck, s').
Proof. intros A m s a s' H. unfold with_extra_check, momo_extra_check, bind, stuck. rewrite H. reflexivity. Qed.

Lemma hash_xcheck_throwing_functor : forall pos_eqb deref find_ key_ pos,
  Gen_XCheckH.pvExtraCheck true pos_eqb deref find_ key_ pos = true.
Proof. reflexivity. Qed.
Lemma tree_xcheck_throwing_functor : forall it_neqb it_begin it_end it_prev it_next is_ordered_ iter,
  Gen_XCheckT.pvExtraCheck true it_neqb it_begin it_end it_prev it_next is_ordered_ iter = true.
Proof. reflexivity. Qed.

(* a committed operation followed by the extra check in which a functor throws IS the operation: same result, same final state, for every
   operation m of the model -- so every strong-guarantee / result theorem about m carries over to the checked operation *)
Lemma hash_checked_op_is_op : forall A (m : M A) pos_eqb deref find_ key_ pos s,
  with_extra_check m (Gen_XCheckH.pvExtraCheck true pos_eqb deref find_ key_ pos) s = m s.
Proof. intros. rewrite hash_xcheck_throwing_functor. apply with_extra_check_true. Qed.
Lemma tree_checked_op_is_op : forall A (m : M A) it_neqb it_begin it_end it_prev it_next is_ordered_ iter s,
  with_extra_check m (Gen_XCheckT.pvExtraCheck true it_neqb it_begin it_end it_prev it_next is_ordered_ iter) s = m s.
Proof. intros. rewrite tree_xcheck_throwing_functor. apply with_extra_check_true. Qed.
(* without a throwing functor the check is the real comparison (it is not constantly true) *)
Lemma hash_xcheck_not_vacuous : forall pos_eqb deref find_ key_ pos,
  Gen_XCheckH.pvExtraCheck false pos_eqb deref find_ key_ pos = pos_eqb pos (find_ (key_ (deref pos))).
Proof. reflexivity. Qed.
