(* Property C01 -- theorems only (each closed by `exact <lemma>` and followed by Print Assumptions). *)
From Coq Require Import ZArith List Permutation.
From C01 Require Import HashModel HashProofs.
Import ListNotations.
Local Open Scope Z_scope.

Theorem C01_bucket_find_sound : forall k l i pos v, bfind k l i = Some (pos, v) -> In (k, v) l.
Proof. exact bfind_some_in. Qed.
Print Assumptions C01_bucket_find_sound.
