// C10 oracle, part 2: positional Insert / Remove of Array and SegmentedArray, and the stdish wrappers (set, multiset,
// map, unordered_set, unordered_map): merge, node-handle extract / insert between containers with EQUAL and UNEQUAL
// stateful allocators (kit::StdAlloc ids -> element-wise migration), multi-element insert.
#include "oracle_common.h"
#include <momo/stdish/set.h>
#include <momo/stdish/map.h>
#include <momo/stdish/unordered_set.h>
#include <momo/stdish/unordered_map.h>
using namespace c10;

// ---- arrays ------------------------------------------------------------------------------------------
template<typename E, typename Arr>
static void array_scenario(Report& rep, const char* name, uint64_t seed, int op)
{
	enumerate_all(rep, name, [&] (int kind, long k) -> bool
	{
		Rnd r(seed);
		size_t n = size_t(r.chance(1, 6) ? 0 : r.range(1, r.chance(1, 3) ? (r.chance(1, 3) ? 400 : 80) : 9));    // up to 400: segment boundaries 32/64/192/320
		size_t cnt = size_t(r.range(op == 0 ? 1 : 0, 5));
		Arr arr{ typename Arr::MemManager(1) };
		if (r.chance(1, 2)) arr.Reserve(n + size_t(r.range(0, 8)));
		for (size_t i = 0; i < n; ++i) arr.AddBack(E(int64_t(1000 + i)));
		size_t idx = size_t(r.range(0, int(n)));
		if (op >= 4 && n > 0) { idx = size_t(r.range(0, int(n) - 1)); cnt = std::min(cnt, n - idx); }
		if (op == 4 && r.chance(1, 6)) { idx = n; cnt = 0; }               // boundary: index == count, nothing to remove
		if (op <= 2 && r.chance(1, 5)) idx = r.chance(1, 2) ? 0 : n;        // boundaries: front / back
		if (op >= 4 && n == 0) { idx = 0; cnt = 0; }
		std::vector<E> items; items.reserve(cnt + 1);
		for (size_t i = 0; i <= cnt; ++i) items.emplace_back(int64_t(5000 + i));
		int mod = r.range(2, 4);
		std::string tag = std::string(name) + " n=" + std::to_string(n) + " idx=" + std::to_string(idx) + " cnt=" + std::to_string(cnt) + " kind=" + std::to_string(kind) + " k=" + std::to_string(k);
		Counters c0 = snap();
		size_t cap0 = arr.GetCapacity();
		if (k == 0 && kind == 0)
		{
			rep.ev(std::string("n_") + (n == 0 ? "0" : n <= 9 ? "1-9" : n <= 80 ? "10-80" : ">80"));
			rep.ev(idx == 0 ? "idx_0" : idx == n ? "idx_eq_count" : idx + cnt == n ? "idx+cnt_eq_count" : "idx_inner");
			if (cnt == 0) rep.ev("cnt_0");
		}
		arm_kind(kind, k);
		bool ok = true; size_t removed = 0;
		try
		{
			switch (op)
			{
			case 0: arr.Insert(idx, E(5000)); cnt = 1; break;                             // Item&&
			case 1: arr.Insert(idx, cnt, items[0]); break;                                 // count copies
			case 2: arr.Insert(idx, items.begin(), items.begin() + cnt); break;            // range
			case 3: cnt = 3; arr.Insert(idx, { items[0], items[0], items[0] }); break;     // initializer list
			case 4: arr.Remove(idx, cnt); break;
			default: removed = arr.Remove([mod] (const E& e) { kit::W().step_func(); return e.Value() % mod == 0; }); break;
			}
		}
		C10_CATCH_INJECTED(ok)
		bool f = done(kind);
		Counters c1 = snap();
		size_t count = arr.GetCount();
		if (ok && arr.GetCapacity() != cap0) rep.ev("capacity_changed(grow)");
		size_t nerr = kit::W().errors.size();
		std::vector<int64_t> vals;
		for (size_t i = 0; i < count; ++i) vals.push_back(arr[i].Value());       // every slot below count must be readable
		if (kit::W().errors.size() != nerr) rep.fail(tag + ": a slot below GetCount() is not a live element: " + kit::W().errors.back());
		for (int64_t v : vals) if (!(v == -1 || (v >= 1000 && v < int64_t(1000 + n)) || (v >= 5000 && v <= int64_t(5000 + cnt)))) rep.fail(tag + ": foreign value " + std::to_string(v));
		if (op <= 3)
		{
			if (count < n || count > n + cnt) rep.fail(tag + ": count " + std::to_string(count) + " outside [n, n+cnt]");
			if (ok)
			{
				if (count != n + cnt) rep.fail(tag + ": count after completed insert");
				for (size_t i = 0; i < count && count == n + cnt; ++i)
				{
					int64_t exp = i < idx ? int64_t(1000 + i) : i < idx + cnt ? (op == 2 ? int64_t(5000 + (i - idx)) : 5000) : int64_t(1000 + i - cnt);
					if (vals[i] != exp) { rep.fail(tag + ": contents after completed insert, slot " + std::to_string(i) + " = " + std::to_string(vals[i])); break; }
				}
			}
		}
		else if (op == 4)
		{
			if (ok ? count != n - cnt : count != n) rep.fail(tag + ": count " + std::to_string(count) + " after Remove");
			if (ok) for (size_t i = 0; i < count; ++i) if (vals[i] != int64_t(1000 + (i < idx ? i : i + cnt))) { rep.fail(tag + ": contents after completed Remove"); break; }
			if (E::movable && c1.copy != c0.copy) rep.fail(tag + ": Remove copy-constructed movable elements");
		}
		else
		{
			if (count > n) rep.fail(tag + ": count grew in Remove(pred)");
			if (ok) { if (removed != n - count) rep.fail(tag + ": returned count"); for (int64_t v : vals) if (v % mod == 0) rep.fail(tag + ": completed Remove(pred) left a matching item"); }
			if (E::movable && c1.copy != c0.copy) rep.fail(tag + ": Remove(pred) copy-constructed movable elements");
		}
		for (size_t i = 0; i < items.size(); ++i) if (items[i].Value() != int64_t(5000 + i)) rep.fail(tag + ": argument items modified");
		arr.AddBack(E(77)); if (arr.GetCount() != count + 1 || arr[count].Value() != 77) rep.fail(tag + ": array unusable afterwards");
		return f;
	});
}

// ---- stdish ------------------------------------------------------------------------------------------
// insert(node_type&&) of unique containers returns insert_return_type whose .node holds a refused element
template<typename R, typename Rec> static auto rec_node(R& res, Rec& rec, int) -> decltype((void)res.node, bool()) { rec(res.node); return res.inserted || !res.node.empty(); }
template<typename R, typename Rec> static bool rec_node(R&, Rec&, long) { return true; }
template<typename E> using SA = kit::StdAlloc<E>;
template<typename E, bool M> using StdSetNested = momo::TreeSet<E, momo::TreeTraitsStd<E, KLess, M>, momo::MemManagerStd<SA<E>>,
	momo::TreeSetItemTraits<E, momo::MemManagerStd<SA<E>>>, TSettings>;
template<typename E> using StdSet = momo::stdish::set<E, KLess, SA<E>, StdSetNested<E, false>>;
template<typename E> using StdMSet = momo::stdish::multiset<E, KLess, SA<E>, StdSetNested<E, true>>;
template<typename E> using StdUSetNested = momo::HashSet<E, momo::HashTraitsStd<E, KHash, KEq>, momo::MemManagerStd<SA<E>>,
	momo::HashSetItemTraits<E, momo::MemManagerStd<SA<E>>>, HSettings>;
template<typename E> using StdUSet = momo::stdish::unordered_set<E, KHash, KEq, SA<E>, StdUSetNested<E>>;

template<typename E> struct MkSS { typedef StdSet<E> T; static const bool multi = false; static T make(int id) { return T(KLess(), SA<E>(id)); } };
template<typename E> struct MkSM { typedef StdMSet<E> T; static const bool multi = true; static T make(int id) { return T(KLess(), SA<E>(id)); } };
template<typename E> struct MkSU { typedef StdUSet<E> T; static const bool multi = false; static T make(int id) { return T(8, KHash(kit::MULT), KEq(), SA<E>(id)); } };

static void gen_values(Rnd& r, bool srcMulti, bool dstMulti, std::vector<int64_t>& src, std::vector<int64_t>& dst)
{
	int ns = r.chance(1, 8) ? 0 : r.range(1, r.chance(1, 3) ? 60 : 10);
	int nd = r.chance(1, 8) ? 0 : r.range(1, r.chance(1, 3) ? 60 : 10);
	int span = r.range(8, 80);
	std::set<int64_t> ks, kd;
	for (int i = 0; i < ns; ++i) { int64_t k = r.range(0, span); if (!srcMulti && !ks.insert(k).second) continue; src.push_back(k * 100 + r.range(1, 49)); }
	for (int i = 0; i < nd; ++i) { int64_t k = r.range(0, span); if (!dstMulti && !kd.insert(k).second) continue; dst.push_back(k * 100 + r.range(50, 99)); }
}

// op: 0 = dst.merge(src), 1 = node handle: extract(it) then dst.insert(std::move(node)), 2 = insert(range), 3 = insert(il)
template<typename E, typename MS, typename MD, int op>
static void std_scenario(Report& rep, const char* name, uint64_t seed, int srcId, int dstId)
{
	enumerate_all(rep, name, [&] (int kind, long k) -> bool
	{
		Rnd r(seed);
		std::vector<int64_t> sv, dv;
		gen_values(r, MS::multi, MD::multi, sv, dv);
		if ((op == 1 || op == 4) && sv.empty()) sv.push_back(4242);
		typename MS::T src = MS::make(srcId);
		typename MD::T dst = MD::make(dstId);
		for (int64_t v : sv) src.insert(E(v));
		for (int64_t v : dv) dst.insert(E(v));
		MSet src0 = values(src), dst0 = values(dst), init = plus(src0, dst0);
		std::set<int64_t> dkeys0; for (auto& p : dst0) dkeys0.insert(keyof(p.first));
		std::vector<E> items; if (op >= 2) { items.reserve(sv.size() + 4); for (int64_t v : sv) items.emplace_back(v + 50000 * 100); while (items.size() < 4) items.emplace_back(int64_t(7000000 + items.size())); }
		MSet ins; for (auto& e : items) add(ins, e.Value());
		std::string tag = std::string(name) + " kind=" + std::to_string(kind) + " k=" + std::to_string(k);
		Counters c0 = snap();
		MSet held;
		arm_kind(kind, k);
		bool ok = true;
		try
		{
			if constexpr (op == 0) dst.merge(src);
			else if constexpr (op == 1)
			{
				auto it = src.begin(); size_t pos = size_t(r.range(0, int(src.size()) - 1)); for (size_t i = 0; i < pos; ++i) ++it;
				auto node = src.extract(it);
				if (node.empty()) rep.fail(tag + ": extract returned an empty node");
				auto rec = [&held] (typename MS::T::node_type& nd) { if (!nd.empty()) add(held, nd.value().Value()); };
				try
				{
					typename MS::T::node_type node2(std::move(node));
					try { auto res = dst.insert(std::move(node2)); if (!rec_node(res, rec, 0)) rep.fail(tag + ": a refused node was not returned in insert_return_type::node"); } catch (...) { rec(node2); throw; }   // a refused node comes back in res.node
					rec(node2);
				}
				catch (...) { rec(node); throw; }
			}
			else if constexpr (op == 4)
			{
				// node handle inserted WITH A HINT: a refused node must stay in the caller's handle (std: "nh remains unchanged")
				auto it = src.begin(); size_t pos = size_t(r.range(0, int(src.size()) - 1)); for (size_t i = 0; i < pos; ++i) ++it;
				auto node = src.extract(it);
				auto rec = [&held] (typename MS::T::node_type& nd) { if (!nd.empty()) add(held, nd.value().Value()); };
				try { dst.insert(r.chance(1, 2) ? dst.begin() : dst.end(), std::move(node)); } catch (...) { rec(node); throw; }
				rec(node);
			}
			else if constexpr (op == 2) dst.insert(items.begin(), items.end());
			else dst.insert({ items[0], items[1], items[2], items[3] });
		}
		C10_CATCH_INJECTED(ok)
		bool f = done(kind);
		Counters c1 = snap();
		MSet s1 = values(src), d1 = values(dst);
		if (op <= 1 || op == 4)
		{
			MSet all = plus(plus(s1, d1), held);
			if (op == 0 || ok) { if (all != init) rep.fail(tag + ": src+dst+node not conserved: src=" + show(s1) + " dst=" + show(d1) + " node=" + show(held)); }
			else if (!subset(all, init)) rep.fail(tag + ": elements from nowhere");
			if (op == 0 && !MD::multi) for (auto& p : src0) if (dkeys0.count(keyof(p.first)) && !s1.count(p.first)) rep.fail(tag + ": refused item left the source");
			if (op == 0 && ok) { std::set<int64_t> dk; for (auto& p : d1) dk.insert(keyof(p.first)); for (auto& p : s1) if (MD::multi || !dk.count(keyof(p.first))) rep.fail(tag + ": item stayed in the source although accepted"); }
			if (E::movable && (c1.copy != c0.copy || c1.copy_assign != c0.copy_assign)) rep.fail(tag + ": movable elements were copied by merge / node transfer");
		}
		else
		{
			if (!subset(d1, plus(dst0, ins))) rep.fail(tag + ": elements not a subset of original + inserted");
			if (!subset(dst0, d1)) rep.fail(tag + ": an original element disappeared");
		}
		if (!MD::multi && dup_keys(d1)) rep.fail(tag + ": duplicate key in unique destination");
		size_t nd = 0; for (const auto& e : dst) { (void)e; ++nd; } if (nd != dst.size()) rep.fail(tag + ": size() inconsistent");
		for (auto& p : d1) if (dst.find(E(p.first)) == dst.end()) { rep.fail(tag + ": destination item not findable"); break; }
		for (auto& p : s1) if (src.find(E(p.first)) == src.end()) { rep.fail(tag + ": source item not findable"); break; }
		dst.insert(E(99990001)); src.insert(E(99990002));
		return f;
	});
}

// maps: key LE, mapped LE
template<typename E> using PA = kit::StdAlloc<std::pair<const E, E>>;
template<typename E> using StdMapNested = momo::TreeMap<E, E, momo::TreeTraitsStd<E, KLess, false>, momo::MemManagerStd<PA<E>>,
	momo::TreeMapKeyValueTraits<E, E, momo::MemManagerStd<PA<E>>>, momo::TreeMapSettings>;
template<typename E> using StdMap = momo::stdish::map<E, E, KLess, PA<E>>;
template<typename E> using StdUMap = momo::stdish::unordered_map<E, E, KHash, KEq, PA<E>>;
template<typename E> struct MkMM { typedef StdMap<E> T; static T make(int id) { return T(KLess(), PA<E>(id)); } };
template<typename E> struct MkMU { typedef StdUMap<E> T; static T make(int id) { return T(8, KHash(kit::MULT), KEq(), PA<E>(id)); } };

template<typename E, typename MS, typename MD, bool node>
static void std_map_scenario(Report& rep, const char* name, uint64_t seed, int srcId, int dstId)
{
	// default nested settings (extra check = assertion): functor failures are injected too since b307610 made the
	// debug-only extra check tolerate a throwing functor
	enumerate_all(rep, name, [&] (int kind, long k) -> bool
	{
		Rnd r(seed);
		std::vector<int64_t> sv, dv;
		gen_values(r, false, false, sv, dv);
		if (sv.empty()) sv.push_back(4242);
		typename MS::T src = MS::make(srcId);
		typename MD::T dst = MD::make(dstId);
		for (int64_t v : sv) src.emplace(E(v), E(v % 100 + 7000));
		for (int64_t v : dv) dst.emplace(E(v), E(v % 100 + 8000));
		auto pv = [] (const auto& m) { MSet s; for (const auto& p : m) add(s, p.first.Value() * 100000 + p.second.Value()); return s; };
		MSet s0 = pv(src), d0 = pv(dst), init = plus(s0, d0);
		std::set<int64_t> dkeys0; for (const auto& p : dst) dkeys0.insert(keyof(p.first.Value()));
		std::string tag = std::string(name) + " kind=" + std::to_string(kind) + " k=" + std::to_string(k);
		Counters c0 = snap();
		MSet held;
		arm_kind(kind, k);
		bool ok = true;
		try
		{
			if constexpr (!node) dst.merge(src);
			else
			{
				auto it = src.begin(); size_t pos = size_t(r.range(0, int(src.size()) - 1)); for (size_t i = 0; i < pos; ++i) ++it;
				auto nh = src.extract(it);
				auto rec = [&held] (typename MS::T::node_type& nd) { if (!nd.empty()) add(held, nd.key().Value() * 100000 + nd.mapped().Value()); };
				try { auto res = dst.insert(std::move(nh)); if (!rec_node(res, rec, 0)) rep.fail(tag + ": a refused node was not returned in insert_return_type::node"); } catch (...) { rec(nh); throw; }
				rec(nh);
			}
		}
		C10_CATCH_INJECTED(ok)
		bool f = done(kind);
		Counters c1 = snap();
		MSet s1 = pv(src), d1 = pv(dst);
		bool lenient = false;
		if (plus(plus(s1, d1), held) != init)
		{
			if (!ok && !E::movable && only_values_changed(plus(plus(s1, d1), held), init)) { ++rep.documented; lenient = true; }
			else rep.fail(tag + ": pairs not conserved: " + diffstr(plus(plus(s1, d1), held), init) + " src=" + show(s1) + " dst=" + show(d1) + " node=" + show(held));
		}
		{ std::set<int64_t> ks; for (const auto& p : dst) if (!ks.insert(keyof(p.first.Value())).second) rep.fail(tag + ": duplicate key in destination map"); }
		if (!node && !lenient) for (auto& p : s0) if (dkeys0.count(keyof(p.first / 100000)) && !s1.count(p.first)) rep.fail(tag + ": refused pair left the source");
		if (E::movable && (c1.copy != c0.copy || c1.copy_assign != c0.copy_assign)) rep.fail(tag + ": movable keys/values were copied");
		for (const auto& p : dst) if (dst.find(p.first) == dst.end()) { rep.fail(tag + ": destination key not findable"); break; }
		dst.emplace(E(99990001), E(1)); src.emplace(E(99990002), E(2));
		return f;
	}, true);
}

static const char* SCEN[] = {
	"arr_insert_move", "arr_insert_count", "arr_insert_range", "arr_insert_il", "arr_remove", "arr_remove_pred",
	"seg_insert_move", "seg_insert_count", "seg_insert_range", "seg_remove", "seg_remove_pred",
	"arrint_insert_move", "arrint_insert_range", "arrint_remove", "arrint_remove_pred", "arrmmr_insert_count", "arrmmr_insert_move", "arrmmr_remove",
	"segsqrt_insert_range", "segsqrt_insert_move", "segsqrt_remove",
	"std_set_node_hint", "std_uset_node_hint", "std_mset_node_hint",
	"std_set_merge_eq", "std_set_merge_ne", "std_mset_merge_ne", "std_set_mset_merge", "std_uset_merge_eq", "std_uset_merge_ne", "std_set_uset_merge_ne", "std_uset_set_merge_ne",
	"std_set_node_eq", "std_set_node_ne", "std_uset_node_ne", "std_mset_node_eq",
	"std_set_insert_range", "std_uset_insert_range", "std_mset_insert_il", "std_uset_insert_il",
	"std_map_merge_eq", "std_map_merge_ne", "std_umap_merge_ne", "std_map_node_ne", "std_umap_node_eq",
};

template<int C>
static void run_scenario(Report& rep, const std::string& s, uint64_t seed)
{
	typedef LE<C> E;
	typedef momo::Array<E, kit::MM> Arr;
	typedef momo::SegmentedArray<E, kit::MM> Seg;
	typedef momo::Array<E, kit::MM, momo::ArrayItemTraits<E, kit::MM>, momo::ArraySettings<4>> ArrInt;      // internal capacity 4
	typedef momo::Array<E, kit::MMR> ArrMMR;                                                                    // manager with Reallocate
	typedef momo::SegmentedArray<E, kit::MM, momo::SegmentedArrayItemTraits<E, kit::MM>,
		momo::SegmentedArraySettings<momo::SegmentedArrayItemCountFunc::sqrt>> SegSqrt;
	const char* n = s.c_str();
	if (s == "arr_insert_move") array_scenario<E, Arr>(rep, n, seed, 0);
	else if (s == "arr_insert_count") array_scenario<E, Arr>(rep, n, seed, 1);
	else if (s == "arr_insert_range") array_scenario<E, Arr>(rep, n, seed, 2);
	else if (s == "arr_insert_il") array_scenario<E, Arr>(rep, n, seed, 3);
	else if (s == "arr_remove") array_scenario<E, Arr>(rep, n, seed, 4);
	else if (s == "arr_remove_pred") array_scenario<E, Arr>(rep, n, seed, 5);
	else if (s == "seg_insert_move") array_scenario<E, Seg>(rep, n, seed, 0);
	else if (s == "seg_insert_count") array_scenario<E, Seg>(rep, n, seed, 1);
	else if (s == "seg_insert_range") array_scenario<E, Seg>(rep, n, seed, 2);
	else if (s == "seg_remove") array_scenario<E, Seg>(rep, n, seed, 4);
	else if (s == "seg_remove_pred") array_scenario<E, Seg>(rep, n, seed, 5);
	else if (s == "arrint_insert_move") array_scenario<E, ArrInt>(rep, n, seed, 0);
	else if (s == "arrint_insert_range") array_scenario<E, ArrInt>(rep, n, seed, 2);
	else if (s == "arrint_remove") array_scenario<E, ArrInt>(rep, n, seed, 4);
	else if (s == "arrint_remove_pred") array_scenario<E, ArrInt>(rep, n, seed, 5);
	else if (s == "arrmmr_insert_count") array_scenario<E, ArrMMR>(rep, n, seed, 1);
	else if (s == "arrmmr_insert_move") array_scenario<E, ArrMMR>(rep, n, seed, 0);
	else if (s == "arrmmr_remove") array_scenario<E, ArrMMR>(rep, n, seed, 4);
	else if (s == "segsqrt_insert_range") array_scenario<E, SegSqrt>(rep, n, seed, 2);
	else if (s == "segsqrt_insert_move") array_scenario<E, SegSqrt>(rep, n, seed, 0);
	else if (s == "segsqrt_remove") array_scenario<E, SegSqrt>(rep, n, seed, 4);
	else if (s == "std_set_node_hint") std_scenario<E, MkSS<E>, MkSS<E>, 4>(rep, n, seed, 1, 1);
	else if (s == "std_uset_node_hint") std_scenario<E, MkSU<E>, MkSU<E>, 4>(rep, n, seed, 1, 2);
	else if (s == "std_mset_node_hint") std_scenario<E, MkSM<E>, MkSM<E>, 4>(rep, n, seed, 1, 1);
	else if (s == "std_set_merge_eq") std_scenario<E, MkSS<E>, MkSS<E>, 0>(rep, n, seed, 1, 1);
	else if (s == "std_set_merge_ne") std_scenario<E, MkSS<E>, MkSS<E>, 0>(rep, n, seed, 1, 2);
	else if (s == "std_mset_merge_ne") std_scenario<E, MkSM<E>, MkSM<E>, 0>(rep, n, seed, 1, 2);
	else if (s == "std_set_mset_merge") std_scenario<E, MkSS<E>, MkSM<E>, 0>(rep, n, seed, 1, 1);
	else if (s == "std_uset_merge_eq") std_scenario<E, MkSU<E>, MkSU<E>, 0>(rep, n, seed, 1, 1);
	else if (s == "std_uset_merge_ne") std_scenario<E, MkSU<E>, MkSU<E>, 0>(rep, n, seed, 1, 2);
	else if (s == "std_set_uset_merge_ne") std_scenario<E, MkSS<E>, MkSU<E>, 0>(rep, n, seed, 1, 2);
	else if (s == "std_uset_set_merge_ne") std_scenario<E, MkSU<E>, MkSS<E>, 0>(rep, n, seed, 1, 2);
	else if (s == "std_set_node_eq") std_scenario<E, MkSS<E>, MkSS<E>, 1>(rep, n, seed, 1, 1);
	else if (s == "std_set_node_ne") std_scenario<E, MkSS<E>, MkSS<E>, 1>(rep, n, seed, 1, 2);
	else if (s == "std_uset_node_ne") std_scenario<E, MkSU<E>, MkSU<E>, 1>(rep, n, seed, 1, 2);
	else if (s == "std_mset_node_eq") std_scenario<E, MkSM<E>, MkSM<E>, 1>(rep, n, seed, 1, 1);
	else if (s == "std_set_insert_range") std_scenario<E, MkSS<E>, MkSS<E>, 2>(rep, n, seed, 1, 1);
	else if (s == "std_uset_insert_range") std_scenario<E, MkSU<E>, MkSU<E>, 2>(rep, n, seed, 1, 1);
	else if (s == "std_mset_insert_il") std_scenario<E, MkSM<E>, MkSM<E>, 3>(rep, n, seed, 1, 1);
	else if (s == "std_uset_insert_il") std_scenario<E, MkSU<E>, MkSU<E>, 3>(rep, n, seed, 1, 1);
	else if (s == "std_map_merge_eq") std_map_scenario<E, MkMM<E>, MkMM<E>, false>(rep, n, seed, 1, 1);
	else if (s == "std_map_merge_ne") std_map_scenario<E, MkMM<E>, MkMM<E>, false>(rep, n, seed, 1, 2);
	else if (s == "std_umap_merge_ne") std_map_scenario<E, MkMU<E>, MkMU<E>, false>(rep, n, seed, 1, 2);
	else if (s == "std_map_node_ne") std_map_scenario<E, MkMM<E>, MkMM<E>, true>(rep, n, seed, 1, 2);
	else if (s == "std_umap_node_eq") std_map_scenario<E, MkMU<E>, MkMU<E>, true>(rep, n, seed, 1, 1);
	else rep.fail("unknown scenario " + s);
}

#ifndef C10_CAT
#define C10_CAT kit::NTM
#endif
static const char* cat_name() { return C10_CAT == kit::TRIV ? "TRIV" : C10_CAT == kit::NTM ? "NTM" : C10_CAT == kit::SMH ? "SMH" : C10_CAT == kit::THM ? "THM" : "CPY"; }

int main(int argc, char** argv)
{
	if (argc > 1 && std::string(argv[1]) == "--list")
	{
		for (const char* s : SCEN) std::cout << s << " " << cat_name() << "\n";
		return 0;
	}
	if (argc > 1 && std::string(argv[1]) == "--types")
	{
		typedef LE<C10_CAT> E;
		std::cout << "array_int internalCapacity=" << momo::Array<E, kit::MM, momo::ArrayItemTraits<E, kit::MM>, momo::ArraySettings<4>>::Settings::internalCapacity << "\n";
		std::cout << "std_set nested " << type_name(typeid(typename StdSet<E>::nested_container_type)) << "\n";
		std::cout << "std_uset bucket " << type_name(typeid(typename StdUSet<E>::nested_container_type::Bucket)) << "\n";
		std::cout << "std_map default nested extraCheck=" << int(StdMap<E>::nested_container_type::Settings::extraCheckMode) << "\n";
		return 0;
	}
	std::string line;
	while (std::getline(std::cin, line))
	{
		std::vector<std::string> w = split(line);
		Report rep;
		if (w.size() < 3 || w[1] != cat_name()) { std::cout << "BAD points=0 malformed case / wrong category for this executable\n"; continue; }
		run_scenario<C10_CAT>(rep, w[0], std::stoull(w[2]));
		std::cout << rep.str() << std::endl;
	}
	return 0;
}
