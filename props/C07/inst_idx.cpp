// C07 T-gen instantiation: DataIndexes<static column list, DataTraits> (its nested UniqueHash / MultiHash classes and the
// two-phase AddRaw / RemoveRaw / UpdateRaw), plus one use of every member TEMPLATE the generators read, and a DataTable
// over a static column list whose copy constructor (pvFill), FindByMultiHash (MultiHash::Find) and two-equality Select
// (pvSelect / pvSelectRec) are instantiated
#include "momo/DataTable.h"
namespace c07inst { struct S { int k[3]; int pad; };
typedef momo::DataColumnListStatic<S, momo::DataColumnInfo<S>, momo::MemManagerDefault> CL; }
template class momo::internal::DataIndexes<c07inst::CL, momo::DataTraits>;
namespace c07inst {
typedef momo::internal::DataIndexes<CL, momo::DataTraits> DI;
struct Assigner { void operator()(S*, size_t) const {} };
inline void use(DI& di, S* raw, const int& item)
{
	di.UpdateRaw(raw, size_t(0), item, Assigner());
	std::array<size_t, 2> so{{0, 4}};
	(void)di.GetFitUniqueHashIndex(so);
	(void)di.GetFitMultiHashIndex(so);
}
struct T2 { int p; int q; };
MOMO_DATA_COLUMN_STRUCT(T2, p);
MOMO_DATA_COLUMN_STRUCT(T2, q);
typedef momo::DataColumnListStatic<T2> CL2;
typedef momo::DataTable<CL2> Table2;
inline size_t useTable(const Table2& t)
{
	Table2 copy(t);
	auto bounds = copy.FindByMultiHash(momo::DataMultiHashIndex::empty, CL2::ColumnInfo::MakeEquality(p, 1));
	auto sel = copy.Select(momo::DataEquality<>().And(p, 1).And(q, 2));
	return bounds.GetCount() + sel.GetCount();
}
}
