(* C11 (final round; hand-written) -- Remove(iter): the statements of HashSet::Remove(ConstIterator) and of HashSet::pvRemove are read
   off the clang AST on every run (props/C11/astfacts.py -> Gen_RelocFacts.remove_iter_stmts / pv_remove_stmts) and INTERPRETED on the
   model state (all generations, mCount) for an iterator IAt gs bi p:  MOMO_CHECK(mBuckets != nullptr); pos = iter; version check;
   bucketIter = pos's iterator; MOMO_CHECK(bucketIter != null); bucketIndex; buckets = pvFindBuckets(bucketIndex, bucketIter)
   (find_buckets; generated and proved in GenFind.v); bucket = (buckets)[bucketIndex]; bucketIter = bucket.Remove(params, bucketIter,
   replacer) (tremove on that generation; by contract the returned iterator stands at the hole, i.e. keeps its offset); --mCount;
   IncVersion; not-movable exit (never taken by iterators of the model); return iterator(buckets, bucketIndex, bucketIter) whose
   constructor runs pvInc (pv_inc = interpreted source, IterInterp.v).  Every statement checks that the names it uses were bound by
   earlier statements (e.g. Bucket::Remove before pvFindBuckets is not interpretable).  The interpretation of the CURRENT source equals
   the removal step of the hand model's remif (RemoveIfInterp.do_act RRemoveAt), so no hand-modelled primitive is left in Remove(filter)
   apart from the bucket-level Bucket::Remove contract (tremove) -- which is G at byte level for the bucket kinds (GenFull / GenFullP4). *)
From Coq Require Import ZArith List String Bool Arith.
From C11 Require Import GrowModel RelocSyntax RemoveIfInterp.
From C11 Require Gen_RelocFacts.
Import ListNotations.
Local Open Scope string_scope.

Inductive pact : Type :=
| PCheckBuckets | PBindPos | PCheckVersion | PBindIter | PCheckIter | PBindIndex | PFindBuckets | PBindBucket | PBucketRemove
| PDecCount | PIncVersion | PEndIfNotMovable | PReturnIter | PUnknown.

Definition pact_of (c : cstmt) : pact :=
  match c with
  | SOther t =>
      if seqb t "do { if (checkMode == exception) do { if (!mBuckets != nullptr) throw } while (false) } while (false)" then PCheckBuckets
      else if seqb t "do { if (checkMode == exception) do { if (!bucketIter != ?CXXScalarValueInitExpr) throw } while (false) } while (false)" then PCheckIter
      else PUnknown
  | SDecl n i =>
      if seqb n "pos" && seqb i "ctor(iter)" then PBindPos
      else if seqb n "bucketIter" && seqb i "GetBucketIterator(pos)" then PBindIter
      else if seqb n "bucketIndex" && seqb i "GetBucketIndex(pos)" then PBindIndex
      else if seqb n "buckets" && seqb i "pvFindBuckets(bucketIndex, bucketIter)" then PFindBuckets
      else if seqb n "bucket" && seqb i "operator[](*buckets, bucketIndex)" then PBindBucket
      else PUnknown
  | SExpr e =>
      if seqb e "Check(pos, mCrew.GetVersion(), false)" then PCheckVersion
      else if seqb e "bucketIter = bucket.Remove(buckets.GetBucketParams(), bucketIter, forward(itemReplacer))" then PBucketRemove
      else if seqb e "--mCount" then PDecCount
      else if seqb e "mCrew.IncVersion()" then PIncVersion
      else PUnknown
  | SIfThen c [r] => if seqb c "!IsMovable(iter)" && seqb r "return new_ConstIterator()" then PEndIfNotMovable else PUnknown
  | SReturn r => if seqb r "ctor(new_ConstIteratorProxy(*buckets, bucketIndex, bucketIter, mCrew.GetVersion()))" then PReturnIter else PUnknown
  | _ => PUnknown
  end.

Section RemoveAt.
  Variable B : Type.
  Variable b0 : B.
  Variable wf0 : bool.

  (* names bound so far *)
  Record env : Type := mkEnv { e_pos : bool; e_iter : bool; e_index : bool; e_gen : option nat; e_bucket : bool; e_removed : bool }.
  Definition env0 : env := mkEnv false false false None false false.

  Fixpoint pexec (acts : list pact) (gs : list (table B)) (bi p : nat) (chain : list (table B)) (cnt : Z) (e : env)
      : option (list (table B) * iter B * Z) :=
    match acts with
    | [] => None                                                        (* fell off the end without returning an iterator *)
    | a :: r =>
        match a with
        | PCheckBuckets => match chain with [] => None | _ => pexec r gs bi p chain cnt e end         (* throw *)
        | PBindPos => pexec r gs bi p chain cnt (mkEnv true (e_iter e) (e_index e) (e_gen e) (e_bucket e) (e_removed e))
        | PCheckVersion => if e_pos e then pexec r gs bi p chain cnt e else None
        | PBindIter => if e_pos e then pexec r gs bi p chain cnt (mkEnv (e_pos e) true (e_index e) (e_gen e) (e_bucket e) (e_removed e)) else None
        | PCheckIter => if e_iter e then pexec r gs bi p chain cnt e else None                        (* never null for IAt *)
        | PBindIndex => if e_pos e then pexec r gs bi p chain cnt (mkEnv (e_pos e) (e_iter e) true (e_gen e) (e_bucket e) (e_removed e)) else None
        | PFindBuckets =>
            if e_iter e && e_index e && negb (e_removed e) then
              match find_buckets B b0 wf0 chain (Z.of_nat bi) (List.length chain - List.length gs)%nat p with
              | None => None                                             (* MOMO_ASSERT(false) *)
              | Some g' => pexec r gs bi p chain cnt (mkEnv (e_pos e) (e_iter e) (e_index e) (Some g') false (e_removed e))
              end
            else None
        | PBindBucket => match e_gen e with
                         | Some _ => if e_index e then pexec r gs bi p chain cnt (mkEnv (e_pos e) (e_iter e) (e_index e) (e_gen e) true (e_removed e)) else None
                         | None => None
                         end
        | PBucketRemove =>
            match e_gen e with
            | Some g' => if e_bucket e && e_iter e && negb (e_removed e) then
                           pexec r gs bi p (upd_gen B chain g' (fun t => tremove B b0 wf0 t (Z.of_nat bi) p)) cnt
                                 (mkEnv (e_pos e) (e_iter e) (e_index e) (e_gen e) (e_bucket e) true)
                         else None
            | None => None
            end
        | PDecCount => pexec r gs bi p chain (cnt - 1)%Z e
        | PIncVersion => pexec r gs bi p chain cnt e
        | PEndIfNotMovable => pexec r gs bi p chain cnt e                 (* iterators of the model are movable *)
        | PReturnIter =>
            match e_gen e with
            | Some g' => if e_removed e && e_index e then
                           Some (chain, pv_inc B b0 wf0 (skipn g' chain) bi p, cnt)   (* iterator(buckets, bucketIndex, bucketIter): its ctor runs pvInc *)
                         else None
            | None => None
            end
        | PUnknown => None
        end
    end.

  (* Remove(ConstIterator iter) { replacer = lambda; return pvRemove(iter, replacer); } *)
  Definition interp_remove_at (outer inner : list cstmt) (s : list (table B) * iter B * Z) : option (list (table B) * iter B * Z) :=
    match outer with
    | [SDecl n i; SReturn r] =>
        if seqb n "itemReplacer" && seqb i "lambda" && seqb r "pvRemove(ctor(iter), itemReplacer)" then
          let '(chain, it, cnt) := s in
          match it with
          | IEnd _ => None
          | IAt _ gs bi p => pexec (map pact_of inner) gs bi p chain cnt env0
          end
        else None
    | _ => None
    end.

  Definition src_pacts : list pact :=
    [PCheckBuckets; PBindPos; PCheckVersion; PBindIter; PCheckIter; PBindIndex; PFindBuckets; PBindBucket; PBucketRemove; PDecCount;
     PIncVersion; PEndIfNotMovable; PReturnIter].

  Lemma src_pacts_ok : map pact_of Gen_RelocFacts.pv_remove_stmts = src_pacts.
  Proof. vm_compute. reflexivity. Qed.

  Theorem remove_at_is_interpreted_source : forall f chain gs bi p cnt,
    interp_remove_at Gen_RelocFacts.remove_iter_stmts Gen_RelocFacts.pv_remove_stmts (chain, IAt B gs bi p, cnt)
      = do_act B b0 wf0 RRemoveAt (chain, IAt B gs bi p, cnt) /\
    do_body B b0 wf0 f (src_body) (chain, IAt B gs bi p, cnt)
      = if f (it_deref B b0 wf0 (IAt B gs bi p))
        then interp_remove_at Gen_RelocFacts.remove_iter_stmts Gen_RelocFacts.pv_remove_stmts (chain, IAt B gs bi p, cnt)
        else do_act B b0 wf0 RInc (chain, IAt B gs bi p, cnt).
  Proof.
    intros f chain gs bi p cnt.
    assert (E : interp_remove_at Gen_RelocFacts.remove_iter_stmts Gen_RelocFacts.pv_remove_stmts (chain, IAt B gs bi p, cnt)
                = do_act B b0 wf0 RRemoveAt (chain, IAt B gs bi p, cnt)).
    { change (interp_remove_at Gen_RelocFacts.remove_iter_stmts Gen_RelocFacts.pv_remove_stmts (chain, IAt B gs bi p, cnt))
        with (pexec (map pact_of Gen_RelocFacts.pv_remove_stmts) gs bi p chain cnt env0).
      rewrite src_pacts_ok. unfold src_pacts, env0. cbn [do_act].
      destruct chain as [|t r].
      - cbn [pexec]. reflexivity.
      - cbn [pexec e_pos e_iter e_index e_gen e_bucket e_removed andb negb].
        destruct (find_buckets B b0 wf0 (t :: r) (Z.of_nat bi) (List.length (t :: r) - List.length gs) p) as [g'|]; reflexivity. }
    split; [exact E|]. rewrite E.
    change (do_body B b0 wf0 f src_body (chain, IAt B gs bi p, cnt)) with
      (if f (it_deref B b0 wf0 (IAt B gs bi p)) then do_act B b0 wf0 RRemoveAt (chain, IAt B gs bi p, cnt)
       else do_act B b0 wf0 RInc (chain, IAt B gs bi p, cnt)).
    reflexivity.
  Qed.
End RemoveAt.
