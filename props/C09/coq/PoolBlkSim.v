(* C09: the pvNewBlock refinement as an INDUCTIVE SIMULATION for Allocate-only histories (pool without cache path: every Allocate is
   pvNewBlock) over blockCount >= 2.  Buffer id k of the hand model PoolConc lives at address `adr k` (any injective map with
   adr 0 = 0).  `Sim` relates the pointer-level state (mFreeBufferHead, BufferBytes maps, next pointers, the next-free index stored in
   EVERY block) to the model world and says that the cells of every buffer the manager will hand out in the future are as pvNewBuffer()
   initialises them.  One generated pvNewBlock step = one model step, and `Sim` holds again (incl. the next-free-index clause), so it
   composes over any number of allocations. *)
From Coq Require Import ZArith List Bool Lia.
From MomoCommon Require Import GenPrelude.
From C09 Require PoolBlkPrims Gen_MemPool Gen_MemPoolBlk PoolConc PoolBlk.
Import ListNotations.
Local Open Scope Z_scope.

Section Sim.
Variables C B A : Z.
Variable adr : Z -> Z.
Hypothesis HC : 2 <= C.
Hypothesis adr0 : adr 0 = 0.
Hypothesis adr_inj : forall a b, adr a = adr b -> a = b.

Definition chainv (j : Z) : Z := if j =? C - 1 then PoolConc.NIL else j + 1.

Fixpoint linkedA (nx : Z -> Z) (l : list Z) : Prop :=
  match l with [] => True | a :: t => nx (adr a) = adr (PoolConc.hd0 t) /\ linkedA nx t end.

Definition Sim (w : PoolConc.cworld) (p : bool) (hd : Z) (bf bcnt nx nfi : Z -> Z) : Prop :=
  let x := PoolConc.getp w p in let fr := PoolConc.fresh w in
  hd = adr (PoolConc.hd0 (PoolConc.lfree x)) /\ linkedA nx (PoolConc.lfree x) /\
  (forall a, In a (PoolConc.lfree x) -> 0 < a < fr) /\ 0 < fr /\
  (forall b, 0 < b < fr -> bf (adr b) = PoolConc.fb w b /\ bcnt (adr b) = PoolConc.fc w b) /\
  (forall b j, 0 < b < fr -> 0 <= j < C -> nfi (Gen_MemPool.pvGetBlock B A (adr b) j) = PoolConc.nx w b j) /\
  (forall k, fr <= k -> bf (adr k) = 0 /\ bcnt (adr k) = C /\ nx (adr k) = 0 /\
                        forall j, 0 <= j < C -> nfi (Gen_MemPool.pvGetBlock B A (adr k) j) = chainv j).

Lemma adr_eqb a b : (adr a =? adr b) = (a =? b).
Proof. destruct (Z.eqb_spec a b) as [->|N]; [apply Z.eqb_refl|]. destruct (Z.eqb_spec (adr a) (adr b)) as [E|_]; [apply adr_inj in E; contradiction|reflexivity]. Qed.
Lemma adr_nz a : a <> 0 -> (adr a =? 0) = false.
Proof. intros N. rewrite <- adr0, adr_eqb. destruct (Z.eqb_spec a 0); [contradiction|reflexivity]. Qed.

Lemma getp_set_lists w p a b : PoolConc.lfree (PoolConc.getp (PoolConc.set_lists w p a b) p) = b.
Proof. destruct p; reflexivity. Qed.
Lemma maps_set_lists w p a b : PoolConc.fb (PoolConc.set_lists w p a b) = PoolConc.fb w /\
  PoolConc.fc (PoolConc.set_lists w p a b) = PoolConc.fc w /\ PoolConc.nx (PoolConc.set_lists w p a b) = PoolConc.nx w /\
  PoolConc.fresh (PoolConc.set_lists w p a b) = PoolConc.fresh w.
Proof. destruct p; repeat split; reflexivity. Qed.
Lemma getp_set_bytes w p b f c : PoolConc.getp (PoolConc.set_bytes w b f c) p = PoolConc.getp w p.
Proof. destruct p; reflexivity. Qed.

(* the model step, in closed form for the three cases *)
Definition attach (w : PoolConc.cworld) (p : bool) : PoolConc.cworld := PoolConc.attach_new C w p.

(* side condition of a step, a fact about the MODEL world: the first-free index of the head (if there is one) is a valid block index
   (a consequence of the whole-history invariant for reachable worlds; not derived here) *)
Definition head_ok (w : PoolConc.cworld) (p : bool) : Prop :=
  match PoolConc.lfree (PoolConc.getp w p) with [] => True | h :: _ => 0 <= PoolConc.fb w h < C end.

Theorem sim_step w p hd bf bcnt nx pv nfi :
  Sim w p hd bf bcnt nx nfi -> head_ok w p ->
  let '(w', (b, i)) := PoolConc.pvNewBlock C w p in
  exists hd2 bf' bcnt' nx' pv',
    Gen_MemPoolBlk.pvNewBlock (adr (PoolConc.fresh w)) B A hd bf bcnt nx pv nfi false =
      Ok (Some (Gen_MemPool.pvGetBlock B A (adr b) i), hd2, bf', bcnt', nx', pv') /\
    PoolConc.fresh w' = (if PoolBlk.requests hd bcnt nx then PoolConc.fresh w + 1 else PoolConc.fresh w) /\
    Sim w' p hd2 bf' bcnt' nx' nfi.
Proof.
  intros (Ehd & Lk & Ids & F0 & Maps & Nfi & Pre) Hok. unfold head_ok in Hok.
  pose proof (PoolBlk.newblock_spec (adr (PoolConc.fresh w)) B A hd bf bcnt nx pv nfi) as S. cbv zeta in S.
  destruct (Pre (PoolConc.fresh w) ltac:(lia)) as (P1 & P2 & P3 & P4).
  assert (P40 := P4 0 ltac:(lia)).
  unfold PoolConc.pvNewBlock. destruct (PoolConc.lfree (PoolConc.getp w p)) as [|h rest] eqn:El.
  - (* empty pool *)
    cbn [PoolConc.hd0] in Ehd. rewrite adr0 in Ehd. subst hd. rewrite Z.eqb_refl in S.
    unfold PoolConc.attach_new, PoolConc.new_buffer. set (wi := PoolConc.mkCW _ _ _ _ _ _ _).
    assert (PoolConc.lfree (PoolConc.getp wi p) = []) as Ei by (destruct p; exact El). rewrite Ei. cbn [app].
    set (w1 := PoolConc.set_lists wi p _ _).
    pose proof (getp_set_lists wi p (PoolConc.lfull (PoolConc.getp wi p)) [PoolConc.fresh w]) as Gl. fold w1 in Gl.
    destruct (maps_set_lists wi p (PoolConc.lfull (PoolConc.getp wi p)) [PoolConc.fresh w]) as (Mb & Mc & Mn & Mf). fold w1 in Mb, Mc, Mn, Mf.
    rewrite Gl. cbn [PoolConc.hd0 PoolConc.tl0]. rewrite Mc.
    assert (PoolConc.fc wi (PoolConc.fresh w) = C) as Efc by (unfold wi; cbn; unfold upd; rewrite Z.eqb_refl; reflexivity).
    assert (PoolConc.fb wi (PoolConc.fresh w) = 0) as Efb by (unfold wi; cbn; unfold upd; rewrite Z.eqb_refl; reflexivity).
    rewrite Efc. destruct (Z.eqb_spec C 1) as [|_]; [lia|]. cbn [andb].
    unfold PoolConc.take. rewrite Gl. cbn [PoolConc.hd0 PoolConc.tl0]. rewrite Mb, Mc, Mn, Efc, Efb.
    destruct (Z.eqb_spec (C - 1) 0) as [|_]; [lia|].
    rewrite P2 in S. destruct (Z.eqb_spec C 1) as [|_]; [lia|]. cbn [andb] in S. rewrite P1 in S.
    destruct (Z.eqb_spec (C - 1) 0) as [|_]; [lia|].
    do 5 eexists. split; [exact S|]. split.
    { unfold PoolBlk.requests. rewrite Z.eqb_refl. cbn [orb]. unfold PoolConc.set_bytes; cbn [PoolConc.fresh]. rewrite Mf. reflexivity. }
    set (w2 := PoolConc.set_bytes w1 _ _ _).
    assert (PoolConc.fresh w2 = PoolConc.fresh w + 1) as Ef2 by (unfold w2, PoolConc.set_bytes; cbn [PoolConc.fresh]; rewrite Mf; reflexivity).
    unfold Sim. replace (PoolConc.getp w2 p) with (PoolConc.getp w1 p) by (unfold w2; symmetry; apply getp_set_bytes). rewrite Gl, Ef2. cbn [PoolConc.hd0 linkedA].
    split; [reflexivity|]. split; [rewrite adr0; auto|]. split; [intros a [<-|[]]; lia|]. split; [lia|]. split; [|split].
    + intros b Hb. unfold w2, PoolConc.set_bytes; cbn [PoolConc.fb PoolConc.fc]. rewrite Mb, Mc. unfold upd. rewrite !adr_eqb.
      destruct (Z.eqb_spec b (PoolConc.fresh w)) as [->|Nb].
      * split; [|reflexivity]. rewrite P40. unfold wi; cbn [PoolConc.nx]. rewrite Z.eqb_refl. reflexivity.
      * destruct (Maps b ltac:(lia)) as (M1 & M2). unfold wi; cbn [PoolConc.fb PoolConc.fc]. unfold upd.
        destruct (Z.eqb_spec b (PoolConc.fresh w)); [contradiction|]. split; assumption.
    + intros b j Hb Hj. unfold w2, PoolConc.set_bytes; cbn [PoolConc.nx]. rewrite Mn. unfold wi; cbn [PoolConc.nx].
      destruct (Z.eqb_spec b (PoolConc.fresh w)) as [->|Nb]; [rewrite (P4 j Hj); reflexivity|apply Nfi; [lia|exact Hj]].
    + intros k Hk. destruct (Pre k ltac:(lia)) as (Q1 & Q2 & Q3 & Q4). unfold upd. rewrite !adr_eqb.
      destruct (Z.eqb_spec k (PoolConc.fresh w)); [lia|]. auto.
  - (* the pool has a head h *)
    cbn [PoolConc.hd0] in Ehd. subst hd. destruct (Ids h (or_introl eq_refl)) as (Nh0 & Nhf).
    rewrite (adr_nz h ltac:(lia)) in S. destruct Lk as (Lh & Lrest). destruct (Maps h ltac:(lia)) as (Mh1 & Mh2).
    rewrite El. cbn [PoolConc.hd0 PoolConc.tl0].
    assert (PoolConc.hd0 rest = 0 <-> rest = []) as Hrest.
    { destruct rest as [|c r]; [tauto|]. cbn [PoolConc.hd0]. split; [|discriminate]. intros E0.
      pose proof (Ids c (or_intror (or_introl eq_refl))). lia. }
    assert ((adr (PoolConc.hd0 rest) =? 0) = (PoolConc.hd0 rest =? 0)) as Enx by (rewrite <- adr0 at 1; apply adr_eqb).
    rewrite Mh2, Lh, Enx, Mh1, (Nfi h _ ltac:(lia) Hok) in S.
    destruct ((PoolConc.fc w h =? 1) && (PoolConc.hd0 rest =? 0)) eqn:Need.
    + apply andb_prop in Need. destruct Need as (N1 & N2). apply Z.eqb_eq in N1, N2. apply Hrest in N2. subst rest.
      unfold PoolConc.attach_new, PoolConc.new_buffer. set (wi := PoolConc.mkCW _ _ _ _ _ _ _).
      assert (PoolConc.lfree (PoolConc.getp wi p) = [h]) as Ei by (destruct p; exact El). rewrite Ei. cbn [app].
      set (w1 := PoolConc.set_lists wi p _ _).
      pose proof (getp_set_lists wi p (PoolConc.lfull (PoolConc.getp wi p)) [h; PoolConc.fresh w]) as Gl. fold w1 in Gl.
      destruct (maps_set_lists wi p (PoolConc.lfull (PoolConc.getp wi p)) [h; PoolConc.fresh w]) as (Mb & Mc & Mn & Mf). fold w1 in Mb, Mc, Mn, Mf.
      unfold PoolConc.take. rewrite Gl. cbn [PoolConc.hd0 PoolConc.tl0]. rewrite Mb, Mc, Mn.
      assert (PoolConc.fb wi h = PoolConc.fb w h /\ PoolConc.fc wi h = PoolConc.fc w h /\ PoolConc.nx wi h = PoolConc.nx w h) as (Eb & Ec & En).
      { unfold wi; cbn [PoolConc.fb PoolConc.fc PoolConc.nx]. unfold upd. destruct (Z.eqb_spec h (PoolConc.fresh w)); [lia|]. auto. }
      rewrite Eb, Ec, En, N1. change (1 - 1 =? 0) with true. cbv iota.
      rewrite N1 in S. change (1 - 1 =? 0) with true in S. cbv iota in S.
      do 5 eexists. split; [exact S|]. split.
      { unfold PoolBlk.requests. rewrite (adr_nz h ltac:(lia)). cbn [orb]. rewrite Mh2, Lh, N1. cbn [PoolConc.hd0]. rewrite adr0.
        change ((1 =? 1) && (0 =? 0)) with true. cbv iota.
        rewrite (proj2 (proj2 (proj2 (maps_set_lists _ p _ _)))). unfold PoolConc.set_bytes; cbn [PoolConc.fresh]. rewrite Mf. reflexivity. }
      set (w2 := PoolConc.set_bytes w1 h _ _).
      set (w3 := PoolConc.set_lists w2 p _ _).
      pose proof (getp_set_lists w2 p (PoolConc.lfull (PoolConc.getp w1 p) ++ [h]) [PoolConc.fresh w]) as Gl3. fold w3 in Gl3.
      destruct (maps_set_lists w2 p (PoolConc.lfull (PoolConc.getp w1 p) ++ [h]) [PoolConc.fresh w]) as (Mb3 & Mc3 & Mn3 & Mf3). fold w3 in Mb3, Mc3, Mn3, Mf3.
      assert (PoolConc.fresh w3 = PoolConc.fresh w + 1) as Ef3 by (rewrite Mf3; unfold w2, PoolConc.set_bytes; cbn [PoolConc.fresh]; rewrite Mf; reflexivity).
      unfold Sim. rewrite Gl3, Ef3. cbn [PoolConc.hd0 linkedA].
      split; [reflexivity|]. split.
      { split; [|exact I]. unfold upd. rewrite adr_eqb. destruct (Z.eqb_spec (PoolConc.fresh w) h); [lia|]. rewrite adr0. exact P3. }
      split; [intros a [<-|[]]; lia|]. split; [lia|]. split; [|split].
      * intros b Hb. rewrite Mb3, Mc3. unfold w2, PoolConc.set_bytes; cbn [PoolConc.fb PoolConc.fc]. rewrite Mb, Mc. unfold upd. rewrite !adr_eqb.
        destruct (Z.eqb_spec b h) as [->|Nb]; [split; reflexivity|].
        unfold wi; cbn [PoolConc.fb PoolConc.fc]. unfold upd. destruct (Z.eqb_spec b (PoolConc.fresh w)) as [->|Nbf]; [split; assumption|].
        destruct (Maps b ltac:(lia)) as (M1 & M2). split; assumption.
      * intros b j Hb Hj. rewrite Mn3. unfold w2, PoolConc.set_bytes; cbn [PoolConc.nx]. rewrite Mn. unfold wi; cbn [PoolConc.nx].
        destruct (Z.eqb_spec b (PoolConc.fresh w)) as [->|Nb]; [rewrite (P4 j Hj); reflexivity|apply Nfi; [lia|exact Hj]].
      * intros k Hk. destruct (Pre k ltac:(lia)) as (Q1 & Q2 & Q3 & Q4). unfold upd. rewrite !adr_eqb.
        destruct (Z.eqb_spec k h); [lia|]. auto.
    + unfold PoolConc.take. rewrite El. cbn [PoolConc.hd0 PoolConc.tl0].
      do 5 eexists. split; [exact S|]. set (w2 := PoolConc.set_bytes w h _ _).
      assert (PoolBlk.requests (adr h) bcnt nx = false) as Rq
        by (unfold PoolBlk.requests; rewrite (adr_nz h ltac:(lia)); cbn [orb]; rewrite Mh2, Lh, Enx; exact Need).
      destruct (PoolConc.fc w h - 1 =? 0) eqn:Ez.
      * set (w3 := PoolConc.set_lists w2 p _ _).
        pose proof (getp_set_lists w2 p (PoolConc.lfull (PoolConc.getp w p) ++ [h]) rest) as Gl3. fold w3 in Gl3.
        destruct (maps_set_lists w2 p (PoolConc.lfull (PoolConc.getp w p) ++ [h]) rest) as (Mb3 & Mc3 & Mn3 & Mf3). fold w3 in Mb3, Mc3, Mn3, Mf3.
        split; [rewrite Rq, Mf3; reflexivity|].
        unfold Sim. rewrite Gl3, Mf3. change (PoolConc.fresh w2) with (PoolConc.fresh w).
        split; [reflexivity|]. split; [exact Lrest|]. split; [intros a Ha; apply Ids; right; exact Ha|]. split; [exact F0|]. split; [|split].
        -- intros b Hb. rewrite Mb3, Mc3. unfold w2, PoolConc.set_bytes; cbn [PoolConc.fb PoolConc.fc]. unfold upd. rewrite !adr_eqb.
           destruct (Z.eqb_spec b h) as [->|Nb]; [split; reflexivity|]. apply Maps; exact Hb.
        -- intros b j Hb Hj. rewrite Mn3. apply Nfi; assumption.
        -- intros k Hk. destruct (Pre k Hk) as (Q1 & Q2 & Q3 & Q4). unfold upd. rewrite !adr_eqb. destruct (Z.eqb_spec k h); [lia|]. auto.
      * split; [rewrite Rq; reflexivity|].
        unfold Sim. replace (PoolConc.getp w2 p) with (PoolConc.getp w p) by (unfold w2; symmetry; apply getp_set_bytes). rewrite El. change (PoolConc.fresh w2) with (PoolConc.fresh w). cbn [PoolConc.hd0 linkedA].
        split; [reflexivity|]. split; [split; assumption|]. split; [exact Ids|]. split; [exact F0|]. split; [|split].
        -- intros b Hb. unfold w2, PoolConc.set_bytes; cbn [PoolConc.fb PoolConc.fc]. unfold upd. rewrite !adr_eqb.
           destruct (Z.eqb_spec b h) as [->|Nb]; [split; reflexivity|]. apply Maps; exact Hb.
        -- intros b j Hb Hj. apply Nfi; assumption.
        -- intros k Hk. destruct (Pre k Hk) as (Q1 & Q2 & Q3 & Q4). unfold upd. rewrite !adr_eqb. destruct (Z.eqb_spec k h); [lia|]. auto.
Qed.

(* ---------- Allocate-only histories: n calls of pvNewBlock on pool p ---------- *)
Fixpoint mrun (n : nat) (w : PoolConc.cworld) (p : bool) : list PoolConc.blk * PoolConc.cworld :=
  match n with
  | O => ([], w)
  | S n => let '(w', bk) := PoolConc.pvNewBlock C w p in let '(l, wf) := mrun n w' p in (bk :: l, wf)
  end.

(* the GENERATED function iterated; fr = number of the next buffer the manager hands out (address adr fr), advanced exactly when the
   call asks the manager (PoolBlk.requests); None = a call did not return a block *)
Fixpoint grun (n : nat) (fr hd : Z) (bf bcnt nx pv nfi : Z -> Z)
  : option (list Z * (Z * (Z -> Z) * (Z -> Z) * (Z -> Z) * (Z -> Z))) :=
  match n with
  | O => Some ([], (hd, bf, bcnt, nx, pv))
  | S n =>
    match Gen_MemPoolBlk.pvNewBlock (adr fr) B A hd bf bcnt nx pv nfi false with
    | Ok (Some blk, hd', bf', bcnt', nx', pv') =>
      match grun n (if PoolBlk.requests hd bcnt nx then fr + 1 else fr) hd' bf' bcnt' nx' pv' nfi with
      | Some (l, st) => Some (blk :: l, st)
      | None => None
      end
    | _ => None
    end
  end.

Fixpoint okalloc (n : nat) (w : PoolConc.cworld) (p : bool) : Prop :=
  match n with O => True | S n => head_ok w p /\ okalloc n (fst (PoolConc.pvNewBlock C w p)) p end.

Theorem sim_run : forall n w p hd bf bcnt nx pv nfi,
  Sim w p hd bf bcnt nx nfi -> okalloc n w p ->
  exists hd' bf' bcnt' nx' pv',
    grun n (PoolConc.fresh w) hd bf bcnt nx pv nfi =
      Some (map (fun bk => Gen_MemPool.pvGetBlock B A (adr (fst bk)) (snd bk)) (fst (mrun n w p)), (hd', bf', bcnt', nx', pv')) /\
    Sim (snd (mrun n w p)) p hd' bf' bcnt' nx' nfi.
Proof.
  induction n as [|n IH]; intros w p hd bf bcnt nx pv nfi H Hok.
  - exists hd, bf, bcnt, nx, pv. split; [reflexivity|exact H].
  - destruct Hok as (Hh & Hok). pose proof (sim_step w p hd bf bcnt nx pv nfi H Hh) as St. cbn [mrun grun].
    destruct (PoolConc.pvNewBlock C w p) as (w' & (b & i)). cbn [fst] in Hok.
    destruct St as (hd2 & bf2 & bc2 & nx2 & pv2 & E & Ef & H2). rewrite E, <- Ef.
    destruct (IH w' p hd2 bf2 bc2 nx2 pv2 nfi H2 Hok) as (hd' & bf' & bc' & nx' & pv' & Er & Hf).
    rewrite Er. destruct (mrun n w' p) as (l & wf). exists hd', bf', bc', nx', pv'. split; [reflexivity|exact Hf].
Qed.

(* the invariant holds initially: an empty pool in a world whose future buffers (ids >= 1) are pre-initialised *)
Lemma sim_init p bf bcnt nx nfi :
  (forall k, 1 <= k -> bf (adr k) = 0 /\ bcnt (adr k) = C /\ nx (adr k) = 0 /\
                       forall j, 0 <= j < C -> nfi (Gen_MemPool.pvGetBlock B A (adr k) j) = chainv j) ->
  Sim PoolConc.empty_world p 0 bf bcnt nx nfi.
Proof.
  intros Pre. unfold Sim. assert (PoolConc.lfree (PoolConc.getp PoolConc.empty_world p) = []) as -> by (destruct p; reflexivity).
  cbn [PoolConc.hd0 linkedA PoolConc.empty_world PoolConc.fresh]. rewrite adr0.
  split; [reflexivity|]. split; [exact I|]. split; [intros a []|]. split; [lia|]. split; [intros b Hb; lia|]. split; [intros b j Hb; lia|exact Pre].
Qed.
End Sim.

