(* C15 model driver: same case format as harness.cpp.
   <kind> op op ...   kind: hs hm (hash) | ts tm (tree);  op = name,arg,...
   prints one token per op (A | A=<v> | R | U) then " | v0 v1 | keys0 | keys1" *)
open Zutil
open Version
let z s = z_of_string s
let n s = nat_of_int (int_of_string s)
let b s = s <> "0"
let parse_op tok =
  match String.split_on_char ',' tok with
  | ["find"; c; k; s] -> OFind (b c, z k, n s)
  | ["begin"; c; s] -> OBegin (b c, n s)
  | ["end"; c; s] -> OEnd (b c, n s)
  | ["lower"; c; k; s] -> OLower (b c, z k, n s)
  | ["upper"; c; k; s] -> OUpper (b c, z k, n s)
  | ["deref"; s] -> ODeref (n s)
  | ["inc"; s] -> OInc (n s)
  | ["dec"; s] -> ODec (n s)
  | ["addat"; c; s; k] -> OAddAt (b c, n s, z k)
  | ["rmat"; c; s] -> ORemoveAt (b c, n s)
  | ["extract"; c; s] -> OExtract (b c, n s)
  | ["rmrange"; c; s1; s2] -> ORemoveRange (b c, n s1, n s2)
  | ["reset"; c; s; k] -> OResetKey (b c, n s, z k)
  | ["chk"; c; s; a] -> OChk (b c, n s, b a)
  | ["ins"; c; k; s] -> OInsert (b c, z k, n s)
  | ["insmany"; c; a; cnt] -> OInsMany (b c, z a, n cnt)
  | ["rmkey"; c; k] -> ORemoveKey (b c, z k)
  | ["rmif"; c; m] -> ORemoveIf (b c, z m)
  | ["clear"; c; s] -> OClear (b c, b s)
  | ["reserve"; c; cap] -> OReserve (b c, z cap)
  | ["merge"; s] -> OMergeTo (b s)
  | ["mergeself"; c] -> OMergeSelf (b c)
  | ["swap"] -> OSwap
  | ["count"; c] -> OCount (b c)
  | ["has"; c; k] -> OHas (b c, z k)
  | _ -> failwith ("bad op " ^ tok)
let show_out o op =
  match o, op with
  | Acc _, (ORemoveAt _ | OBegin _ | OEnd _) -> "A"
  | Acc (Some v), _ -> "A=" ^ string_of_z v
  | Acc None, _ -> "A"
  | Rej, _ -> "R"
  | Undef, _ -> "U"
let show_keys l = if l = [] then "-" else String.concat "," (Stdlib.List.map string_of_z l)
let () = iter_lines (fun line ->
  match words line with
  | kind :: toks ->
    (try
      let k = (match kind with "hs" | "hm" -> KHash | "ts" | "tm" -> KTree | _ -> failwith "kind") in
      let ops = Stdlib.List.map parse_op toks in
      let (s, outs) = run_out k init ops in
      let c0 = getc s false and c1 = getc s true in
      Printf.printf "%s| %d %d | %s | %s\n"
        (String.concat "" (Stdlib.List.map2 (fun o op -> show_out o op ^ " ") outs ops))
        (int_of_nat c0.ver) (int_of_nat c1.ver) (show_keys c0.keys) (show_keys c1.keys)
    with Failure m -> print_endline ("?" ^ m))
  | [] -> print_endline "?empty")
