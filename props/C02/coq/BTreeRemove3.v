(* C02 -- pvRemove(iter): every position (leaf item, separator with/without items in its left subtree) *)
From Coq Require Import List ZArith Arith Lia Bool.
From C02 Require Import BTreeModel BTreeBase BTreeSearch BTreeIter BTreeAdd BTreeRemove BTreeCtx BTreeRemove2 BTreeTrack.
Import ListNotations.

Lemma firstn_remove_at {A} j (l : list A) : j <= length l -> firstn j (remove_at j l) = firstn j l.
Proof.
  intros H. unfold remove_at. rewrite firstn_app, firstn_length_le by lia.
  rewrite Nat.sub_diag. simpl. rewrite app_nil_r, firstn_firstn, Nat.min_id. reflexivity.
Qed.

Lemma update_at_twice p f g : forall n, update_at p g (update_at p f n) = update_at p (fun x => g (f x)) n.
Proof.
  induction p as [|c p IH]; intros n; simpl; auto.
  destruct (nth_error (n_children n) c) as [ch|] eqn:E; [|rewrite E; reflexivity].
  cbn [n_children n_cap n_items]. destruct (le_lt_dec (length (n_children n)) c) as [Hge|Hlt].
  - apply nth_error_None in Hge. congruence.
  - rewrite replace_at_nth_error by exact Hlt. rewrite IH. f_equal.
    unfold replace_at. rewrite firstn_app_le by (rewrite firstn_length; lia). rewrite firstn_firstn, Nat.min_id.
    rewrite (skipn_app_ge2 c (S c)) by (rewrite ?firstn_length; lia). replace (S c - c) with 1 by lia. reflexivity.
Qed.

Lemma has_item_inv p : forall n nd j, node_at p n = Some nd -> has_item p n j -> j < n_count nd.
Proof.
  induction p as [|c p IH]; intros n nd j E H; simpl in *.
  - inversion E; subst; auto.
  - destruct (nth_error (n_children n) c); [eauto | contradiction].
Qed.

Section Rem3.
Variable maxCap : nat.
Hypothesis Hpos : 0 < maxCap.
Notation shape := (shape maxCap).

Definition rem_ok (B T : list Z) (res : node * iter) : Prop :=
  exists d', shape d' (fst res) /\ flatten (fst res) = B ++ T /\
    valid d' (fst (snd res)) (fst res) (snd (snd res)) /\
    (has_item (fst (snd res)) (fst res) (snd (snd res)) \/ snd res = end_of (fst res)) /\
    before (fst (snd res)) (fst res) (snd (snd res)) = B.

(* common tail: the edited tree r1 with the saved position (sp, j0), then pvRebalance and pvMakeIterator(move) *)
Lemma finish_remove d r1 np sp j0 B T :
  shape d r1 -> flatten r1 = B ++ T -> valid d sp r1 j0 -> length sp = d -> before sp r1 j0 = B ->
  rem_ok B T (let '(r2, sp2) := rebalance r1 np sp true in (r2, move_if r2 (sp2, j0))).
Proof.
  intros S1 F1 V1 L1 B1.
  destruct (rebalance_track maxCap Hpos d r1 np sp j0 true S1 V1 L1) as (d' & S2 & F2 & V2 & L2 & B2).
  destruct (rebalance r1 np sp true) as [r2 sp2]. cbn [fst snd] in *.
  destruct (move_if_spec maxCap Hpos d' r2 sp2 j0 S2 V2 L2) as (V3 & H3 & B3).
  exists d'. cbn [fst snd]. split; [exact S2|]. split; [congruence|]. split; [exact V3|]. split; [exact H3|]. congruence.
Qed.

Theorem remove_root_spec d r p j :
  shape d r -> valid d p r j -> has_item p r j ->
  rem_ok (before p r j) (tl (after p r j)) (remove_root r (p, j)).
Proof.
  intros Sh V H.
  destruct (node_at_valid maxCap Hpos p d r j Sh V) as (nd & En & Snd & _ & Lp).
  pose proof (has_item_inv p r nd j En H) as Hj.
  pose proof (valid_0 maxCap Hpos p d r j V) as V0.
  destruct (ctx_pos p d r j nd V En) as [Bp Ap].
  unfold remove_root. rewrite En. destruct (is_leaf nd) eqn:Lf.
  - (* the item is in a leaf *)
    pose proof (shape_leaf _ _ _ Snd Lf) as Ed. assert (Lp' : length p = d) by lia.
    destruct (remove_item_leaf_spec maxCap Hpos p d r j Sh V H Lp') as [S1 F1].
    rewrite (update_at_const p _ r nd En) in *.
    assert (Snd1 : shape (d - length p) (remove_item j nd)).
    { rewrite Ed in *. pose proof Snd as (A1 & A2 & A3). unfold remove_item. cbn [BTreeBase.shape].
      unfold n_count in *. cbn [n_items n_cap n_children]. unfold remove_at.
      rewrite app_length, firstn_length_le, skipn_length by lia. repeat split; auto; lia. }
    destruct (update_ctx maxCap Hpos p d r _ Sh V0 Snd1) as (_ & N1 & B1 & _ & V1).
    assert (Vj : valid d p (update_at p (fun _ => remove_item j nd) r) j).
    { apply (valid_of_node p d _ _ j V1 N1). unfold remove_item, n_count in *. cbn [n_items]. unfold remove_at.
      rewrite app_length, firstn_length_le, skipn_length by lia. lia. }
    apply (finish_remove d); [exact S1 | exact F1 | exact Vj | exact Lp' |].
    destruct (ctx_pos p d _ j _ Vj N1) as [Bq _]. rewrite Bq, B1, Bp. f_equal.
    cbn [before]. change (is_leaf (remove_item j nd)) with (is_leaf nd). rewrite Lf.
    unfold remove_item. cbn [n_items]. apply firstn_remove_at. unfold n_count in Hj. lia.
  - (* the item is a separator in an internal node *)
    destruct (shape_internal _ _ _ Snd Lf) as [dd Edd]. rewrite Edd in Snd.
    pose proof Snd as (_ & _ & Lnd & _).
    destruct (shape_child_ex _ _ _ j Snd (Nat.lt_le_incl _ _ Hj)) as (lch & El & Sl).
    destruct (shape_child_ex _ _ _ (S j) Snd Hj) as (rch & Er & Sr).
    rewrite El, Er. rewrite (shape_height maxCap _ _ Snd). cbn [Nat.pred].
    destruct (leftmost_spec maxCap Hpos dd rch Sr) as (Vlm & Llm & Blm).
    destruct (post_head nd j Hj) as [T ET].
    assert (Bnd : before [] nd j = pre nd j ++ flatten lch).
    { cbn [before]. rewrite Lf, (nth_flat nd j lch El). reflexivity. }
    assert (And : after [] nd j = post nd j) by (cbn [after]; rewrite Lf; reflexivity).
    assert (Etl : tl (after p r j) = T ++ ctxa p r) by (rewrite Ap, And, ET; reflexivity).
    pose proof (last_nonempty_spec maxCap Hpos dd lch Sl) as LN.
    destruct (last_nonempty dd lch) as [q|].
    + (* the left subtree has a last item x: it replaces the separator *)
      destruct LN as (cn & Ecn & Hc & Sl' & Fl').
      assert (Ecp : node_at (p ++ j :: q) r = Some cn) by (rewrite node_at_app, En; cbn [node_at]; rewrite El; exact Ecn).
      rewrite Ecp. set (x := last (n_items cn) 0%Z) in *.
      rewrite update_at_app, update_at_twice, (update_at_const p _ r nd En).
      set (lch' := update_at q dropl lch) in *.
      assert (End2 : update_at (j :: q) (fun n => Node (n_cap n) (removelast (n_items n)) (if is_leaf n then [] else removelast (n_children n)))
                       (Node (n_cap nd) (replace_at j x (n_items nd)) (n_children nd))
                     = Node (n_cap nd) (replace_at j x (n_items nd)) (replace_at j lch' (n_children nd))).
      { cbn [update_at n_children n_cap n_items]. rewrite El. reflexivity. }
      rewrite End2.
      destruct (remove_node_some maxCap Hpos dd nd j lch lch' x Snd Hj El Sl') as (S2n & F2n & E2n & P2n).
      set (nd2 := Node (n_cap nd) (replace_at j x (n_items nd)) (replace_at j lch' (n_children nd))) in *.
      assert (S2n' : shape (d - length p) nd2) by (rewrite Edd; exact S2n).
      destruct (update_ctx maxCap Hpos p d r nd2 Sh V0 S2n') as (S1 & N1 & B1 & A1 & V1).
      set (r1 := update_at p (fun _ => nd2) r) in *.
      assert (Vloc : valid (d - length p) (S j :: leftmost dd rch) nd2 0).
      { rewrite Edd. cbn [valid]. rewrite E2n, Er. exact Vlm. }
      destruct (pos_app p d r1 nd2 (S j :: leftmost dd rch) 0 V1 N1 Vloc) as [Vsp Bsp].
      apply (finish_remove d); [exact S1 | | exact Vsp | |].
      * rewrite (flatten_ctx maxCap p d r1 nd2 S1 V1 N1), B1, A1, F2n, Etl, Bp, Bnd, Fl', ET. cbn [tl].
        rewrite <- ?app_assoc. reflexivity.
      * rewrite app_length. cbn [length]. rewrite Llm. lia.
      * rewrite Bsp, B1. cbn [before]. rewrite E2n, Er, Blm, app_nil_r, P2n, Bp, Bnd, Fl', <- ?app_assoc. reflexivity.
    + (* the left subtree holds no item: pvDestroyInternal(node, itemIndex, false) *)
      rewrite (update_at_const p _ r nd En).
      destruct (remove_node_none maxCap Hpos dd nd j Snd Hj) as (S2n & F2n & E2n & P2n).
      set (nd2 := Node (n_cap nd) (remove_at j (n_items nd)) (remove_at j (n_children nd))) in *.
      assert (S2n' : shape (d - length p) nd2) by (rewrite Edd; exact S2n).
      destruct (update_ctx maxCap Hpos p d r nd2 Sh V0 S2n') as (S1 & N1 & B1 & A1 & V1).
      set (r1 := update_at p (fun _ => nd2) r) in *.
      assert (Vloc : valid (d - length p) (j :: leftmost dd rch) nd2 0).
      { rewrite Edd. cbn [valid]. rewrite E2n, Er. exact Vlm. }
      destruct (pos_app p d r1 nd2 (j :: leftmost dd rch) 0 V1 N1 Vloc) as [Vsp Bsp].
      apply (finish_remove d); [exact S1 | | exact Vsp | |].
      * rewrite (flatten_ctx maxCap p d r1 nd2 S1 V1 N1), B1, A1, F2n, Etl, Bp, Bnd, LN, ET. cbn [tl].
        rewrite app_nil_r, <- ?app_assoc. reflexivity.
      * rewrite app_length. cbn [length]. rewrite Llm. lia.
      * rewrite Bsp, B1. cbn [before]. rewrite E2n, Er, Blm, app_nil_r, P2n, Bp, Bnd, LN, app_nil_r. reflexivity.
Qed.

End Rem3.
