(* C07 / L1 -> L0, part 2: the consistency relation (RefineProofs.v) is preserved by every operation on one
   unique hash and on one multi hash - accepted AND rejected - for every entry order and visibility relation.
   Lifted to the whole DataIndexes state in ReachProofs.v. *)
From Coq Require Import List ZArith Lia Bool Arith PeanoNat Permutation.
From C07 Require Import TableSpec TableProofs MultiHash MultiHashProofs SegProofs IndexModel IndexProofs AtomicProofs RefineProofs.
Import ListNotations.

(* ================================================================ permutation invariance *)

Lemma minv_perm ct m gs' :
  minv ct m -> Permutation (mgroups m) gs' -> minv ct (mkM (mcols m) gs' (mpadd m) (mprem m)).
Proof.
  intros [Hc Ht Hr Hk Hs Hv] P. constructor; simpl; auto.
  - eapply Permutation_NoDup; [apply Permutation_map; exact P|exact Ht].
  - eapply Permutation_NoDup; [apply allrows_perm; exact P|exact Hr].
  - intros g r Hg. apply Hk. apply (Permutation_in _ (Permutation_sym P)). exact Hg.
  - eapply Permutation_NoDup; [apply Permutation_map; exact P|exact Hs].
  - intros g Hg. apply Hv. apply (Permutation_in _ (Permutation_sym P)). exact Hg.
Qed.

Lemma uinv_perm ct u es' :
  uinv ct u -> Permutation (uents u) es' -> uinv ct (mkU (ucols u) es' (upadd u) (uprem u)).
Proof.
  intros (Ha & Hr & Ht & Hk & Hs) P. unfold uinv. simpl. repeat split; auto.
  - eapply Permutation_NoDup; [apply Permutation_map; exact P|exact Ht].
  - eapply Permutation_NoDup; [apply Permutation_map; exact P|exact Hk].
  - eapply Permutation_Forall; [exact P|exact Hs].
Qed.

(* ================================================================ group-list tools (up to permutation) *)

Lemma in_perm_split {A B} (f : A -> B) l x :
  NoDup (map f l) -> In x l -> exists rest, Permutation l (x :: rest) /\ (forall y, In y rest -> f y <> f x).
Proof.
  intros Hn Hin. destruct (in_split _ _ Hin) as (a & b & ->). exists (a ++ b). split.
  - symmetry. apply Permutation_middle.
  - intros y Hy E. rewrite map_app in Hn. simpl in Hn. apply NoDup_remove_2 in Hn. apply Hn.
    rewrite <- map_app, <- E. apply in_map. exact Hy.
Qed.

Lemma map_id_on {A} (h : A -> A) l : (forall x, In x l -> h x = x) -> map h l = l.
Proof.
  induction l as [|x l IH]; intros H; [reflexivity|]. simpl. rewrite (H x (or_introl eq_refl)), IH; [reflexivity|].
  intros y Hy. apply H. right. exact Hy.
Qed.

Lemma update_group_perm t f gs g rest :
  Permutation gs (g :: rest) -> gtag g = t -> (forall x, In x rest -> gtag x <> t) ->
  Permutation (m_update_group t f gs) (f g :: rest).
Proof.
  intros P Ht Hne. unfold m_update_group. etransitivity; [apply Permutation_map; exact P|]. simpl.
  rewrite Ht, Nat.eqb_refl. apply perm_skip. rewrite map_id_on; [reflexivity|].
  intros x Hx. replace (Nat.eqb (gtag x) t) with false by (symmetry; apply Nat.eqb_neq; apply Hne; exact Hx). reflexivity.
Qed.

Lemma remove_group_perm t gs g rest :
  Permutation gs (g :: rest) -> gtag g = t -> (forall x, In x rest -> gtag x <> t) ->
  Permutation (m_remove_group t gs) rest.
Proof.
  intros P Ht Hne. unfold m_remove_group. etransitivity; [apply filter_perm; exact P|]. simpl.
  rewrite Ht, Nat.eqb_refl. simpl. rewrite filter_all; [reflexivity|].
  intros x Hx. apply negb_true_iff, Nat.eqb_neq. apply Hne. exact Hx.
Qed.

Lemma get_group_perm t gs g rest :
  Permutation gs (g :: rest) -> gtag g = t -> (forall x, In x rest -> gtag x <> t) -> m_get_group t gs = Some g.
Proof.
  intros P Ht Hne. unfold m_get_group. apply find_unique_match.
  - apply (Permutation_in _ (Permutation_sym P)). left. reflexivity.
  - apply Nat.eqb_eq. exact Ht.
  - intros y Hy Hty. apply Nat.eqb_eq in Hty. apply (Permutation_in _ P) in Hy. destruct Hy as [<-|Hy]; [reflexivity|].
    exfalso. exact (Hne y Hy Hty).
Qed.

Lemma allrows_cons g gs : allrows (g :: gs) = rows_of g ++ allrows gs.
Proof. reflexivity. Qed.

Lemma perm_move {A} (a : A) l1 l2 : Permutation (l1 ++ a :: l2) (a :: l1 ++ l2).
Proof. symmetry. apply Permutation_middle. Qed.

(* ================================================================ MultiHash::AcceptRemove on the group with tag t0 *)

Lemma accept_remove_group cols gs pa t0 g0 rest raw :
  Permutation gs (g0 :: rest) -> gtag g0 = t0 -> (forall x, In x rest -> gtag x <> t0) ->
  In raw (rows_of g0) -> vals_ok (gvals g0) ->
  let m' := m_accept_remove (mkM cols gs pa (Some t0)) raw in
  mcols m' = cols /\ mpadd m' = pa /\ mprem m' = None /\
  ((rows_of g0 = [raw] /\ Permutation (mgroups m') rest) \/
   (exists g0', Permutation (mgroups m') (g0' :: rest) /\ gtag g0' = t0 /\ gskey g0' = gskey g0 /\
                vals_ok (gvals g0') /\ Permutation (rows_of g0) (raw :: rows_of g0'))).
Proof.
  intros P Ht Hne Hin Hvok. unfold m_accept_remove. cbn [mprem mgroups mcols mpadd].
  rewrite (get_group_perm t0 gs g0 rest P Ht Hne).
  destruct (gvals g0) as [|v0 vs] eqn:Ev.
  - cbn [mcols mpadd mprem mgroups]. repeat split. left. unfold rows_of in *. rewrite Ev in *.
    destruct Hin as [E|[]]. split; [rewrite E; reflexivity|]. eapply remove_group_perm; eassumption.
  - destruct (Z.eqb_spec (gkey g0) raw) as [Ek|Ek].
    + cbn [mcols mpadd mprem mgroups]. repeat split. right.
      eexists. split; [eapply update_group_perm; eassumption|]. cbn [gtag gskey gvals gkey]. repeat split; auto.
      * try rewrite Ev. apply segs_ok_removelast. exact Hvok.
      * unfold rows_of. cbn [gkey gvals]. rewrite Ek, Ev. apply perm_skip.
        rewrite (app_removelast_last 0%Z (l := v0 :: vs)) at 1 by discriminate.
        symmetry. apply Permutation_cons_append.
    + assert (Hinv : In raw (v0 :: vs)).
      { unfold rows_of in Hin. rewrite Ev in Hin. destruct Hin as [E|H]; [contradiction|exact H]. }
      destruct (multihash_remove_preserves raw (v0 :: vs) Hvok Hinv) as (vs' & He & Hp & Hok').
      rewrite He. cbn [mcols mpadd mprem mgroups]. repeat split. right.
      eexists. split; [eapply update_group_perm; eassumption|]. cbn [gtag gskey gvals gkey]. repeat split; auto.
      unfold rows_of. cbn [gkey gvals]. try rewrite Ev. etransitivity; [apply perm_skip; exact Hp|apply perm_swap].
Qed.

(* ================================================================ lookups under the invariant *)

Lemma m_find_some R ct m k g :
  minv ct m -> m_find R ct m k = Some g -> In g (mgroups m) /\ gskey g = k.
Proof.
  intros Hi E. unfold m_find in E. apply find_some in E as [Hin Hp]. apply andb_true_iff in Hp as [_ Hp].
  apply zlist_eqb_eq in Hp. split; [exact Hin|]. rewrite <- Hp. symmetry. apply (mi_keys ct m Hi g); [exact Hin|left; reflexivity].
Qed.

Lemma m_find_none R ct m k :
  (forall s, R s s = true) -> minv ct m -> m_find R ct m k = None -> forall g, In g (mgroups m) -> gskey g <> k.
Proof.
  intros HR Hi E g Hg Ek. unfold m_find in E. eapply find_none in E; [|exact Hg]. simpl in E.
  rewrite (mi_keys ct m Hi g (gkey g) Hg (or_introl eq_refl)), Ek, HR, zlist_eqb_refl in E. discriminate.
Qed.

Lemma group_of_row ct m raw :
  minv ct m -> In raw (allrows (mgroups m)) ->
  exists g0, In g0 (mgroups m) /\ In raw (rows_of g0) /\ gskey g0 = keyc ct (mcols m) raw.
Proof.
  intros Hi Hin. unfold allrows in Hin. apply in_flat_map in Hin as (g0 & Hg & Hr). exists g0.
  split; [exact Hg|]. split; [exact Hr|]. symmetry. apply (mi_keys ct m Hi g0 raw Hg Hr).
Qed.

Lemma NoDup_app_disj {A} (l1 l2 : list A) x : NoDup (l1 ++ l2) -> In x l1 -> ~ In x l2.
Proof.
  induction l1 as [|y l1 IH]; simpl; intros Hn Hin Hx; [contradiction|]. inversion Hn; subst.
  destruct Hin as [->|Hin]; [apply H1; apply in_app_iff; right; exact Hx|eapply IH; eassumption].
Qed.

Lemma NoDup_perm_cons_notin {A} (l l' : list A) x : NoDup l -> Permutation l (x :: l') -> ~ In x l' /\ NoDup l'.
Proof. intros Hn P. pose proof (Permutation_NoDup P Hn) as H. inversion H; auto. Qed.

(* ================================================================ building the multi-hash invariant group by group *)

Lemma minv_tail ct cols g rest : minv ct (mkM cols (g :: rest) None None) -> minv ct (mkM cols rest None None).
Proof.
  intros [Hc Ht Hr Hk Hs Hv]. cbn [mgroups mcols mpadd mprem] in *. constructor; cbn [mgroups mcols mpadd mprem].
  - exact Hc.
  - cbn [map] in Ht. inversion Ht; assumption.
  - rewrite allrows_cons in Hr. eapply NoDup_app_r; exact Hr.
  - intros x r Hx. apply Hk. right. exact Hx.
  - cbn [map] in Hs. inversion Hs; assumption.
  - intros x Hx. apply Hv. right. exact Hx.
Qed.

Lemma minv_add_head ct ct' cols gn rest :
  minv ct (mkM cols rest None None) ->
  ~ In (gtag gn) (map gtag rest) -> ~ In (gskey gn) (map gskey rest) -> vals_ok (gvals gn) ->
  NoDup (rows_of gn ++ allrows rest) ->
  (forall r, In r (rows_of gn) -> keyc ct' cols r = gskey gn) ->
  (forall r, In r (allrows rest) -> keyc ct' cols r = keyc ct cols r) ->
  minv ct' (mkM cols (gn :: rest) None None).
Proof.
  intros [Hc Ht Hr Hk Hs Hv] Htag Hskey Hvok Hnd Hkn Hext. cbn [mgroups mcols mpadd mprem] in *.
  constructor; cbn [mgroups mcols mpadd mprem].
  - exact Hc.
  - cbn [map]. constructor; assumption.
  - rewrite allrows_cons. exact Hnd.
  - intros x r [<-|Hx] Hrx; [apply Hkn; exact Hrx|].
    rewrite Hext; [apply Hk; assumption|]. unfold allrows. apply in_flat_map. exists x. split; assumption.
  - cbn [map]. constructor; assumption.
  - intros x [<-|Hx]; [exact Hvok|apply Hv; exact Hx].
Qed.

Lemma minv_head_facts ct cols g rest :
  minv ct (mkM cols (g :: rest) None None) ->
  ~ In (gtag g) (map gtag rest) /\ ~ In (gskey g) (map gskey rest) /\ NoDup (rows_of g ++ allrows rest) /\
  (forall r, In r (rows_of g) -> keyc ct cols r = gskey g) /\ vals_ok (gvals g).
Proof.
  intros [Hc Ht Hr Hk Hs Hv]. cbn [mgroups mcols mpadd mprem map] in *. inversion Ht; inversion Hs; subst.
  rewrite allrows_cons in Hr. repeat split; auto.
  - intros r Hr0. apply (Hk g r); [left; reflexivity|exact Hr0].
  - apply Hv. left. reflexivity.
Qed.

Lemma clean_eq m : mpadd m = None -> mprem m = None -> m = mkM (mcols m) (mgroups m) None None.
Proof. destruct m; simpl; intros; subst; reflexivity. Qed.

Lemma m_cons_of_parts ct rs m' cols L :
  mcols m' = cols -> mpadd m' = None -> mprem m' = None -> Permutation (mgroups m') L ->
  minv ct (mkM cols L None None) -> Permutation (allrows L) rs -> m_cons ct rs m'.
Proof.
  destruct m' as [c gs pa pr]. cbn [mcols mpadd mprem mgroups]. intros -> -> -> P Hi Hr. split.
  - apply (minv_perm ct (mkM cols L None None) gs Hi). symmetry. exact P.
  - cbn [mgroups]. etransitivity; [apply allrows_perm; exact P|exact Hr].
Qed.

(* ================================================================ MultiHash::PrepareRemove finds the row's group *)

Lemma m_prepare_remove_spec fixm R ct cols gs pa raw g0 :
  (forall s, R s s = true) -> minv ct (mkM cols gs None None) -> In g0 gs -> In raw (rows_of g0) ->
  m_prepare_remove fixm R ct (mkM cols gs pa None) raw = mkM cols gs pa (Some (gtag g0)).
Proof.
  intros HR Hi Hg0 Hraw. unfold m_prepare_remove. cbn [mcols mgroups mpadd mprem].
  assert (Hk0 : keyc ct cols raw = gskey g0) by (apply (mi_keys ct _ Hi g0 raw Hg0 Hraw)).
  assert (Hkk : forall g, In g gs -> keyc ct cols (gkey g) = gskey g).
  { intros g Hg. apply (mi_keys ct _ Hi g (gkey g) Hg). left. reflexivity. }
  assert (Huniq : forall y, In y gs -> keyc ct cols (gkey y) = keyc ct cols raw -> y = g0).
  { intros y Hy E. eapply NoDup_map_inj; [exact (mi_skeys ct _ Hi)|exact Hy|exact Hg0|]. rewrite <- (Hkk y Hy), E. exact Hk0. }
  assert (Hfind : m_find R ct (mkM cols gs pa None) (keyc ct cols raw) = Some g0).
  { unfold m_find. cbn [mcols mgroups]. apply find_unique_match; [exact Hg0| |].
    - rewrite (Hkk g0 Hg0), Hk0, HR, zlist_eqb_refl. reflexivity.
    - intros y Hy Hp. apply andb_true_iff in Hp as [_ Hp]. apply zlist_eqb_eq in Hp. apply Huniq; assumption. }
  rewrite Hfind.
  destruct (fixm && opt_nat_eqb pa (gtag g0)); [|reflexivity].
  rewrite find_none_all; [reflexivity|]. intros y Hy. apply andb_false_iff.
  destruct (zlist_eqb (keyc ct cols (gkey y)) (keyc ct cols raw)) eqn:E; [|right; reflexivity]. left.
  apply zlist_eqb_eq in E. rewrite (Huniq y Hy E). rewrite Nat.eqb_refl. reflexivity.
Qed.

(* ================================================================ MultiHash: RemoveRaw *)

Theorem m_accept_remove_cons ct rs rs' cols gs g0 raw :
  minv ct (mkM cols gs None None) -> Permutation (allrows gs) rs -> In g0 gs -> In raw (rows_of g0) ->
  Permutation rs (raw :: rs') ->
  m_cons ct rs' (m_accept_remove (mkM cols gs None (Some (gtag g0))) raw).
Proof.
  intros Hi Hperm Hg0 Hraw Hrs.
  destruct (in_perm_split gtag gs g0 (mi_tags ct _ Hi) Hg0) as (rest & P & Hne).
  pose proof (minv_perm ct _ _ Hi P) as Hi1. cbn [mcols mpadd mprem mgroups] in Hi1.
  destruct (minv_head_facts ct cols g0 rest Hi1) as (Htag & Hskey & Hnd & Hk0 & Hvok).
  assert (Hrows0 : Permutation (rows_of g0 ++ allrows rest) (raw :: rs')).
  { etransitivity; [|exact Hrs]. etransitivity; [|exact Hperm]. rewrite <- allrows_cons. apply allrows_perm. symmetry. exact P. }
  destruct (accept_remove_group cols gs None (gtag g0) g0 rest raw P eq_refl Hne Hraw Hvok) as (Ec & Ea & Er & [[E1 PL]|(g0' & PL & Et & Es & Hvok' & Pr)]).
  - apply (m_cons_of_parts ct rs' _ cols rest Ec Ea Er PL); [apply (minv_tail ct cols g0 rest Hi1)|].
    rewrite E1 in Hrows0. simpl in Hrows0. eapply Permutation_cons_inv. exact Hrows0.
  - assert (Hnd' : NoDup (raw :: rows_of g0' ++ allrows rest)).
    { eapply Permutation_NoDup; [|exact Hnd]. apply (Permutation_app_tail (allrows rest) Pr). }
    inversion Hnd' as [|? ? Hnotin Hnd'']; subst.
    apply (m_cons_of_parts ct rs' _ cols (g0' :: rest) Ec Ea Er PL).
    + apply (minv_add_head ct ct cols g0' rest (minv_tail ct cols g0 rest Hi1)); auto.
      * rewrite Et. exact Htag.
      * rewrite Es. exact Hskey.
      * intros r Hr. rewrite Es. apply Hk0. apply (Permutation_in _ (Permutation_sym Pr)). right. exact Hr.
    + rewrite allrows_cons.
      eapply Permutation_cons_inv. etransitivity; [|exact Hrows0]. symmetry. apply (Permutation_app_tail (allrows rest) Pr).
Qed.

(* RemoveRaw on one multi hash: PrepareRemove + AcceptRemove *)
Theorem m_remove_preserves_cons fixm R ct rs rs' m raw :
  (forall s, R s s = true) -> m_cons ct rs m -> Permutation rs (raw :: rs') ->
  m_cons ct rs' (m_accept_remove (m_prepare_remove fixm R ct m raw) raw).
Proof.
  intros HR [Hi Hperm] Hrs. destruct (mi_clean ct m Hi) as [Ha Hr].
  assert (Hin : In raw (allrows (mgroups m))).
  { apply (Permutation_in _ (Permutation_sym Hperm)). apply (Permutation_in _ (Permutation_sym Hrs)). left. reflexivity. }
  destruct (group_of_row ct m raw Hi Hin) as (g0 & Hg0 & Hraw & _).
  rewrite (clean_eq m Ha Hr) in Hi |- *. cbn [mcols mgroups] in *.
  rewrite (m_prepare_remove_spec fixm R ct (mcols m) (mgroups m) None raw g0 HR Hi Hg0 Hraw).
  apply (m_accept_remove_cons ct rs rs' (mcols m) (mgroups m) g0 raw Hi Hperm Hg0 Hraw Hrs).
Qed.

(* ================================================================ MultiHash: UpdateRaw(oldRaw, newRaw) *)

Theorem m_update_preserves_cons fixm ord R ct rs rs' m old new tag :
  (forall s, R s s = true) -> m_cons ct rs m -> ~ In tag (map gtag (mgroups m)) -> ~ In new rs ->
  (forall g, In g (mgroups m) -> length (gvals g) < max_vals) ->
  Permutation (rs ++ [new]) (old :: rs') ->
  m_cons ct rs' (m_accept_remove (m_accept_add (m_prepare_remove fixm R ct (m_add ord R ct m new tag) old)) old).
Proof.
  intros HR Hc Htag Hnew Hsmall Hrs.
  pose proof (m_add_preserves_cons ord R ct rs m new tag HR Hc Htag Hnew Hsmall) as [Hi1 Hp1].
  set (m1 := m_add ord R ct m new tag) in *.
  assert (Hcols : mcols m1 = mcols m) by (unfold m1, m_add; destruct (m_find R ct m _); reflexivity).
  assert (Hprem : mprem m1 = None).
  { unfold m1, m_add. destruct Hc as [Hi _]. destruct (mi_clean ct m Hi) as [_ Hr]. destruct (m_find R ct m _); exact Hr. }
  unfold m_accept_add in Hi1, Hp1. cbn [mgroups] in Hp1.
  assert (Hin : In old (allrows (mgroups m1))).
  { apply (Permutation_in _ (Permutation_sym Hp1)). apply (Permutation_in _ (Permutation_sym Hrs)). left. reflexivity. }
  rewrite Hprem in Hi1.
  destruct (group_of_row ct _ old Hi1 Hin) as (g0 & Hg0 & Hraw & _). cbn [mgroups mcols] in *.
  assert (Em1 : m1 = mkM (mcols m1) (mgroups m1) (mpadd m1) None) by (destruct m1; simpl in *; subst; reflexivity).
  rewrite Em1.
  rewrite (m_prepare_remove_spec fixm R ct (mcols m1) (mgroups m1) (mpadd m1) old g0 HR Hi1 Hg0 Hraw).
  unfold m_accept_add. cbn [mcols mgroups mprem].
  apply (m_accept_remove_cons ct (rs ++ [new]) rs' (mcols m1) (mgroups m1) g0 old Hi1 Hp1 Hg0 Hraw Hrs).
Qed.

(* ================================================================ MultiHash: Add (or Add(mixed key)) then RejectAdd *)

Lemma m_add_like_reject_cons ord (found : option mgroup) ct rs m raw k t :
  m_cons ct rs m -> ~ In t (map gtag (mgroups m)) -> (forall g, found = Some g -> In g (mgroups m)) ->
  (forall g, In g (mgroups m) -> length (gvals g) < max_vals) ->
  let m1 := match found with
            | Some g => mkM (mcols m) (m_update_group (gtag g) (fun g => mkG (gtag g) (gkey g) (gskey g) (pv_add raw (gvals g))) (mgroups m))
                            (Some (gtag g)) (mprem m)
            | None => mkM (mcols m) (place ord t (mkG t raw k []) (mgroups m)) (Some t) (mprem m)
            end in
  m_cons ct rs (m_reject_add m1).
Proof.
  intros [Hi Hperm] Htag Hfound Hsmall m1. destruct (mi_clean ct m Hi) as [Ha Hr]. unfold m1. destruct found as [g|].
  - specialize (Hfound g eq_refl).
    destruct (in_perm_split gtag (mgroups m) g (mi_tags ct m Hi) Hfound) as (rest & P & Hne).
    pose proof (minv_perm ct m _ Hi P) as Hi1. rewrite Ha, Hr in Hi1.
    destruct (minv_head_facts ct (mcols m) g rest Hi1) as (Htg & Hsk & Hnd & Hk0 & Hvok).
    set (fA := fun g0 => mkG (gtag g0) (gkey g0) (gskey g0) (pv_add raw (gvals g0))).
    assert (P1 : Permutation (m_update_group (gtag g) fA (mgroups m)) (fA g :: rest)) by (apply update_group_perm; auto).
    unfold m_reject_add. cbn [mpadd mgroups mcols mprem].
    rewrite (get_group_perm (gtag g) _ (fA g) rest P1 eq_refl Hne).
    destruct (pv_add_perm raw (gvals g)) as (v1 & Ev & Pv).
    assert (Hne1 : gvals (fA g) <> []) by (cbn [fA gvals]; rewrite Ev; destruct v1; discriminate).
    destruct (gvals (fA g)) eqn:Egv; [congruence|]. clear Egv.
    set (h := fun g0 => mkG (gtag g0) (gkey g0) (gskey g0) (removelast (gvals g0))).
    assert (P2 : Permutation (m_update_group (gtag g) h (m_update_group (gtag g) fA (mgroups m))) (h (fA g) :: rest)).
    { apply (update_group_perm (gtag g) h _ (fA g) rest P1 eq_refl Hne). }
    assert (Hvals : gvals (h (fA g)) = v1) by (cbn [h fA gvals]; rewrite Ev; apply removelast_last).
    eapply m_cons_of_parts with (cols := mcols m) (L := h (fA g) :: rest); [reflexivity|reflexivity|exact Hr|exact P2| |].
    + apply (minv_add_head ct ct (mcols m) (h (fA g)) rest (minv_tail ct (mcols m) g rest Hi1)); auto.
      * rewrite Hvals. destruct (pv_add_preserves raw (gvals g) Hvok (Hsmall g Hfound)) as [Hok _].
        rewrite Ev in Hok. pose proof (segs_ok_removelast _ _ _ Hok) as H. rewrite removelast_last in H. exact H.
      * unfold rows_of. rewrite Hvals. cbn [h fA gkey]. eapply Permutation_NoDup; [|exact Hnd].
        apply Permutation_app_tail. unfold rows_of. apply perm_skip. symmetry. exact Pv.
      * intros r Hr0. cbn [h fA gskey]. apply Hk0. unfold rows_of in *. rewrite Hvals in Hr0. cbn [h fA gkey] in Hr0.
        destruct Hr0 as [E|Hr0]; [left; exact E|right; apply (Permutation_in _ Pv); exact Hr0].
    + rewrite allrows_cons. unfold rows_of at 1. rewrite Hvals. cbn [h fA gkey].
      etransitivity; [|exact Hperm]. etransitivity; [|apply allrows_perm; symmetry; exact P]. rewrite allrows_cons.
      apply Permutation_app_tail. unfold rows_of. apply perm_skip. exact Pv.
  - unfold m_reject_add. cbn [mpadd mgroups mcols mprem].
    pose proof (place_perm ord t (mkG t raw k []) (mgroups m)) as P1.
    assert (Hne : forall x, In x (mgroups m) -> gtag x <> t).
    { intros x Hx E. apply Htag. rewrite <- E. apply in_map. exact Hx. }
    rewrite (get_group_perm t _ (mkG t raw k []) (mgroups m) P1 eq_refl Hne). cbn [gvals].
    pose proof (remove_group_perm t _ (mkG t raw k []) (mgroups m) P1 eq_refl Hne) as P2.
    eapply m_cons_of_parts with (cols := mcols m) (L := mgroups m); [reflexivity|reflexivity|exact Hr|exact P2| |exact Hperm].
    rewrite (clean_eq m Ha Hr) in Hi. exact Hi.
Qed.

Theorem m_add_reject_cons ord R ct rs m raw t :
  m_cons ct rs m -> ~ In t (map gtag (mgroups m)) -> ~ In raw rs ->
  (forall g, In g (mgroups m) -> length (gvals g) < max_vals) ->
  m_cons ct rs (m_reject_add (m_add ord R ct m raw t)).
Proof.
  intros Hc Ht Hraw Hsmall. unfold m_add. destruct (m_find R ct m _) as [g|] eqn:Ef.
  - assert (Hin : In g (mgroups m)) by (unfold m_find in Ef; apply find_some in Ef; tauto).
    destruct (Z.eqb_spec (gkey g) raw) as [E|E].
    + exfalso. apply Hraw. destruct Hc as [_ Hp]. apply (Permutation_in _ Hp). unfold allrows. apply in_flat_map.
      exists g. split; [exact Hin|left; exact E].
    + apply (m_add_like_reject_cons ord (Some g) ct rs m raw [] t Hc Ht); [intros g0 H0; inversion H0; subst; exact Hin|exact Hsmall].
  - apply (m_add_like_reject_cons ord None ct rs m raw _ t Hc Ht); [discriminate|exact Hsmall].
Qed.

Theorem m_addmixed_reject_cons ord R ct rs m raw c v t :
  m_cons ct rs m -> ~ In t (map gtag (mgroups m)) ->
  (forall g, In g (mgroups m) -> length (gvals g) < max_vals) ->
  m_cons ct rs (m_reject_add (m_add_mixed ord R ct m raw c v t)).
Proof.
  intros Hc Ht Hsmall. unfold m_add_mixed. destruct (m_find R ct m _) as [g|] eqn:Ef.
  - assert (Hin : In g (mgroups m)) by (unfold m_find in Ef; apply find_some in Ef; tauto).
    apply (m_add_like_reject_cons ord (Some g) ct rs m raw [] t Hc Ht); [intros g0 H0; inversion H0; subst; exact Hin|exact Hsmall].
  - apply (m_add_like_reject_cons ord None ct rs m raw _ t Hc Ht); [discriminate|exact Hsmall].
Qed.

(* ================================================================ MultiHash: UpdateRaw(raw, column, item) accepted *)

Lemma keyc_other ct raw c v cols r :
  r <> raw -> keyc (fun x => if Z.eqb x raw then set_col c v (ct raw) else ct x) cols r = keyc ct cols r.
Proof. intros H. unfold keyc. destruct (Z.eqb_spec r raw); [contradiction|reflexivity]. Qed.

Lemma keyc_self ct raw c v cols :
  keyc (fun x => if Z.eqb x raw then set_col c v (ct raw) else ct x) cols raw = proj cols (set_col c v (ct raw)).
Proof. unfold keyc. rewrite Z.eqb_refl. reflexivity. Qed.

Lemma not_in_ne {A} (x : A) l : ~ In x l -> forall r, In r l -> r <> x.
Proof. intros H r Hr E. subst. contradiction. Qed.

(* the analogue of C07_update_column_index_consistent for the multi hash, code after 2211fdb (fixm = true):
   the row leaves its old group and joins the group of its new key (created if necessary); everything else,
   including the sorted segments, stays consistent *)
Theorem m_update_column_preserves_cons ord R ct rs m raw c v tag :
  (forall s, R s s = true) -> m_cons ct rs m -> In raw rs -> ~ In tag (map gtag (mgroups m)) ->
  has_col (mcols m) c = true -> c < length (ct raw) -> v <> getc (ct raw) c ->
  (forall g, In g (mgroups m) -> length (gvals g) < max_vals) ->
  let ct' := fun x => if Z.eqb x raw then set_col c v (ct raw) else ct x in
  m_cons ct' rs (m_accept_remove (m_accept_add (m_prepare_remove true R ct (m_add_mixed ord R ct m raw c v tag) raw)) raw).
Proof.
  intros HR [Hi Hperm] Hrs Htag Hcol Hlen Hv Hsmall ct'.
  destruct (mi_clean ct m Hi) as [Ha Hr].
  set (cols := mcols m) in *. set (gs := mgroups m) in *.
  set (k' := proj cols (set_col c v (ct raw))).
  assert (Hin : In raw (allrows gs)) by (apply (Permutation_in _ (Permutation_sym Hperm)); exact Hrs).
  destruct (group_of_row ct m raw Hi Hin) as (g0 & Hg0 & Hraw & Hk).
  fold cols in Hk. fold gs in Hg0.
  assert (Hkne : k' <> gskey g0) by (rewrite Hk; unfold k', keyc; apply proj_changes; assumption).
  destruct (in_perm_split gtag gs g0 (mi_tags ct m Hi) Hg0) as (rest0 & P0 & Hne0).
  pose proof (minv_perm ct m _ Hi P0) as Hi0. rewrite Ha, Hr in Hi0. fold cols in Hi0.
  destruct (minv_head_facts ct cols g0 rest0 Hi0) as (Htg0 & Hsk0 & Hnd0 & Hk0 & Hvok0).
  assert (Hkk : forall g, In g gs -> keyc ct cols (gkey g) = gskey g).
  { intros g Hg. apply (mi_keys ct m Hi g (gkey g) Hg). left. reflexivity. }
  assert (Hrawrest : ~ In raw (allrows rest0)) by (apply (NoDup_app_disj _ _ raw Hnd0 Hraw)).
  unfold m_add_mixed. fold cols. fold k'. fold gs.
  destruct (m_find R ct m k') as [gn|] eqn:Efind.
  - (* the new key exists: pvAdd into its group *)
    destruct (m_find_some R ct m k' gn Hi Efind) as [Hgn Hskn]. fold gs in Hgn.
    assert (Hgn0 : gn <> g0) by (intros ->; apply Hkne; symmetry; exact Hskn).
    assert (Hgnrest : In gn rest0).
    { apply (Permutation_in _ P0) in Hgn. destruct Hgn as [E|H]; [congruence|exact H]. }
    pose proof (minv_tail ct cols g0 rest0 Hi0) as Hit.
    destruct (in_perm_split gtag rest0 gn (mi_tags ct _ Hit) Hgnrest) as (rest1 & P1 & Hne1).
    pose proof (minv_perm ct _ _ Hit P1) as Hi1. cbn [mcols mpadd mprem] in Hi1.
    destruct (minv_head_facts ct cols gn rest1 Hi1) as (Htgn & Hskn1 & Hndn & Hkn & Hvokn).
    set (fA := fun g => mkG (gtag g) (gkey g) (gskey g) (pv_add raw (gvals g))).
    assert (Ptot : Permutation gs (gn :: g0 :: rest1)).
    { etransitivity; [exact P0|]. etransitivity; [apply perm_skip; exact P1|apply perm_swap]. }
    assert (Htn0 : gtag gn <> gtag g0) by (apply Hne0; exact Hgnrest).
    assert (Hne1' : forall x, In x (g0 :: rest1) -> gtag x <> gtag gn).
    { intros x [<-|Hx]; [congruence|apply Hne1; exact Hx]. }
    assert (Pg1 : Permutation (m_update_group (gtag gn) fA gs) (g0 :: fA gn :: rest1)).
    { etransitivity; [apply (update_group_perm (gtag gn) fA gs gn (g0 :: rest1) Ptot eq_refl Hne1')|apply perm_swap]. }
    set (gs1 := m_update_group (gtag gn) fA gs) in *.
    (* PrepareRemove: the old group *)
    assert (Hprep : m_prepare_remove true R ct (mkM cols gs1 (Some (gtag gn)) (mprem m)) raw
                    = mkM cols gs1 (Some (gtag gn)) (Some (gtag g0))).
    { unfold m_prepare_remove. cbn [mcols mgroups mpadd mprem].
      assert (Hf : m_find R ct (mkM cols gs1 (Some (gtag gn)) (mprem m)) (keyc ct cols raw) = Some g0).
      { unfold m_find. cbn [mcols mgroups]. apply find_unique_match.
        - apply (Permutation_in _ (Permutation_sym Pg1)). left. reflexivity.
        - rewrite (Hkk g0 Hg0), <- Hk, HR, zlist_eqb_refl. reflexivity.
        - intros y Hy Hp. apply andb_true_iff in Hp as [_ Hp]. apply zlist_eqb_eq in Hp.
          apply (Permutation_in _ Pg1) in Hy. destruct Hy as [<-|[<-|Hy]]; [reflexivity| |].
          + exfalso. cbn [fA gkey] in Hp. rewrite (Hkk gn Hgn), <- Hk in Hp. apply Hkne. rewrite <- Hskn. exact Hp.
          + assert (Hyg : In y gs) by (apply (Permutation_in _ (Permutation_sym Ptot)); right; right; exact Hy).
            eapply NoDup_map_inj; [exact (mi_skeys ct m Hi)|exact Hyg|exact Hg0|]. rewrite <- (Hkk y Hyg), Hp. symmetry. exact Hk. }
      rewrite Hf. cbn [andb opt_nat_eqb].
      replace (Nat.eqb (gtag gn) (gtag g0)) with false by (symmetry; apply Nat.eqb_neq; exact Htn0). reflexivity. }
    rewrite Hprep. unfold m_accept_add. cbn [mcols mgroups mprem].
    assert (Hne0' : forall x, In x (fA gn :: rest1) -> gtag x <> gtag g0).
    { intros x [<-|Hx]; [cbn [fA gtag]; exact Htn0|]. apply Hne0. apply (Permutation_in _ (Permutation_sym P1)). right. exact Hx. }
    destruct (pv_add_preserves raw (gvals gn) Hvokn (Hsmall gn Hgn)) as [Hvokn' Ppv].
    (* facts about rows *)
    assert (Hndall : NoDup (rows_of g0 ++ rows_of gn ++ allrows rest1)).
    { eapply Permutation_NoDup; [|exact Hnd0]. apply Permutation_app_head. rewrite <- allrows_cons. apply allrows_perm. exact P1. }
    assert (Hrawn : ~ In raw (rows_of gn ++ allrows rest1)) by (apply (NoDup_app_disj _ _ raw Hndall Hraw)).
    assert (Hndn' : NoDup (rows_of (fA gn) ++ allrows rest1)).
    { eapply Permutation_NoDup with (l := raw :: rows_of gn ++ allrows rest1).
      - change (raw :: rows_of gn ++ allrows rest1) with ((raw :: rows_of gn) ++ allrows rest1). apply Permutation_app_tail.
        unfold rows_of. cbn [fA gkey gvals]. etransitivity; [apply perm_swap|]. apply perm_skip. symmetry. exact Ppv.
      - constructor; [exact Hrawn|exact Hndn]. }
    assert (Hin1 : minv ct' (mkM cols (fA gn :: rest1) None None)).
    { apply (minv_add_head ct ct' cols (fA gn) rest1 (minv_tail ct cols gn rest1 Hi1)); auto.
      - intros r Hr0. cbn [fA gskey]. unfold rows_of in Hr0. cbn [fA gkey gvals] in Hr0.
        assert (Hr1 : r = raw \/ In r (rows_of gn)).
        { destruct Hr0 as [E|Hr0]; [right; left; exact E|]. apply (Permutation_in _ Ppv) in Hr0.
          destruct Hr0 as [E|Hr0]; [left; symmetry; exact E|right; right; exact Hr0]. }
        destruct Hr1 as [->|Hr1]; [unfold ct'; rewrite keyc_self; symmetry; exact Hskn|].
        unfold ct'. rewrite keyc_other; [apply Hkn; exact Hr1|].
        apply (not_in_ne raw _ Hrawn). apply in_app_iff. left. exact Hr1.
      - intros r Hr0. unfold ct'. apply keyc_other. apply (not_in_ne raw _ Hrawn). apply in_app_iff. right. exact Hr0. }
    assert (Prows1 : Permutation (rows_of (fA gn) ++ allrows rest1) (raw :: allrows rest0)).
    { etransitivity; [|apply perm_skip; apply allrows_perm; symmetry; exact P1]. rewrite allrows_cons.
      change (raw :: rows_of gn ++ allrows rest1) with ((raw :: rows_of gn) ++ allrows rest1). apply Permutation_app_tail.
      unfold rows_of. cbn [fA gkey gvals]. etransitivity; [apply perm_skip; exact Ppv|apply perm_swap]. }
    destruct (accept_remove_group cols gs1 None (gtag g0) g0 (fA gn :: rest1) raw Pg1 eq_refl Hne0' Hraw Hvok0)
      as (Ec & Ea' & Er' & [[E1 PL]|(g0' & PL & Et & Es & Hvok' & Pr)]).
    + eapply m_cons_of_parts with (cols := cols) (L := fA gn :: rest1); [exact Ec|exact Ea'|exact Er'|exact PL|exact Hin1|].
      rewrite allrows_cons. etransitivity; [exact Prows1|]. etransitivity; [|exact Hperm].
      etransitivity; [|apply allrows_perm; symmetry; exact P0]. rewrite allrows_cons, E1. reflexivity.
    + assert (Hnd' : NoDup (raw :: rows_of g0' ++ allrows rest0)).
      { eapply Permutation_NoDup; [|exact Hnd0]. apply (Permutation_app_tail (allrows rest0) Pr). }
      inversion Hnd' as [|? ? Hnotin Hnd'']; subst.
      change (gkey g0' :: gvals g0' ++ allrows rest0) with (rows_of g0' ++ allrows rest0) in Hnotin, Hnd''.
      assert (Hraw0' : ~ In raw (rows_of g0')) by (intros H; apply Hnotin; apply in_app_iff; left; exact H).
      eapply m_cons_of_parts with (cols := cols) (L := g0' :: fA gn :: rest1); [exact Ec|exact Ea'|exact Er'|exact PL| |].
      * apply (minv_add_head ct' ct' cols g0' (fA gn :: rest1) Hin1); auto.
        -- rewrite Et. cbn [map fA gtag]. intros [E|H]; [congruence|]. apply Htg0.
           apply (Permutation_in _ (Permutation_sym (Permutation_map gtag P1))). right. exact H.
        -- rewrite Es. cbn [map fA gskey]. intros [E|H]; [apply Hkne; rewrite <- Hskn; exact E|]. apply Hsk0.
           apply (Permutation_in _ (Permutation_sym (Permutation_map gskey P1))). right. exact H.
        -- rewrite allrows_cons. eapply Permutation_NoDup with (l := rows_of g0' ++ raw :: allrows rest0).
           ++ apply Permutation_app_head. symmetry. exact Prows1.
           ++ eapply Permutation_NoDup; [symmetry; apply perm_move|]. exact Hnd'.
        -- intros r Hr0. rewrite Es. unfold ct'. rewrite keyc_other; [|apply (not_in_ne raw _ Hraw0'); exact Hr0].
           apply Hk0. apply (Permutation_in _ (Permutation_sym Pr)). right. exact Hr0.
      * rewrite !allrows_cons. etransitivity; [apply Permutation_app_head; exact Prows1|].
        etransitivity; [apply perm_move|]. etransitivity; [|exact Hperm].
        etransitivity; [|apply allrows_perm; symmetry; exact P0]. rewrite allrows_cons.
        symmetry. apply (Permutation_app_tail (allrows rest0) Pr).
  - (* a fresh key: a new group whose key row is the row itself *)
    pose proof (m_find_none R ct m k' HR Hi Efind) as Hnone. fold gs in Hnone.
    set (gnew := mkG tag raw k' []).
    pose proof (place_perm ord tag gnew gs) as Pp.
    set (gs1 := place ord tag gnew gs) in *.
    assert (Pg1 : Permutation gs1 (g0 :: gnew :: rest0)).
    { etransitivity; [exact Pp|]. etransitivity; [apply perm_skip; exact P0|apply perm_swap]. }
    assert (Htag0 : gtag g0 <> tag) by (intros E; apply Htag; rewrite <- E; apply in_map; exact Hg0).
    assert (Hprep : m_prepare_remove true R ct (mkM cols gs1 (Some tag) (mprem m)) raw
                    = mkM cols gs1 (Some tag) (Some (gtag g0))).
    { unfold m_prepare_remove. cbn [mcols mgroups mpadd mprem].
      assert (Hcand : forall y, In y gs1 -> zlist_eqb (keyc ct cols (gkey y)) (keyc ct cols raw) = true -> y = gnew \/ y = g0).
      { intros y Hy Hp. apply zlist_eqb_eq in Hp. apply (Permutation_in _ Pp) in Hy. destruct Hy as [<-|Hy]; [left; reflexivity|right].
        eapply NoDup_map_inj; [exact (mi_skeys ct m Hi)|exact Hy|exact Hg0|]. rewrite <- (Hkk y Hy), Hp. symmetry. exact Hk. }
      assert (Hg0in1 : In g0 gs1) by (apply (Permutation_in _ (Permutation_sym Pg1)); left; reflexivity).
      assert (Hp0 : R (gskey g0) (keyc ct cols raw) && zlist_eqb (keyc ct cols (gkey g0)) (keyc ct cols raw) = true).
      { rewrite (Hkk g0 Hg0), <- Hk, HR, zlist_eqb_refl. reflexivity. }
      destruct (find_exists (fun g => R (gskey g) (keyc ct cols raw) && zlist_eqb (keyc ct cols (gkey g)) (keyc ct cols raw)) gs1 g0 Hg0in1 Hp0) as (e & Ee). unfold m_find. cbn [mcols mgroups]. rewrite Ee.
      apply find_some in Ee as [He Hpe]. apply andb_true_iff in Hpe as [_ Hpe].
      destruct (Hcand e He Hpe) as [->| ->].
      + cbn [gnew gtag andb opt_nat_eqb]. rewrite Nat.eqb_refl.
        rewrite (find_unique_match _ gs1 g0 Hg0in1); [reflexivity| |].
        * replace (Nat.eqb (gtag g0) tag) with false by (symmetry; apply Nat.eqb_neq; exact Htag0). cbn [negb andb].
          rewrite (Hkk g0 Hg0), <- Hk. apply zlist_eqb_refl.
        * intros y Hy Hpy. apply andb_true_iff in Hpy as [Hy1 Hy2]. destruct (Hcand y Hy Hy2) as [->| ->]; [|reflexivity].
          cbn [gnew gtag] in Hy1. rewrite Nat.eqb_refl in Hy1. discriminate.
      + cbn [andb opt_nat_eqb]. replace (Nat.eqb tag (gtag g0)) with false by (symmetry; apply Nat.eqb_neq; auto). reflexivity. }
    rewrite Hprep. unfold m_accept_add. cbn [mcols mgroups mprem].
    assert (Hne0' : forall x, In x (gnew :: rest0) -> gtag x <> gtag g0).
    { intros x [<-|Hx]; [cbn [gnew gtag]; auto|apply Hne0; exact Hx]. }
    pose proof (minv_tail ct cols g0 rest0 Hi0) as Hit.
    assert (Hin1 : minv ct' (mkM cols (gnew :: rest0) None None)).
    { apply (minv_add_head ct ct' cols gnew rest0 Hit).
      - cbn [gnew gtag]. intros H. apply Htag. apply (Permutation_in _ (Permutation_sym (Permutation_map gtag P0))). right. exact H.
      - cbn [gnew gskey]. intros H. apply in_map_iff in H as (y & Ey & Hy). apply (Hnone y); [|exact Ey].
        apply (Permutation_in _ (Permutation_sym P0)). right. exact Hy.
      - apply vals_ok_nil.
      - unfold rows_of. cbn [gnew gkey gvals app]. constructor; [exact Hrawrest|]. eapply NoDup_app_r; exact Hnd0.
      - intros r [<-|[]]. cbn [gnew gskey]. unfold ct'. apply keyc_self.
      - intros r Hr0. unfold ct'. apply keyc_other. apply (not_in_ne raw _ Hrawrest). exact Hr0. }
    destruct (accept_remove_group cols gs1 None (gtag g0) g0 (gnew :: rest0) raw Pg1 eq_refl Hne0' Hraw Hvok0)
      as (Ec & Ea' & Er' & [[E1 PL]|(g0' & PL & Et & Es & Hvok' & Pr)]).
    + eapply m_cons_of_parts with (cols := cols) (L := gnew :: rest0); [exact Ec|exact Ea'|exact Er'|exact PL|exact Hin1|].
      rewrite allrows_cons. unfold rows_of at 1. cbn [gnew gkey gvals app]. etransitivity; [|exact Hperm].
      etransitivity; [|apply allrows_perm; symmetry; exact P0]. rewrite allrows_cons, E1. reflexivity.
    + assert (Hnd' : NoDup (raw :: rows_of g0' ++ allrows rest0)).
      { eapply Permutation_NoDup; [|exact Hnd0]. apply (Permutation_app_tail (allrows rest0) Pr). }
      inversion Hnd' as [|? ? Hnotin Hnd'']; subst.
      change (gkey g0' :: gvals g0' ++ allrows rest0) with (rows_of g0' ++ allrows rest0) in Hnotin, Hnd''.
      assert (Hraw0' : ~ In raw (rows_of g0')) by (intros H; apply Hnotin; apply in_app_iff; left; exact H).
      eapply m_cons_of_parts with (cols := cols) (L := g0' :: gnew :: rest0); [exact Ec|exact Ea'|exact Er'|exact PL| |].
      * apply (minv_add_head ct' ct' cols g0' (gnew :: rest0) Hin1); auto.
        -- rewrite Et. cbn [map gnew gtag]. intros [E|H]; [congruence|exact (Htg0 H)].
        -- rewrite Es. cbn [map gnew gskey]. intros [E|H]; [apply Hkne; exact E|exact (Hsk0 H)].
        -- rewrite allrows_cons. unfold rows_of at 2. cbn [gnew gkey gvals app].
           eapply Permutation_NoDup; [symmetry; apply perm_move|]. exact Hnd'.
        -- intros r Hr0. rewrite Es. unfold ct'. rewrite keyc_other; [|apply (not_in_ne raw _ Hraw0'); exact Hr0].
           apply Hk0. apply (Permutation_in _ (Permutation_sym Pr)). right. exact Hr0.
      * rewrite !allrows_cons. unfold rows_of at 2. cbn [gnew gkey gvals app].
        etransitivity; [apply perm_move|]. etransitivity; [|exact Hperm].
        etransitivity; [|apply allrows_perm; symmetry; exact P0]. rewrite allrows_cons.
        symmetry. apply (Permutation_app_tail (allrows rest0) Pr).
Qed.

(* ================================================================ UniqueHash: RemoveRaw *)

Lemma uinv_tail ct cols e rest : uinv ct (mkU cols (e :: rest) None None) -> uinv ct (mkU cols rest None None).
Proof.
  intros (Ha & Hr & Ht & Hk & Hs). unfold uinv in *. cbn [ucols uents upadd uprem map] in *.
  inversion Ht; inversion Hk; inversion Hs; subst. repeat split; auto.
Qed.

Lemma u_cons_of_parts ct rs u' cols L :
  ucols u' = cols -> upadd u' = None -> uprem u' = None -> Permutation (uents u') L ->
  uinv ct (mkU cols L None None) -> Permutation (map eraw L) rs -> u_cons ct rs u'.
Proof.
  destruct u' as [c es pa pr]. cbn [ucols upadd uprem uents]. intros -> -> -> P Hi Hr. split.
  - apply (uinv_perm ct (mkU cols L None None) es Hi). symmetry. exact P.
  - cbn [uents]. etransitivity; [apply Permutation_map; exact P|exact Hr].
Qed.

Lemma u_entry_of_row ct rs u raw : u_cons ct rs u -> In raw rs -> exists e0, In e0 (uents u) /\ eraw e0 = raw.
Proof.
  intros [_ Hp] Hin. apply (Permutation_in _ (Permutation_sym Hp)) in Hin. apply in_map_iff in Hin as (e0 & E & H). eauto.
Qed.

Lemma u_find_own R ct u e0 :
  (forall s, R s s = true) -> uinv ct u -> In e0 (uents u) -> u_find R ct u (keyc ct (ucols u) (eraw e0)) = Some e0.
Proof.
  intros HR (Ha & Hr & Ht & Hk & Hs) Hin. rewrite Forall_forall in Hs. unfold u_find. apply find_unique_match; [exact Hin| |].
  - rewrite (Hs e0 Hin), HR, zlist_eqb_refl. reflexivity.
  - intros y Hy Hp. apply andb_true_iff in Hp as [_ Hp]. apply zlist_eqb_eq in Hp.
    eapply NoDup_map_inj; [exact Hk|exact Hy|exact Hin|exact Hp].
Qed.

Theorem u_remove_preserves_cons fixu R ct rs rs' u raw :
  (forall s, R s s = true) -> u_cons ct rs u -> Permutation rs (raw :: rs') ->
  u_cons ct rs' (u_accept_remove (u_prepare_remove fixu R ct u raw)).
Proof.
  intros HR Hc Hrs. pose proof Hc as [Hi Hperm].
  destruct (u_entry_of_row ct rs u raw Hc) as (e0 & He0 & Eraw).
  { apply (Permutation_in _ (Permutation_sym Hrs)). left. reflexivity. }
  pose proof Hi as (Ha & Hr & Ht & Hk & Hs).
  unfold u_prepare_remove. rewrite <- Eraw, (u_find_own R ct u e0 HR Hi He0). rewrite Ha. cbn [opt_nat_eqb andb].
  rewrite andb_false_r. unfold u_accept_remove. cbn [uprem ucols uents upadd].
  destruct (in_perm_split etag (uents u) e0 Ht He0) as (rest & P & Hne).
  assert (P2 : Permutation (u_remove_tag (etag e0) (uents u)) rest).
  { unfold u_remove_tag. etransitivity; [apply filter_perm; exact P|]. simpl. rewrite Nat.eqb_refl. simpl.
    apply Permutation_refl' . apply filter_all. intros x Hx. apply negb_true_iff, Nat.eqb_neq. apply Hne. exact Hx. }
  eapply u_cons_of_parts with (cols := ucols u) (L := rest); [reflexivity|reflexivity|reflexivity|exact P2| |].
  - apply (uinv_tail ct (ucols u) e0 rest). pose proof (uinv_perm ct u _ Hi P) as H. rewrite Ha, Hr in H. exact H.
  - eapply Permutation_cons_inv with (a := raw). etransitivity; [|exact Hrs]. etransitivity; [|exact Hperm].
    rewrite <- Eraw. change (eraw e0 :: map eraw rest) with (map eraw (e0 :: rest)). apply Permutation_map. symmetry. exact P.
Qed.

(* ================================================================ a column outside the index: nothing to do *)

Lemma proj_set_col_other cols c v r : has_col cols c = false -> proj cols (set_col c v r) = proj cols r.
Proof.
  intros H. unfold proj. apply map_ext_in. intros a Ha. unfold getc.
  assert (a <> c).
  { intros ->. unfold has_col in H. assert (existsb (Nat.eqb c) cols = true); [|congruence].
    apply existsb_exists. exists c. split; [exact Ha|apply Nat.eqb_refl]. }
  clear -H0. revert a c H0; induction r as [|x r IH]; intros a c Hne; [destruct c; reflexivity|].
  destruct c, a; simpl; try reflexivity; try congruence. apply IH. congruence.
Qed.

Lemma keyc_col_other ct raw c v cols r :
  has_col cols c = false -> keyc (fun x => if Z.eqb x raw then set_col c v (ct raw) else ct x) cols r = keyc ct cols r.
Proof.
  intros H. unfold keyc. destruct (Z.eqb_spec r raw); [subst; apply proj_set_col_other; exact H|reflexivity].
Qed.

Lemma u_cons_col_other ct rs u raw c v :
  has_col (ucols u) c = false -> u_cons ct rs u ->
  u_cons (fun x => if Z.eqb x raw then set_col c v (ct raw) else ct x) rs u.
Proof.
  intros H [(Ha & Hr & Ht & Hk & Hs) Hp]. split; [|exact Hp]. unfold uinv. repeat split; auto.
  - rewrite map_ext with (g := fun e => keyc ct (ucols u) (eraw e)); [exact Hk|]. intros e. apply keyc_col_other. exact H.
  - rewrite Forall_forall in *. intros e He. rewrite keyc_col_other by exact H. apply Hs. exact He.
Qed.

Lemma m_cons_col_other ct rs m raw c v :
  has_col (mcols m) c = false -> m_cons ct rs m ->
  m_cons (fun x => if Z.eqb x raw then set_col c v (ct raw) else ct x) rs m.
Proof.
  intros H [[Hc Ht Hr Hk Hs Hv] Hp]. split; [|exact Hp]. constructor; auto.
  intros g r Hg Hrr. rewrite keyc_col_other by exact H. apply Hk; assumption.
Qed.

(* the accepted single-column update of a unique hash, packaged for the lifting *)
Theorem u_update_column_preserves_cons ord R ct rs u raw c v tag :
  (forall s, R s s = true) -> u_cons ct rs u -> In raw rs -> ~ In tag (map etag (uents u)) ->
  has_col (ucols u) c = true -> c < length (ct raw) -> v <> getc (ct raw) c ->
  let ct' := fun x => if Z.eqb x raw then set_col c v (ct raw) else ct x in
  let '(u1, r) := u_add_mixed ord R ct u raw c v tag in
  if Z.eqb r raw then u_cons ct' rs (u_accept_remove (u_accept_add (u_prepare_remove true R ct u1 raw)))
  else u1 = u /\ In r rs /\ r <> raw.
Proof.
  intros HR [Hi Hp] Hraw Htag Hcol Hlen Hv ct'.
  assert (Hrawin : In raw (map eraw (uents u))) by (apply (Permutation_in _ (Permutation_sym Hp)); exact Hraw).
  pose proof (update_column_index_consistent ord R ct u raw c v tag HR Hi Hrawin Htag Hcol Hlen Hv) as H.
  cbv zeta in H. destruct (u_add_mixed ord R ct u raw c v tag) as [u1 r].
  destruct (Z.eqb_spec r raw) as [E|E].
  - destruct H as (Hi' & Hperm' & _). split; [exact Hi'|]. etransitivity; [exact Hperm'|exact Hp].
  - destruct H as (E1 & e & He & Er & _). split; [exact E1|]. split; [|exact E].
    apply (Permutation_in _ Hp). rewrite <- Er. apply in_map. exact He.
Qed.

(* ================================================================ UniqueHash: UpdateRaw(oldRaw, newRaw) accepted *)

Lemma uinv_add_head ct cols e rest :
  uinv ct (mkU cols rest None None) -> ~ In (etag e) (map etag rest) ->
  ~ In (keyc ct cols (eraw e)) (map (fun x => keyc ct cols (eraw x)) rest) -> ekey e = keyc ct cols (eraw e) ->
  uinv ct (mkU cols (e :: rest) None None).
Proof.
  intros (Ha & Hr & Ht & Hk & Hs) Htag Hkey Hst. unfold uinv in *. cbn [ucols uents upadd uprem map] in *.
  repeat split; auto; constructor; assumption.
Qed.

Lemma uinv_head_facts ct cols e rest :
  uinv ct (mkU cols (e :: rest) None None) ->
  ~ In (etag e) (map etag rest) /\ ~ In (keyc ct cols (eraw e)) (map (fun x => keyc ct cols (eraw x)) rest) /\
  ekey e = keyc ct cols (eraw e).
Proof.
  intros (Ha & Hr & Ht & Hk & Hs). cbn [ucols uents upadd uprem map] in *. inversion Ht; inversion Hk; inversion Hs; subst. auto.
Qed.

Lemma u_find_none_keys R ct u k :
  (forall s, R s s = true) -> uinv ct u -> u_find R ct u k = None ->
  ~ In k (map (fun e => keyc ct (ucols u) (eraw e)) (uents u)).
Proof.
  intros HR (Ha & Hr & Ht & Hk & Hs) E Hin. rewrite Forall_forall in Hs. apply in_map_iff in Hin as (y & Hy & Hyin).
  unfold u_find in E. eapply find_none in E; [|exact Hyin]. simpl in E. rewrite (Hs y Hyin), Hy, HR, zlist_eqb_refl in E. discriminate.
Qed.

Theorem u_update_preserves_cons fixu ord R ct rs rs' u old new tag :
  (forall s, R s s = true) -> u_cons ct rs u -> ~ In tag (map etag (uents u)) -> ~ In new rs -> In old rs ->
  Permutation (rs ++ [new]) (old :: rs') ->
  let '(u1, r) := (let '(u', r) := u_add ord R ct u new (Some old) tag in
                   (if Z.eqb r new then u_prepare_remove fixu R ct u' old else u', r)) in
  negb (Z.eqb r new) && negb (Z.eqb r old) = false ->
  u_cons ct rs' (u_accept_remove (u_accept_add_raw u1 new)).
Proof.
  intros HR Hc Htag Hnew Hold Hrs. pose proof Hc as [Hi Hperm]. pose proof Hi as (Ha & Hr & Ht & Hk & Hs).
  assert (Hon : old <> new) by (intros ->; contradiction).
  destruct (u_entry_of_row ct rs u old Hc Hold) as (e0 & He0 & Eold).
  destruct (in_perm_split etag (uents u) e0 Ht He0) as (rest & P & Hne).
  pose proof (uinv_perm ct u _ Hi P) as Hi0. rewrite Ha, Hr in Hi0.
  destruct (uinv_head_facts ct (ucols u) e0 rest Hi0) as (Htg0 & Hk0 & Hst0).
  pose proof (uinv_tail ct (ucols u) e0 rest Hi0) as Hit.
  assert (Hrows : Permutation (new :: map eraw rest) rs').
  { apply Permutation_cons_inv with (a := old). etransitivity; [|exact Hrs].
    etransitivity; [apply perm_swap|]. etransitivity; [apply Permutation_cons_append|]. apply Permutation_app_tail.
    etransitivity; [|exact Hperm]. rewrite <- Eold. change (eraw e0 :: map eraw rest) with (map eraw (e0 :: rest)).
    apply Permutation_map. symmetry. exact P. }
  unfold u_add. set (k := keyc ct (ucols u) new).
  destruct (u_find R ct u k) as [e|] eqn:Ef.
  - unfold u_find in Ef. apply find_some in Ef as [Hin Hp]. apply andb_true_iff in Hp as [_ Hp]. apply zlist_eqb_eq in Hp.
    destruct (Z.eqb_spec (eraw e) old) as [Ee|Ee].
    + (* same key: the position is re-pointed to the new row *)
      assert (e = e0) by (eapply NoDup_map_inj; [exact Hk|exact Hin|exact He0|]; simpl; rewrite Ee, Eold; reflexivity). subst e.
      rewrite Ee. replace (Z.eqb old new) with false by (symmetry; apply Z.eqb_neq; exact Hon). intros _.
      unfold u_accept_add_raw, u_accept_remove. cbn [upadd uents ucols uprem]. rewrite Hr.
      set (h := fun x => if Nat.eqb (etag x) (etag e0) then mkE (etag x) new (ekey x) else x).
      assert (Ph : Permutation (map h (uents u)) (h e0 :: rest)).
      { etransitivity; [apply Permutation_map; exact P|]. simpl. apply perm_skip. rewrite map_id_on; [reflexivity|].
        intros x Hx. unfold h. replace (Nat.eqb (etag x) (etag e0)) with false by (symmetry; apply Nat.eqb_neq; apply Hne; exact Hx). reflexivity. }
      assert (Eh : h e0 = mkE (etag e0) new (ekey e0)) by (unfold h; rewrite Nat.eqb_refl; reflexivity).
      eapply u_cons_of_parts with (cols := ucols u) (L := h e0 :: rest); [reflexivity|reflexivity|reflexivity|exact Ph| |].
      * rewrite Eh. apply (uinv_add_head ct (ucols u) _ rest Hit); cbn [etag eraw ekey]; auto.
        -- fold k. rewrite <- Hp. exact Hk0.
        -- fold k. rewrite <- Hp. exact Hst0.
      * rewrite Eh. cbn [map eraw]. exact Hrows.
    + (* another row has the key: refused *)
      assert (Hers : In (eraw e) rs) by (apply (Permutation_in _ Hperm); apply in_map; exact Hin).
      assert (Een : eraw e <> new) by (intros E; rewrite E in Hers; contradiction).
      replace (Z.eqb (eraw e) new) with false by (symmetry; apply Z.eqb_neq; exact Een).
      cbn [negb andb]. replace (Z.eqb (eraw e) old) with false by (symmetry; apply Z.eqb_neq; exact Ee). discriminate.
  - rewrite Z.eqb_refl. intros _.
    pose proof (u_find_none_keys R ct u k HR Hi Ef) as Hnone.
    set (en := mkE tag new k).
    set (es1 := place ord tag en (uents u)).
    assert (Pes1 : Permutation es1 (e0 :: en :: rest)).
    { etransitivity; [apply place_perm|]. etransitivity; [apply perm_skip; exact P|apply perm_swap]. }
    assert (Hkold : keyc ct (ucols u) old <> k).
    { intros E. apply Hnone. rewrite <- E, <- Eold. apply in_map_iff. exists e0. split; [reflexivity|exact He0]. }
    assert (Hprep : u_prepare_remove fixu R ct (mkU (ucols u) es1 (Some tag) (uprem u)) old
                    = mkU (ucols u) es1 (Some tag) (Some (etag e0))).
    { unfold u_prepare_remove, u_find. cbn [ucols uents upadd uprem].
      rewrite (find_unique_match _ es1 e0).
      - replace (opt_nat_eqb (Some tag) (etag e0)) with false; [rewrite andb_false_r; reflexivity|].
        symmetry. cbn [opt_nat_eqb]. apply Nat.eqb_neq. intros E. apply Htag. rewrite E. apply in_map. exact He0.
      - apply (Permutation_in _ (Permutation_sym Pes1)). left. reflexivity.
      - rewrite Hst0, Eold, HR, zlist_eqb_refl. reflexivity.
      - intros y Hy Hpy. apply andb_true_iff in Hpy as [_ Hpy]. apply zlist_eqb_eq in Hpy.
        apply (Permutation_in _ (place_perm ord tag en (uents u))) in Hy. destruct Hy as [<-|Hy].
        + exfalso. cbn [en eraw] in Hpy. apply Hkold. symmetry. exact Hpy.
        + eapply NoDup_map_inj; [exact Hk|exact Hy|exact He0|]. simpl. rewrite Hpy, Eold. reflexivity. }
    rewrite Hprep. unfold u_accept_add_raw, u_accept_remove. cbn [upadd uents ucols uprem].
    set (h := fun x => if Nat.eqb (etag x) tag then mkE (etag x) new (ekey x) else x).
    assert (Eh : map h es1 = es1).
    { apply map_id_on. intros x Hx. unfold h. apply (Permutation_in _ (place_perm ord tag en (uents u))) in Hx.
      destruct Hx as [<-|Hx]; [cbn [en etag ekey]; rewrite Nat.eqb_refl; reflexivity|].
      replace (Nat.eqb (etag x) tag) with false; [reflexivity|]. symmetry. apply Nat.eqb_neq. intros E. apply Htag. rewrite <- E. apply in_map. exact Hx. }
    rewrite Eh.
    assert (P2 : Permutation (u_remove_tag (etag e0) es1) (en :: rest)).
    { unfold u_remove_tag. etransitivity; [apply filter_perm; exact Pes1|]. simpl. rewrite Nat.eqb_refl. cbn [negb].
      replace (Nat.eqb tag (etag e0)) with false.
      - cbn [negb]. apply perm_skip. apply Permutation_refl'. apply filter_all. intros x Hx. apply negb_true_iff, Nat.eqb_neq. apply Hne. exact Hx.
      - symmetry. apply Nat.eqb_neq. intros E. apply Htag. rewrite E. apply in_map. exact He0. }
    eapply u_cons_of_parts with (cols := ucols u) (L := en :: rest); [reflexivity|reflexivity|reflexivity|exact P2| |].
    + apply (uinv_add_head ct (ucols u) en rest Hit); cbn [en etag eraw ekey].
      * intros H. apply Htag. apply (Permutation_in _ (Permutation_sym (Permutation_map etag P))). right. exact H.
      * fold k. intros H. apply Hnone.
        apply (Permutation_in _ (Permutation_sym (Permutation_map (fun x => keyc ct (ucols u) (eraw x)) P))). right. exact H.
      * reflexivity.
    + cbn [map en eraw]. exact Hrows.
Qed.

(* ================================================================ FilterRaws: each group keeps exactly the kept rows *)

Lemma swap_remove_split (a : list Z) x b :
  swap_remove (length a) (a ++ x :: b) = a ++ match b with [] => [] | _ => last b x :: removelast b end.
Proof.
  unfold swap_remove, remove_unordered. destruct b as [|y b'] using rev_ind.
  - rewrite rev_unit. rewrite app_length. change (length [x]) with 1.
    replace (Nat.eqb (S (length a)) (length a + 1)) with true by (symmetry; apply Nat.eqb_eq; lia).
    rewrite removelast_last, app_nil_r. reflexivity.
  - clear IHb'. replace (a ++ x :: b' ++ [y]) with ((a ++ x :: b') ++ [y]) by (rewrite <- app_assoc; reflexivity).
    rewrite rev_unit. rewrite (app_length (a ++ x :: b') [y]), (app_length a (x :: b')). change (length [y]) with 1. change (length (x :: b')) with (S (length b')).
    replace (Nat.eqb (S (length a)) (length a + S (length b') + 1)) with false by (symmetry; apply Nat.eqb_neq; lia).
    rewrite set_nth_app_l by (rewrite app_length; change (length (x :: b')) with (S (length b')); lia). rewrite removelast_last.
    assert (E : set_nth (length a) y (a ++ x :: b') = a ++ y :: b').
    { clear. induction a as [|z a IH]; simpl; [reflexivity|]. rewrite IH. reflexivity. }
    rewrite E. f_equal. destruct (b' ++ [y]) eqn:Eb; [destruct b'; discriminate|]. rewrite <- Eb.
    rewrite last_last, removelast_last. reflexivity.
Qed.

Lemma split_at {A} (l : list A) i d : i < length l -> l = firstn i l ++ nth i l d :: skipn (S i) l /\ length (firstn i l) = i.
Proof.
  revert i; induction l as [|x l IH]; intros i H; simpl in H; [lia|]. destruct i; simpl; [auto|].
  destruct (IH i ltac:(lia)) as [E L]. split; [f_equal; exact E|f_equal; exact L].
Qed.

Lemma filter_scan_perm keep : forall fuel i vals,
  length vals - i < fuel ->
  Permutation (filter_scan fuel keep i vals) (firstn i vals ++ filter keep (skipn i vals)).
Proof.
  induction fuel as [|f IH]; intros i vals Hf; [lia|]. cbn [filter_scan].
  destruct (Nat.ltb_spec i (length vals)) as [Hi|Hi].
  - destruct (split_at vals i 0%Z Hi) as [E La]. set (a := firstn i vals) in *. set (x := nth i vals 0%Z) in *. set (b := skipn (S i) vals) in *.
    assert (Esk : skipn i vals = x :: b).
    { rewrite E at 1. rewrite <- La at 1. rewrite skipn_app, Nat.sub_diag, skipn_all. reflexivity. }
    assert (Ef : firstn (S i) vals = a ++ [x]).
    { rewrite E at 1. rewrite <- La at 1. replace (S (length a)) with (length a + 1) by lia. rewrite firstn_app_2. reflexivity. }
    assert (Esw : swap_remove i vals = a ++ match b with [] => [] | _ => last b x :: removelast b end).
    { rewrite E at 1. rewrite <- La at 1. apply swap_remove_split. }
    assert (Hlen : length vals = i + S (length b)) by (rewrite E, app_length, La; reflexivity).
    fold b in IH |- *. rewrite Esk. cbn [filter].
    destruct (keep x) eqn:Ek.
    + etransitivity; [apply IH; lia|]. rewrite Ef. fold b. rewrite <- app_assoc. reflexivity.
    + set (tl := match b with [] => [] | _ => last b x :: removelast b end) in *.
      assert (Htl : Permutation tl b).
      { unfold tl. destruct b as [|y b']; [reflexivity|].
        rewrite (app_removelast_last x (l := y :: b')) at 3 by discriminate. apply Permutation_cons_append. }
      etransitivity; [apply IH; rewrite Esw, app_length, La, (Permutation_length Htl); lia|].
      rewrite Esw. clearbody a x b tl.
      assert (F1 : firstn i (a ++ tl) = a) by (rewrite <- La; rewrite firstn_app, Nat.sub_diag, firstn_all; simpl; apply app_nil_r).
      assert (F2 : skipn i (a ++ tl) = tl) by (rewrite <- La; rewrite skipn_app, Nat.sub_diag, skipn_all; reflexivity).
      rewrite F1, F2. apply Permutation_app_head. apply filter_perm. exact Htl.
  - rewrite firstn_all2 by lia. rewrite skipn_all2 by lia. simpl. rewrite app_nil_r. reflexivity.
Qed.

Lemma filter_vals_perm keep vals : length vals < max_vals -> Permutation (filter_vals keep vals) (filter keep vals).
Proof.
  intros H. destruct (filter_vals_ok keep vals H) as (_ & _ & P). etransitivity; [exact P|].
  apply (filter_scan_perm keep (S (length vals)) 0 vals). lia.
Qed.

(* one key of the multi hash after FilterRaws *)
Lemma filter_group_spec keep g :
  length (gvals g) < max_vals ->
  match filter_group keep (gkey g) (gvals g) with
  | None => filter keep (rows_of g) = []
  | Some (k, vs) => vals_ok vs /\ Permutation (k :: vs) (filter keep (rows_of g))
  end.
Proof.
  intros Hl. unfold filter_group, rows_of. destruct (filter_vals_ok keep (gvals g) Hl) as (Hok & _ & _).
  pose proof (filter_vals_perm keep (gvals g) Hl) as P. set (v := filter_vals keep (gvals g)) in *. simpl.
  destruct (keep (gkey g)).
  - split; [exact Hok|apply perm_skip; exact P].
  - destruct v as [|y v'] eqn:Ev.
    + apply Permutation_nil in P. exact P.
    + split; [apply segs_ok_removelast; exact Hok|].
      etransitivity; [|exact P]. rewrite (app_removelast_last 0%Z (l := y :: v')) at 3 by discriminate.
      apply Permutation_cons_append.
Qed.

Lemma NoDup_filter {A} (f : A -> bool) l : NoDup l -> NoDup (filter f l).
Proof.
  induction 1; simpl; [constructor|]. destruct (f x); [constructor; [|assumption]|assumption].
  intros Hin. apply filter_In in Hin as [Hin _]. contradiction.
Qed.

Theorem m_filter_preserves_cons ct rs keep m :
  m_cons ct rs m -> (forall g, In g (mgroups m) -> length (gvals g) < max_vals) ->
  m_cons ct (filter keep rs) (m_filter keep m).
Proof.
  intros [Hi Hperm] Hsmall. destruct (mi_clean ct m Hi) as [Ha Hr].
  set (F := fun g => match filter_group keep (gkey g) (gvals g) with Some (k, vs) => [mkG (gtag g) k (gskey g) vs] | None => [] end).
  assert (Hchar : forall gs, (forall g, In g gs -> length (gvals g) < max_vals) ->
     Permutation (allrows (flat_map F gs)) (filter keep (allrows gs)) /\
     (forall g', In g' (flat_map F gs) -> exists g, In g gs /\ gtag g' = gtag g /\ gskey g' = gskey g /\ vals_ok (gvals g') /\
                                                    (forall r, In r (rows_of g') -> In r (rows_of g))) /\
     (forall (f : mgroup -> nat), True)).
  { induction gs as [|g gs IH]; intros Hs; [split; [reflexivity|split; [intros ? []|trivial]]|].
    destruct (IH (fun x Hx => Hs x (or_intror Hx))) as (IH1 & IH2 & _).
    pose proof (filter_group_spec keep g (Hs g (or_introl eq_refl))) as Hg.
    cbn [flat_map]. unfold F at 1 3. destruct (filter_group keep (gkey g) (gvals g)) as [[k vs]|].
    - destruct Hg as [Hok Pg]. split; [|split; [|trivial]].
      + cbn [app]. rewrite !allrows_cons, filter_app. apply Permutation_app; [exact Pg|exact IH1].
      + intros g' [<-|Hg']; [|destruct (IH2 g' Hg') as (x & Hx & H); exists x; split; [right; exact Hx|exact H]].
        exists g. split; [left; reflexivity|]. cbn [gtag gskey gvals]. repeat split; auto.
        intros r Hrr. apply (Permutation_in _ Pg) in Hrr. apply filter_In in Hrr as [Hrr _]. exact Hrr.
    - split; [|split; [|trivial]].
      + cbn [app]. rewrite allrows_cons, filter_app, Hg. exact IH1.
      + intros g' Hg'. destruct (IH2 g' Hg') as (x & Hx & H). exists x. split; [right; exact Hx|exact H]. }
  assert (Hnd : forall (A : Type) (f : mgroup -> A), (forall g k vs, f (mkG (gtag g) k (gskey g) vs) = f g) ->
                forall gs, NoDup (map f gs) -> NoDup (map f (flat_map F gs))).
  { intros A f Hf gs. induction gs as [|g gs IH]; intros Hn; [constructor|]. cbn [flat_map map] in *. inversion Hn; subst.
    unfold F at 1. destruct (filter_group keep (gkey g) (gvals g)) as [[k vs]|]; cbn [app map]; [|apply IH; assumption].
    constructor; [|apply IH; assumption]. rewrite Hf. intros Hin. apply H1.
    apply in_map_iff in Hin as (g' & E & Hg'). apply in_flat_map in Hg' as (x & Hx & Hg'). unfold F in Hg'.
    destruct (filter_group keep (gkey x) (gvals x)) as [[k2 vs2]|]; [|contradiction]. destruct Hg' as [<-|[]].
    rewrite Hf in E. rewrite <- E. apply in_map. exact Hx. }
  destruct (Hchar (mgroups m) Hsmall) as (P1 & H2 & _).
  unfold m_filter. fold F. split.
  - constructor; cbn [mcols mgroups mpadd mprem].
    + split; assumption.
    + apply (Hnd nat gtag); [reflexivity|exact (mi_tags ct m Hi)].
    + eapply Permutation_NoDup; [symmetry; exact P1|]. apply NoDup_filter. exact (mi_rows ct m Hi).
    + intros g' r Hg' Hrr. destruct (H2 g' Hg') as (g & Hg & _ & Es & _ & Hsub). rewrite Es. apply (mi_keys ct m Hi g r Hg). apply Hsub. exact Hrr.
    + apply (Hnd (list Z) gskey); [reflexivity|exact (mi_skeys ct m Hi)].
    + intros g' Hg'. destruct (H2 g' Hg') as (g & _ & _ & _ & Hok & _). exact Hok.
  - cbn [mgroups]. etransitivity; [exact P1|]. apply filter_perm. exact Hperm.
Qed.

Theorem u_filter_preserves_cons ct rs keep u : u_cons ct rs u -> u_cons ct (filter keep rs) (u_filter keep u).
Proof.
  intros [(Ha & Hr & Ht & Hk & Hs) Hperm]. unfold u_filter. split.
  - unfold uinv. cbn [ucols uents upadd uprem]. repeat split; auto.
    + clear -Ht. induction (uents u) as [|e es IH]; simpl in *; [constructor|]. inversion Ht; subst.
      destruct (keep (eraw e)); simpl; [constructor; [|apply IH; assumption]|apply IH; assumption].
      intros Hin. apply H1. apply in_map_iff in Hin as (y & Ey & Hy). apply filter_In in Hy as [Hy _]. rewrite <- Ey. apply in_map. exact Hy.
    + clear -Hk. induction (uents u) as [|e es IH]; simpl in *; [constructor|]. inversion Hk; subst.
      destruct (keep (eraw e)); simpl; [constructor; [|apply IH; assumption]|apply IH; assumption].
      intros Hin. apply H1. apply in_map_iff in Hin as (y & Ey & Hy). apply filter_In in Hy as [Hy _]. rewrite <- Ey.
      apply in_map_iff. exists y. split; [reflexivity|exact Hy].
    + rewrite Forall_forall in *. intros e He. apply filter_In in He as [He _]. apply Hs. exact He.
  - cbn [uents]. etransitivity; [|apply filter_perm; exact Hperm].
    apply Permutation_refl'. clear. induction (uents u) as [|e es IH]; simpl; [reflexivity|]. destruct (keep (eraw e)); simpl; rewrite IH; reflexivity.
Qed.
