(* C19 -- the free-row list of momo::DataTable as a small-step interleaving machine.

   What the C++ does (DataRow.h:90-103, DataTable.h:1025-1056):

     DataRow::~DataRow                         a DISPOSER thread t holding the detached row r
        mColumnList->DestroyRaw(nullptr,mRaw)    DBegin t r     (items destroyed; r is now only a raw buffer)
        while (true) {
          void* headRaw = *mFreeRaws;            DLoad t        (atomic load, seq_cst)
          MemCopyer::ToBuffer(headRaw, raw);     DLink t        (plain store of the link word INTO r)
          if (mFreeRaws->compare_exchange_weak   DCas t sp      (sp = the weak CAS failed spuriously)
                (headRaw, raw)) break;              success: head := r, thread idle; failure: loop again
        }

     DataTable::pvDeallocateFreeRaws            the OWNER thread
        headRaw = freeRaws.exchange(nullptr)     OExchange      (takes the WHOLE list)
        while (headRaw != nullptr) {
          nextRaw = FromBuffer<void*>(headRaw);  ORead          (reads the link word first ...)
          mRawMemPool.Deallocate(headRaw);       OFree g        (... then gives the buffer back; the pool scribbles g over it)
          headRaw = nextRaw; }                   (ODone when the private chain is exhausted)
     pvAllocateRaw  = [check; pvDeallocateFreeRaws]; mRawMemPool.Allocate      OAlloc r g  (r comes from the pool: any Free row)
     TryAdd(Row&&) / Extract / Remove                                           OAdd r / OExtract r / ORemove r g
     item writes through a live row, pool-internal writes into free blocks       Scribble r g

   Unbounded: thread ids and rows are `nat`, every disposer starts Idle, every row starts Free.
   The fields after `own` are GHOST (history / bookkeeping); no enabling condition of a free-list step
   (DLoad, DLink, DCas, OExchange, ORead, OFree, ODone) reads them. *)
From Coq Require Import List Arith Bool PeanoNat.
Import ListNotations.

Definition row := nat.
Definition tid := nat.

Inductive rstatus := Free | Detached | InTable | Pending | Listed.

Inductive dpc :=
| Idle
| Start (r : row)                       (* items destroyed, about to (re)load the head *)
| Loaded (r : row) (h : option row)     (* headRaw = h *)
| Linked (r : row) (h : option row).    (* link word of r written := h, about to CAS(h -> r) *)

Inductive opc :=
| OIdle
| ODrain (c : option row)               (* inside pvDeallocateFreeRaws, headRaw = c *)
| ONext (r : row) (n : option row).     (* nextRaw = n read from r, r not yet deallocated *)

Record state := mkState {
  head : option row;                    (* Crew::Data::freeRaws *)
  link : row -> option row;             (* first word of each raw buffer *)
  dpcs : tid -> dpc;
  own : opc;
  (* ghost *)
  status : row -> rstatus;
  gen : row -> nat;                     (* how often the buffer was handed out by the pool *)
  shared : list row;                    (* the rows published on the shared list, newest first *)
  drain : list row;                     (* the owner's private chain *)
  disposed : list (row * nat);          (* history: (row, generation) whose destructor began *)
  published : list (row * nat);         (* history: successful CAS *)
  reclaimed : list (row * nat) }.       (* history: pool Deallocate by the owner's drain *)

Inductive label :=
| DBegin (t : tid) (r : row)
| DLoad (t : tid)
| DLink (t : tid)
| DCas (t : tid) (spurious : bool)
| OExchange
| ORead
| OFree (g : option row)
| ODone
| OAlloc (r : row) (g : option row)
| OAdd (r : row)
| OExtract (r : row)
| ORemove (r : row) (g : option row)
| Scribble (r : row) (g : option row).

Definition upd {A : Type} (f : nat -> A) (k : nat) (v : A) : nat -> A :=
  fun x => if Nat.eqb x k then v else f x.

Definition oeqb (a b : option row) : bool :=
  match a, b with
  | None, None => true
  | Some x, Some y => Nat.eqb x y
  | _, _ => false
  end.

Definition init : state :=
  mkState None (fun _ => None) (fun _ => Idle) OIdle (fun _ => Free) (fun _ => 0) [] [] [] [] [].

Definition in_use (st : rstatus) : bool :=
  match st with Free | Detached | InTable => true | _ => false end.

Definition step (s : state) (l : label) : option state :=
  match l with
  | DBegin t r =>
      match dpcs s t, status s r with
      | Idle, Detached =>
          Some (mkState (head s) (link s) (upd (dpcs s) t (Start r)) (own s)
                        (upd (status s) r Pending) (gen s) (shared s) (drain s)
                        ((r, gen s r) :: disposed s) (published s) (reclaimed s))
      | _, _ => None
      end
  | DLoad t =>
      match dpcs s t with
      | Start r =>
          Some (mkState (head s) (link s) (upd (dpcs s) t (Loaded r (head s))) (own s)
                        (status s) (gen s) (shared s) (drain s)
                        (disposed s) (published s) (reclaimed s))
      | _ => None
      end
  | DLink t =>
      match dpcs s t with
      | Loaded r h =>
          Some (mkState (head s) (upd (link s) r h) (upd (dpcs s) t (Linked r h)) (own s)
                        (status s) (gen s) (shared s) (drain s)
                        (disposed s) (published s) (reclaimed s))
      | _ => None
      end
  | DCas t sp =>
      match dpcs s t with
      | Linked r h =>
          if negb sp && oeqb (head s) h
          then Some (mkState (Some r) (link s) (upd (dpcs s) t Idle) (own s)
                             (upd (status s) r Listed) (gen s) (r :: shared s) (drain s)
                             (disposed s) ((r, gen s r) :: published s) (reclaimed s))
          else Some (mkState (head s) (link s) (upd (dpcs s) t (Start r)) (own s)
                             (status s) (gen s) (shared s) (drain s)
                             (disposed s) (published s) (reclaimed s))
      | _ => None
      end
  | OExchange =>
      match own s with
      | OIdle =>
          Some (mkState None (link s) (dpcs s) (ODrain (head s))
                        (status s) (gen s) [] (shared s)
                        (disposed s) (published s) (reclaimed s))
      | _ => None
      end
  | ORead =>
      match own s with
      | ODrain (Some r) =>
          Some (mkState (head s) (link s) (dpcs s) (ONext r (link s r))
                        (status s) (gen s) (shared s) (drain s)
                        (disposed s) (published s) (reclaimed s))
      | _ => None
      end
  | OFree g =>
      match own s with
      | ONext r n =>
          Some (mkState (head s) (upd (link s) r g) (dpcs s) (ODrain n)
                        (upd (status s) r Free) (gen s) (shared s) (tl (drain s))
                        (disposed s) (published s) ((r, gen s r) :: reclaimed s))
      | _ => None
      end
  | ODone =>
      match own s with
      | ODrain None =>
          Some (mkState (head s) (link s) (dpcs s) OIdle
                        (status s) (gen s) (shared s) (drain s)
                        (disposed s) (published s) (reclaimed s))
      | _ => None
      end
  | OAlloc r g =>
      match own s, status s r with
      | OIdle, Free =>
          Some (mkState (head s) (upd (link s) r g) (dpcs s) (own s)
                        (upd (status s) r Detached) (upd (gen s) r (S (gen s r))) (shared s) (drain s)
                        (disposed s) (published s) (reclaimed s))
      | _, _ => None
      end
  | OAdd r =>
      match own s, status s r with
      | OIdle, Detached =>
          Some (mkState (head s) (link s) (dpcs s) (own s)
                        (upd (status s) r InTable) (gen s) (shared s) (drain s)
                        (disposed s) (published s) (reclaimed s))
      | _, _ => None
      end
  | OExtract r =>
      match own s, status s r with
      | OIdle, InTable =>
          Some (mkState (head s) (link s) (dpcs s) (own s)
                        (upd (status s) r Detached) (gen s) (shared s) (drain s)
                        (disposed s) (published s) (reclaimed s))
      | _, _ => None
      end
  | ORemove r g =>
      match own s, status s r with
      | OIdle, InTable =>
          Some (mkState (head s) (upd (link s) r g) (dpcs s) (own s)
                        (upd (status s) r Free) (gen s) (shared s) (drain s)
                        (disposed s) (published s) (reclaimed s))
      | _, _ => None
      end
  | Scribble r g =>
      if in_use (status s r)
      then Some (mkState (head s) (upd (link s) r g) (dpcs s) (own s)
                         (status s) (gen s) (shared s) (drain s)
                         (disposed s) (published s) (reclaimed s))
      else None
  end.

(* a schedule = any finite list of labels; `run` stops with None at the first disabled label *)
Fixpoint run (s : state) (ls : list label) : option state :=
  match ls with
  | [] => Some s
  | l :: ls' => match step s l with Some s' => run s' ls' | None => None end
  end.

Definition reachable (s : state) : Prop := exists ls, run init ls = Some s.

(* following the link words from a start pointer, as pvDeallocateFreeRaws does; None = fuel exhausted *)
Fixpoint walk (lk : row -> option row) (start : option row) (fuel : nat) : option (list row) :=
  match start with
  | None => Some []
  | Some r => match fuel with
              | O => None
              | S f => match walk lk (lk r) f with Some l => Some (r :: l) | None => None end
              end
  end.

Definition held (p : dpc) : option row :=
  match p with Idle => None | Start r | Loaded r _ | Linked r _ => Some r end.

Definition quiescent (s : state) : Prop :=
  (forall t, dpcs s t = Idle) /\ own s = OIdle /\ head s = None.

(* ---- probes used by the driver to print the model's control skeleton (tie (a)) ---- *)
Definition dpc_kind (p : dpc) : nat :=
  match p with Idle => 0 | Start _ => 1 | Loaded _ _ => 2 | Linked _ _ => 3 end.
Definition opc_kind (p : opc) : nat :=
  match p with OIdle => 0 | ODrain None => 1 | ODrain (Some _) => 2 | ONext _ _ => 3 end.
