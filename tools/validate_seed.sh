#!/bin/bash
# validate_seed.sh <seed-dir> [--skip-suite]
# Confirms a seeded breaking change in a scratch worktree of /repo: demo passes without the patch, fails with it,
# the patch applies cleanly, and the existing suite still builds and passes (2328 "ok").  Writes <seed-dir>/validation.json.
set -u
SD=$(readlink -f "$1"); SKIP=${2:-}
WT=$(mktemp -d /tmp/seedval-XXXXXX); rmdir "$WT"
git -C /repo worktree add --detach "$WT" HEAD >/dev/null 2>&1 || { echo "worktree failed"; exit 2; }
cleanup() { git -C /repo worktree remove --force "$WT" >/dev/null 2>&1; rm -rf "$WT"; }
trap cleanup EXIT
run_demo() { # $1 = flags ; prints PASS/FAIL
  g++ -std=c++17 -O1 -g $1 -I"$WT/include" -I"$WT/include/momo" "$SD/demo.cpp" -o "$WT/demo.bin" -pthread >"$WT/demo.build.log" 2>&1 || { echo BUILDFAIL; return; }
  ( cd "$WT" && timeout 300 ./demo.bin >"$WT/demo.out" 2>&1 ); rc=$?
  if [ $rc -eq 0 ] && ! grep -q -E "FAIL|ERROR: (Address|Thread|Undefined)Sanitizer|runtime error" "$WT/demo.out"; then echo PASS; else echo "FAIL(rc=$rc)"; fi
}
result_flags=""
for FL in "" "-fsanitize=address,undefined -fno-sanitize-recover=all" "-fsanitize=thread"; do
  git -C "$WT" checkout -q -- . 
  before=$(run_demo "$FL")
  git -C "$WT" apply "$SD/patch.diff" 2>"$WT/apply.err" || { echo "{\"ok\": false, \"why\": \"patch does not apply: $(head -c 200 $WT/apply.err | tr '\"\n' '  ')\"}" > "$SD/validation.json"; cat "$SD/validation.json"; exit 1; }
  after=$(run_demo "$FL")
  result_flags="$FL"
  if [ "$before" = "PASS" ] && [ "${after#FAIL}" != "$after" ]; then break; fi
done
suite="${SUITE_KNOWN:-skipped}"
if [ "$SKIP" != "--skip-suite" ]; then
  cmake -S "$WT" -B "$WT/_build" -G Ninja -DMOMO_TEST=ON -DCMAKE_BUILD_TYPE=RelWithDebInfo >/dev/null 2>&1
  cmake --build "$WT/_build" -j 8 >"$WT/suite.build.log" 2>&1 && suite=$("$WT/_build/test/momo_test" 2>/dev/null | grep -c ": ok") || suite="buildfail"
fi
ok=false
if [ "$before" = "PASS" ] && [ "${after#FAIL}" != "$after" ] && { [ "$suite" = "2328" ] || [ "$suite" = "skipped" ]; }; then ok=true; fi
tailout=$(tail -c 400 "$WT/demo.out" | tr '"\n\\' '   ')
echo "{\"ok\": $ok, \"demo_without_patch\": \"$before\", \"demo_with_patch\": \"$after\", \"demo_flags\": \"$result_flags\", \"suite_ok_count\": \"$suite\", \"demo_output_tail\": \"$tailout\"}" > "$SD/validation.json"
cat "$SD/validation.json"
