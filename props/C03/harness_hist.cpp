// C03 implementation side, part 2: the ORACLE / search stage.  Operation histories over the real containers with the
// identity- and size-checking memory manager kit::MM, instrumented elements and one injected failure.
// Case line:   <scenario> <elem> <p> <kind> <k>      kind = n (no failure) | a (k-th allocation) | c (k-th element copy)
//                                                           | f (k-th functor call) fails, counted from the scenario start
// Output:      <live blocks> <live objs> <#kit errors> <steps_a> <steps_c> <steps_f> <fired> | <event tokens for the monitor>
// After every scenario all containers are destroyed, so the first two numbers must be 0, the third 0, and the proved
// monitor (Monitor.v, extracted) must accept the event log.
#include "private_access.h"
#include "kit.h"
#include "momo/Array.h"
#include "momo/SegmentedArray.h"
#include "momo/HashSet.h"
#include "momo/HashMap.h"
#include "momo/HashMultiMap.h"
#include "momo/TreeSet.h"
#include "momo/TreeMap.h"
#include "momo/MemPool.h"
#include "momo/details/HashBucketOne.h"
#include "momo/details/HashBucketLim4.h"
#include "momo/details/HashBucketLimP.h"
#include "momo/details/HashBucketLimP1.h"
#include "momo/details/HashBucketLimP4.h"
#include "momo/details/HashBucketUnlimP.h"
#include "momo/details/HashBucketOpen8.h"
#include "momo/details/HashBucketOpen2N2.h"
#include "momo/details/HashBucketOpenN1.h"
#include "momo/stdish/pool_allocator.h"
#include <list>
#include <map>
#include <functional>
// the TU is compiled three times (-DC03_PART=1|2|3) to keep each compilation short; without C03_PART everything is in
#if defined(C03_PART) && C03_PART != 3 && C03_PART != 6
#define C03_NO_DATATABLE
#define C03_NO_STDISH
#endif
#ifndef C03_NO_DATATABLE
#include "momo/DataTable.h"
#endif
#ifndef C03_NO_STDISH
#include "momo/stdish/vector.h"
#include "momo/stdish/unordered_set.h"
#include "momo/stdish/unordered_map.h"
#include "momo/stdish/unordered_multimap.h"
#include "momo/stdish/set.h"
#include "momo/stdish/map.h"
#endif
using namespace momo;
typedef unsigned long long ull;

static bool g_fired = false;
// measured coverage: every guarded operation of a scenario is counted under (scenario, source text of the operation); printed on stderr at exit
static std::map<std::string, unsigned long> g_cov;
static std::string g_scn;
static int g_dist = 0;      // hash distribution for the slow-hash configurations of the audit (kit::Dist), from the element kind suffix ".d"
static long g_rearm = -1; static char g_rearm_kind = 0;     // fault SEQUENCES: after the first injected failure a second one is armed
static void cov(const std::string& t) { ++g_cov[t]; }
static void rearm()
{
	if (g_rearm < 0) return;
	kit::World& w = kit::W();
	if (g_rearm_kind == 'a') w.fail_alloc = g_rearm; else if (g_rearm_kind == 'c') w.fail_copy = g_rearm; else w.fail_func = g_rearm;
	g_rearm = -1; cov("event:second-failure-armed");
}
template<class F> static void G_(const char* text, F f)     // one guarded operation: an injected failure is swallowed, the history goes on
{
	if (text[0] == '[') { std::string t(text); if (t.size() > 64) t.resize(64); cov("op:" + g_scn + ": " + t); }
	bool before = g_fired;
	try { f(); }
	catch (const kit::InjectedAlloc&) { g_fired = true; }
	catch (const std::bad_alloc&) { g_fired = true; }       // HashSet::pvAddGrow rethrows a sliced copy (`throw exception;`)
	catch (const kit::InjectedCopy&) { g_fired = true; }
	catch (const kit::InjectedFunc&) { g_fired = true; }
	if (g_fired && !before) rearm();
}
#define G(...) G_(#__VA_ARGS__, __VA_ARGS__)
static uint64_t g_rng = 1;
static uint64_t rnd() { g_rng += 0x9E3779B97F4A7C15ull; uint64_t z = g_rng; z = (z ^ (z >> 30)) * 0xBF58476D1CE4E5B9ull; z = (z ^ (z >> 27)) * 0x94D049BB133111EBull; return z ^ (z >> 31); }
template<class E> static E mk(int64_t v) { return E(v); }

// ------------------------------------------------------------------------------------------------ Array / SegmentedArray
template<class Arr, class E> static void scn_array(size_t p)
{
	kit::MM mm(1), mm2(2);
	std::vector<E> pool; pool.reserve(16);
	G([&] { for (int i = 0; i < 6; ++i) pool.emplace_back(int64_t(i)); });
	if (pool.size() < 6) return;
	{
		Arr a(mm);
		G([&] { for (size_t i = 0; i < p; ++i) a.AddBack(pool[i % 6]); });
		G([&] { Arr b(a); G([&] { b.AddBack(pool[1]); }); });                                   // copy constructor
		G([&] { Arr b(a, mm2); });                                                              // copy into another manager
		G([&] { Arr b(pool.begin(), pool.end(), mm); G([&] { b.Insert(1, pool[2]); }); });      // range constructor
		G([&] { Arr b({ pool[0], pool[1], pool[2] }, mm); });                                   // initializer list
		G([&] { Arr b(p / 2 + 1, pool[3], mm); });                                              // count + item
		G([&] { a.Insert(a.GetCount() / 2, pool[4]); });
		G([&] { a.Insert(0, pool.begin(), pool.begin() + 3); });
		G([&] { if (a.GetCount() > 2) a.Remove(1, 2); });
		G([&] { a.Reserve(a.GetCapacity() + 5); });
		G([&] { a.Shrink(); });
		G([&] { a.SetCount(a.GetCount() + 3, pool[5]); });
		G([&] { a.SetCount(a.GetCount() / 2); });
		G([&] { Arr b(mm); b = a; G([&] { b.AddBack(pool[0]); }); a.Swap(b); });                // copy assignment, swap
		G([&] { Arr b(std::move(a)); a = std::move(b); });                                      // moves
		if (p % 2) a.Clear(true);
		G([&] { a.AddBack(pool[2]); });
	}
}

// ------------------------------------------------------------------------------------------------ HashSet
template<class HS, class E> static void scn_hset(size_t p)
{
	kit::MM mm(1), mm2(2);
	std::vector<E> pool; pool.reserve(64);
	G([&] { for (size_t i = 0; i < p + 8; ++i) pool.emplace_back(int64_t(i * 7 % 61)); });
	if (pool.size() < p + 8) return;
	typename HS::HashTraits ht;
	{
		HS s(ht, mm);
		G([&] { for (size_t i = 0; i < p; ++i) s.Insert(pool[i]); });
		G([&] { HS c(s); G([&] { c.Insert(pool[p + 1]); }); });                                 // copy constructor
		G([&] { HS c(s, mm2); });
		G([&] { HS c({ pool[0], pool[1], pool[2], pool[3], pool[4] }, ht, mm); });              // initializer list
		G([&] { s.Reserve(s.GetCount() * 3 + 4); });
		G([&] { if (s.GetCount() > 0) s.Remove(s.GetBegin()); });
		G([&] { s.Remove(pool[1]); });
		G([&] { HS d(ht, mm); G([&] { for (size_t i = p; i < p + 6; ++i) d.Insert(pool[i]); }); G([&] { d.MergeTo(s); }); });
		G([&] { HS d(ht, mm2); G([&] { d.Insert(pool[p + 7]); }); G([&] { s.MergeTo(d); }); G([&] { d.MergeTo(s); }); });
		G([&] { if (s.GetCount() > 0) { auto ext = s.Extract(s.GetBegin()); G([&] { s.Insert(std::move(ext)); }); } });
		G([&] { HS c(ht, mm); c = s; s.Swap(c); });
		G([&] { HS c(std::move(s)); s = std::move(c); });
		if (p % 2) s.Clear(true); else if (p % 3 == 0) s.Clear(false);
		G([&] { s.Insert(pool[2]); });
	}
}

// ------------------------------------------------------------------------------------------------ HashMap / TreeMap
template<class HM, class K, class V, class Traits> static void scn_map(size_t p)
{
	kit::MM mm(1), mm2(2);
	std::vector<K> keys; std::vector<V> vals; keys.reserve(64); vals.reserve(8);
	G([&] { for (size_t i = 0; i < p + 8; ++i) keys.emplace_back(int64_t(i * 5 % 53)); for (int i = 0; i < 4; ++i) vals.emplace_back(int64_t(1000 + i)); });
	if (keys.size() < p + 8 || vals.size() < 4) return;
	Traits tr;
	{
		HM m(tr, mm);
		G([&] { for (size_t i = 0; i < p; ++i) m.Insert(keys[i], vals[i % 4]); });
		G([&] { HM c(m); G([&] { c.Insert(keys[p + 1], vals[0]); }); });
		G([&] { HM c(m, mm2); });
		G([&] { HM c({ std::pair<K, V>(keys[0], vals[0]), std::pair<K, V>(keys[1], vals[1]), std::pair<K, V>(keys[2], vals[2]) }, tr, mm); });
		G([&] { m[keys[p + 2]] = vals[1]; });
		G([&] { m.Remove(keys[1]); });
		G([&] { if (m.GetCount() > 0) m.Remove(m.GetBegin()); });
		G([&] { HM d(tr, mm); G([&] { for (size_t i = p; i < p + 5; ++i) d.Insert(keys[i], vals[2]); }); G([&] { d.MergeTo(m); }); });
		G([&] { HM c(tr, mm); c = m; m.Swap(c); });
		G([&] { HM c(std::move(m)); m = std::move(c); });
		if (p % 2) m.Clear();
		G([&] { m.Insert(keys[3], vals[3]); });
	}
}

// ------------------------------------------------------------------------------------------------ HashMultiMap
template<class MM_, class K, class V> static void scn_hmm(size_t p)
{
	kit::MM mm(1), mm2(2);
	std::vector<K> keys; std::vector<V> vals; keys.reserve(32); vals.reserve(8);
	G([&] { for (size_t i = 0; i < 12; ++i) keys.emplace_back(int64_t(i * 3 % 11)); for (int i = 0; i < 4; ++i) vals.emplace_back(int64_t(1000 + i)); });
	if (keys.size() < 12 || vals.size() < 4) return;
	typename MM_::HashTraits ht;
	{
		MM_ m(ht, mm);
		G([&] { for (size_t i = 0; i < p; ++i) m.Add(keys[i % 5], vals[i % 4]); });
		G([&] { MM_ c(m); G([&] { c.Add(keys[7], vals[0]); }); });                               // copy constructor
		G([&] { MM_ c(m, mm2); });
		G([&] { MM_ c({ std::pair<K, V>(keys[0], vals[0]), std::pair<K, V>(keys[0], vals[1]), std::pair<K, V>(keys[1], vals[2]),
			std::pair<K, V>(keys[2], vals[3]), std::pair<K, V>(keys[0], vals[2]) }, ht, mm); }); // initializer list (delegating + catch)
		G([&] { m.RemoveKey(keys[1]); });
		G([&] { auto ki = m.Find(keys[2]); if (!!ki) m.RemoveValues(ki); });
		G([&] { auto ki = m.Find(keys[0]); if (!!ki && ki->GetCount() > 0) m.Remove(ki, 0); });
		G([&] { MM_ c(ht, mm); c = m; m.Swap(c); });
		G([&] { MM_ c(std::move(m)); m = std::move(c); });
		if (p % 2) m.Clear();
		G([&] { m.Add(keys[3], vals[3]); });
	}
}

// ------------------------------------------------------------------------------------------------ TreeSet (merges move pool buffers)
template<class TS, class E> static void scn_tset(size_t p)
{
	kit::MM mm(1), mm2(2);
	std::vector<E> pool; pool.reserve(128);
	G([&] { for (size_t i = 0; i < 2 * p + 12; ++i) pool.emplace_back(int64_t(i)); });
	if (pool.size() < 2 * p + 12) return;
	typename TS::TreeTraits tt;
	{
		TS s(tt, mm);
		G([&] { for (size_t i = 0; i < p; ++i) s.Insert(pool[(i * 7) % p]); });
		G([&] { TS c(s); G([&] { c.Insert(pool[p + 1]); }); });                                 // copy constructor
		G([&] { TS c(s, mm2); });
		G([&] { TS c({ pool[0], pool[1], pool[2], pool[3], pool[4], pool[5] }, tt, mm); });     // initializer list
		G([&] { if (s.GetCount() > 0) s.Remove(s.GetBegin()); });
		G([&] { s.Remove(pool[p / 2]); });
		// fast-path merge: same manager, all keys of d above all keys of s  => nodes are relinked and the pool buffers move
		G([&] { TS d(tt, mm); G([&] { for (size_t i = p + 2; i < 2 * p + 10; ++i) d.Insert(pool[i]); }); G([&] { d.MergeTo(s); }); G([&] { d.Insert(pool[0]); }); });
		G([&] { TS d(tt, mm); G([&] { d.Insert(pool[p / 3]); d.Insert(pool[2 * p + 11]); }); G([&] { d.MergeTo(s); }); });    // interleaved: slow path
		G([&] { TS d(tt, mm2); G([&] { d.Insert(pool[p + 1]); }); G([&] { s.MergeTo(d); }); G([&] { d.MergeTo(s); }); });      // unequal managers
		G([&] { if (s.GetCount() > 0) { auto ext = s.Extract(s.GetBegin()); G([&] { s.Insert(std::move(ext)); }); } });
		G([&] { TS c(tt, mm); c = s; s.Swap(c); });
		G([&] { TS c(std::move(s)); s = std::move(c); });
		if (p % 2) s.Clear();
		G([&] { s.Insert(pool[2]); });
	}
}

// ------------------------------------------------------------------------------------------------ aimed: ONE tree insertion
// tiny nodes (TreeNode<4, 1>) with ONE block per pool buffer: every node is its own block at the memory manager, so a node lost by
// the Relocator (TreeSet::Relocator::CreateNode keeps a node only in mNewNodes, a NestedArrayIntCap<4, Node*> whose growth can fail:
// the 5th node of one insertion = two cascading splits + a new root) is a block that is never given back.  The prefix (p - 1
// insertions) runs with the injection suspended; the failure counters are re-armed for the p-th insertion only, so `k` counts the
// fallible steps of THAT insertion and prop.py enumerates every one of them.
template<class TS, class E, class Ins> static void scn_trel(size_t p, int order, Ins ins)
{
	kit::World& w = kit::W();
	long fa = w.fail_alloc, fc = w.fail_copy, ff = w.fail_func;
	w.fail_alloc = w.fail_copy = w.fail_func = -1;
	std::vector<E> pool; pool.reserve(p + 8);
	for (size_t i = 0; i < p + 4; ++i)
		pool.emplace_back(int64_t(order == 0 ? i : order == 1 ? 1000 - i : (i * 37) % 211));
	uint64_t sa = 0, sc = 0, sf = 0;
	{
		TS s(typename TS::TreeTraits(), kit::MM(1));
		for (size_t i = 0; i + 1 < p; ++i) ins(s, pool[i]);
		w.arm(fa, fc, ff);
		G([&] { ins(s, pool[p - 1]); });
		sa = w.steps_alloc; sc = w.steps_copy; sf = w.steps_func;
		w.fail_alloc = w.fail_copy = w.fail_func = -1;
		if (s.GetCount() + 1 == p) ins(s, pool[p - 1]);        // the failed insertion left the set unchanged: do it again
		if (s.GetCount() != p) w.error("tree count after the aimed insertion is " + std::to_string(s.GetCount()));
		int64_t sum = 0;
		for (auto it = s.GetBegin(); it != s.GetEnd(); ++it) ++sum;
		if (size_t(sum) != p) w.error("tree iteration count");
		for (size_t i = p; i < p + 3; ++i) ins(s, pool[i]);
		if (p % 3 == 0) s.Clear();
	}
	w.steps_alloc = sa; w.steps_copy = sc; w.steps_func = sf;
}
template<class E, class PoolParams> static void trel_set(size_t p, int order)
{
	typedef TreeSet<E, TreeTraits<E, false, TreeNode<4, 1, PoolParams>>, kit::MM> TS;
	scn_trel<TS, E>(p, order, [](TS& s, const E& e) { s.Insert(e); });
}
template<class E, class PoolParams> static void trel_map(size_t p, int order)
{
	typedef TreeMap<E, E, TreeTraits<E, false, TreeNode<4, 1, PoolParams>>, kit::MM> TM;
	scn_trel<TM, E>(p, order, [](TM& s, const E& e) { s.Insert(e, E(e.Value() + 1)); });
}

// ------------------------------------------------------------------------------------------------ MemPool
template<class Pool> static void scn_pool(size_t p, Pool&& pl, Pool&& pl2)
{
	std::vector<void*> bs, bs2;
	G([&] { for (size_t i = 0; i < p; ++i) bs.push_back(pl.template Allocate<void>()); });
	for (size_t i = 0; i + 2 < bs.size(); i += 3) { pl.Deallocate(bs[i]); bs[i] = nullptr; }
	G([&] { for (size_t i = 0; i < p + 2; ++i) bs2.push_back(pl2.template Allocate<void>()); });
	if (bs2.size() > 4) { pl2.Deallocate(bs2[bs2.size() - 2]); bs2.erase(bs2.end() - 2); }
	G([&] { pl.MergeFrom(pl2); for (void* b : bs2) bs.push_back(b); bs2.clear(); });
	G([&] { for (size_t i = 0; i < 3; ++i) bs.push_back(pl.template Allocate<void>()); });
	for (void* b : bs2) pl2.Deallocate(b);
	if (p % 2 && pl.CanDeallocateAll()) pl.DeallocateAll();
	else for (void* b : bs) if (b != nullptr) pl.Deallocate(b);
}

#ifndef C03_NO_DATATABLE
namespace dt
{
	struct Row { int id; kit::ElemNtm e; int64_t grp; };
	MOMO_DATA_COLUMN_STRUCT(Row, id);
	MOMO_DATA_COLUMN_STRUCT(Row, e);
	MOMO_DATA_COLUMN_STRUCT(Row, grp);
	typedef DataColumnList<DataColumnTraits<Row>, kit::MM> ColumnList;
	typedef DataTable<ColumnList> Table;
	static void scn(size_t p)
	{
		kit::MM mm(1);
		kit::ElemNtm v0(int64_t(5));
		{
			G([&] {
				ColumnList cl(mm); cl.Add(id, e, grp); Table t(std::move(cl));
				G([&] { t.AddUniqueHashIndex(id); });
				G([&] { t.AddMultiHashIndex(grp); });
				G([&] { for (size_t i = 0; i < p; ++i) { auto r = t.NewRow(); r[id] = int(i); r[e] = v0; r[grp] = int64_t(i % 3); t.Add(std::move(r)); } });
				G([&] { auto r = t.NewRow(); r[id] = 0; t.TryAdd(std::move(r)); });                         // duplicate key: refused
				G([&] { Table c(t); G([&] { auto r = c.NewRow(); r[id] = 1000; c.Add(std::move(r)); }); }); // copy constructor
				G([&] { auto sel = t.Select(grp == int64_t(1)); Table c(sel); });                         // table from a selection
				G([&] { if (t.GetCount() > 2) t.Remove(1); });
				G([&] { if (t.GetCount() > 0) t.Update(t[0], grp, int64_t(2)); });
				G([&] { if (t.GetCount() > 0) { auto r = t.Extract(0); G([&] { t.Add(std::move(r)); }); } });
				G([&] { Table c(std::move(t)); t = std::move(c); });
				if (p % 2) t.Clear();
			});
		}
	}
}
#endif

#ifndef C03_NO_STDISH
template<class E> static void scn_std_vector(size_t p)
{
	typedef kit::StdAlloc<E> A;
	typedef stdish::vector<E, A> V;
	std::vector<E> pool; pool.reserve(8);
	G([&] { for (int i = 0; i < 6; ++i) pool.emplace_back(int64_t(i)); });
	if (pool.size() < 6) return;
	{
		V v{A(1)};
		G([&] { for (size_t i = 0; i < p; ++i) v.push_back(pool[i % 6]); });
		G([&] { V c(v); G([&] { c.push_back(pool[0]); }); });
		G([&] { V c(v, A(2)); });
		G([&] { V c(pool.begin(), pool.end(), A(1)); G([&] { c.insert(c.begin() + 1, pool[2]); }); });
		G([&] { V c({ pool[0], pool[1], pool[2] }, A(1)); });
		G([&] { v.insert(v.begin(), pool.begin(), pool.begin() + 2); });
		G([&] { if (v.size() > 1) v.erase(v.begin()); });
		G([&] { v.resize(v.size() + 2, pool[3]); });
		G([&] { v.shrink_to_fit(); });
		G([&] { V c{A(2)}; c = v; G([&] { v = std::move(c); }); });       // non-propagating, unequal allocators: element-wise move
		G([&] { V c{A(1)}; c = v; v.swap(c); });
		if (p % 2) v.clear();
	}
}
template<class S, class E, class... Fn> static void scn_std_set(size_t p, Fn... fn)
{
	typedef typename S::allocator_type A;
	std::vector<E> pool; pool.reserve(64);
	G([&] { for (size_t i = 0; i < p + 8; ++i) pool.emplace_back(int64_t(i * 7 % 61)); });
	if (pool.size() < p + 8) return;
	{
		S s(fn..., A(1));
		G([&] { for (size_t i = 0; i < p; ++i) s.insert(pool[i]); });
		G([&] { S c(s); G([&] { c.insert(pool[p + 1]); }); });
		G([&] { S c(s, A(2)); });
		G([&] { S c(pool.begin(), pool.begin() + 5, fn..., A(1)); });
		G([&] { S c({ pool[0], pool[1], pool[2] }, fn..., A(1)); });
		G([&] { s.erase(pool[1]); });
		G([&] { if (!s.empty()) s.erase(s.begin()); });
		G([&] { S d(fn..., A(1)); G([&] { for (size_t i = p; i < p + 6; ++i) d.insert(pool[i]); }); G([&] { s.merge(d); }); });
		G([&] { if (!s.empty()) { auto nh = s.extract(s.begin()); G([&] { s.insert(std::move(nh)); }); } });
		G([&] { S c(fn..., A(2)); c = s; G([&] { s = std::move(c); }); });
		G([&] { S c(fn..., A(1)); c = s; s.swap(c); });
		if (p % 2) s.clear();
	}
}
template<class M, class K, class V, class... Fn> static void scn_std_map(size_t p, Fn... fn)
{
	typedef typename M::allocator_type A;
	std::vector<K> keys; std::vector<V> vals; keys.reserve(64); vals.reserve(8);
	G([&] { for (size_t i = 0; i < p + 8; ++i) keys.emplace_back(int64_t(i * 5 % 13)); for (int i = 0; i < 4; ++i) vals.emplace_back(int64_t(1000 + i)); });
	if (keys.size() < p + 8 || vals.size() < 4) return;
	typedef std::pair<const K, V> P;
	{
		M m(fn..., A(1));
		G([&] { for (size_t i = 0; i < p; ++i) m.insert(P(keys[i], vals[i % 4])); });
		G([&] { M c(m); G([&] { c.insert(P(keys[p + 1], vals[0])); }); });
		G([&] { M c(m, A(2)); });
		G([&] { M c({ P(keys[0], vals[0]), P(keys[1], vals[1]), P(keys[0], vals[2]) }, fn..., A(1)); });
		G([&] { m.erase(keys[1]); });
		G([&] { if (!m.empty()) m.erase(m.begin()); });
		G([&] { M c(fn..., A(2)); c = m; G([&] { m = std::move(c); }); });
		G([&] { M c(fn..., A(1)); c = m; m.swap(c); });
		if (p % 2) m.clear();
	}
}
#endif

// ------------------------------------------------------------------------------------------------ dispatch
typedef kit::ElemNtm EN; typedef kit::ElemCpo EC;
// momo's debug-only self check (MOMO_EXTRA_CHECK -> pvExtraCheck) calls the user's hash/equality functors again and asserts
// when they throw; an injected FUNCTOR failure landing inside it is an artefact of the injection, so it is switched off here.
struct HSet : HashSetSettings { static const ExtraCheckMode extraCheckMode = ExtraCheckMode::nothing; };
struct HMap : HashMapSettings { static const ExtraCheckMode extraCheckMode = ExtraCheckMode::nothing; };
struct TSetS : TreeSetSettings { static const ExtraCheckMode extraCheckMode = ExtraCheckMode::nothing; };
struct HMMap : HashMultiMapSettings { static const ExtraCheckMode extraCheckMode = ExtraCheckMode::nothing; };
template<class E, class HT> using HSetT = HashSet<E, HT, kit::MM, HashSetItemTraits<E, kit::MM>, HSet>;
template<class E, class HT> using HMapT = HashMap<E, E, HT, kit::MM, HashMapKeyValueTraits<E, E, kit::MM>, HMap>;
template<class E, class HT> using HMMapT = HashMultiMap<E, E, HT, kit::MM, HashMultiMapKeyValueTraits<E, E, kit::MM>, HMMap>;
template<class E> using HTd = HashTraitsStd<E, kit::Hash, kit::Eq>;                               // default bucket (LimP4)
template<class E> using HTo = HashTraitsStd<E, kit::Hash, kit::Eq, HashBucketOpenDefault>;        // open addressing
template<class E> using HT1 = HashTraitsStd<E, kit::Hash, kit::Eq, HashBucketOne<>>;
template<class E> using TTs = TreeTraits<E, false, TreeNode<4, 2>>;                               // small nodes: deep trees, empty traits (fast merge)
template<class E> using TTf = TreeTraitsStd<E, kit::Less, false, TreeNode<4, 2>>;                 // instrumented comparator (functor failures)

#if defined(C03_PART) && C03_PART >= 4
#include "harness_audit.inc"
#endif

static bool dispatch(const std::string& scn, const std::string& el, size_t p)
{
	bool n = (el == "ntm");
#if !defined(C03_PART) || C03_PART == 1
	if (scn == "arr") { if (n) scn_array<Array<EN, kit::MM>, EN>(p); else scn_array<Array<EC, kit::MM>, EC>(p); }
	else if (scn == "arri") { scn_array<Array<EN, kit::MM, ArrayItemTraits<EN, kit::MM>, ArraySettings<4>>, EN>(p); }
	else if (scn == "arrr")
	{	// trivially relocatable items + a manager with Reallocate: the realloc grow/shrink paths
		typedef Array<kit::ElemTriv, kit::MMR> A;
		A a{kit::MMR(1)};
		G([&] { for (size_t i = 0; i < p; ++i) a.AddBack(kit::ElemTriv(int64_t(i))); });
		G([&] { A b(a); G([&] { b.Reserve(b.GetCapacity() * 2 + 3); }); });
		G([&] { a.Shrink(); });
		G([&] { a.Insert(0, kit::ElemTriv(1)); });
		if (p % 2) a.Clear(true);
	}
	else if (scn == "seg") { if (n) scn_array<SegmentedArray<EN, kit::MM>, EN>(p); else scn_array<SegmentedArray<EC, kit::MM>, EC>(p); }
	else if (scn == "hset") { if (n) scn_hset<HSetT<EN, HTd<EN>>, EN>(p); else scn_hset<HSetT<EC, HTd<EC>>, EC>(p); }
	else if (scn == "hseto") { if (n) scn_hset<HSetT<EN, HTo<EN>>, EN>(p); else scn_hset<HSetT<EC, HTo<EC>>, EC>(p); }
	else if (scn == "hsfirst" || scn == "hsfirsto")
	{	// FIRST insertion into a set that has no bucket array: fresh, after Clear(true), re-created after a move (a moved-from set itself
		// has a null crew and may only be destroyed or assigned to), after Reserve (pvAddGrow with hasBuckets == false)
		bool open = (scn == "hsfirsto");
		auto body = [&](auto* tag)
		{
			typedef typename std::remove_pointer<decltype(tag)>::type HS;
			std::vector<EN> pool; pool.reserve(8);
			G([&] { for (int i = 0; i < 6; ++i) pool.emplace_back(int64_t(i)); });
			if (pool.size() < 6) return;
			typename HS::HashTraits ht;
			{ HS a(ht, kit::MM(1)); G([&] { a.Insert(pool[0]); }); G([&] { a.Insert(pool[1]); }); }
			{ HS a(ht, kit::MM(1)); G([&] { a.Insert(pool[0]); }); a.Clear(true); G([&] { a.Insert(pool[2]); }); G([&] { a.Insert(pool[3]); }); }
			{ HS a(ht, kit::MM(1)); G([&] { a.Insert(pool[0]); }); G([&] { HS b(std::move(a)); G([&] { a = HS(ht, kit::MM(1)); a.Insert(pool[4]); }); G([&] { b.Insert(pool[5]); }); }); }
			{ HS a(ht, kit::MM(1)); G([&] { a.Reserve(p); }); G([&] { a.Insert(pool[1]); }); }
		};
		if (open) body(static_cast<HSetT<EN, HTo<EN>>*>(nullptr)); else body(static_cast<HSetT<EN, HTd<EN>>*>(nullptr));
	}
	else if (scn == "hset1") { if (n) scn_hset<HSetT<EN, HT1<EN>>, EN>(p); else scn_hset<HSetT<EC, HT1<EC>>, EC>(p); }
	else
#endif
#if !defined(C03_PART) || C03_PART == 2
	if (scn == "hmap") { if (n) scn_map<HMapT<EN, HTd<EN>>, EN, EN, HTd<EN>>(p); else scn_map<HMapT<EC, HTd<EC>>, EC, EC, HTd<EC>>(p); }
	else if (scn == "hmm") { if (n) scn_hmm<HMMapT<EN, HTd<EN>>, EN, EN>(p); else scn_hmm<HMMapT<EC, HTd<EC>>, EC, EC>(p); }
	else if (scn == "tset") { if (n) scn_tset<TreeSet<EN, TTs<EN>, kit::MM>, EN>(p); else scn_tset<TreeSet<EC, TTs<EC>, kit::MM>, EC>(p); }
	else if (scn == "tsetf") { if (n) scn_tset<TreeSet<EN, TTf<EN>, kit::MM, TreeSetItemTraits<EN, kit::MM>, TSetS>, EN>(p); else scn_tset<TreeSet<EC, TTf<EC>, kit::MM, TreeSetItemTraits<EC, kit::MM>, TSetS>, EC>(p); }
	else if (scn == "tsmall")
	{	// tiny nodes, one block per pool buffer, no cache: every node is its own block, so a read of a freed node is a heap
		// use-after-free that ASan sees (root collapse in pvRebalance, fix c72d55b); inserts ascending, removes from the front
		typedef TreeSet<EN, TreeTraits<EN, false, TreeNode<2, 1, MemPoolParams<1, 0>>>, kit::MM> TS;
		std::vector<EN> pool; pool.reserve(64);
		G([&] { for (size_t i = 0; i < p + 2; ++i) pool.emplace_back(int64_t(i + 1)); });
		if (pool.size() < p + 2) return true;
		TS s(TS::TreeTraits(), kit::MM(1));
		G([&] { for (size_t i = 0; i < p; ++i) s.Insert(pool[i]); });
		for (size_t i = 0; i < p / 2 + 1; ++i) G([&] { if (s.GetCount() > 0) s.Remove(s.GetBegin()); });
		G([&] { TS c(s); while (c.GetCount() > 0) c.Remove(std::prev(c.GetEnd())); });
		G([&] { s.Insert(pool[p + 1]); });
		while (s.GetCount() > 0) s.Remove(s.GetBegin());
	}
	else if (scn == "tmergeb")
	{	// fast merge (empty traits, equal managers, disjoint key ranges) AFTER the source has freed nodes (its pools hold cached
		// free blocks), the source is refilled, the DESTINATION dies first, then the source is read and destroyed
		typedef TreeSet<EN, TreeTraits<EN>, kit::MM> TS;        // default nodes: 8 blocks per pool buffer, 16 cached free blocks
		std::vector<EN> pool; pool.reserve(400);
		G([&] { for (size_t i = 0; i < 6 * p + 80; ++i) pool.emplace_back(int64_t(i)); });
		if (pool.size() < 6 * p + 80) return true;
		TS src(TS::TreeTraits(), kit::MM(1));
		G([&] { for (size_t i = 0; i < 4 * p + 40; ++i) src.Insert(pool[i]); });
		for (size_t i = 0; i < 3 * p + 30; ++i) G([&] { if (src.GetCount() > 2) src.Remove(src.GetBegin()); });   // frees nodes
		{
			TS dst(TS::TreeTraits(), kit::MM(1));
			G([&] { for (size_t i = 5 * p + 50; i < 6 * p + 80; ++i) dst.Insert(pool[i]); });
			G([&] { src.MergeTo(dst); });
			G([&] { for (size_t i = 0; i < 2 * p + 20; ++i) src.Insert(pool[i]); });            // refill: takes cached blocks
		}	// ~dst
		int64_t sum = 0;
		G([&] { for (const EN& e : src) sum += e.Value(); });
		G([&] { src.Insert(pool[3 * p + 31]); });
		while (src.GetCount() > 0) src.Remove(src.GetBegin());
	}
	else if (scn == "trel") { if (n) trel_set<EN, MemPoolParams<1>>(p, 0); else trel_set<EC, MemPoolParams<1>>(p, 0); }
	else if (scn == "trel0") { if (n) trel_set<EN, MemPoolParams<1, 0>>(p, 0); else trel_set<EC, MemPoolParams<1, 0>>(p, 0); }
	else if (scn == "treld") { if (n) trel_set<EN, MemPoolParams<1>>(p, 1); else trel_set<EC, MemPoolParams<1>>(p, 1); }
	else if (scn == "trelr") { if (n) trel_set<EN, MemPoolParams<1>>(p, 2); else trel_set<EC, MemPoolParams<1>>(p, 2); }
	else if (scn == "tmrel") { if (n) trel_map<EN, MemPoolParams<1>>(p, 0); else trel_map<EC, MemPoolParams<1>>(p, 0); }
	else if (scn == "tmap") { if (n) scn_map<TreeMap<EN, EN, TTs<EN>, kit::MM>, EN, EN, TTs<EN>>(p); else scn_map<TreeMap<EC, EC, TTs<EC>, kit::MM>, EC, EC, TTs<EC>>(p); }
	else if (scn == "pool")
	{
		typedef MemPool<MemPoolParams<>, kit::MM> Pool;
		Pool a(MemPoolParams<>(24), kit::MM(1)), b(MemPoolParams<>(24), kit::MM(1));
		scn_pool(p, std::move(a), std::move(b));
	}
	else if (scn == "pool2")
	{	// 2 blocks per buffer: both pools own FULL buffers (linked before the free-buffer head) and a partly free head buffer,
		// so MergeFrom has to splice full buffers in front of the destination's head (the situation of fix 7f37c9f)
		typedef MemPool<MemPoolParams<2, 0>, kit::MM> Pool;
		Pool a(MemPoolParams<2, 0>(24), kit::MM(1)), b(MemPoolParams<2, 0>(24), kit::MM(1));
		scn_pool(p, std::move(a), std::move(b));
	}
	else if (scn == "pool4")
	{
		typedef MemPool<MemPoolParams<4, 3>, kit::MM> Pool;
		Pool a(MemPoolParams<4, 3>(16), kit::MM(1)), b(MemPoolParams<4, 3>(16), kit::MM(1));
		scn_pool(p, std::move(a), std::move(b));
	}
	else if (scn == "pool1")
	{
		typedef MemPool<MemPoolParams<1, 0>, kit::MM> Pool;       // one block per buffer, no cache
		Pool a(MemPoolParams<1, 0>(40), kit::MM(1)), b(MemPoolParams<1, 0>(40), kit::MM(1));
		scn_pool(p, std::move(a), std::move(b));
	}
	else
#endif
#ifndef C03_NO_DATATABLE
	if (scn == "dt") dt::scn(p); else
#endif
#ifndef C03_NO_STDISH
	if (scn == "svec") { if (n) scn_std_vector<EN>(p); else scn_std_vector<EC>(p); }
	else if (scn == "suset") { scn_std_set<stdish::unordered_set<EN, kit::Hash, kit::Eq, kit::StdAlloc<EN>>, EN>(p, size_t(0), kit::Hash(), kit::Eq()); }
	else if (scn == "sset") { scn_std_set<stdish::set<EN, kit::Less, kit::StdAlloc<EN>>, EN>(p, kit::Less()); }
	else if (scn == "sumap") { scn_std_map<stdish::unordered_map<EN, EN, kit::Hash, kit::Eq, kit::StdAlloc<std::pair<const EN, EN>>>, EN, EN>(p, size_t(0), kit::Hash(), kit::Eq()); }
	else if (scn == "summap") { scn_std_map<stdish::unordered_multimap<EN, EN, kit::Hash, kit::Eq, kit::StdAlloc<std::pair<const EN, EN>>>, EN, EN>(p, size_t(0), kit::Hash(), kit::Eq()); }
	else if (scn == "smap") { scn_std_map<stdish::map<EN, EN, kit::Less, kit::StdAlloc<std::pair<const EN, EN>>>, EN, EN>(p, kit::Less()); }
	else if (scn == "smmap") { scn_std_map<stdish::multimap<EN, EN, kit::Less, kit::StdAlloc<std::pair<const EN, EN>>>, EN, EN>(p, kit::Less()); }
	else
#endif
#if defined(C03_PART) && C03_PART >= 4
	return dispatch_audit(scn, el, p);
#else
	return false;
#endif
	return true;
}

int main()
{
	std::string line;
	while (std::getline(std::cin, line))
	{
		std::istringstream is(line); std::string scn, el, kind; size_t p; long k; is >> scn >> el >> p >> kind >> k;
		kit::World& w = kit::W();
		w.errors.clear(); w.elog_reset(); w.elogging = true; g_fired = false; g_rng = 1;
		g_scn = scn;
		{ size_t dot = el.find('.'); g_dist = 0; if (dot != std::string::npos) { g_dist = std::atoi(el.c_str() + dot + 1); el.resize(dot); } }
		// kinds A / C / F: the k-th step fails AND, once that failure has been caught, the 2nd next step of the same kind fails too
		g_rearm = -1; if (kind == "A" || kind == "C" || kind == "F") { g_rearm_kind = char(kind[0] - 'A' + 'a'); g_rearm = 1; kind[0] = g_rearm_kind; }
		cov("case:" + scn + "/" + el + "/" + (g_rearm >= 0 ? std::string(1, char(kind[0] - 'a' + 'A')) : kind));
		w.arm(kind == "a" ? k : -1, kind == "c" ? k : -1, kind == "f" ? k : -1);
		bool known = true;
		G([&] { known = dispatch(scn, el, p); });       // a failure outside an inner guard (e.g. in the first constructor) ends the history
		uint64_t sa = w.steps_alloc, sc = w.steps_copy, sf = w.steps_func;
		w.disarm(); w.elogging = false;
		if (!known) { puts("?"); continue; }
		std::string out = kit::summary() + " " + std::to_string(sa) + " " + std::to_string(sc) + " " + std::to_string(sf) + " " + (g_fired ? "1" : "0") + " |";
		for (auto& e : w.elog)
		{
			out += ' '; out += e.kind;
			switch (e.kind)
			{
			case 'A': case 'D': out += std::to_string(e.a) + "." + std::to_string(e.b) + "." + std::to_string(e.c); break;
			case 'C': case 'M': out += std::to_string(e.a) + "." + std::to_string(e.b); break;
			default: out += std::to_string(e.a);
			}
		}
		if (!w.errors.empty()) out += " # " + w.errors[0];
		puts(out.c_str()); fflush(stdout);
		// leftovers of a broken scenario must not poison the next one
		w.blocks.clear(); w.objs.clear();
	}
	for (auto& kv : g_cov) fprintf(stderr, "COV\t%s\t%lu\n", kv.first.c_str(), kv.second);
	return 0;
}
