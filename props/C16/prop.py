"""C16 – SegmentedArray never moves elements and indexes them consistently.
tie: T-gen (cxx2coq on SegmentedArraySettings<sqrt|cnst, L> with L symbolic, UIntMath<size_t|uint32_t>::Log2) +
translator validation against the real functions; L1 model of the capacity operations corresponded with the real
container; oracle = the property predicate evaluated on the real code (index enumeration + address stability)."""
import os, sys, bisect

GEN = ['gen_log2_64.json', 'gen_log2_32.json', 'gen_segsqrt.json', 'gen_segcnst.json']
M64 = 2 ** 64
PAR = 8

# ------------------------------------------------------------------ python reference of the segment sizes (oracle side only)
def seg_sizes(F, L, upto):
    """sizes of segments 0,1,2,... until their sum exceeds `upto` (the documented layout, NOT taken from the Coq model)"""
    out = []; tot = 0
    if F == 'cn':
        while tot <= upto:
            out.append(2 ** L); tot += 2 ** L
        return out
    out.append(2 ** L); tot = 2 ** L; k = 1
    while tot <= upto:
        for _ in range(3 * 2 ** (k - 1)):
            out.append(2 ** (k + L)); tot += 2 ** (k + L)
            if tot > upto: break
        k += 1
    return out

def boundaries(F, L, upto):
    b = [0]; 
    for s in seg_sizes(F, L, upto):
        b.append(b[-1] + s)
    return b

# ------------------------------------------------------------------ generators
def gen_index_cases(ctx, scale):
    r = ctx.rng; cases = []
    thorough = scale > 1
    # Log2: every 2^k, 2^k-1, 2^k+1, smeared patterns, random
    for k in range(64):
        for v in (2 ** k, 2 ** k - 1, 2 ** k + 1, 2 ** k + 2 ** (k // 2), 2 ** (k + 1) - 1, 2 ** k + r.below(2 ** k)):
            if 0 < v < M64: cases.append('lg64 %d' % v)
    for k in range(32):
        for v in (2 ** k, 2 ** k - 1, 2 ** k + 1, 2 ** (k + 1) - 1, 2 ** k + r.below(2 ** k)):
            if 0 < v < 2 ** 32: cases.append('lg32 %d' % v)
    for _ in range(300 * scale):
        cases.append('lg64 %d' % (r.below(2 ** r.range(1, 64)) + 1))
        cases.append('lg32 %d' % (r.below(2 ** r.range(1, 32)) + 1))
    cases.append('lg64 0'); cases.append('lg32 0')
    # exhaustive prefixes (range lines of 1024 indexes)
    blk = 1024
    ex = {('sq', 0): 20, ('sq', 3): 16, ('sq', 1): 14, ('sq', 2): 14, ('sq', 5): 14, ('sq', 8): 13, ('sq', 16): 13,
          ('cn', 0): 20, ('cn', 5): 20, ('cn', 3): 17, ('cn', 12): 16}
    if thorough:
        ex = {('sq', 0): 24, ('sq', 3): 22, ('sq', 1): 20, ('sq', 2): 20, ('sq', 5): 20, ('sq', 8): 19, ('sq', 16): 18,
              ('cn', 0): 24, ('cn', 5): 24, ('cn', 3): 22, ('cn', 12): 20}
    for (F, L), lg in sorted(ex.items()):
        for lo in range(0, 2 ** lg, blk):
            cases.append('%sr %d %d %d' % (F, L, lo, blk))
    # aimed: around every 2^k, around every change of logItemCount (index1 = 2^(2k-1)), top of the proved range
    for L in list(range(0, 17)) + [20, 31, 32, 33, 47, 48, 62, 63]:
        pts = set()
        for k in range(0, 64):
            for d in range(-3, 4):
                pts.add(2 ** k + d)
        for m in range(1, 64 - L + 1):            # index1 = 2^m exactly at index (2^m - 1) * 2^L
            base = (2 ** m - 1) * 2 ** L
            for d in (-2 ** L - 1, -2 ** L, -2, -1, 0, 1, 2 ** L - 1, 2 ** L):
                pts.add(base + d)
        for k in range(1, (64 - L) // 2 + 1):     # a few segment starts inside each size class
            P = 2 ** k
            for q in (P // 2, P // 2 + 1, P, 2 * P - 1):
                pts.add(((q * P) - 1) * 2 ** L); pts.add(((q * P) - 1) * 2 ** L - 1); pts.add(((q * P + P - 1)) * 2 ** L - 1)
        top = M64 - 2 ** L
        for d in range(1, 6):
            pts.add(top - d)
        for _ in range(40 * scale):
            pts.add(r.below(2 ** r.range(1, 64)))
        for d in range(0, 2 ** min(L, 3) + 2):
            pts.add(top + d); pts.add(M64 - 1 - d)
        for i in sorted(pts):
            if not (0 <= i < M64): continue
            # proved range (round 2): everything except (L = 0, SIZE_MAX); GetItemCount additionally not (L = 63, i >= 2^63: shift by 64 = UB)
            if (L == 0 and i == M64 - 1) or (L == 63 and i >= 2 ** 63):
                cases.append('sqs %d %d' % (L, i))    # outside the proved range: translator validation of GetSegItemIndexes only
            else:
                cases.append('sq %d %d' % (L, i))
            cases.append('cn %d %d' % (L, i))
    # inverse direction on slots
    for L in (0, 1, 3, 5, 8, 16, 33):
        for _ in range(150 * scale):
            k = r.range(0, min(31, (63 - L) // 2))
            P = 2 ** k
            s = r.range(3 * P // 2 - 2 if k > 0 else 0, 3 * P - 3) if k > 0 else 0
            j = r.choice([0, 1, P * 2 ** L - 1, r.below(P * 2 ** L)])
            if j < P * 2 ** L: cases.append('sqx %d %d %d' % (L, s, j))
            s2 = r.below(2 ** r.range(1, 63 - L)); j2 = r.below(2 ** L)
            cases.append('cnx %d %d %d' % (L, s2, j2))
    return cases

HIST_L = {'sq': [0, 1, 2, 3, 4], 'cn': [0, 1, 2, 3, 5]}

def gen_hist_cases(ctx, scale):
    r = ctx.rng; cases = []
    def one_history(F, L, limit, nops):
        bnd = boundaries(F, L, limit * 2)
        def near():
            b = r.choice(bnd); return max(0, b + r.choice([-2, -1, 0, 0, 1, 2]))
        cnt = 0; ops = []
        for _ in range(nops):
            t = r.below(100)
            if t < 30:
                k = r.choice([1, 1, 2, 3, r.range(1, 40), max(1, near() - cnt)]); k = min(k, max(1, limit - cnt))
                ops.append('a%d' % k); cnt += k
            elif t < 45:
                ops.append('r%d' % r.choice([near(), cnt + r.below(50), r.below(limit)]))
            elif t < 57:
                c = r.choice([near(), r.below(limit), cnt + r.below(30)]); c = min(c, limit)
                ops.append('s%d' % c); cnt = c
            elif t < 64:
                ops.append('k')
            elif t < 72:
                ops.append('K%d' % r.choice([near(), r.below(limit), 0]))
            elif t < 82:
                k = r.choice([1, 1, 2, r.below(cnt + 1), max(0, cnt - near())]); k = min(k, cnt)
                ops.append('b%d' % k); cnt -= k
            elif t < 85:
                ops.append('c'); cnt = 0
            elif t < 88:
                ops.append('C'); cnt = 0
            elif t < 91:
                if cnt < limit:
                    ops.append('i%d' % r.below(cnt + 1)); cnt += 1
            elif t < 94:
                if cnt > 0:
                    ops.append('d%d' % r.below(cnt)); cnt -= 1
            elif t < 96:     # Insert(index, n copies) / Insert(index, begin, end): both branches of ArrayShifter::InsertNogrow
                m = r.choice([0, 1, 2, r.range(1, 40), max(0, near() - cnt)]); m = min(m, max(0, limit - cnt))
                ops.append('%s%d:%d' % (r.choice('IJ'), r.choice([0, cnt, r.below(cnt + 1), max(0, cnt - r.below(m + 2))]), m)); cnt += m
            elif t < 98:
                pidx = r.below(cnt + 1); m = min(r.choice([0, 1, r.below(cnt - pidx + 1), cnt - pidx]), cnt - pidx)
                ops.append('D%d:%d' % (pidx, m)); cnt -= m
            else:
                ops.append(None)   # filter-Remove: the count afterwards depends on the values; stop generating count-dependent ops
                break
        if ops and ops[-1] is None:
            ops[-1] = 'F%d' % r.choice([2, 3, 5, 7]); ops += ['a%d' % r.range(1, 30), 'k']
        return ops, cnt
    for n in range(260 * scale):
        F = r.choice(['sq', 'cn']); L = r.choice(HIST_L[F])
        limit = r.choice([40, 200, 1500, 6000]) if L <= 2 or F == 'cn' else r.choice([200, 1500, 6000])
        ops, _ = one_history(F, L, limit, r.range(6, 36))
        cases.append('hist %s %d %s' % (F, L, ' '.join(ops)))
    # two arrays: ops on either, move / swap / copy between them
    for n in range(90 * scale):
        F = r.choice(['sq', 'cn']); L = r.choice([0, 1, 2, 3, 5]); limit = r.choice([40, 300, 2000])
        toks = []
        for _ in range(r.range(3, 9)):
            which = r.choice('AB')
            ops, _ = one_history(F, L, limit, r.range(1, 5))
            toks += ['%s.%s' % (which, o) for o in ops if o[0] not in 'F']
            toks.append(r.choice(['mAB', 'mBA', 'MAB', 'MBA', 'xAB', 'cAB', 'cBA', 'kAB', 'kBA']))
            # the generator does not track counts across world ops: restart each array's script from a known state
            toks += ['A.s%d' % r.below(limit), 'B.s%d' % r.below(limit)] if r.chance(1, 3) else []
        cases.append('hist2 %s %d %s' % (F, L, ' '.join(toks)))
    return cases

# ------------------------------------------------------------------ the property predicate on the real code's outputs
def oracle(ctx, cases, lines):
    bad = []; prev_missing = False
    for c, out in zip(cases, lines):
        w = c.split()
        if out == '<missing>':
            # the harness process died on this case (momo assertion / memory error); the rest of its chunk is lost too
            if not prev_missing:
                bad.append((c, out, 'the real code crashed (assertion failure or memory error) on this case'))
            prev_missing = True; continue
        prev_missing = False
        try:
            if w[0] in ('lg64', 'lg32'):
                v = int(w[1])
                if v > 0 and int(out) != v.bit_length() - 1:
                    bad.append((c, out, 'Log2(%d) = %s, expected %d' % (v, out, v.bit_length() - 1)))
            elif w[0] in ('sq', 'cn'):
                L, i = int(w[1]), int(w[2]); s, j, idx, cnt = map(int, out.split())
                if idx != i: bad.append((c, out, 'GetIndex(GetSegItemIndexes(%d)) = %d' % (i, idx)))
                elif not (j < cnt): bad.append((c, out, 'itemIndex %d >= GetItemCount(%d) = %d at index %d' % (j, s, cnt, i)))
                elif cnt & (cnt - 1) or cnt < 2 ** L: bad.append((c, out, 'GetItemCount(%d) = %d is not a power of two >= 2^L' % (s, cnt)))
                if i >= 2 ** 32: ctx.nontrivial.add(c)
            elif w[0] in ('sqr', 'cnr'):
                # run-length form: "s j idx cnt xLEN;" = LEN consecutive indexes, same s and cnt, j and idx increasing by 1
                L, lo, n = int(w[1]), int(w[2]), int(w[3]); F = w[0][:2]
                runs = []
                for x in out.split(';'):
                    if x:
                        f = x.split(); runs.append((int(f[0]), int(f[1]), int(f[2]), int(f[3]), int(f[4][1:])))
                if sum(r[4] for r in runs) != n:
                    bad.append((c, out[:200], 'range output covers %d indexes, expected %d' % (sum(r[4] for r in runs), n))); continue
                key = (F, L)
                prev = ctx._c16_last.get(key)     # (index, seg, item, cnt) of the last index of the previous run
                if lo == 0:
                    ctx._c16_bnd[key] = boundaries(F, L, 2 ** 25)
                bnd = ctx._c16_bnd.get(key)
                i = lo
                for (s, j, idx, cnt, ln) in runs:
                    why = None
                    if idx != i: why = 'GetIndex(GetSegItemIndexes(%d)) = %d' % (i, idx)
                    elif not (j + ln - 1 < cnt): why = 'itemIndex %d >= GetItemCount(%d) = %d at index %d' % (j + ln - 1, s, cnt, i + ln - 1)
                    elif cnt & (cnt - 1) or cnt < 2 ** L: why = 'GetItemCount(%d) = %d is not a power of two >= 2^L' % (s, cnt)
                    elif i == 0 and (s, j) != (0, 0): why = 'index 0 is slot (%d,%d)' % (s, j)
                    elif prev is not None and prev[0] == i - 1:
                        ps, pj, pc = prev[1], prev[2], prev[3]
                        exp = (ps, pj + 1) if pj + 1 < pc else (ps + 1, 0)
                        if (s, j) != exp: why = 'index %d is slot (%d,%d) but index %d was slot (%d,%d) of a segment of %d' % (i, s, j, i - 1, ps, pj, pc)
                    if why is None and bnd and i < bnd[-2]:
                        # independent layout: the documented size sequence
                        es = bisect.bisect_right(bnd, i) - 1
                        if (s, j, cnt) != (es, i - bnd[es], bnd[es + 1] - bnd[es]):
                            why = 'layout: index %d expected slot (%d,%d) of %d' % (i, es, i - bnd[es], bnd[es + 1] - bnd[es])
                    if why:
                        bad.append(('%s %d %d' % (F, L, i), '%d %d %d %d' % (s, j, idx, cnt), why)); break
                    prev = (i + ln - 1, s, j + ln - 1, cnt); i += ln
                ctx._c16_last[key] = prev
                ctx.nontrivial.add(c)
            elif w[0] in ('sqx', 'cnx'):
                L, s, j = int(w[1]), int(w[2]), int(w[3]); i, s2, j2 = map(int, out.split())
                if (s2, j2) != (s, j): bad.append((c, out, 'GetSegItemIndexes(GetIndex(%d,%d)) = (%d,%d)' % (s, j, s2, j2)))
            elif w[0] in ('hist', 'hist2'):
                if 'FAIL' in out or not out.strip():
                    bad.append((c, out[-200:], 'history on the real container: ' + (out.split('FAIL:')[-1] if 'FAIL' in out else 'no output')))
                elif w[0] == 'hist':
                    toks = out.split(); grew = False; prev = (0, 0)
                    for tk in toks:
                        cnt, sc, cap, top = tk.split('/')
                        if int(sc) > prev[1] and prev[0] > 0: grew = True
                        prev = (int(cnt), int(sc))
                    if grew: ctx.nontrivial.add(c)
                else:
                    # non-trivial: a move / swap / copy whose source held elements
                    toks = out.split(); ops = w[3:]; prevA = prevB = 0
                    for o, tk in zip(ops, toks):
                        a, b = tk.split('|'); ca, cb = int(a.split('/')[0]), int(b.split('/')[0])
                        if len(o) == 3 and o[1] != '.' and ((o[1] == 'A' and prevA > 0) or (o[1] == 'B' and prevB > 0)):
                            ctx.nontrivial.add(c)
                        prevA, prevB = ca, cb
        except (ValueError, IndexError):
            bad.append((c, out[:200], 'unparsable implementation output'))
    return bad

def shrink_hist(ctx, harness, case):
    """ddmin on the op list of a failing history"""
    w = case.split(); head, ops = w[:3], w[3:]
    def fails(o):
        p = os.path.join(ctx.build, 'shrink.cases'); open(p, 'w').write(' '.join(head + o) + '\n')
        rc, lines, err = ctx.run_lines([harness], p, timeout=60)
        return rc != 0 or (lines and 'FAIL' in lines[0])
    n = 2
    while len(ops) >= 2 and n <= len(ops):
        sz = max(1, len(ops) // n); done = False
        for st in range(0, len(ops), sz):
            cand = ops[:st] + ops[st + sz:]
            if cand and fails(cand):
                ops = cand; n = max(2, n - 1); done = True; break
        if not done:
            if sz == 1: break
            n = min(len(ops), n * 2)
    return ' '.join(head + ops)

def replay(ctx, rp):
    harness = ctx.cxx('harness.cpp', 'harness')
    if harness is None:
        print('harness does not build'); return 2
    case = rp.get('case')
    if not case:
        print('replay has no concrete case (no-failing-input-found): broken stages were', list(rp.get('broken', {}).keys())); return 1
    ctx._c16_last = {}; ctx._c16_bnd = {}
    path = os.path.join(ctx.build, 'replay.cases'); open(path, 'w').write(case + '\n')
    rc, lines, err = ctx.run_lines([harness], path)
    bad = oracle(ctx, [case], lines) if rc == 0 and lines else [(case, err[-300:], 'harness crashed')]
    print('case:', case, '\nimplementation:', (lines[0][:300] if lines else err[-300:]))
    if rp.get('model') is not None:
        print('model (recorded):', str(rp.get('model'))[:300])
    if bad:
        print(bad[0][2]); print('VIOLATION property=C16 replay=%s' % ctx.replay); return 1
    print('property holds on this case'); return 0

def run(ctx):
    scale = 1 if ctx.quick() else 8
    ctx._c16_last = {}; ctx._c16_bnd = {}
    ctx.trusted += ['tools/cxx2coq.py + clang 14 JSON AST (validated on every run against the real functions; C16 added the additive config keys out_params / imports)',
                    'extraction: ExtrOcamlBasic only (+ Extraction Blacklist List String: a module renaming), OCaml 4.13.1, zarith for decimal I/O only',
                    'g++ 12 -std=c++17, harness reaches private members via #define private public; tracking MemManager in the harness']
    ctx.assumptions += ['0 <= logInitialItemCount < 64 (shift counts of size_t)',
                        'sqrt sizing: every size_t index except (L = 0, index = SIZE_MAX) where index1 = (index >> L) + 1 wraps (theorem C16_sqrt_top_L0_aliases states what happens there); GetItemCount additionally not (L = 63, index >= 2^63: shift by 64)',
                        'L1 capacity model: element construction/destruction and allocation failure are not modelled (no-throw histories)']
    ctx.regen(GEN)
    ctx.prove()
    harness = ctx.cxx('harness.cpp', 'harness')
    if harness is None:
        ctx.stage('build-harness', False, getattr(ctx, 'last_cxx_error', ''))
        return ctx.finish(rule=RULE)
    par = [sys.executable, os.path.join(ctx.pdir, 'parrun.py'), str(PAR)]
    icases = gen_index_cases(ctx, scale)
    hcases = gen_hist_cases(ctx, scale)
    have_model = ctx.stages.get('prove', {}).get('ok') and ctx.extract()
    if have_model:
        mism, _ = ctx.correspond('translator-validation', icases, par + [harness], par + [ctx.model_exe], timeout=3000)
        nidx = sum(int(c.split()[3]) if c[2] == 'r' else 1 for c in icases)
        ctx.evaluations += nidx - len(icases)
        ctx.tie_obligations.append({'name': 'generated Gallina == real C++ on %d case lines (%d indexes/values)' % (len(icases), nidx), 'ok': not mism})
        hm, _ = ctx.correspond('capacity-model', hcases, par + [harness], par + [ctx.model_exe], timeout=3000)
        ctx.tie_obligations.append({'name': 'L1 capacity model (SegModel.step over the generated functions) == real momo::SegmentedArray '
                                            'on %d histories (count / segment count / capacity / newest segment id after every op)' % len(hcases), 'ok': not hm})
        for (i, c, a, b) in [m for m in hm if m[2] != '<missing>'][:2]:   # crashes are reported (and shrunk) by the oracle stage
            ctx.violation('L1 capacity model and the real container disagree', {'case': c, 'impl': a[-300:], 'model': b[-300:],
                          'cmd': 'echo "%s" | build/C16/harness' % c}, found_input=True)
        for (i, c, a, b) in mism[:3]:
            if c[2] == 'r':   # narrow a range line down to the first index at which the two run lists differ
                def expand(txt):
                    o = []
                    for x in txt.split(';'):
                        f = x.split()
                        if len(f) == 5:
                            o += [(int(f[0]), int(f[1]) + t, int(f[2]) + t, int(f[3])) for t in range(int(f[4][1:]))]
                    return o
                try:
                    ea, eb = expand(a), expand(b)
                    for t in range(max(len(ea), len(eb))):
                        x = ea[t] if t < len(ea) else '<missing>'; y = eb[t] if t < len(eb) else '<missing>'
                        if x != y:
                            c = '%s %s %d' % (c[:2], c.split()[1], int(c.split()[2]) + t)
                            a, b = ' '.join(map(str, x)) if x != '<missing>' else x, ' '.join(map(str, y)) if y != '<missing>' else y; break
                except ValueError:
                    pass
            ctx.violation('generated model and implementation disagree', {'case': c, 'impl': a[:300], 'model': b[:300],
                          'cmd': 'echo "%s" | build/C16/harness' % c}, found_input=True)
    # the property predicate on the real code (always; bigger generator when a stage broke = search stage)
    if any(not s['ok'] for s in ctx.stages.values()):
        ctx.log('a stage broke: searching the implementation for a failing input with the thorough generator')
        hcases = hcases + gen_hist_cases(ctx, 6)
        if scale == 1:
            icases = icases + [c for c in gen_index_cases(ctx, 2) if c[2] != 'r']
    cases = icases + hcases
    path = os.path.join(ctx.build, 'oracle.cases')
    open(path, 'w').write('\n'.join(cases) + '\n')
    rc, lines, err = ctx.run_lines(par + [harness], path, timeout=3000)
    ctx.evaluations += len(cases)
    bad = oracle(ctx, cases, lines) if rc == 0 and len(lines) == len(cases) else \
        (oracle(ctx, cases, lines) or [('(harness)', err[-300:], 'harness crashed or lost output (rc=%d, %d/%d lines)' % (rc, len(lines), len(cases)))])
    ctx.stage('oracle', not bad, bad[0][2] if bad else '')
    for (c, out, why) in bad[:3]:
        if c.startswith('hist'):
            c = shrink_hist(ctx, harness, c)
        ctx.violation(why, {'case': c, 'impl_output': out, 'cmd': 'echo "%s" | build/C16/harness' % c}, found_input=True)
    for c in (icases[::max(1, len(icases) // 3)][:3] + hcases[:3]):
        ctx.add_sample(c[:300])
    kinds = ('lg64', 'lg32', 'sqr', 'cnr', 'sqs', 'sqx', 'cnx', 'sq ', 'cn ', 'hist sq', 'hist cn', 'hist2 sq', 'hist2 cn')
    ctx.coverage['input_distribution'] = {k.strip(): sum(1 for c in cases if c.startswith(k)) for k in kinds}
    ops = {}
    for c in hcases:
        for o in c.split()[3:]:
            k = o[2] if (len(o) > 2 and o[1] == '.') else (o[0] + o[0] if len(o) == 3 and o[1] in 'AB' else o[0])
            ops[k] = ops.get(k, 0) + 1
    ctx.coverage['history_op_histogram'] = ops
    ctx.coverage['histories_with_growth_while_nonempty'] = sum(1 for c in ctx.nontrivial if c.startswith('hist'))
    return ctx.finish(rule=RULE)

RULE = ('cases = Log2 on every 2^k/2^k+-1/random; exhaustive index prefixes 0..2^20 (sqrt L=0, cnst L=0,5; 2^13..2^16 for other L; '
        '2^24 thorough) as range lines of 1024 consecutive indexes; aimed indexes around every 2^k, every change of logItemCount '
        '(index1 = 2^m), segment starts, and the top of the proved range for L in 0..16,20,31..33,47,48,62,63; inverse direction on random slots; '
        'random grow/shrink/insert/remove histories on the real container (both sizing functions, L in 0..5) aimed at segment boundaries, '
        'and two-array histories with move / swap / copy; '
        'distinct = distinct case line; non-trivial = a range line (1024 consecutive indexes checked for contiguity), an index >= 2^32, '
        'a history in which a segment was added while elements existed, or a two-array history with a move/swap/copy from a non-empty array')
